#!/bin/bash
# ./run_all.sh [quick|thorough]  — every property's check on the current /repo, summary lines only
cd "$(dirname "$0")"
T=${1:-quick}
rc=0
for p in 01 02 03 04 05 06 07 08 09 10 11 12 13 14 15 16 17 18 19 20; do
  ./check C$p --tier $T 2>&1 | grep -v conda | grep "VIOLATION\|KNOWN-FINDING\| tier=" | cut -c1-220
  [ ${PIPESTATUS[0]} -ne 0 ] && rc=1
done
exit $rc
