(* Model_C16.v — output files
   (taurex/util/util.py : recursively_save_dict_contents_to_output, store_thing ; taurex/output/hdf5.py :
    HDF5OutputGroup.write_array / write_scalar / write_string / write_string_array / create_group ;
    taurex/binning/binner.py, fluxbinner.py, simplebinner.py, nativebinner.py : generate_spectrum_output ;
    taurex/util/hdf5.py : get_klass_args, load_generic_profile_from_hdf5). *)
From Coq Require Import String List Bool Arith ZArith QArith.
From TV Require Import Num ListNum.
Import ListNotations.
Local Open Scope string_scope.
Local Open Scope list_scope.

(* ---------- (A) the recursive dictionary writer ---------- *)
(* what a result dictionary holds *)
Inductive leaf :=
| LScalar (q : Q)                               (* float, int, numpy.float64, numpy.int64 *)
| LArray (dims : list nat) (data : list Q)      (* numpy array *)
| LStr (s : string)
| LNumList (tuple : bool) (l : list Q)          (* list / tuple of numbers *)
| LStrList (tuple : bool) (l : list string).    (* list / tuple holding strings *)
Inductive item := Leaf (l : leaf) | Dict (d : list (string * item)).

(* what the file holds *)
Inductive dset :=
| DScalar (q : Q) | DArray (dims : list nat) (data : list Q) | DString (s : string)
| DStrArray (l : list string).                  (* shape (n, 1), dtype S<longest element, at least 64> *)
Inductive node := NData (d : dset) | NGroup (l : list (string * node)).

(* a fixed-width byte string dtype keeps the first `width` bytes of every element; the writer chooses the width
   as the longest element (and at least 64) *)
Fixpoint take_str (n : nat) (s : string) : string :=
  match n, s with
  | S n', String c r => String c (take_str n' r)
  | _, _ => EmptyString
  end.
Definition width_of (l : list string) : nat := fold_right Nat.max 64%nat (map String.length l).

Definition store_leaf (l : leaf) : dset :=
  match l with
  | LScalar q => DScalar q
  | LArray dims data => DArray dims data
  | LStr s => DString s
  | LNumList _ l => DArray [length l] l          (* numpy.array(item) *)
  | LStrList _ l => DStrArray (map (take_str (width_of l)) l)
  end.

Fixpoint store (i : item) : node :=
  match i with
  | Leaf l => NData (store_leaf l)
  | Dict d => NGroup (map (fun kv => (fst kv, store (snd kv))) d)
  end.

Fixpoint lookup {A} (k : string) (l : list (string * A)) : option A :=
  match l with [] => None | (k', v) :: r => if String.eqb k k' then Some v else lookup k r end.

(* following a path of nested names *)
Fixpoint get_item (p : list string) (i : item) : option item :=
  match p with
  | [] => Some i
  | k :: r => match i with
              | Dict d => match lookup k d with Some x => get_item r x | None => None end
              | Leaf _ => None
              end
  end.
Fixpoint get_node (p : list string) (n : node) : option node :=
  match p with
  | [] => Some n
  | k :: r => match n with
              | NGroup l => match lookup k l with Some x => get_node r x | None => None end
              | NData _ => None
              end
  end.

(* the value a reader gets back from a dataset, and the value that was stored, compared as plain data:
   (shape, numbers, strings) *)
Definition value_of_dset (d : dset) : list nat * list Q * list string :=
  match d with
  | DScalar q => ([], [q], [])
  | DArray dims data => (dims, data, [])
  | DString s => ([], [], [s])
  | DStrArray l => ([length l], [], l)
  end.
Definition value_of_leaf (l : leaf) : list nat * list Q * list string :=
  match l with
  | LScalar q => ([], [q], [])
  | LArray dims data => (dims, data, [])
  | LStr s => ([], [], [s])
  | LNumList _ l => ([length l], l, [])
  | LStrList _ l => ([length l], [], l)
  end.


(* ---------- (B) the spectrum dictionaries ---------- *)
(* OutputSize is an integer scale (lighter = 1, light = 3, heavy = 6); the program also passes output_size - 3 for the
   per-contribution dictionaries, so every integer is a possible size: binned optical depths above `lighter`,
   native ones above `light` *)
Inductive bkind := BNative | BSimple | BFlux.
Definition lighter : Z := 1%Z.
Definition light : Z := 3%Z.
Definition heavy : Z := 6%Z.

(* the names present, in insertion order *)
Definition spectrum_keys (b : bkind) (sz : Z) : list string :=
  match b with
  | BNative => ["native_wngrid"; "native_wlgrid"; "native_spectrum"] ++
               (if Z.ltb light sz then ["native_tau"] else [])
  | _ => ["native_wngrid"; "native_wlgrid"; "native_spectrum"; "binned_spectrum"; "native_wnwidth"; "native_wlwidth"] ++
         (if Z.ltb lighter sz then "binned_tau" :: (if Z.ltb light sz then ["native_tau"] else []) else []) ++
         ["binned_wngrid"; "binned_wlgrid"; "binned_wnwidth"; "binned_wlwidth"]
  end.

Section Grids.
  Context {T : Type} {N : Num T}.
  Local Open Scope num_scope.
  Definition c10000 : T := nofZ 10000.
  Definition wl_of (wn : list T) : list T := map (fun w => c10000 / w) wn.
  (* wnwidth_to_wlwidth(grid, width) at the bin centre *)
  Definition wlwidth_of (wn w : list T) : list T := map2 (fun g x => c10000 * x / (g * g)) wn w.
  (* the grid part of a binned spectrum dictionary: wavenumber grid, wavelength grid, widths *)
  Definition binned_grids (wn w : list T) : list (list T) := [wn; wl_of wn; w; wlwidth_of wn w].
  Definition native_grids (wn : list T) : list (list T) :=
    [wn; wl_of wn; bin_widths wn; bin_widths (wl_of wn)].
End Grids.

(* ---------- (C) rebuilding a component from its stored group ---------- *)
Section Load.
  Context {V : Type}.
  (* load_generic_profile_from_hdf5: the constructor keywords that are names of stored datasets, with the stored
     (or replaced) value; the premade arguments first *)
  Definition load_args (kwargs : list string) (stored premade repl : list (string * V)) : list (string * V) :=
    premade ++ flat_map (fun kw => match lookup kw stored with
                                   | Some v => [(kw, match lookup kw repl with Some r => r | None => v end)]
                                   | None => [] end) kwargs.
  Definition mem (s : string) (l : list string) : bool := existsb (String.eqb s) l.
  (* every constructor keyword is written under its own name *)
  Definition complete (kwargs written : list string) : bool := forallb (fun k => mem k written) kwargs.
End Load.
