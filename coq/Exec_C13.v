(* Exec_C13.v — executable wrappers (exact rationals) for the C13 correspondence check. *)
From Coq Require Import ZArith QArith List.
From TV Require Import Num ListNum Model_C13.
Import ListNotations.

Definition run_clip (native obs : list Q) : list (list Z) := map Qout (@clip Q QNum native obs).
Definition run_opacity_on (native vals req : list Q) : list (list Z) :=
  map Qout (@opacity_on Q QNum native vals req).
Definition run_native (gs : list (list Q)) : list (list Z) := map Qout (@native_grid Q gs).
