(* Exec_C19.v — executable wrappers for the C19 correspondence check. *)
From Coq Require Import ZArith QArith List.
From TV Require Import Num NumIv ListNum Model_C19.
Import ListNotations.

Definition run_cloud (P : list Q) (Pc : Q) : list Z :=
  map (fun b : bool => if b then 1%Z else 0%Z) (@cloud_flags Q QNum P Pc).

(* lv: log10 levels ascending; top/bottom: log10 of the set bounds *)
Definition run_flat (lv : list Q) (top bottom : option Q) (mix : Q) : list (list Z) :=
  let '(lo, hi) := @flat_window Q QNum lv top bottom in
  map Qout (@flat_sigma Q QNum lv lo hi mix).

Definition run_lee (P : list I.type) (top bottom a Qp mix : I.type) (wn : list I.type)
  : list (list (list Z)) :=
  map (fun f : bool => map Iout (@lee_layer I.type IvTNum f a Qp mix wn))
      (@lee_filter I.type IvNum P top bottom).
