(* Exec_C11.v — executable wrappers (interval arithmetic) for the C11 correspondence check. *)
From Coq Require Import ZArith List.
From TV Require Import Num NumIv ListNum Model_C11.
Import ListNotations.

Definition run_levels (lmin lmax : I.type) (n : nat) : list (list (list Z)) :=
  let lv := @levels I.type IvTNum lmin lmax n in
  [ map Iout lv ; map Iout (@layer_pressures I.type IvTNum lv) ].

(* [ z boundaries ; H ; g ; dz ; density ] *)
Definition run_scale (GM R k : I.type) (Ts ms Pl Player : list I.type) : list (list (list Z)) :=
  let o := @scale_properties I.type IvTNum GM R k Ts ms Pl in
  [ map Iout (@altitude_boundaries I.type o) ; map Iout (@scaleheight_profile I.type o) ;
    map Iout (@gravity_profile I.type o) ; map Iout (@deltaz I.type o) ;
    map Iout (@density I.type IvTNum k Player Ts) ].
