(* Props_C10.v — C10: atmospheric composition is a valid mixture for every input. *)
From Coq Require Import Reals List Lra.
From TV Require Import Num ListNum ListNumR Model_C12 Model_C10 Proofs_C10.
Import ListNotations.
Local Open Scope R_scope.

(* (a)(b) for non-negative traces whose total stays at or below one in the layer, and non-negative
   fill ratios: every mixing ratio of the layer is >= 0, they sum to one, and fill gas j+1 stands in
   the requested ratio to the first fill gas *)
Theorem C10_valid_mixture : forall (nl : nat) (ratios : list R) (traces : list (list R)),
  Forall (fun r => length r = nl) traces -> Forall (Forall (fun x => 0 <= x)) traces ->
  Forall (fun r => 0 <= r) ratios ->
  forall rows l, @mixture R RNum nl (S (length ratios)) ratios traces = Some rows -> (l < nl)%nat ->
  Forall (fun x => 0 <= x) (col l rows) /\ Rsum (col l rows) = 1 /\
  (forall j, (j < length ratios)%nat -> nth (S j) (col l rows) 0 = nth j ratios 0 * nth 0 (col l rows) 0).
Proof. intros. apply (valid_mixture nl ratios traces); assumption. Qed.
Print Assumptions C10_valid_mixture.

(* (d) traces above one anywhere: the model is rejected instead of producing negative fill *)
Theorem C10_over_unity_rejected : forall (nl : nat) (ratios : list R) (traces : list (list R)) l,
  Forall (fun r => length r = nl) traces -> (l < nl)%nat -> 1 < Rsum (col l traces) ->
  @mixture R RNum nl (S (length ratios)) ratios traces = None.
Proof. intros. apply (over_unity_rejected nl ratios traces H l); assumption. Qed.
Print Assumptions C10_over_unity_rejected.

(* (c) mean molecular weight is the ratio-weighted sum of molecular masses *)
Theorem C10_mu_weighted_sum : forall (nl : nat) (rows : list (list R)) (masses : list R) (l : nat),
  Forall (fun r => length r = nl) rows -> length masses = length rows -> (l < nl)%nat ->
  nth l (@mu_profile R RNum nl rows masses) 0 = Rsum (map2 (fun row m => nth l row 0 * m) rows masses).
Proof. exact mu_is_weighted_sum. Qed.
Print Assumptions C10_mu_weighted_sum.

(* (e) absorbing / non-absorbing gases: a partition of the gas list decided by availability *)
Theorem C10_active_inactive_partition : forall (A : Type) (flags : list bool) (rows : list A),
  length flags = length rows ->
  let '(act, inact) := split_rows flags rows in
  (length act + length inact = length rows)%nat /\ (forall x, In x rows <-> In x act \/ In x inact).
Proof. intros A. exact (@split_partition A). Qed.
Print Assumptions C10_active_inactive_partition.

(* (f) built-in profiles: one value per layer within the range of the control values *)
Theorem C10_constant : forall (nl : nat) (v : R),
  length (@constant_gas R nl v) = nl /\ Forall (fun x => x = v) (@constant_gas R nl v).
Proof. exact constant_gas_spec. Qed.
Print Assumptions C10_constant.

Theorem C10_array_bounded : forall (nl : nat) (arr : list R) (m M : R), arr <> [] ->
  Forall (fun f => m <= f <= M) arr -> Forall (fun x => m <= x <= M) (@array_gas R RNum nl arr).
Proof. exact array_gas_bounded. Qed.
Print Assumptions C10_array_bounded.

Theorem C10_array_length : forall (nl : nat) (arr : list R), (2 <= nl)%nat ->
  length (@array_gas R RNum nl arr) = nl.
Proof. exact array_gas_length. Qed.
Print Assumptions C10_array_length.

(* power law (1/(1/sqrt(ms) + 1/sqrt(Ad)))^2 : positive and at most its deep-atmosphere value ms *)
Theorem C10_power_le_surface : forall (ms Ad : R), 0 < ms -> 0 < Ad ->
  let m := 1 / sqrt ms + 1 / sqrt Ad in 0 < (1 / m) * (1 / m) <= ms.
Proof. exact power_gas_le_surface. Qed.
Print Assumptions C10_power_le_surface.

(* two-point profile: log10(mix) is linear in log10(P) between the end values, hence between them *)
Theorem C10_twopoint_between : forall (vs vt lps lpt lp : R), lpt < lps -> lpt <= lp <= lps ->
  let a := (vs - vt) / (lps - lpt) in let b := vs - a * lps in
  Rmin vs vt <= a * lp + b <= Rmax vs vt.
Proof. exact twopoint_between. Qed.
Print Assumptions C10_twopoint_between.

(* two-layer gas (in log10 of the mixing ratio): between the surface and the top value in every layer *)
Theorem C10_twolayer_between : forall (lnP : list R) (start_l end_l : nat) (ls lt : R) (wsize0 : nat),
  Forall (fun x => Rmin ls lt <= x <= Rmax ls lt) (@twolayer_log R RNum lnP start_l end_l ls lt wsize0).
Proof. exact twolayer_between. Qed.
Print Assumptions C10_twolayer_between.
