(* Exec_C08.v — executable wrappers for the C08 correspondence check. *)
From Coq Require Import ZArith QArith List.
From TV Require Import Num NumIv ListNum Model_C08.
Import ListNotations.

(* kind: 0 Uniform(bounds a b), 1 LogUniform(bounds a b) [bounds already in log10],
         2 Gaussian(mean a, std b), 3 LogGaussian(mean a, std b) [log10 space].
   returns per u: [sample ; space flag] with space flag [0;1] linear / [1;1] log *)
Definition mk (kind : nat) (a b : Q) : @prior Q :=
  match kind with
  | 0%nat => @mk_uniform Q QNum Linear a b
  | 1%nat => @mk_uniform Q QNum Log a b
  | 2%nat => PGauss Linear a b
  | _ => PGauss Log a b
  end.
Definition run_prior (kind : nat) (a b : Q) (us : list (Q * Q)) : list (list (list Z)) :=
  let p := mk kind a b in
  map (fun uq => [Qout (@sample Q QNum p (fst uq) (snd uq));
                  match @prior_space Q p with Linear => [0%Z; 1%Z] | Log => [1%Z; 1%Z] end;
                  Qout (fst (@boundaries_uniform Q p)); Qout (snd (@boundaries_uniform Q p))]) us.

(* log-space helpers in interval arithmetic: 10^v and log10 x *)
Definition run_pow10 (vs : list I.type) : list (list Z) := map (fun v => Iout (@npow10 I.type IvTNum v)) vs.
Definition run_log10 (xs : list I.type) : list (list Z) := map (fun v => Iout (@nlog10 I.type IvTNum v)) xs.
