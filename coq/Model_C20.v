(* Model_C20.v — correlated-k optical depth (taurex/contributions/absorption.py : contribute_ktau). *)
From Coq Require Import ZArith List Bool Arith.
From TV Require Import Num ListNum.
Import ListNotations.

Section KTau.
  Context {T : Type} {N : TNum T}.
  Local Open Scope num_scope.

  (* sigma[layer][wn][g] *)
  Definition ksig_at (sigma : list (list (list T))) (l w g : nat) : T :=
    nth_d (nth w (nth l sigma []) []) g.

  (* tau_temp[wn, g] = sum_k sigma[k+layer, wn, g] * path[k] * density[k+layer] *)
  Definition ktau_g (sigma : list (list (list T))) (rho path : list T) (l w g : nat) : T :=
    fold_left (fun acc k => acc + ksig_at sigma (k + l) w g * nth_d path k * nth_d rho (k + l))
              (seq 0 (length path)) n0.

  (* transmittance along the path: sum_g exp(-tau_g) * weight_g *)
  Definition ktrans (weights taus : list T) : T :=
    fold_left (fun acc p => acc + nexp (- fst p) * snd p) (combine taus weights) n0.

  (* what is added to the layer's optical depth: -log(transmittance) *)
  Definition ktau (sigma : list (list (list T))) (weights rho path : list T) (l w : nat) : T :=
    - nln (ktrans weights (map (ktau_g sigma rho path l w) (seq 0 (length weights)))).
End KTau.
