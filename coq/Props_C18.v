(* Props_C18.v — C18: parallel post-processing is invariant to how samples are split across ranks. *)
From Coq Require Import Reals List Permutation Arith.
From TV Require Import Num ListNum ListNumR Model_C18 Proofs_C18.
Import ListNotations.
Local Open Scope R_scope.

(* (a) the streaming accumulators of one rank are the two-pass weighted mean and sum of squared deviations *)
Theorem C18_streaming_is_twopass : forall (l : list (R * R)), l <> [] -> pos_weights l ->
  mean (@ov_run R RNum l) = @twopass_mean R RNum l /\ m2 (@ov_run R RNum l) = @twopass_m2 R RNum l.
Proof. exact online_is_twopass. Qed.
Print Assumptions C18_streaming_is_twopass.

(* (b) for ANY assignment of the samples to ranks (empty ranks and ranks holding one sample included) the combined
   mean and variance are the two-pass weighted mean and variance of all samples *)
Theorem C18_any_split_is_single : forall (parts : list (list (R * R))) (l : list (R * R)),
  Permutation (concat parts) l -> l <> [] -> pos_weights l ->
  let ranks := map (fun p => @rank_summary R RNum (@ov_run R RNum p)) parts in
  fst (@combine R RNum ranks) = @twopass_mean R RNum l /\
  snd (@combine R RNum ranks) = @twopass_m2 R RNum l / @S0 R RNum l.
Proof. exact any_split_is_single. Qed.
Print Assumptions C18_any_split_is_single.

(* the round-robin split samples[rank::size] of generate_profiles, for every rank count *)
Theorem C18_round_robin_is_single : forall (size : nat) (l : list (R * R)), (0 < size)%nat -> l <> [] -> pos_weights l ->
  let ranks := map (fun r => @rank_summary R RNum (@ov_run R RNum (stride (0, 0) r size l))) (seq 0 size) in
  fst (@combine R RNum ranks) = @twopass_mean R RNum l /\
  snd (@combine R RNum ranks) = @twopass_m2 R RNum l / @S0 R RNum l.
Proof. exact round_robin_is_single. Qed.
Print Assumptions C18_round_robin_is_single.

(* one rank: parallelVariance is the rank's own variance *)
Theorem C18_single_rank_is_streaming : forall (l : list (R * R)), (2 <= length l)%nat -> pos_weights l ->
  @parallel_variance R RNum [@ov_run R RNum l] = @ov_variance R RNum (@ov_run R RNum l).
Proof. exact single_rank_is_streaming. Qed.
Print Assumptions C18_single_rank_is_streaming.

(* (c) each sample is processed exactly once: the round-robin index sets partition 0..n-1 *)
Theorem C18_each_sample_once : forall (size n : nat), (0 < size)%nat ->
  Permutation (gather_order size n) (seq 0 n).
Proof. exact gather_order_partition. Qed.
Print Assumptions C18_each_sample_once.

Theorem C18_gathered_is_permutation : forall (A : Type) (d : A) (size : nat) (l : list A), (0 < size)%nat ->
  Permutation (gathered d size l) l.
Proof. intros A. exact (@gathered_is_permutation A). Qed.
Print Assumptions C18_gathered_is_permutation.

(* (d) the derived-parameter trace gathered from the ranks is put back into sample order *)
Theorem C18_scatter_restores_order : forall (A : Type) (d : A) (size : nat) (l : list A), (0 < size)%nat ->
  scatter d (gather_order size (length l)) (gathered d size l) = l.
Proof. intros A. exact (@scatter_restores_order A). Qed.
Print Assumptions C18_scatter_restores_order.

(* non-vacuity: three ranks, one of them empty, one holding a single sample *)
Example C18_premises_hold :
  let l := [(1, 2); (3, 1); (5, 4); (2, 1)] in
  Permutation (concat [[(1, 2); (5, 4); (2, 1)]; [(3, 1)]; []]) l /\ l <> [] /\ pos_weights l.
Proof. cbv zeta. split; [|split].
  - cbn [concat app]. apply perm_skip. symmetry. apply (Permutation_cons_append [(5, 4); (2, 1)] (3, 1)).
  - discriminate.
  - unfold pos_weights. repeat (constructor; [cbn [snd]; apply Rlt_gt; try apply Rlt_0_1; try apply Rlt_0_2; try (apply Rmult_lt_0_compat; apply Rlt_0_2)|]). constructor. Qed.
