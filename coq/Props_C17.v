(* Props_C17.v — C17: observations load independent of row order with aligned columns and units. *)
From Coq Require Import Reals List Permutation Sorting.Sorted Arith.
From TV Require Import Num ListNum Model_C05 Model_C17 Proofs_C17.
Import ListNotations.
Local Open Scope R_scope.

(* (a) any row order gives the same object (three or four columns) *)
Theorem C17_load_order_independent : forall (four : bool) (rows rows' : list (@orow R)),
  NoDup (map (@o_wl R) rows) -> Permutation rows rows' -> @load R RNum four rows = @load R RNum four rows'.
Proof. exact load_order_independent. Qed.
Print Assumptions C17_load_order_independent.

(* (b) rows stay whole: value and error remain attached to their wavelength; wavenumber = 10000 / wavelength *)
Theorem C17_rows_attached : forall (four : bool) (rows : list (@orow R)),
  let o := @load R RNum four rows in
  Permutation rows (ob_rows o) /\
  ob_wn o = map (fun r => 10000 / o_wl r) (ob_rows o) /\
  ob_spec o = map (@o_v R) (ob_rows o) /\ ob_err o = map (@o_e R) (ob_rows o) /\
  length (ob_wn o) = length rows.
Proof. exact load_rows_attached. Qed.
Print Assumptions C17_rows_attached.

Theorem C17_wavenumbers_ascending : forall (four : bool) (rows : list (@orow R)),
  NoDup (map (@o_wl R) rows) -> Forall (fun r => 0 < o_wl r) rows ->
  StronglySorted Rlt (ob_wn (@load R RNum four rows)).
Proof. exact wavenumbers_ascending. Qed.
Print Assumptions C17_wavenumbers_ascending.

(* (c) four columns: the width of bin k is that of ITS row, converted to wavenumber to first order; the two edges
   of bin k are 10000/(wl +- bw/2) of that same row and bracket the centre *)
Theorem C17_four_column_edges : forall (rows : list (@orow R)) (k : nat), (k < length rows)%nat ->
  let o := @load R RNum true rows in
  let r := nth k (ob_rows o) drow in
  length (ob_edges o) = (2 * length rows)%nat /\
  nth (2 * k) (ob_edges o) 0 = 10000 / (o_wl r + o_bw r / 2) /\
  nth (2 * k + 1) (ob_edges o) 0 = 10000 / (o_wl r - o_bw r / 2) /\
  nth k (ob_wnw o) 0 = 10000 * o_bw r / (o_wl r * o_wl r) /\
  nth k (ob_wn o) 0 = 10000 / o_wl r.
Proof. exact four_column_edges. Qed.
Print Assumptions C17_four_column_edges.

Theorem C17_four_column_bracket : forall (rows : list (@orow R)) (k : nat), (k < length rows)%nat ->
  Forall (fun r => 0 < o_bw r / 2 < o_wl r) rows ->
  let o := @load R RNum true rows in
  nth (2 * k) (ob_edges o) 0 < nth k (ob_wn o) 0 < nth (2 * k + 1) (ob_edges o) 0.
Proof. exact four_column_bracket. Qed.
Print Assumptions C17_four_column_bracket.

(* (d) three columns: n+1 edges, the interior ones the mid-points of neighbouring wavelengths; every centre lies
   strictly between its two edges; the width is the difference of those edges, converted to wavenumber *)
Theorem C17_three_column_edges : forall (g : list R), (2 <= length g)%nat ->
  let e := @bin_edges R RNum g in let n := length g in
  length e = S n /\
  nth 0 e 0 = nth 0 g 0 - (nth 1 g 0 - nth 0 g 0) / 2 /\
  (forall k, (1 <= k < n)%nat -> nth k e 0 = (nth (k - 1) g 0 + nth k g 0) / 2) /\
  nth n e 0 = (nth (n - 1) g 0 - nth (n - 2) g 0) / 2 + nth (n - 1) g 0.
Proof. exact three_column_edges. Qed.
Print Assumptions C17_three_column_edges.

Theorem C17_three_column_obs : forall (rows : list (@orow R)) (k : nat), (2 <= length rows)%nat ->
  NoDup (map (@o_wl R) rows) -> (k < length rows)%nat ->
  let o := @load R RNum false rows in
  let g := map (@o_wl R) (ob_rows o) in
  let e := @bin_edges R RNum g in
  length (ob_edges o) = S (length rows) /\
  nth k (ob_edges o) 0 = 10000 / nth k e 0 /\ nth (S k) (ob_edges o) 0 = 10000 / nth (S k) e 0 /\
  nth (S k) e 0 < nth k g 0 < nth k e 0 /\
  nth k (ob_wnw o) 0 = 10000 * (nth k e 0 - nth (S k) e 0) / (nth k g 0 * nth k g 0).
Proof. exact three_column_obs. Qed.
Print Assumptions C17_three_column_obs.

(* (e) a TauREx HDF5 spectrum (wavenumber, spectrum, noise, wavenumber width) comes back exactly as written *)
Theorem C17_taurex_round_trip : forall (rows : list (@orow R)), Forall (fun r => o_wl r <> 0) rows ->
  let o := @load_taurex R RNum rows in
  exists rows', Permutation rows rows' /\
    ob_wn o = map (@o_wl R) rows' /\ ob_spec o = map (@o_v R) rows' /\ ob_err o = map (@o_e R) rows' /\
    ob_wnw o = map (@o_bw R) rows'.
Proof. exact taurex_round_trip. Qed.
Print Assumptions C17_taurex_round_trip.

(* (f) the binner created from the observation bins onto exactly those centres and widths, in that order *)
Theorem C17_binner_aligned : forall (four : bool) (rows : list (@orow R)),
  NoDup (map (@o_wl R) rows) -> Forall (fun r => 0 < o_wl r) rows ->
  let o := @load R RNum four rows in
  length (ob_wnw o) = length (ob_wn o) ->
  map (@t_wn R) (@binner_targets R RNum o) = ob_wn o /\ map (@t_w R) (@binner_targets R RNum o) = ob_wnw o.
Proof. exact binner_aligned. Qed.
Print Assumptions C17_binner_aligned.

(* non-vacuity: an unsorted four-column observation meets every premise *)
Example C17_premises_hold :
  let rows := [ {| o_wl := 2; o_v := 5; o_e := 1; o_bw := 1 |}; {| o_wl := 1; o_v := 7; o_e := 2; o_bw := 1 |};
                {| o_wl := 4; o_v := 3; o_e := 3; o_bw := 2 |} ] in
  NoDup (map (@o_wl R) rows) /\ Forall (fun r => 0 < o_wl r) rows /\ Forall (fun r => 0 < o_bw r / 2 < o_wl r) rows.
Proof. cbv zeta. cbn [map o_wl o_bw]. split; [|split].
  - repeat constructor; cbn [In]; intros H; repeat (destruct H as [H|H]; [apply eq_IZR in H; discriminate|]); exact H.
  - repeat constructor; cbn [o_wl]; apply IZR_lt; reflexivity.
  - repeat constructor; cbn [o_wl o_bw]; try (apply Rdiv_lt_0_compat; apply IZR_lt; reflexivity);
      try (apply (Rmult_lt_reg_r 2); [apply IZR_lt; reflexivity|]; unfold Rdiv; rewrite Rmult_assoc, Rinv_l by (apply not_0_IZR; discriminate);
           rewrite Rmult_1_r, <- mult_IZR; apply IZR_lt; reflexivity). Qed.
