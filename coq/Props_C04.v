(* Props_C04.v — C04: opacity interpolation in temperature and pressure is sound everywhere. *)
From Coq Require Import Reals List Lra.
From TV Require Import Num ListNum Model_C04 Proofs_C04.
From TV Require Import NumIv Reflect.
Import ListNotations.
Local Open Scope R_scope.

(* find_closest_pair on a strictly increasing grid with >= 2 nodes: adjacent, in range,
   brackets every in-grid value *)
Theorem C04_bracket_shape : forall (a : list R) (v : R), (2 <= length a)%nat ->
  exists r, @find_closest_pair R RNum a v = ((r - 1)%nat, r) /\ (1 <= r <= length a - 1)%nat.
Proof. exact fcp_shape. Qed.
Print Assumptions C04_bracket_shape.

Theorem C04_bracket_inside : forall (a : list R) (v : R), (2 <= length a)%nat -> incr a ->
  nth 0 a 0 <= v <= nth (length a - 1) a 0 ->
  let '(l, r) := @find_closest_pair R RNum a v in nth l a 0 <= v <= nth r a 0.
Proof. exact fcp_inside. Qed.
Print Assumptions C04_bracket_inside.

(* linear mode: in every region except "below both minima" the result lies between the smallest
   and largest tabulated values at the bracketing nodes (nearest edge nodes outside the grid):
   never extrapolated, never negative for non-negative tables *)
Theorem C04_linear_sound : forall Tg Pg tab Tv P m M,
  wf_grid Tg -> wf_grid Pg -> ~ below_both Tg Pg Tv P ->
  (forall p t, (p = fst (@find_closest_pair R RNum Pg P) \/ p = snd (@find_closest_pair R RNum Pg P)) ->
               (t = fst (@find_closest_pair R RNum Tg Tv) \/ t = snd (@find_closest_pair R RNum Tg Tv)) ->
               m <= tab p t <= M) ->
  m <= @interp_linear R RNum Tg Pg tab Tv P <= M.
Proof. exact linear_sound. Qed.
Print Assumptions C04_linear_sound.

(* exp mode: same, for positive tables and a positive temperature grid *)
Theorem C04_exp_sound : forall Tg Pg tab Tv P m M,
  wf_grid Tg -> wf_grid Pg -> 0 < nth 0 Tg 0 -> ~ below_both Tg Pg Tv P -> 0 < m ->
  (forall p t, (p = fst (@find_closest_pair R RNum Pg P) \/ p = snd (@find_closest_pair R RNum Pg P)) ->
               (t = fst (@find_closest_pair R RNum Tg Tv) \/ t = snd (@find_closest_pair R RNum Tg Tv)) ->
               m <= tab p t <= M) ->
  m <= @interp_exp R RTNum Tg Pg tab Tv P <= M.
Proof. exact exp_sound. Qed.
Print Assumptions C04_exp_sound.

(* grid nodes are reproduced exactly, both modes *)
Theorem C04_linear_node : forall Tg Pg tab i j,
  wf_grid Tg -> wf_grid Pg -> (i < length Tg)%nat -> (j < length Pg)%nat ->
  @interp_linear R RNum Tg Pg tab (nth i Tg 0) (nth j Pg 0) = tab j i.
Proof. exact linear_node. Qed.
Print Assumptions C04_linear_node.

Theorem C04_exp_node : forall Tg Pg tab i j,
  wf_grid Tg -> wf_grid Pg -> 0 < nth 0 Tg 0 -> (forall p t, 0 < tab p t) ->
  (i < length Tg)%nat -> (j < length Pg)%nat ->
  @interp_exp R RTNum Tg Pg tab (nth i Tg 0) (nth j Pg 0) = tab j i.
Proof. exact exp_node. Qed.
Print Assumptions C04_exp_node.

(* the documented exception: zero below both the minimum temperature and the minimum pressure *)
Theorem C04_zero_corner : forall Tg Pg tab Tv P,
  wf_grid Tg -> wf_grid Pg -> below_both Tg Pg Tv P ->
  @interp_linear R RNum Tg Pg tab Tv P = 0 /\ @interp_exp R RTNum Tg Pg tab Tv P = 0.
Proof. intros. split; [apply linear_zero|apply exp_zero]; assumption. Qed.
Print Assumptions C04_zero_corner.

(* inside a cell linear mode IS bilinear interpolation in (T, log10 P) *)
Theorem C04_bilinear_form : forall x11 x12 x21 x22 Tv Tmin Tmax P Pmin Pmax,
  let p := (P - Pmin) / (Pmax - Pmin) in let t := (Tv - Tmin) / (Tmax - Tmin) in
  @k_bilin R RNum x11 x12 x21 x22 Tv Tmin Tmax P Pmin Pmax
  = (1 - p) * (1 - t) * x11 + (1 - p) * t * x12 + p * (1 - t) * x21 + p * t * x22.
Proof. exact k_bilin_is_bilinear. Qed.
Print Assumptions C04_bilinear_form.

(* exp mode inside a cell: exponential-in-1/T interpolation of the two values linearly
   interpolated in log P *)
Theorem C04_exp_form : forall x11 x12 x21 x22 Tv Tmin Tmax P Pmin Pmax, Pmin < Pmax ->
  @k_explin R RTNum x11 x12 x21 x22 Tv Tmin Tmax P Pmin Pmax
  = @k_exp R RTNum (@k_lin R RNum x11 x21 P Pmin Pmax) (@k_lin R RNum x12 x22 P Pmin Pmax) Tv Tmin Tmax.
Proof. exact k_explin_as_exp. Qed.
Print Assumptions C04_exp_form.

(* non-vacuity: a 2x2 grid *)
Example C04_nonvacuous : wf_grid [100; 200] /\ wf_grid [2; 4] /\ ~ below_both [100;200] [2;4] 50 5.
Proof. exact ex_c04. Qed.
Print Assumptions C04_nonvacuous.

(* ---- the executed (interval) instance encloses the real-number instance the theorems above are about:
   Reflect.transfer, proved once for every straight-line kernel from the Interval library's correctness lemmas;
   `defined` lists the side conditions of the real-number side (non-zero denominators, positive logarithm arguments) ---- *)
Theorem C04_kernels_enclosed :
  (forall aI bI cI dI eI a b c d e, encloses aI a -> encloses bI b -> encloses cI c -> encloses dI d -> encloses eI e ->
     defined [a; b; c; d; e] k_lin_e -> encloses (@k_lin I.type IvNum aI bI cI dI eI) (@k_lin R RNum a b c d e)) /\
  (forall aI bI cI dI eI a b c d e, encloses aI a -> encloses bI b -> encloses cI c -> encloses dI d -> encloses eI e ->
     defined [a; b; c; d; e] k_exp_e -> encloses (@k_exp I.type IvTNum aI bI cI dI eI) (@k_exp R RTNum a b c d e)) /\
  (forall aI bI cI dI eI fI gI hI iI jI a b c d e f g h i j,
     encloses aI a -> encloses bI b -> encloses cI c -> encloses dI d -> encloses eI e -> encloses fI f -> encloses gI g ->
     encloses hI h -> encloses iI i -> encloses jI j -> defined [a; b; c; d; e; f; g; h; i; j] k_bilin_e ->
     encloses (@k_bilin I.type IvNum aI bI cI dI eI fI gI hI iI jI) (@k_bilin R RNum a b c d e f g h i j)) /\
  (forall aI bI cI dI eI fI gI hI iI jI a b c d e f g h i j,
     encloses aI a -> encloses bI b -> encloses cI c -> encloses dI d -> encloses eI e -> encloses fI f -> encloses gI g ->
     encloses hI h -> encloses iI i -> encloses jI j -> defined [a; b; c; d; e; f; g; h; i; j] k_explin_e ->
     encloses (@k_explin I.type IvTNum aI bI cI dI eI fI gI hI iI jI) (@k_explin R RTNum a b c d e f g h i j)).
Proof. repeat split; [exact k_lin_transfer|exact k_exp_transfer|exact k_bilin_transfer|exact k_explin_transfer]. Qed.
Print Assumptions C04_kernels_enclosed.
