(* Props_C12.v — C12: temperature profiles are finite, positive and bounded by their control values. *)
From Coq Require Import Reals List Lra.
From TV Require Import Num ListNum ListNumR MovAvg Model_C12 Proofs_C12.
From TV Require Import NumIv Reflect.
Import ListNotations.
Local Open Scope R_scope.

Theorem C12_isothermal : forall (nl : nat) (t : R),
  length (@isothermal R nl t) = nl /\ Forall (fun x => x = t) (@isothermal R nl t).
Proof. exact isothermal_spec. Qed.
Print Assumptions C12_isothermal.

(* the moving average as coded (cumulative sums) never leaves the range of its input *)
Theorem C12_smoothing_bounded : forall (a : list R) (n : nat) (m M : R), (1 <= n <= length a)%nat ->
  Forall (fun x => m <= x <= M) a -> Forall (fun x => m <= x <= M) (@movavg R RNum a n).
Proof. exact movavg_bounded. Qed.
Print Assumptions C12_smoothing_bounded.

(* node-based profile: never leaves the range spanned by the node temperatures, smoothing and border
   splice included; in particular equal nodes give that constant (m = M) *)
Theorem C12_npoint_bounded : forall (nl : nat) (lp lpn tn : list R) (wsize0 : nat) (limit m M : R) (prof : list R),
  length tn = length lpn -> tn <> [] -> within m M tn ->
  @npoint R RNum nl lp lpn tn wsize0 limit = Some prof -> within m M prof.
Proof. exact npoint_bounded. Qed.
Print Assumptions C12_npoint_bounded.

(* inverted pressure nodes and excessive slopes are rejected as an invalid model *)
Theorem C12_npoint_rejects_inverted : forall nl lp lpn tn wsize0 limit,
  @strictly_decreasing R RNum lpn = false -> @npoint R RNum nl lp lpn tn wsize0 limit = None.
Proof. exact npoint_rejects_inverted. Qed.
Print Assumptions C12_npoint_rejects_inverted.

Theorem C12_npoint_rejects_slope : forall nl lp lpn tn wsize0 limit,
  @slopes_ok R RNum lpn tn limit = false -> @npoint R RNum nl lp lpn tn wsize0 limit = None.
Proof. exact npoint_rejects_slope. Qed.
Print Assumptions C12_npoint_rejects_slope.

(* layer-correlated profile: a weighted mean of the layer temperatures for a symmetric, non-negative
   covariance (row sum = column sum) ... *)
Theorem C12_rodgers_bounded : forall (cov : list (list R)) (tl : list R) (m M : R) (i : nat),
  (i < length cov)%nat -> length tl = length (nth i cov []) ->
  Forall (fun c => 0 <= c) (nth i cov []) -> 0 < @colsum R RNum cov i ->
  Rsum (nth i cov []) = @colsum R RNum cov i -> within m M tl ->
  m <= nth i (@rodgers R RNum cov tl) 0 <= M.
Proof. exact rodgers_bounded. Qed.
Print Assumptions C12_rodgers_bounded.

(* ... which the default covariance exp(-|ln(p_i/p_j)|/h) is *)
Theorem C12_default_covariance : forall (pi pj h : R), 0 < pi -> 0 < pj ->
  exp (-1 * Rabs (ln (pi / pj)) / h) = exp (-1 * Rabs (ln (pj / pi)) / h) /\
  0 < exp (-1 * Rabs (ln (pi / pj)) / h).
Proof. exact default_covariance_symmetric. Qed.
Print Assumptions C12_default_covariance.

Theorem C12_array_bounded : forall (nl : nat) (arr : list R) (m M : R), arr <> [] -> within m M arr ->
  within m M (@temp_array R RNum nl arr).
Proof. exact temp_array_bounded. Qed.
Print Assumptions C12_array_bounded.

(* Guillot: zero opacities and negative temperatures are rejected *)
Theorem C12_guillot_rejects : forall (kir kv1 kv2 Tirr Tint : R),
  kir = 0 \/ kv1 / kir = 0 \/ kv2 / kir = 0 \/ Tirr < 0 \/ Tint < 0 ->
  @guillot_valid R RTNum kir kv1 kv2 Tirr Tint = false.
Proof. exact guillot_rejects. Qed.
Print Assumptions C12_guillot_rejects.

(* the Guillot profile is positive (hence finite after the fourth root) for physical parameters: positive opacities and
   gravity, 0 <= alpha <= 1, non-negative temperatures not both zero; E2 values within the classical bound *)
Theorem C12_guillot_positive : forall (kir kv1 kv2 alpha Tirr Tint grav P e21 e22 : R),
  0 < kir -> 0 < kv1 -> 0 < kv2 -> 0 < grav -> 0 <= P -> 0 <= alpha <= 1 -> 0 <= Tirr -> 0 <= Tint -> 0 < Tirr + Tint ->
  0 <= e21 -> e21 * (1 + kv1 / kir * (kir * P / grav)) <= exp (- (kv1 / kir * (kir * P / grav))) ->
  0 <= e22 -> e22 * (1 + kv2 / kir * (kir * P / grav)) <= exp (- (kv2 / kir * (kir * P / grav))) ->
  0 < @guillot_T4 R RTNum kir kv1 kv2 alpha Tirr Tint grav P e21 e22.
Proof. exact guillot_T4_positive. Qed.
Print Assumptions C12_guillot_positive.

(* ---- the executed (interval) instance encloses the real-number instance the theorems above are about:
   Reflect.transfer, proved once for every straight-line kernel from the Interval library's correctness lemmas;
   `defined` lists the side conditions of the real-number side (non-zero denominators, positive logarithm arguments) ---- *)
Theorem C12_guillot_enclosed : forall aI bI cI dI eI fI gI hI iI jI a b c d e f g h i j,
  encloses aI a -> encloses bI b -> encloses cI c -> encloses dI d -> encloses eI e -> encloses fI f -> encloses gI g ->
  encloses hI h -> encloses iI i -> encloses jI j -> defined [a; b; c; d; e; f; g; h; i; j] guillot_T_e ->
  encloses (@guillot_T I.type IvTNum aI bI cI dI eI fI gI hI iI jI) (@guillot_T R RTNum a b c d e f g h i j).
Proof. exact guillot_T_transfer. Qed.
Print Assumptions C12_guillot_enclosed.
