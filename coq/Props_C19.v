(* Props_C19.v — C19: clouds and hazes act only inside their declared pressure range. *)
From Coq Require Import Reals List Lra.
From TV Require Import Num ListNum ListNumR Model_C01 Proofs_C01 Model_C19 Proofs_C19.
From TV Require Import NumIv Reflect.
Import ListNotations.
Local Open Scope R_scope.

(* a layer is flagged opaque exactly when its pressure is at or above the cloud-top pressure *)
Theorem C19_cloud_flag : forall (P : list R) (Pc : R) (l : nat), (l < length P)%nat ->
  (nth l (@cloud_flags R RNum P Pc) false = true <-> Pc <= nth l P 0).
Proof. exact cloud_flag_spec. Qed.
Print Assumptions C19_cloud_flag.

(* a flagged layer has transmittance 0 at every wavenumber whatever else is in the model *)
Theorem C19_cloud_layer_opaque : forall rho path m l fl (cs : list (@contrib R)),
  nth l fl false = true ->
  @trans R RTNum (@opaque_cut R RNum (Cloud fl :: cs) rho path m l)
                 (@tau_cut R RNum (Cloud fl :: cs) rho path m l)
  = map (fun _ => 0) (@tau_cut R RNum (Cloud fl :: cs) rho path m l).
Proof. exact cloud_layer_opaque. Qed.
Print Assumptions C19_cloud_layer_opaque.

Theorem C19_cloud_anywhere_in_list : forall l fl (cs1 cs2 : list (@contrib R)),
  nth l fl false = true -> @opaque_full R (cs1 ++ Cloud fl :: cs2) l = true.
Proof. intros. apply cloud_layer_opaque_full. assumption. Qed.
Print Assumptions C19_cloud_anywhere_in_list.

(* higher layers are left untouched *)
Theorem C19_cloud_layer_clear : forall rho path m l fl (cs : list (@contrib R)),
  nth l fl false = false ->
  @tau_cut_state R RNum (Cloud fl :: cs) rho path m l = @tau_cut_state R RNum cs rho path m l.
Proof. exact cloud_layer_clear. Qed.
Print Assumptions C19_cloud_layer_clear.

(* so the transit depth is at least the documented integral with those layers fully opaque:
   lowering transmittances can only raise the depth *)
Theorem C19_depth_at_least : forall Rp Rs z dz tr tr' w,
  0 < Rs -> 0 <= Rp -> nonneg_list z -> nonneg_list dz ->
  (forall l, (l < length z)%nat -> @nth_d R RNum (nth l tr' []) w <= @nth_d R RNum (nth l tr []) w) ->
  @depth_at R RTNum Rp Rs z dz tr w <= @depth_at R RTNum Rp Rs z dz tr' w.
Proof. intros. apply depth_monotone; assumption. Qed.
Print Assumptions C19_depth_at_least.

(* grey haze: nothing in layers wholly outside the window; inside, the declared magnitude times
   an overlap weight in [0,1] *)
Theorem C19_flat_outside : forall (lv : list R) (lo hi mix : R) (i : nat), (i < length lv - 1)%nat ->
  (@nth_d R RNum lv (i + 1) <= lo \/ hi <= @nth_d R RNum lv i) ->
  nth i (@flat_sigma_asc R RNum lv lo hi mix) 0 = 0.
Proof. exact flat_outside. Qed.
Print Assumptions C19_flat_outside.

Theorem C19_flat_bounded : forall (lv : list R) (lo hi mix : R) (i : nat), (i < length lv - 1)%nat ->
  0 <= mix -> 0 <= nth i (@flat_sigma_asc R RNum lv lo hi mix) 0 <= mix.
Proof. exact flat_bounded. Qed.
Print Assumptions C19_flat_bounded.

(* parameterised haze: only layers whose centre lies in [top, bottom] *)
Theorem C19_lee_outside : forall (P : list R) (top bottom : R) (l : nat), (l < length P)%nat ->
  (nth l P 0 < top \/ bottom < nth l P 0) -> nth l (@lee_filter R RNum P top bottom) false = false.
Proof. exact lee_outside. Qed.
Print Assumptions C19_lee_outside.

Theorem C19_lee_inside : forall (P : list R) (top bottom : R) (l : nat), (l < length P)%nat ->
  top <= nth l P 0 <= bottom -> nth l (@lee_filter R RNum P top bottom) false = true.
Proof. exact lee_inside. Qed.
Print Assumptions C19_lee_inside.

Theorem C19_lee_layer : forall (a Q mix : R) (wn : list R),
  @lee_layer R RTNum false a Q mix wn = map (fun _ => 0) wn /\
  @lee_layer R RTNum true a Q mix wn = map (fun w => @lee_sigma R RTNum a Q w * mix) wn.
Proof. intros. split; [apply lee_layer_outside|apply lee_layer_inside]. Qed.
Print Assumptions C19_lee_layer.

(* ---- the executed (interval) instance encloses the real-number instance the theorems above are about:
   Reflect.transfer, proved once for every straight-line kernel from the Interval library's correctness lemmas;
   `defined` lists the side conditions of the real-number side (non-zero denominators, positive logarithm arguments) ---- *)
Theorem C19_lee_sigma_enclosed : forall aI bI cI a b c, encloses aI a -> encloses bI b -> encloses cI c ->
  defined [a; b; c] lee_sigma_e -> encloses (@lee_sigma I.type IvTNum aI bI cI) (@lee_sigma R RTNum a b c).
Proof. exact lee_sigma_transfer. Qed.
Print Assumptions C19_lee_sigma_enclosed.
