(* ListNum.v — list vocabulary shared by all numeric models (definitions only;
   the lemmas over the real instance are in ListNumR.v). *)
From Coq Require Import ZArith List Bool Arith.
From TV Require Import Num.
Import ListNotations.

Section Defs.
  Context {T : Type} {N : Num T}.
  Local Open Scope num_scope.

  Definition nsum (l : list T) : T := fold_right nadd n0 l.
  Definition nprod (l : list T) : T := fold_right nmul n1 l.

  Fixpoint map2 {A B C} (f : A -> B -> C) (l : list A) (m : list B) : list C :=
    match l, m with
    | a :: l', b :: m' => f a b :: map2 f l' m'
    | _, _ => []
    end.

  Definition ndot (l m : list T) : T := nsum (map2 nmul l m).
  Definition nth_d (l : list T) (i : nat) : T := nth i l n0.
  Definition scale (c : T) (l : list T) : list T := map (fun x => c * x) l.
  Definition vadd (l m : list T) : list T := map2 nadd l m.

  (* minimum / maximum of a list, with an explicit default for [] *)
  Definition lmin (d : T) (l : list T) : T :=
    match l with [] => d | x :: r => fold_left nmin r x end.
  Definition lmax (d : T) (l : list T) : T :=
    match l with [] => d | x :: r => fold_left nmax r x end.

  (* running sums: cumsum [a;b;c] = [a; a+b; a+b+c] *)
  Fixpoint cumsum_from (acc : T) (l : list T) : list T :=
    match l with [] => [] | x :: r => let a := acc + x in a :: cumsum_from a r end.
  Definition cumsum (l : list T) : list T := cumsum_from n0 l.

  (* numpy.diff *)
  Fixpoint diff (l : list T) : list T :=
    match l with
    | x :: ((y :: _) as r) => (y - x) :: diff r
    | _ => []
    end.

  (* numpy.searchsorted on an ascending array:
     left  = first index i with a[i] >= v   (number of leading elements < v)
     right = first index i with a[i] >  v   (number of leading elements <= v) *)
  Fixpoint ss_left (a : list T) (v : T) : nat :=
    match a with [] => 0%nat | x :: r => if x <? v then S (ss_left r v) else 0%nat end.
  Fixpoint ss_right (a : list T) (v : T) : nat :=
    match a with [] => 0%nat | x :: r => if x <=? v then S (ss_right r v) else 0%nat end.

  (* taurex.util.util.find_closest_pair *)
  Definition find_closest_pair (a : list T) (v : T) : nat * nat :=
    let right := Nat.max (Nat.min (length a - 1) (ss_left a v)) 1 in
    (right - 1, right)%nat.

  (* numpy.interp(x, xp, fp) for ascending xp (no left/right overrides):
     clamps outside, linear inside; at the right end returns fp[-1] exactly. *)
  Fixpoint interp_in (xp fp : list T) (x : T) : T :=
    match xp, fp with
    | x0 :: ((x1 :: _) as xr), f0 :: ((f1 :: _) as fr) =>
        if x <? x1 then f0 + (f1 - f0) * ((x - x0) / (x1 - x0))   (* slope form as numpy *)
        else interp_in xr fr x
    | _ :: [], f0 :: _ => f0
    | _, _ => n0
    end.
  Definition np_interp (xp fp : list T) (x : T) : T :=
    match xp, fp with
    | x0 :: _, f0 :: _ =>
        if x <? x0 then f0                 (* x = xp[0] falls through: with repeated leading nodes numpy takes the last of them *)
        else if nth_d xp (length xp - 1) <=? x then nth_d fp (length fp - 1)
        else interp_in xp fp x
    | _, _ => n0
    end.

  (* insertion sort of rows by a numeric key (ascending, stable) *)
  Section Sort.
    Context {A : Type} (key : A -> T).
    Fixpoint insert_by (a : A) (l : list A) : list A :=
      match l with
      | [] => [a]
      | b :: r => if key a <? key b then a :: l
                  else b :: insert_by a r
      end.
    (* stable: an element goes after all earlier elements with key <= its key *)
    Definition isort_by (l : list A) : list A := fold_left (fun acc a => insert_by a acc) l [].
  End Sort.

  (* taurex.util.util.compute_bin_edges : (edges, widths) *)
  Definition mids (g : list T) : list T :=
    map2 (fun a d => a + d / n2) (removelast g) (diff g).
  Definition bin_edges (g : list T) : list T :=
    match g with
    | g0 :: g1 :: _ =>
        let gl := nth_d g (length g - 1) in
        let gl1 := nth_d g (length g - 2) in
        (g0 - (g1 - g0) / n2) :: mids g ++ [ (gl - gl1) / n2 + gl ]
    | _ => []
    end.
  Definition bin_widths (g : list T) : list T := map nabs (diff (bin_edges g)).

  (* taurex.util.util.movingaverage(a, n) exactly as coded:
     ret = cumsum(a); ret[n:] -= ret[:-n]; return ret[n-1:] / n      (n >= 1) *)
  Definition movavg (a : list T) (n : nat) : list T :=
    let c := cumsum a in
    let shifted := firstn n c ++ map2 nsub (skipn n c) (firstn (length c - n) c) in
    map (fun x => x / nofnat n) (skipn (n - 1) shifted).
End Defs.
