(* Proofs_C06.v — every sampler is handed the Gaussian log-likelihood of the binned model. *)
From Coq Require Import ZArith Reals List Bool Arith Lia Lra.
From TV Require Import Num ListNum ListAux ListNumR Proofs_C03 Model_C06.
Import ListNotations.
Local Open Scope R_scope.

(* (e) the callback value is the logarithm of the product of the Gaussian densities of the residuals *)
Lemma ln_normal_pdf (d m s : R) : 0 < s ->
  ln (@normal_pdf R RTNum d m s) = - ln (s * sqrt (2 * PI)) - ((d - m) / s) * ((d - m) / s) / 2.
Proof. intros Hs. unfold normal_pdf. rnum.
  assert (Hq : 0 < sqrt (2 * PI)) by (apply sqrt_lt_R0; pose proof PI_RGT_0; lra).
  assert (Hd : 0 < s * sqrt (2 * PI)) by (apply Rmult_lt_0_compat; assumption).
  rewrite ln_mult by (try apply exp_pos; apply Rdiv_lt_0_compat; lra).
  rewrite ln_exp. unfold Rdiv at 1. rewrite Rmult_1_l, ln_Rinv by exact Hd. lra. Qed.

Theorem loglike_is_log_density : forall (data sig model : list R),
  length sig = length data -> length model = length data -> Forall (fun s => 0 < s) sig ->
  @gauss_loglike R RTNum data sig model
  = Rsum (map2 (fun ds m => ln (@normal_pdf R RTNum (fst ds) m (snd ds))) (combine data sig) model).
Proof. induction data as [|d data IH]; intros [|s sig] [|m model] Hs Hm Hpos; simpl in Hs, Hm; try discriminate.
  - unfold gauss_loglike, chisq. cbn [combine map2 map]. rnum. rewrite !Rsum_nil. unfold Rdiv. ring.
  - inversion Hpos as [|? ? Hs0 Hpos']; subst.
    specialize (IH sig model ltac:(lia) ltac:(lia) Hpos').
    unfold gauss_loglike, chisq in *. cbn [combine map2 map fst snd] in *. rnum. change (@nsum R RNum) with Rsum in *.
    rewrite !Rsum_cons. rewrite ln_normal_pdf by exact Hs0. rewrite <- IH. unfold Rdiv. ring. Qed.

Section History.
  Context {Ctx : Type} (fm : list R -> Ctx -> option (list R)).
  Context (tm : list (R -> R)) (data sig : list R).
  Notation wld := (@world R Ctx).
  Notation ll := (@loglike R RTNum Ctx fm tm data sig).

  (* update overwrites the fitted parameters wholesale and leaves everything else alone *)
  Lemma update_overwrites (w : wld) (v1 v2 : list R) :
    @update R Ctx tm (@update R Ctx tm w v1) v2 = @update R Ctx tm w v2.
  Proof. reflexivity. Qed.

  Lemma update_other (w : wld) (v : list R) : other (@update R Ctx tm w v) = other w.
  Proof. reflexivity. Qed.

  (* (a) after the update parameter i holds prior_i.prior(v_i), in order *)
  Lemma update_order (w : wld) (v : list R) (i : nat) (f : R -> R) (x : R) :
    nth_error tm i = Some f -> nth_error v i = Some x ->
    nth_error (fitted (@update R Ctx tm w v)) i = Some (f x).
  Proof. cbn [update fitted]. revert v i. induction tm as [|g tm' IH]; intros [|y v] [|i] Hf Hx; cbn in *; try discriminate.
    - injection Hf as <-. injection Hx as <-. reflexivity.
    - apply IH; assumption. Qed.

  (* (b) history independence: after any sequence of evaluations (valid or invalid vectors), the
     likelihood returned for a vector equals the likelihood of that vector alone *)
  Definition eval_seq (w : wld) (vs : list (list R)) : wld := fold_left (fun w v => fst (ll w v)) vs w.

  Lemma eval_seq_other (w : wld) (vs : list (list R)) : other (eval_seq w vs) = other w.
  Proof. revert w. induction vs as [|v vs IH]; intros w; cbn [eval_seq fold_left]; [reflexivity|].
    fold (eval_seq (fst (ll w v)) vs). rewrite IH. reflexivity. Qed.

  Theorem history_independent (w : wld) (vs : list (list R)) (v : list R) :
    snd (ll (eval_seq w vs) v) = snd (ll w v).
  Proof. unfold loglike. cbn [snd update fitted other]. rewrite eval_seq_other. reflexivity. Qed.

  (* (c) an invalid atmosphere never yields a finite likelihood (None = NaN) *)
  Theorem invalid_model_not_finite (w : wld) (v : list R) :
    fm (fitted (@update R Ctx tm w v)) (other w) = None -> snd (ll w v) = None.
  Proof. intros H. unfold loglike. cbn [snd update fitted other] in *. rewrite H. reflexivity. Qed.

  (* (e') for a valid model the value is the Gaussian formula at exactly the prior-transformed parameters
     (a perfect fit, chi^2 = 0, included) *)
  Theorem valid_model_value (w : wld) (v m : list R) :
    fm (map2 (fun f x => f x) tm v) (other w) = Some m ->
    snd (ll w v) = Some (@gauss_loglike R RTNum data sig m).
  Proof. intros H. unfold loglike. cbn [snd update fitted other]. rewrite H. reflexivity. Qed.

  (* (d) the three wrappers compute the same function of the first ndim cube entries *)
  Theorem wrappers_agree (w : wld) (ndim : nat) (cube : list R) :
    @multinest_loglike R RTNum Ctx fm tm data sig w ndim cube
      = @nestle_loglike R RTNum Ctx fm tm data sig w (firstn ndim cube) /\
    (let '(w', l, d) := @polychord_loglike R RTNum Ctx fm tm data sig w ndim cube in (w', l))
      = @nestle_loglike R RTNum Ctx fm tm data sig w (firstn ndim cube).
  Proof. unfold multinest_loglike, nestle_loglike, polychord_loglike. split; [reflexivity|].
    destruct (ll w (firstn ndim cube)). reflexivity. Qed.
End History.

(* prior callbacks: entry i is prior_i.sample(u_i), same order; MultiNest leaves the tail untouched *)
Theorem prior_cb_order (samplers : list (R -> R)) (u : list R) (i : nat) (f : R -> R) (x : R) :
  nth_error samplers i = Some f -> nth_error u i = Some x ->
  nth_error (@prior_cb R samplers u) i = Some (f x).
Proof. unfold prior_cb. revert u i. induction samplers as [|g s IH]; intros [|y u] [|i] Hf Hx; cbn in *; try discriminate.
  - injection Hf as <-. injection Hx as <-. reflexivity.
  - apply IH; assumption. Qed.

Theorem multinest_prior_prefix (samplers : list (R -> R)) (cube : list R) :
  (length samplers <= length cube)%nat ->
  firstn (length samplers) (@multinest_prior R samplers cube) = @prior_cb R samplers (firstn (length samplers) cube) /\
  skipn (length samplers) (@multinest_prior R samplers cube) = skipn (length samplers) cube.
Proof. intros Hl. unfold multinest_prior.
  assert (Hlen : length (@prior_cb R samplers cube) = length samplers).
  { unfold prior_cb. rewrite map2_length. lia. }
  split.
  - rewrite firstn_app, Hlen, Nat.sub_diag. cbn [firstn]. rewrite app_nil_r.
    rewrite firstn_all2 by lia. unfold prior_cb. clear Hlen. revert cube Hl.
    induction samplers as [|g s IH]; intros [|y cube] Hl; cbn in *; try lia; try reflexivity. f_equal. apply IH. lia.
  - rewrite skipn_app, Hlen, Nat.sub_diag. cbn [skipn]. rewrite skipn_all2 by lia. reflexivity. Qed.
