(* Model_C04.v — opacity interpolation in temperature and log-pressure
   (taurex/opacity/interpolateopacity.py : find_closest_index, interp_bilinear_grid,
    compute_opacity ; taurex/util/math.py : interp_lin_numba, intepr_bilin_numba_II,
    interp_exp_numpy, interp_exp_and_lin_numpy ; taurex/util/util.py : find_closest_pair).
   One table entry (one wavenumber / one g-point) at a time: the kernels are pointwise. *)
From Coq Require Import ZArith List Bool Arith.
From TV Require Import Num ListNum.
Import ListNotations.

Section Kernels.
  Context {T : Type} {N : Num T}.
  Local Open Scope num_scope.

  (* interp_lin_numba(x11, x12, P, Pmin, Pmax) *)
  Definition k_lin (x11 x12 P Pmin Pmax : T) : T :=
    x11 - ((P - Pmin) / (Pmax - Pmin)) * (x11 - x12).

  (* intepr_bilin_numba_II : x11=(Pmin,Tmin) x12=(Pmin,Tmax) x21=(Pmax,Tmin) x22=(Pmax,Tmax) *)
  Definition k_bilin (x11 x12 x21 x22 Tv Tmin Tmax P Pmin Pmax : T) : T :=
    let ps := (P - Pmin) / (Pmax - Pmin) in
    let ts := (Tv - Tmin) / (Tmax - Tmin) in
    x11 - ps * (x11 - x21) - ps * ts * (x21 - x11 + x12 - x22) - ts * (x11 - x12).
End Kernels.

Section KernelsT.
  Context {T : Type} {N : TNum T}.
  Local Open Scope num_scope.

  (* interp_exp_numpy(x11, x12, T, Tmin, Tmax) *)
  Definition k_exp (x11 x12 Tv Tmin Tmax : T) : T :=
    x11 * nexp (Tmax * (- Tv + Tmin) * nln (x11 / x12) / (Tv * (Tmax - Tmin))).

  (* interp_exp_and_lin_numpy *)
  Definition k_explin (x11 x12 x21 x22 Tv Tmin Tmax P Pmin Pmax : T) : T :=
    let A := x11 * (Pmax - Pmin) - (P - Pmin) * (x11 - x21) in
    let B := x12 * (Pmax - Pmin) - (P - Pmin) * (x12 - x22) in
    A * nexp (Tmax * (- Tv + Tmin) * nln (A / B) / (Tv * (Tmax - Tmin))) / (Pmax - Pmin).
End KernelsT.

Section Dispatch.
  Context {T : Type} {N : Num T}.
  Local Open Scope num_scope.

  (* the temperature-direction kernel and the 2-D kernel are parameters: 'linear' mode passes
     k_lin / k_bilin, 'exp' mode passes k_exp / k_explin *)
  Context (kT : T -> T -> T -> T -> T -> T).
  Context (k2 : T -> T -> T -> T -> T -> T -> T -> T -> T -> T -> T).

  (* Tg : temperature grid, Pg : log10 of the pressure grid (both ascending),
     tab p t : tabulated value at pressure index p, temperature index t,
     Tv, P : requested temperature and log10 pressure.
     Mirrors interp_bilinear_grid in code order (with the F1 repair). *)
  Definition interp (Tg Pg : list T) (tab : nat -> nat -> T) (Tv P : T) : T :=
    let nT := length Tg in
    let nP := length Pg in
    let '(tl, tr) := find_closest_pair Tg Tv in
    let '(pl, pr) := find_closest_pair Pg P in
    let Tmin_g := nth_d Tg 0 in
    let Tmax_g := nth_d Tg (nT - 1) in
    let Pmin_g := nth_d Pg 0 in
    let Pmax_g := nth_d Pg (nP - 1) in
    let pmax := Pmax_g <=? P in
    let tmax := Tmax_g <=? Tv in
    let pmin := P <? Pmin_g in
    let tmin := Tv <? Tmin_g in
    if pmax && tmax then tab (nP - 1)%nat (nT - 1)%nat
    else if pmin && tmin then n0
    else if pmax then
      let Tc := nmax Tv Tmin_g in
      kT (tab (nP - 1)%nat tl) (tab (nP - 1)%nat tr) Tc (nth_d Tg tl) (nth_d Tg tr)
    else if tmax then
      let Pc := nmax P Pmin_g in
      k_lin (tab pl (nT - 1)%nat) (tab pr (nT - 1)%nat) Pc (nth_d Pg pl) (nth_d Pg pr)
    else if pmin then
      kT (tab 0%nat tl) (tab 0%nat tr) Tv (nth_d Tg tl) (nth_d Tg tr)
    else if tmin then
      k_lin (tab pl 0%nat) (tab pr 0%nat) P (nth_d Pg pl) (nth_d Pg pr)
    else
      k2 (tab pl tl) (tab pl tr) (tab pr tl) (tab pr tr)
         Tv (nth_d Tg tl) (nth_d Tg tr) P (nth_d Pg pl) (nth_d Pg pr).

  (* compute_opacity: the table is stored in cm^2, the result is in m^2 *)
  Definition opacity (Tg Pg : list T) (tab : nat -> nat -> T) (Tv P : T) : T :=
    interp Tg Pg tab Tv P / nofZ 10000.
End Dispatch.

Definition interp_linear {T} {N : Num T} := @interp T N k_lin k_bilin.
Definition interp_exp {T} {N : TNum T} := @interp T (@tnum T N) k_exp k_explin.
Definition opacity_linear {T} {N : Num T} := @opacity T N k_lin k_bilin.
Definition opacity_exp {T} {N : TNum T} := @opacity T (@tnum T N) k_exp k_explin.

(* table given as nested lists [p][t] *)
Definition tab_of {T} {N : Num T} (tb : list (list T)) (p t : nat) : T := nth_d (nth p tb []) t.
