(* Proofs_C18.v — parallel post-processing is invariant to how samples are split across ranks. *)
From Coq Require Import ZArith Reals List Bool Arith Lia Lra Permutation.
From TV Require Import Num ListNum ListAux ListNumR Model_C18.
Import ListNotations.
Local Open Scope R_scope.

Notation s0 := (@S0 R RNum).
Notation s1 := (@S1 R RNum).
Notation s2 := (@S2 R RNum).
Notation run := (@ov_run R RNum).

Lemma S_snoc (l : list (R * R)) (x w : R) :
  s0 (l ++ [(x, w)]) = s0 l + w /\ s1 (l ++ [(x, w)]) = s1 l + w * x /\ s2 (l ++ [(x, w)]) = s2 l + w * (x * x).
Proof. unfold S0, S1, S2. rewrite !map_app. change (@nsum R RNum) with Rsum. rewrite !Rsum_app. cbn [map fst snd].
  rewrite !Rsum_cons, !Rsum_nil. rnum. repeat split; lra. Qed.

Definition pos_weights (l : list (R * R)) : Prop := Forall (fun p => 0 < snd p) l.

Lemma S0_pos (l : list (R * R)) : l <> [] -> pos_weights l -> 0 < s0 l.
Proof. intros Hne Hp. unfold S0. change (@nsum R RNum) with Rsum. destruct l as [|p l]; [congruence|].
  inversion Hp as [|? ? Hp0 Hp']; subst. cbn [map]. rewrite Rsum_cons.
  assert (0 <= Rsum (map snd l)).
  { apply Rsum_nonneg. apply Forall_forall. intros w Hw. apply in_map_iff in Hw. destruct Hw as [q [<- Hq]].
    unfold pos_weights in Hp'. rewrite Forall_forall in Hp'. left. apply Hp'. exact Hq. }
  lra. Qed.

(* (a) the streaming update maintains: weight sum, weighted mean and M2 = S2 - S1^2/S0 *)
Definition ov_inv (s : @ov R) (l : list (R * R)) : Prop :=
  cnt s = length l /\ wc s = s0 l /\ mean s * s0 l = s1 l /\ m2 s = s2 l - s1 l * s1 l / s0 l.

Lemma fold_snoc {A B} (f : A -> B -> A) (l : list B) (x : B) (a : A) :
  fold_left f (l ++ [x]) a = f (fold_left f l a) x.
Proof. rewrite fold_left_app. reflexivity. Qed.

Lemma ov_inv_step (s : @ov R) (l : list (R * R)) (x w : R) :
  0 < w -> (l = [] \/ 0 < s0 l) -> (l = [] -> s = @ov_init R RNum) -> (l <> [] -> ov_inv s l) ->
  ov_inv (@ov_update R RNum s (x, w)) (l ++ [(x, w)]).
Proof. intros Hw Hs0 Hinit Hinv. destruct (S_snoc l x w) as [E0 [E1 E2]].
  unfold ov_inv. rewrite E0, E1, E2. rewrite app_length. cbn [length].
  destruct l as [|p l'] eqn:El.
  - rewrite (Hinit eq_refl). unfold ov_update, ov_init. cbn [cnt wc mean m2]. rnum.
    unfold S0, S1, S2. cbn [map]. change (@nsum R RNum) with Rsum. rewrite !Rsum_nil.
    repeat split; try lia; try lra; field; lra.
  - rewrite <- El in *. assert (Hne : l <> []) by (rewrite El; discriminate).
    destruct (Hinv Hne) as [Hc [Hwc [Hm Hm2]]]. destruct Hs0 as [Hnil|Hpos]; [congruence|].
    unfold ov_update. cbn [cnt wc mean m2]. rnum. rewrite Hwc, Hm2.
    set (A := s0 l) in *. set (B := s1 l) in *. set (Cc := s2 l) in *. set (mu := mean s) in *.
    assert (HA : A + w <> 0) by lra. assert (HA' : A <> 0) by lra.
    assert (Hmu : mu = B / A) by (apply Rmult_eq_reg_r with A; [|exact HA']; rewrite Hm; field; exact HA').
    clearbody A B Cc mu. repeat split.
    + lia.
    + rewrite Hmu. field. split; assumption.
    + rewrite Hmu. field. split; assumption. Qed.

Theorem online_invariant (l : list (R * R)) : l <> [] -> pos_weights l -> ov_inv (run l) l.
Proof. intros Hne Hp. revert Hne Hp. pattern l. apply rev_ind; [congruence|].
  intros [x w] l' IH _ Hp. unfold ov_run. rewrite fold_snoc.
  apply Forall_app in Hp. destruct Hp as [Hp' Hw]. inversion Hw as [|? ? Hw0 _]; subst. cbn [snd] in Hw0.
  apply ov_inv_step; [exact Hw0| | |].
  - destruct l' as [|q l'']; [left; reflexivity|right; apply S0_pos; [discriminate|exact Hp']].
  - intros ->. reflexivity.
  - intros Hne'. apply IH; assumption. Qed.

(* the streaming M2 is the two-pass weighted sum of squared deviations *)
Lemma twopass_identity (l : list (R * R)) : s0 l <> 0 ->
  @twopass_m2 R RNum l = s2 l - s1 l * s1 l / s0 l.
Proof. intros H0. unfold twopass_m2, twopass_mean. rnum. change (@nsum R RNum) with Rsum.
  set (mu := s1 l / s0 l).
  rewrite (Rsum_map_ext _ (fun p : R * R => snd p * (fst p * fst p) + (-2 * mu) * (snd p * fst p) + (mu * mu) * snd p))
    by (intros; ring).
  rewrite !Rsum_map_add, !Rsum_map_scale.
  unfold mu, S0, S1, S2 in *. rnum. change (@nsum R RNum) with Rsum in *.
  replace (map (fun p : R * R => snd p) l) with (map (@snd R R) l) by reflexivity.
  set (a0 := Rsum (map snd l)) in *. set (a1 := Rsum (map (fun p : R * R => snd p * fst p) l)).
  set (a2 := Rsum (map (fun p : R * R => snd p * (fst p * fst p)) l)).
  field. exact H0. Qed.

Theorem online_is_twopass (l : list (R * R)) : l <> [] -> pos_weights l ->
  mean (run l) = @twopass_mean R RNum l /\ m2 (run l) = @twopass_m2 R RNum l.
Proof. intros Hne Hp. destruct (online_invariant l Hne Hp) as [_ [_ [Hm Hm2]]].
  pose proof (S0_pos l Hne Hp) as H0. split.
  - unfold twopass_mean. rnum. apply Rmult_eq_reg_r with (s0 l); [|lra]. rewrite Hm. field. lra.
  - rewrite twopass_identity by lra. exact Hm2. Qed.

(* (b) pooling: whatever the split, the combined mean and variance are those of all samples *)
Definition rank_ok (r : R * R * option R) (l : list (R * R)) : Prop :=
  let '(c, a, v) := r in
  c = s0 l /\ (l <> [] -> a * s0 l = s1 l) /\
  match v with Some var => var * s0 l = s2 l - s1 l * s1 l / s0 l
             | None => s2 l - s1 l * s1 l / s0 l = 0 end /\
  (l <> [] -> 0 < s0 l).

Lemma S_app (l m : list (R * R)) :
  s0 (l ++ m) = s0 l + s0 m /\ s1 (l ++ m) = s1 l + s1 m /\ s2 (l ++ m) = s2 l + s2 m.
Proof. unfold S0, S1, S2. rewrite !map_app. change (@nsum R RNum) with Rsum. rewrite !Rsum_app. repeat split. Qed.

Lemma S_nil : s0 [] = 0 /\ s1 [] = 0 /\ s2 [] = 0.
Proof. unfold S0, S1, S2. cbn. rnum. repeat split. Qed.

Lemma S_concat (parts : list (list (R * R))) :
  s0 (concat parts) = Rsum (map s0 parts) /\ s1 (concat parts) = Rsum (map s1 parts) /\
  s2 (concat parts) = Rsum (map s2 parts).
Proof. induction parts as [|p parts [I0 [I1 I2]]]; cbn [concat map].
  - rewrite !Rsum_nil. exact S_nil.
  - destruct (S_app p (concat parts)) as [E0 [E1 E2]]. rewrite E0, E1, E2, I0, I1, I2, !Rsum_cons. repeat split. Qed.

Lemma squares_sum (avg : R) (ranks : list (R * R * option R)) (parts : list (list (R * R))) :
  Forall2 rank_ok ranks parts ->
  Rsum (map (fun r : R * R * option R => let '(c, a, v) := r in
             c * ((avg - a) * (avg - a)) + match v with Some var => c * var | None => 0 end)
            (filter (fun r : R * R * option R => negb (@neqb R RNum (fst (fst r)) 0)) ranks))
  = avg * avg * Rsum (map s0 parts) - 2 * avg * Rsum (map s1 parts) + Rsum (map s2 parts).
Proof. intros Hok. induction Hok as [|r p rs ps Hr _ IH]; cbn [map filter].
  - rewrite !Rsum_nil. ring.
  - destruct r as [[c a] v]. destruct Hr as [Hc [Ha [Hv Hp]]]. cbn [fst snd].
    destruct (@neqb R RNum c 0) eqn:E; cbn [negb map].
    + rewrite !Rsum_cons, IH. unfold neqb in E. rnum. apply andb_true_iff in E. destruct E as [E1 E2].
      apply Rleb_true in E1, E2. assert (c = 0) by lra. subst c.
      destruct p as [|q p']; [destruct S_nil as [-> [-> ->]]; ring|].
      specialize (Hp ltac:(discriminate)). lra.
    + rewrite !Rsum_cons, IH.
      destruct p as [|q p'].
      * destruct S_nil as [E0 [E1 E2]]. rewrite E0 in Hc. subst c. rewrite E0, E1, E2.
        destruct v; ring.
      * specialize (Ha ltac:(discriminate)). specialize (Hp ltac:(discriminate)).
        set (A := s0 (q :: p')) in *. set (B := s1 (q :: p')) in *. set (Cc := s2 (q :: p')) in *.
        assert (HaE : a = B / A) by (apply Rmult_eq_reg_r with A; [|lra]; rewrite Ha; field; lra).
        clearbody A B Cc. subst c. destruct v as [var|].
        -- assert (Hvar : A * var = Cc - B * B / A) by lra. rewrite Hvar, HaE. field. lra.
        -- rewrite HaE. replace (Cc) with (B * B / A) by lra. field. lra. Qed.

Theorem pooled_is_single (parts : list (list (R * R))) (ranks : list (R * R * option R)) :
  Forall2 rank_ok ranks parts -> 0 < s0 (concat parts) ->
  let all := concat parts in
  fst (@combine R RNum ranks) = s1 all / s0 all /\
  snd (@combine R RNum ranks) = (s2 all - s1 all * s1 all / s0 all) / s0 all.
Proof. intros Hok Htot all. unfold combine.
  cbn [n0 n1 nadd nsub nmul ndiv nopp RNum]. change (@nsum R RNum) with Rsum.
  destruct (S_concat parts) as [C0 [C1 C2]]. fold all in C0, C1, C2.
  (* sums over the ranks in terms of the parts *)
  assert (Hsize : Rsum (map (fun r : R * R * option R => fst (fst r)) ranks) = s0 all).
  { rewrite C0. clear - Hok. induction Hok as [|r p rs ps Hr _ IH]; cbn [map]; [reflexivity|].
    rewrite !Rsum_cons, IH. destruct r as [[c a] v]. destruct Hr as [Hc _]. cbn [fst]. rewrite Hc. reflexivity. }
  set (used := filter (fun r : R * R * option R => negb (@neqb R RNum (fst (fst r)) 0)) ranks).
  assert (Havg : Rsum (map (fun r : R * R * option R => snd (fst r) * fst (fst r)) used) = s1 all).
  { rewrite C1. unfold used. clear - Hok. induction Hok as [|r p rs ps Hr _ IH]; cbn [map filter]; [reflexivity|].
    destruct r as [[c a] v]. destruct Hr as [Hc [Ha [_ Hp]]]. cbn [fst snd].
    destruct (@neqb R RNum c 0) eqn:E; cbn [negb map].
    - rewrite Rsum_cons, IH. unfold neqb in E. rnum. apply andb_true_iff in E. destruct E as [E1 E2].
      apply Rleb_true in E1, E2. assert (c = 0) by lra. subst c.
      destruct p as [|q p']; [destruct S_nil as [_ [-> _]]; lra|].
      specialize (Hp ltac:(discriminate)). lra.
    - rewrite !Rsum_cons, IH. cbn [fst snd].
      destruct p as [|q p'].
      + destruct S_nil as [E0 [E1 _]]. rewrite E0 in Hc. subst c. rewrite E1. ring.
      + rewrite Hc, (Ha ltac:(discriminate)). reflexivity. }
  rewrite Hsize, Havg. split; [reflexivity|].
  set (avg := s1 all / s0 all).
  assert (Hsq : Rsum (map (fun r : R * R * option R => let '(c, a, v) := r in
                     c * ((avg - a) * (avg - a)) + match v with Some var => c * var | None => 0 end) used)
                = avg * avg * s0 all - 2 * avg * s1 all + s2 all).
  { rewrite C0, C1, C2. unfold used. apply squares_sum. exact Hok. }
  rewrite Hsq. unfold avg. assert (HA : s0 all <> 0) by (unfold all; lra).
  clear - HA. set (A := s0 all) in *. set (B := s1 all). set (Cc := s2 all). clearbody A B Cc.
  cbn [snd]. field. exact HA. Qed.

(* a rank's summary satisfies rank_ok for the samples it processed *)
Lemma rank_summary_ok (l : list (R * R)) : pos_weights l -> rank_ok (@rank_summary R RNum (run l)) l.
Proof. intros Hp. unfold rank_summary, rank_ok, ov_variance.
  destruct l as [|p l'] eqn:El.
  - unfold ov_run, ov_init, S0, S1, S2. cbn. rnum. repeat split; try congruence; try lra; unfold Rdiv; ring.
  - rewrite <- El in *. assert (Hne : l <> []) by (rewrite El; discriminate).
    destruct (online_invariant l Hne Hp) as [Hc [Hwc [Hm Hm2]]]. pose proof (S0_pos l Hne Hp) as H0.
    repeat split; try assumption; try (intros; assumption).
    destruct (cnt (run l) <? 2)%nat eqn:E.
    + (* a single sample: M2 = 0 *)
      apply Nat.ltb_lt in E. rewrite Hc in E. rewrite El in *. destruct l' as [|q l'']; [|simpl in E; lia].
      destruct p as [x w]. unfold S0, S1, S2. cbn [map fst snd]. rnum. change (@nsum R RNum) with Rsum.
      rewrite !Rsum_cons, !Rsum_nil. inversion Hp as [|? ? Hw0 _]; subst. cbn [snd] in Hw0. field. lra.
    + rewrite Hm2, Hwc. rnum. set (A := s0 l) in *. set (B := s1 l). set (Cc := s2 l). clearbody A B Cc. field. lra. Qed.

(* ---------------- (c) the round-robin split is a partition ------------------ *)
Lemma filter_or_perm {A} (p q : A -> bool) (l : list A) : (forall x, p x && q x = false) ->
  Permutation (filter p l ++ filter q l) (filter (fun x => p x || q x) l).
Proof. intros Hd. induction l as [|x l IH]; cbn [filter]; [reflexivity|].
  specialize (Hd x). destruct (p x) eqn:Ep; destruct (q x) eqn:Eq; cbn [orb] in *; try discriminate.
  - cbn [app]. apply perm_skip. exact IH.
  - rewrite <- Permutation_middle. apply perm_skip. exact IH.
  - exact IH. Qed.

Lemma buckets_perm (f : nat -> nat) (l : list nat) (s : nat) :
  Permutation (concat (map (fun r => filter (fun i => Nat.eqb (f i) r) l) (seq 0 s)))
              (filter (fun i => Nat.ltb (f i) s) l).
Proof. induction s as [|s IH].
  - cbn. induction l as [|x l IHl]; [reflexivity|]. cbn [filter]. exact IHl.
  - rewrite seq_S, map_app, concat_app. cbn [plus map concat]. rewrite app_nil_r, IH.
    rewrite filter_or_perm.
    + erewrite filter_ext; [reflexivity|]. intros i. cbn beta.
      destruct (Nat.ltb_spec (f i) s); destruct (Nat.eqb_spec (f i) s); destruct (Nat.ltb_spec (f i) (S s)); try lia; reflexivity.
    + intros i. destruct (Nat.ltb_spec (f i) s); destruct (Nat.eqb_spec (f i) s); try lia; reflexivity. Qed.

Theorem gather_order_partition (size n : nat) : (0 < size)%nat ->
  Permutation (gather_order size n) (seq 0 n).
Proof. intros Hs. unfold gather_order, stride_idx. rewrite buckets_perm.
  rewrite (filter_ext _ (fun _ => true)); [|intros i; apply Nat.ltb_lt; apply Nat.mod_upper_bound; lia].
  clear. induction (seq 0 n) as [|x l IH]; [reflexivity|]. cbn [filter]. apply perm_skip. exact IH. Qed.

Lemma gathered_as_map {A} (d : A) (size : nat) (l : list A) :
  gathered d size l = map (fun i => nth i l d) (gather_order size (length l)).
Proof. unfold gathered, stride, gather_order. rewrite concat_map, map_map. reflexivity. Qed.

(* each sample is processed exactly once *)
Theorem gathered_is_permutation {A} (d : A) (size : nat) (l : list A) : (0 < size)%nat ->
  Permutation (gathered d size l) l.
Proof. intros Hs. rewrite gathered_as_map.
  rewrite (gather_order_partition size (length l) Hs). rewrite <- (map_nth_seq l d). reflexivity. Qed.

(* ---------------- (d) restoring sample order ---------------------------------- *)
Lemma index_in_spec (j : nat) (order : list nat) : In j order ->
  (index_in j order < length order)%nat /\ nth (index_in j order) order 0%nat = j.
Proof. induction order as [|o r IH]; intros H; [destruct H|]. cbn [index_in].
  destruct (Nat.eqb_spec o j) as [->|Hne]; [simpl; split; [lia|reflexivity]|].
  destruct H as [H|H]; [congruence|]. destruct (IH H) as [H1 H2]. simpl. split; [lia|exact H2]. Qed.

Theorem scatter_restores_order {A} (d : A) (size : nat) (l : list A) : (0 < size)%nat ->
  scatter d (gather_order size (length l)) (gathered d size l) = l.
Proof. intros Hs. pose proof (gather_order_partition size (length l) Hs) as Hp.
  pose proof (gathered_as_map d size l) as Hg.
  unfold scatter. rewrite Hg, map_length, (Permutation_length Hp), seq_length.
  transitivity (map (fun i => nth i l d) (seq 0 (length l))); [|symmetry; apply map_nth_seq]. apply map_ext_in. intros j Hj. apply in_seq in Hj.
  assert (Hin : In j (gather_order size (length l))) by (apply (Permutation_in _ (Permutation_sym Hp)); apply in_seq; lia).
  destruct (index_in_spec j _ Hin) as [H1 H2].
  rewrite (nth_indep _ d (nth 0 l d)) by (rewrite map_length; exact H1).
  rewrite (map_nth (fun i => nth i l d)). rewrite H2. reflexivity. Qed.

(* ---------------- (e) end to end: any assignment of samples to ranks ------------ *)
Lemma S_perm (l m : list (R * R)) : Permutation l m -> s0 l = s0 m /\ s1 l = s1 m /\ s2 l = s2 m.
Proof. intros Hp. unfold S0, S1, S2. change (@nsum R RNum) with Rsum.
  repeat split; apply Rsum_perm; apply Permutation_map; exact Hp. Qed.

Lemma pos_weights_perm (l m : list (R * R)) : Permutation l m -> pos_weights l -> pos_weights m.
Proof. intros Hp H. unfold pos_weights in *. rewrite Forall_forall in *. intros p Hin.
  apply H. apply (Permutation_in _ (Permutation_sym Hp)). exact Hin. Qed.

Lemma pos_weights_concat (parts : list (list (R * R))) :
  pos_weights (concat parts) -> Forall pos_weights parts.
Proof. induction parts as [|p ps IH]; intros H; [constructor|]. cbn [concat] in H.
  apply Forall_app in H. destruct H as [H1 H2]. constructor; [exact H1|apply IH; exact H2]. Qed.

Theorem any_split_is_single (parts : list (list (R * R))) (l : list (R * R)) :
  Permutation (concat parts) l -> l <> [] -> pos_weights l ->
  let ranks := map (fun p => @rank_summary R RNum (run p)) parts in
  fst (@combine R RNum ranks) = @twopass_mean R RNum l /\
  snd (@combine R RNum ranks) = @twopass_m2 R RNum l / s0 l.
Proof. intros Hperm Hne Hp ranks.
  pose proof (pos_weights_perm _ _ (Permutation_sym Hperm) Hp) as Hpc.
  destruct (S_perm _ _ Hperm) as [E0 [E1 E2]].
  pose proof (S0_pos l Hne Hp) as H0.
  assert (Hok : Forall2 rank_ok ranks parts).
  { unfold ranks. pose proof (pos_weights_concat parts Hpc) as Hall. clear - Hall.
    induction parts as [|p ps IH]; cbn [map]; [constructor|].
    inversion Hall as [|? ? Hp1 Hps]; subst. constructor; [apply rank_summary_ok; exact Hp1|apply IH; exact Hps]. }
  destruct (pooled_is_single parts ranks Hok ltac:(rewrite E0; exact H0)) as [Ha Hv].
  cbv zeta in Ha, Hv. rewrite Ha, Hv, E0, E1, E2. split.
  - unfold twopass_mean. rnum. reflexivity.
  - rewrite twopass_identity by lra. reflexivity. Qed.

(* the round-robin split used by generate_profiles is one such assignment *)
Theorem round_robin_is_single (size : nat) (l : list (R * R)) : (0 < size)%nat -> l <> [] -> pos_weights l ->
  let ranks := map (fun r => @rank_summary R RNum (run (stride (0, 0) r size l))) (seq 0 size) in
  fst (@combine R RNum ranks) = @twopass_mean R RNum l /\
  snd (@combine R RNum ranks) = @twopass_m2 R RNum l / s0 l.
Proof. intros Hs Hne Hp ranks.
  pose proof (any_split_is_single (map (fun r => stride (0, 0) r size l) (seq 0 size)) l
                (gathered_is_permutation (0, 0) size l Hs) Hne Hp) as H.
  cbv zeta in H. rewrite map_map in H. exact H. Qed.

(* every rank computes the same thing: combine only reads the gathered list, which is the same on every rank;
   and a rank count of one is the plain streaming result *)
Theorem single_rank_is_streaming (l : list (R * R)) : (2 <= length l)%nat -> pos_weights l ->
  @parallel_variance R RNum [run l] = @ov_variance R RNum (run l).
Proof. intros Hlen Hp. assert (Hne : l <> []) by (destruct l; [simpl in Hlen; lia|discriminate]).
  destruct (online_invariant l Hne Hp) as [Hc [Hwc [Hm Hm2]]].
  unfold parallel_variance, ov_variance. cbn [map fold_left]. rewrite Nat.add_0_l.
  destruct (cnt (run l) <? 2)%nat eqn:E; [reflexivity|]. f_equal.
  pose proof (any_split_is_single [l] l) as H. cbn [concat map] in H. rewrite app_nil_r in H.
  specialize (H (Permutation_refl l) Hne Hp). cbv zeta in H. destruct H as [_ Hv].
  unfold rank_summary, ov_variance in *. rewrite E in *. rewrite Hv. rnum. rewrite twopass_identity by (pose proof (S0_pos l Hne Hp); lra). rewrite Hm2, Hwc. reflexivity. Qed.
