(* Proofs_C12.v — temperature profiles are bounded by their control values. *)
From Coq Require Import ZArith Reals List Bool Arith Lia Lra Psatz.
From TV Require Import Num ListNum ListAux ListNumR Proofs_C03 Proofs_C13 MovAvg Model_C12.
Import ListNotations.
Local Open Scope R_scope.

Definition within (m M : R) (l : list R) : Prop := Forall (fun x => m <= x <= M) l.

Theorem isothermal_spec (nl : nat) (t : R) :
  length (@isothermal R nl t) = nl /\ Forall (fun x => x = t) (@isothermal R nl t).
Proof. unfold isothermal. split; [apply repeat_length|]. apply Forall_forall. intros x Hx. apply repeat_spec in Hx. exact Hx. Qed.

Lemma within_rev m M l : within m M l -> within m M (rev l).
Proof. unfold within. intros H. apply Forall_forall. intros x Hx. apply in_rev in Hx.
  rewrite Forall_forall in H. apply H. exact Hx. Qed.

Lemma within_splice m M foo sm border : within m M foo -> within m M sm -> within m M (@splice R foo sm border).
Proof. unfold within, splice. intros Hf Hs. apply Forall_app. split; [|apply Forall_app; split; [exact Hs|]].
  - apply Forall_forall. intros x Hx. rewrite Forall_forall in Hf. apply Hf. apply (In_firstn x foo border Hx).
  - apply Forall_forall. intros x Hx. rewrite Forall_forall in Hf. apply Hf. apply (In_skipn x foo _ Hx). Qed.

(* ---- interpolate + smooth + splice stays in the range of the node values *)
Theorem smooth_profile_bounded (lp lpn tn : list R) (wsize0 : nat) (m M : R) :
  length tn = length lpn -> tn <> [] -> within m M tn ->
  within m M (@smooth_profile R RNum lp lpn tn wsize0).
Proof. intros Hl Hne Hw. unfold smooth_profile.
  set (TP := map (@np_interp R RNum (rev lpn) (rev tn)) (rev lp)).
  assert (HTP : within m M TP).
  { unfold TP, within. apply Forall_forall. intros x Hx. apply in_map_iff in Hx. destruct Hx as [u [<- _]].
    apply np_interp_between.
    - rewrite !rev_length. exact Hl.
    - apply within_rev. exact Hw.
    - intro Hnil. apply (f_equal (@rev R)) in Hnil. rewrite rev_involutive in Hnil. simpl in Hnil. congruence. }
  set (wsize := if Nat.even wsize0 then S wsize0 else wsize0).
  assert (Hws : (1 <= wsize)%nat).
  { unfold wsize. destruct (Nat.even wsize0) eqn:E; [lia|]. destruct wsize0; [discriminate|lia]. }
  assert (Hsm : within m M (@movavg R RNum TP wsize)).
  { destruct (le_lt_dec wsize (length TP)) as [Hle|Hgt].
    - apply movavg_bounded; [lia|exact HTP].
    - (* window longer than the profile: the moving average is empty *)
      unfold within. apply Forall_forall. intros x Hx. exfalso.
      rewrite mavg_unfold in Hx. apply in_map_iff in Hx. destruct Hx as [y [_ Hy]].
      assert (Hlen : (length (skipn (wsize - 1) (shifted TP wsize)) = 0)%nat).
      { rewrite skipn_length. unfold shifted. rewrite app_length, firstn_length, map2_length, skipn_length,
          firstn_length, cumsum_length. lia. }
      destruct (skipn (wsize - 1) (shifted TP wsize)); [destruct Hy|discriminate]. }
  destruct (_ =? _)%nat.
  - apply within_rev. exact Hsm.
  - apply within_splice; apply within_rev; assumption. Qed.

(* ---- NPoint: every layer temperature lies in the range of the node temperatures, smoothing included *)
Theorem npoint_bounded (nl : nat) (lp lpn tn : list R) (wsize0 : nat) (limit m M : R) (prof : list R) :
  length tn = length lpn -> tn <> [] -> within m M tn ->
  @npoint R RNum nl lp lpn tn wsize0 limit = Some prof -> within m M prof.
Proof. intros Hl Hne Hw Hp. unfold npoint in Hp.
  destruct (negb _); [discriminate|]. destruct (negb _); [discriminate|]. injection Hp as <-.
  apply smooth_profile_bounded; assumption. Qed.

(* inverted pressure nodes or an excessive slope are rejected as an invalid model *)
Theorem npoint_rejects_inverted nl lp lpn tn wsize0 limit :
  @strictly_decreasing R RNum lpn = false -> @npoint R RNum nl lp lpn tn wsize0 limit = None.
Proof. intros H. unfold npoint. rewrite H. reflexivity. Qed.

Theorem npoint_rejects_slope nl lp lpn tn wsize0 limit :
  @slopes_ok R RNum lpn tn limit = false -> @npoint R RNum nl lp lpn tn wsize0 limit = None.
Proof. intros H. unfold npoint. rewrite H. destruct (negb _); reflexivity. Qed.

Lemma strictly_decreasing_spec (x y : R) (r : list R) :
  @strictly_decreasing R RNum (x :: y :: r) = true -> y < x.
Proof. cbn [strictly_decreasing]. rnum. intros H. apply andb_true_iff in H. destruct H as [H _].
  apply Rltb_true in H. exact H. Qed.

(* ---- Rodgers: a weighted mean of the layer temperatures when the weights of every row are
   non-negative and sum to one (true for a symmetric non-negative covariance, e.g. the default
   exp(-|ln(p_i/p_j)|/h)) ---- *)
Lemma Rsum_map2_weighted (row tl : list R) (s m M : R) :
  length tl = length row -> 0 < s -> Forall (fun c => 0 <= c) row -> Rsum row = s ->
  Forall (fun t => m <= t <= M) tl ->
  m <= Rsum (map2 (fun c t => c / s * t) row tl) <= M.
Proof. intros Hl Hs Hrow Hsum Ht.
  assert (Hgen : forall row tl, length tl = length row -> Forall (fun c => 0 <= c) row ->
            Forall (fun t => m <= t <= M) tl ->
            m * Rsum row <= Rsum (map2 (fun c t => c * t) row tl) <= M * Rsum row).
  { clear. induction row as [|c row IH]; intros [|t tl] Hl Hrow Ht; simpl in Hl; try discriminate.
    - cbn [map2]. rewrite !Rsum_nil. lra.
    - cbn [map2]. rewrite !Rsum_cons. inversion Hrow; subst. inversion Ht; subst.
      specialize (IH tl ltac:(lia) ltac:(assumption) ltac:(assumption)). nra. }
  assert (Heq : Rsum (map2 (fun c t => c / s * t) row tl) = Rsum (map2 (fun c t => c * t) row tl) / s).
  { clear - Hl. revert tl Hl. induction row as [|c row IH]; intros [|t tl] Hl; simpl in Hl; try discriminate.
    - cbn [map2]. rewrite Rsum_nil. unfold Rdiv. ring.
    - cbn [map2]. rewrite !Rsum_cons, IH by lia. unfold Rdiv. ring. }
  rewrite Heq. specialize (Hgen row tl Hl Hrow Ht). rewrite Hsum in Hgen.
  split.
  - apply Rmult_le_reg_r with s; [exact Hs|]. unfold Rdiv. rewrite Rmult_assoc, Rinv_l by lra. lra.
  - apply Rmult_le_reg_r with s; [exact Hs|]. unfold Rdiv. rewrite Rmult_assoc, Rinv_l by lra. lra. Qed.

Theorem rodgers_bounded (cov : list (list R)) (tl : list R) (m M : R) (i : nat) :
  (i < length cov)%nat ->
  length tl = length (nth i cov []) ->
  Forall (fun c => 0 <= c) (nth i cov []) ->
  0 < @colsum R RNum cov i ->
  Rsum (nth i cov []) = @colsum R RNum cov i ->          (* row sum = column sum: symmetry *)
  within m M tl ->
  m <= nth i (@rodgers R RNum cov tl) 0 <= M.
Proof. intros Hi Hl Hrow Hpos Hsym Ht. unfold rodgers.
  rewrite (map_nth_lt _ _ 0%nat) by (rewrite seq_length; exact Hi). rewrite seq_nth by exact Hi. cbn [plus].
  change (@nsum R RNum) with Rsum. rnum.
  apply Rsum_map2_weighted; assumption. Qed.

(* the default covariance is symmetric and positive *)
Theorem default_covariance_symmetric (pi pj h : R) : 0 < pi -> 0 < pj ->
  exp (-1 * Rabs (ln (pi / pj)) / h) = exp (-1 * Rabs (ln (pj / pi)) / h) /\
  0 < exp (-1 * Rabs (ln (pi / pj)) / h).
Proof. intros Hi Hj. split; [|apply exp_pos]. f_equal. f_equal. f_equal.
  replace (pj / pi) with (/ (pi / pj)) by (field; lra).
  rewrite ln_Rinv by (apply Rdiv_lt_0_compat; lra). rewrite Rabs_Ropp. reflexivity. Qed.

(* ---- array profile ---- *)
Theorem temp_array_bounded (nl : nat) (arr : list R) (m M : R) : arr <> [] -> within m M arr ->
  within m M (@temp_array R RNum nl arr).
Proof. intros Hne Hw. unfold temp_array. destruct (_ =? _)%nat; [exact Hw|].
  unfold within. apply Forall_forall. intros x Hx. apply in_map_iff in Hx. destruct Hx as [u [<- _]].
  apply np_interp_between.
  - rewrite !rev_length. unfold linspace10. destruct (length arr) as [|[|k]] eqn:E;
      [destruct arr; [congruence|discriminate]| |]; rewrite ?map_length, ?seq_length; cbn [length]; lia.
  - apply within_rev. exact Hw.
  - intro Hnil. apply (f_equal (@rev R)) in Hnil. rewrite rev_involutive in Hnil. simpl in Hnil. congruence. Qed.

(* ---- Guillot: unphysical parameters are rejected ---- *)
Theorem guillot_rejects (kir kv1 kv2 Tirr Tint : R) :
  kir = 0 \/ kv1 / kir = 0 \/ kv2 / kir = 0 \/ Tirr < 0 \/ Tint < 0 ->
  @guillot_valid R RTNum kir kv1 kv2 Tirr Tint = false.
Proof. intros H. unfold guillot_valid. rnum.
  assert (Heq : forall x, x = 0 -> negb (Rleb x 0 && Rleb 0 x) = false).
  { intros x ->. assert (E : Rleb 0 0 = true) by (apply Rleb_true; lra). rewrite E. reflexivity. }
  destruct H as [H|[H|[H|[H|H]]]].
  - rewrite (Heq kir H). reflexivity.
  - rewrite (Heq _ H). rewrite andb_false_r. reflexivity.
  - rewrite (Heq _ H). rewrite !andb_false_r. reflexivity.
  - assert (E : Rltb Tirr 0 = true) by (apply Rltb_true; exact H). rewrite E. cbn [negb]. rewrite !andb_false_r. reflexivity.
  - assert (E : Rltb Tint 0 = true) by (apply Rltb_true; exact H). rewrite E. cbn [negb]. rewrite !andb_false_r. reflexivity. Qed.

(* ---------------- Guillot: T^4 is positive for physical parameters ----------------
   E2 (the exponential integral of order two) enters as a supplied value; what is assumed about it is the classical
   bound 0 <= E2(x) <= exp(-x)/(1+x), which the harness validates on every value it hands over. *)
Lemma exp_neg_bound (x : R) : 0 <= x -> exp (- x) * (1 + x) <= 1.
Proof. intros Hx. pose proof (exp_pos (- x)) as Hp.
  pose proof (exp_ineq1_le x) as H1.
  assert (H2 : exp (- x) * exp x = 1) by (rewrite <- exp_plus; replace (- x + x) with 0 by ring; apply exp_0).
  nra. Qed.

(* eta(gamma, tau) >= 2/3 whenever the supplied E2 value obeys 0 < E2(x) <= exp(-x)/(1+x) *)
Lemma eta_ge (g t e2 : R) : 0 < g -> 0 <= t -> 0 <= e2 -> e2 * (1 + g * t) <= exp (- (g * t)) ->
  2 / 3 <= @eta R RTNum g t e2.
Proof. intros Hg Ht He Hub. unfold eta. rnum.
  set (x := g * t) in *. assert (Hx : 0 <= x) by (unfold x; nra).
  replace (- (1) * g * t) with (- x) by (unfold x; ring).
  set (E := exp (- x)) in *.
  assert (HE : 0 < E) by apply exp_pos.
  pose proof (exp_neg_bound x Hx) as HE1. fold E in HE1.
  assert (HEle1 : E <= 1) by nra.
  replace (g * t / 2) with (x / 2) by (unfold x; field).
  (* second term: (2/(3g)) * (1 + (x/2 - 1) E) >= 0 *)
  assert (Hs : 0 <= 1 + (x / 2 - 1) * E) by nra.
  assert (Hig : 0 < / g) by (apply Rinv_0_lt_compat; exact Hg).
  destruct (Rle_dec (t * t / 2) 1) as [Hsmall|Hbig].
  - (* third term non-negative *)
    assert (0 <= 2 / (3 * g) * (1 + (x / 2 - 1) * E)).
    { apply Rmult_le_pos; [|exact Hs]. unfold Rdiv. rewrite Rinv_mult. nra. }
    assert (0 <= 2 * g / 3 * (1 - t * t / 2) * e2) by (apply Rmult_le_pos; [nra|lra]).
    lra.
  - apply Rnot_le_lt in Hbig.
    (* e2 <= E / (1 + x) ; multiply everything by 3 g (1 + x) > 0 *)
    assert (Hx1 : 0 < 1 + x) by lra.
    assert (Hkey : 0 <= 2 / (3 * g) * (1 + (x / 2 - 1) * E) + 2 * g / 3 * (1 - t * t / 2) * e2).
    { apply Rmult_le_reg_l with (3 * g * (1 + x)); [nra|]. rewrite Rmult_0_r.
      replace (3 * g * (1 + x) * (2 / (3 * g) * (1 + (x / 2 - 1) * E) + 2 * g / 3 * (1 - t * t / 2) * e2))
        with ((1 + x) * (2 + (x - 2) * E) + (2 * g * g - x * x) * (e2 * (1 + x))) by (unfold x; field; lra).
      (* 2 g^2 - x^2 = 2 g^2 (1 - t^2/2) < 0, and e2 (1+x) <= E *)
      assert (Hneg : 2 * g * g - x * x <= 0) by (unfold x; nra).
      assert (Hm : (2 * g * g - x * x) * E <= (2 * g * g - x * x) * (e2 * (1 + x))) by nra.
      assert (Hg2 : 0 <= 2 * g * g * E) by nra.
      (* (1+x)(2 + (x-2)E) - x^2 E = 2(1+x) - (x+2) E >= 0 *)
      assert (Hfin : 0 <= (1 + x) * (2 + (x - 2) * E) - x * x * E) by nra.
      nra. }
    lra. Qed.

Theorem guillot_T4_positive (kir kv1 kv2 alpha Tirr Tint grav P e21 e22 : R) :
  0 < kir -> 0 < kv1 -> 0 < kv2 -> 0 < grav -> 0 <= P -> 0 <= alpha <= 1 -> 0 <= Tirr -> 0 <= Tint -> 0 < Tirr + Tint ->
  0 <= e21 -> e21 * (1 + kv1 / kir * (kir * P / grav)) <= exp (- (kv1 / kir * (kir * P / grav))) ->
  0 <= e22 -> e22 * (1 + kv2 / kir * (kir * P / grav)) <= exp (- (kv2 / kir * (kir * P / grav))) ->
  0 < @guillot_T4 R RTNum kir kv1 kv2 alpha Tirr Tint grav P e21 e22.
Proof. intros Hk H1 H2 Hgr HP Ha Hir Hint Hsum He1 Hb1 He2 Hb2. unfold guillot_T4. rnum.
  set (tau := kir * P / grav) in *.
  assert (Htau : 0 <= tau). { unfold tau. apply Rmult_le_pos; [nra|left; apply Rinv_0_lt_compat; exact Hgr]. }
  assert (Hg1 : 0 < kv1 / kir) by (apply Rdiv_lt_0_compat; assumption).
  assert (Hg2 : 0 < kv2 / kir) by (apply Rdiv_lt_0_compat; assumption).
  pose proof (eta_ge (kv1 / kir) tau e21 Hg1 Htau He1 Hb1) as E1.
  pose proof (eta_ge (kv2 / kir) tau e22 Hg2 Htau He2 Hb2) as E2.
  set (h1 := @eta R RTNum (kv1 / kir) tau e21) in *. set (h2 := @eta R RTNum (kv2 / kir) tau e22) in *.
  set (i4 := Tint * Tint * Tint * Tint). set (r4 := Tirr * Tirr * Tirr * Tirr).
  assert (Hi4 : 0 <= i4) by (unfold i4; nra).
  assert (Hr4 : 0 <= r4) by (unfold r4; nra).
  assert (Hpos : 0 < i4 + r4).
  { unfold i4, r4. destruct (Req_dec Tint 0) as [->|Hn].
    - assert (0 < Tirr) by lra. assert (0 < Tirr * Tirr) by nra. nra.
    - assert (0 < Tint) by lra. assert (0 < Tint * Tint) by nra. nra. }
  assert (T1 : 0 <= 3 * i4 / 4 * (2 / 3 + tau)) by nra.
  assert (T2 : 3 * r4 / 4 * (1 - alpha) * (2 / 3) <= 3 * r4 / 4 * (1 - alpha) * h1) by (apply Rmult_le_compat_l; [nra|exact E1]).
  assert (T3 : 3 * r4 / 4 * alpha * (2 / 3) <= 3 * r4 / 4 * alpha * h2) by (apply Rmult_le_compat_l; [nra|exact E2]).
  assert (T1' : 3 * i4 / 4 * (2 / 3) <= 3 * i4 / 4 * (2 / 3 + tau)) by nra.
  nra. Qed.
