(* Proofs_C12.v — temperature profiles are bounded by their control values. *)
From Coq Require Import ZArith Reals List Bool Arith Lia Lra.
From TV Require Import Num ListNum ListAux ListNumR Proofs_C03 Proofs_C13 MovAvg Model_C12.
Import ListNotations.
Local Open Scope R_scope.

Definition within (m M : R) (l : list R) : Prop := Forall (fun x => m <= x <= M) l.

Theorem isothermal_spec (nl : nat) (t : R) :
  length (@isothermal R nl t) = nl /\ Forall (fun x => x = t) (@isothermal R nl t).
Proof. unfold isothermal. split; [apply repeat_length|]. apply Forall_forall. intros x Hx. apply repeat_spec in Hx. exact Hx. Qed.

Lemma within_rev m M l : within m M l -> within m M (rev l).
Proof. unfold within. intros H. apply Forall_forall. intros x Hx. apply in_rev in Hx.
  rewrite Forall_forall in H. apply H. exact Hx. Qed.

Lemma within_splice m M foo sm border : within m M foo -> within m M sm -> within m M (@splice R foo sm border).
Proof. unfold within, splice. intros Hf Hs. apply Forall_app. split; [|apply Forall_app; split; [exact Hs|]].
  - apply Forall_forall. intros x Hx. rewrite Forall_forall in Hf. apply Hf. apply (In_firstn x foo border Hx).
  - apply Forall_forall. intros x Hx. rewrite Forall_forall in Hf. apply Hf. apply (In_skipn x foo _ Hx). Qed.

(* ---- interpolate + smooth + splice stays in the range of the node values *)
Theorem smooth_profile_bounded (lp lpn tn : list R) (wsize0 : nat) (m M : R) :
  length tn = length lpn -> tn <> [] -> within m M tn ->
  within m M (@smooth_profile R RNum lp lpn tn wsize0).
Proof. intros Hl Hne Hw. unfold smooth_profile.
  set (TP := map (@np_interp R RNum (rev lpn) (rev tn)) (rev lp)).
  assert (HTP : within m M TP).
  { unfold TP, within. apply Forall_forall. intros x Hx. apply in_map_iff in Hx. destruct Hx as [u [<- _]].
    apply np_interp_between.
    - rewrite !rev_length. exact Hl.
    - apply within_rev. exact Hw.
    - intro Hnil. apply (f_equal (@rev R)) in Hnil. rewrite rev_involutive in Hnil. simpl in Hnil. congruence. }
  set (wsize := if Nat.even wsize0 then S wsize0 else wsize0).
  assert (Hws : (1 <= wsize)%nat).
  { unfold wsize. destruct (Nat.even wsize0) eqn:E; [lia|]. destruct wsize0; [discriminate|lia]. }
  assert (Hsm : within m M (@movavg R RNum TP wsize)).
  { destruct (le_lt_dec wsize (length TP)) as [Hle|Hgt].
    - apply movavg_bounded; [lia|exact HTP].
    - (* window longer than the profile: the moving average is empty *)
      unfold within. apply Forall_forall. intros x Hx. exfalso.
      rewrite mavg_unfold in Hx. apply in_map_iff in Hx. destruct Hx as [y [_ Hy]].
      assert (Hlen : (length (skipn (wsize - 1) (shifted TP wsize)) = 0)%nat).
      { rewrite skipn_length. unfold shifted. rewrite app_length, firstn_length, map2_length, skipn_length,
          firstn_length, cumsum_length. lia. }
      destruct (skipn (wsize - 1) (shifted TP wsize)); [destruct Hy|discriminate]. }
  destruct (_ =? _)%nat.
  - apply within_rev. exact Hsm.
  - apply within_splice; apply within_rev; assumption. Qed.

(* ---- NPoint: every layer temperature lies in the range of the node temperatures, smoothing included *)
Theorem npoint_bounded (nl : nat) (lp lpn tn : list R) (wsize0 : nat) (limit m M : R) (prof : list R) :
  length tn = length lpn -> tn <> [] -> within m M tn ->
  @npoint R RNum nl lp lpn tn wsize0 limit = Some prof -> within m M prof.
Proof. intros Hl Hne Hw Hp. unfold npoint in Hp.
  destruct (negb _); [discriminate|]. destruct (negb _); [discriminate|]. injection Hp as <-.
  apply smooth_profile_bounded; assumption. Qed.

(* inverted pressure nodes or an excessive slope are rejected as an invalid model *)
Theorem npoint_rejects_inverted nl lp lpn tn wsize0 limit :
  @strictly_decreasing R RNum lpn = false -> @npoint R RNum nl lp lpn tn wsize0 limit = None.
Proof. intros H. unfold npoint. rewrite H. reflexivity. Qed.

Theorem npoint_rejects_slope nl lp lpn tn wsize0 limit :
  @slopes_ok R RNum lpn tn limit = false -> @npoint R RNum nl lp lpn tn wsize0 limit = None.
Proof. intros H. unfold npoint. rewrite H. destruct (negb _); reflexivity. Qed.

Lemma strictly_decreasing_spec (x y : R) (r : list R) :
  @strictly_decreasing R RNum (x :: y :: r) = true -> y < x.
Proof. cbn [strictly_decreasing]. rnum. intros H. apply andb_true_iff in H. destruct H as [H _].
  apply Rltb_true in H. exact H. Qed.

(* ---- Rodgers: a weighted mean of the layer temperatures when the weights of every row are
   non-negative and sum to one (true for a symmetric non-negative covariance, e.g. the default
   exp(-|ln(p_i/p_j)|/h)) ---- *)
Lemma Rsum_map2_weighted (row tl : list R) (s m M : R) :
  length tl = length row -> 0 < s -> Forall (fun c => 0 <= c) row -> Rsum row = s ->
  Forall (fun t => m <= t <= M) tl ->
  m <= Rsum (map2 (fun c t => c / s * t) row tl) <= M.
Proof. intros Hl Hs Hrow Hsum Ht.
  assert (Hgen : forall row tl, length tl = length row -> Forall (fun c => 0 <= c) row ->
            Forall (fun t => m <= t <= M) tl ->
            m * Rsum row <= Rsum (map2 (fun c t => c * t) row tl) <= M * Rsum row).
  { clear. induction row as [|c row IH]; intros [|t tl] Hl Hrow Ht; simpl in Hl; try discriminate.
    - cbn [map2]. rewrite !Rsum_nil. lra.
    - cbn [map2]. rewrite !Rsum_cons. inversion Hrow; subst. inversion Ht; subst.
      specialize (IH tl ltac:(lia) ltac:(assumption) ltac:(assumption)). nra. }
  assert (Heq : Rsum (map2 (fun c t => c / s * t) row tl) = Rsum (map2 (fun c t => c * t) row tl) / s).
  { clear - Hl. revert tl Hl. induction row as [|c row IH]; intros [|t tl] Hl; simpl in Hl; try discriminate.
    - cbn [map2]. rewrite Rsum_nil. unfold Rdiv. ring.
    - cbn [map2]. rewrite !Rsum_cons, IH by lia. unfold Rdiv. ring. }
  rewrite Heq. specialize (Hgen row tl Hl Hrow Ht). rewrite Hsum in Hgen.
  split.
  - apply Rmult_le_reg_r with s; [exact Hs|]. unfold Rdiv. rewrite Rmult_assoc, Rinv_l by lra. lra.
  - apply Rmult_le_reg_r with s; [exact Hs|]. unfold Rdiv. rewrite Rmult_assoc, Rinv_l by lra. lra. Qed.

Theorem rodgers_bounded (cov : list (list R)) (tl : list R) (m M : R) (i : nat) :
  (i < length cov)%nat ->
  length tl = length (nth i cov []) ->
  Forall (fun c => 0 <= c) (nth i cov []) ->
  0 < @colsum R RNum cov i ->
  Rsum (nth i cov []) = @colsum R RNum cov i ->          (* row sum = column sum: symmetry *)
  within m M tl ->
  m <= nth i (@rodgers R RNum cov tl) 0 <= M.
Proof. intros Hi Hl Hrow Hpos Hsym Ht. unfold rodgers.
  rewrite (map_nth_lt _ _ 0%nat) by (rewrite seq_length; exact Hi). rewrite seq_nth by exact Hi. cbn [plus].
  change (@nsum R RNum) with Rsum. rnum.
  apply Rsum_map2_weighted; assumption. Qed.

(* the default covariance is symmetric and positive *)
Theorem default_covariance_symmetric (pi pj h : R) : 0 < pi -> 0 < pj ->
  exp (-1 * Rabs (ln (pi / pj)) / h) = exp (-1 * Rabs (ln (pj / pi)) / h) /\
  0 < exp (-1 * Rabs (ln (pi / pj)) / h).
Proof. intros Hi Hj. split; [|apply exp_pos]. f_equal. f_equal. f_equal.
  replace (pj / pi) with (/ (pi / pj)) by (field; lra).
  rewrite ln_Rinv by (apply Rdiv_lt_0_compat; lra). rewrite Rabs_Ropp. reflexivity. Qed.

(* ---- array profile ---- *)
Theorem temp_array_bounded (nl : nat) (arr : list R) (m M : R) : arr <> [] -> within m M arr ->
  within m M (@temp_array R RNum nl arr).
Proof. intros Hne Hw. unfold temp_array. destruct (_ =? _)%nat; [exact Hw|].
  unfold within. apply Forall_forall. intros x Hx. apply in_map_iff in Hx. destruct Hx as [u [<- _]].
  apply np_interp_between.
  - rewrite !rev_length. unfold linspace10. destruct (length arr) as [|[|k]] eqn:E;
      [destruct arr; [congruence|discriminate]| |]; rewrite ?map_length, ?seq_length; cbn [length]; lia.
  - apply within_rev. exact Hw.
  - intro Hnil. apply (f_equal (@rev R)) in Hnil. rewrite rev_involutive in Hnil. simpl in Hnil. congruence. Qed.

(* ---- Guillot: unphysical parameters are rejected ---- *)
Theorem guillot_rejects (kir kv1 kv2 Tirr Tint : R) :
  kir = 0 \/ kv1 / kir = 0 \/ kv2 / kir = 0 \/ Tirr < 0 \/ Tint < 0 ->
  @guillot_valid R RTNum kir kv1 kv2 Tirr Tint = false.
Proof. intros H. unfold guillot_valid. rnum.
  assert (Heq : forall x, x = 0 -> negb (Rleb x 0 && Rleb 0 x) = false).
  { intros x ->. assert (E : Rleb 0 0 = true) by (apply Rleb_true; lra). rewrite E. reflexivity. }
  destruct H as [H|[H|[H|[H|H]]]].
  - rewrite (Heq kir H). reflexivity.
  - rewrite (Heq _ H). rewrite andb_false_r. reflexivity.
  - rewrite (Heq _ H). rewrite !andb_false_r. reflexivity.
  - assert (E : Rltb Tirr 0 = true) by (apply Rltb_true; exact H). rewrite E. cbn [negb]. rewrite !andb_false_r. reflexivity.
  - assert (E : Rltb Tint 0 = true) by (apply Rltb_true; exact H). rewrite E. cbn [negb]. rewrite !andb_false_r. reflexivity. Qed.
