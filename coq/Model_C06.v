(* Model_C06.v — the likelihood and prior callbacks handed to the samplers
   (taurex/optimizer/optimizer.py : chisq_trans, update_model ; nestle.py, multinest.py, polychord.py :
    the loglike / prior closures of compute_fit). *)
From Coq Require Import ZArith List Bool Arith.
From TV Require Import Num ListNum.
Import ListNotations.

Section Likelihood.
  Context {T : Type} {N : TNum T}.
  Local Open Scope num_scope.

  (* chi^2 = sum ((data - model)/sigma)^2 *)
  Definition chisq (data sig model : list T) : T :=
    nsum (map2 (fun ds m => let r := (fst ds - m) / snd ds in r * r) (combine data sig) model).

  (* -sum log(sigma sqrt(2 pi)) - chi^2 / 2 *)
  Definition gauss_loglike (data sig model : list T) : T :=
    - nsum (map (fun s => nln (s * nsqrt (n2 * npi))) sig) - chisq data sig model / n2.

  (* one Gaussian density *)
  Definition normal_pdf (d m s : T) : T :=
    n1 / (s * nsqrt (n2 * npi)) * nexp (- (((d - m) / s) * ((d - m) / s)) / n2).
End Likelihood.

Section Callbacks.
  Context {T : Type} {N : TNum T}.
  Local Open Scope num_scope.

  (* the part of the optimizer the callbacks touch: the fitted parameters (overwritten wholesale by
     update_model) and everything else (never touched by a callback) *)
  Context {Ctx : Type}.
  Record world := { fitted : list T; other : Ctx }.

  (* update_model: parameter i := prior_i.prior(v_i) — to_model i is that transform *)
  Definition update (to_model : list (T -> T)) (w : world) (v : list T) : world :=
    {| fitted := map2 (fun f x => f x) to_model v; other := other w |}.

  (* the forward model binned to the observation; None = InvalidModelException *)
  Context (fm : list T -> Ctx -> option (list T)).

  (* chisq_trans + loglike: None stands for NaN (invalid model, or a binned model with no finite entry at all: fm
     answers None for both) *)
  Definition loglike (to_model : list (T -> T)) (data sig : list T) (w : world) (v : list T)
    : world * option T :=
    let w' := update to_model w v in
    (w', match fm (fitted w') (other w') with
         | None => None
         | Some m => Some (gauss_loglike data sig m)
         end).

  (* the three wrappers differ only in how the cube is indexed *)
  Definition nestle_loglike tm data sig w (params : list T) := loglike tm data sig w params.
  Definition multinest_loglike tm data sig w (ndim : nat) (cube : list T) := loglike tm data sig w (firstn ndim cube).
  Definition polychord_loglike tm data sig w (ndim : nat) (cube : list T) :=
    let '(w', l) := loglike tm data sig w (firstn ndim cube) in (w', l, [n0]).

  (* prior callbacks: cube_i := prior_i.sample(u_i) in the same parameter order *)
  Definition prior_cb (samplers : list (T -> T)) (u : list T) : list T := map2 (fun f x => f x) samplers u.
  (* MultiNest transforms the first ndim entries of a longer cube in place *)
  Definition multinest_prior (samplers : list (T -> T)) (cube : list T) : list T :=
    prior_cb samplers cube ++ skipn (length samplers) cube.
End Callbacks.
