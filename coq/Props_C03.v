(* Props_C03.v — C03: optical depth composes additively over contributions and species. *)
From Coq Require Import Reals List Permutation Lra.
From TV Require Import Num ListNum ListNumR Model_C01 Proofs_C01 Model_C03 Proofs_C03.
Import ListNotations.
Local Open Scope R_scope.

(* the un-cut optical depth of several sources is the sum of the sources' optical depths *)
Theorem C03_tau_additive : forall rho path m l (cs : list (@contrib R)) w, (w < m)%nat ->
  nth w (@tau_full R RNum cs rho path m l) 0
  = Rsum (map (fun c => nth w (@tau_of R RNum c rho path m l) 0) cs).
Proof. exact tau_full_additive. Qed.
Print Assumptions C03_tau_additive.

(* (a) hence the transmittance of a model with several sources equals the product of the
   transmittances obtained for each source alone (opaque cloud layers included) *)
Theorem C03_product : forall rho path m l (cs : list (@contrib R)) w, (w < m)%nat ->
  Tfull rho path m l cs w = @nprod R RNum (map (fun c => Tfull rho path m l [c] w) cs).
Proof. exact transmittance_product. Qed.
Print Assumptions C03_product.

(* (b) and does not depend on the order in which sources were added *)
Theorem C03_order_independent : forall rho path m l (cs cs' : list (@contrib R)) w,
  (w < m)%nat -> Permutation cs cs' -> Tfull rho path m l cs w = Tfull rho path m l cs' w.
Proof. exact order_independent. Qed.
Print Assumptions C03_order_independent.

(* with the saturation cut-off of C01 the same holds to within exp(-10) *)
Theorem C03_cutoff : forall rho path m l (cs : list (@contrib R)),
  nonneg_list rho -> nonneg_list path -> Forall wf_contrib cs ->
  Forall2 (fun a b => 0 <= a - b <= exp (-10))
    (@trans R RTNum (@opaque_cut R RNum cs rho path m l) (@tau_cut R RNum cs rho path m l))
    (@trans R RTNum (@opaque_full R cs l) (@tau_full R RNum cs rho path m l)).
Proof. intros. apply cutoff_error; assumption. Qed.
Print Assumptions C03_cutoff.

(* (c) a species at zero abundance changes nothing; a component is proportional to its abundance *)
Theorem C03_zero_abundance : forall (factor : list R) (xsec : list (list R)),
  Forall (fun f => f = 0) factor -> zero_sigma (@weighted R RNum factor xsec).
Proof. exact zero_abundance_component. Qed.
Print Assumptions C03_zero_abundance.

Theorem C03_proportional : forall (c : R) (factor : list R) (xsec : list (list R)) (l w : nat),
  (l < length factor)%nat -> (l < length xsec)%nat ->
  @sig_at R RNum (@weighted R RNum (map (fun f => c * f) factor) xsec) l w
  = c * @sig_at R RNum (@weighted R RNum factor xsec) l w.
Proof. exact weighted_proportional. Qed.
Print Assumptions C03_proportional.

(* collision-induced absorption: product of both partners' ratios and density squared *)
Theorem C03_cia_factor : forall (mix1 mix2 : list R) (l : nat),
  (l < length mix1)%nat -> (l < length mix2)%nat ->
  nth l (@cia_factor R RNum mix1 mix2) 0 = nth l mix1 0 * nth l mix2 0.
Proof. exact cia_factor_product. Qed.
Print Assumptions C03_cia_factor.

Theorem C03_cia_density_squared : forall sigma rho path l w,
  @tau_loop R RNum true sigma rho path l w
  = Rsum (map (fun k => @sig_at R RNum sigma (k + l) w * @nth_d R RNum path k
                        * (@nth_d R RNum rho (k + l) * @nth_d R RNum rho (k + l)))
              (seq 0 (length path))).
Proof. exact cia_density_squared. Qed.
Print Assumptions C03_cia_density_squared.
