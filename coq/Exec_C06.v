(* Exec_C06.v — executable wrapper for the C06 correspondence check. *)
From Coq Require Import ZArith List.
From TV Require Import Num NumIv ListNum Model_C06.
Import ListNotations.

(* [loglike ; chi^2] for an observation and the binned model at the transformed parameters *)
Definition run_loglike (data sig model : list I.type) : list (list Z) :=
  [ Iout (@gauss_loglike I.type IvTNum data sig model) ; Iout (@chisq I.type IvTNum data sig model) ].
