(* Proofs_C19.v — clouds and hazes act only inside their declared pressure range. *)
From Coq Require Import ZArith Reals List Bool Arith Lia Lra.
From TV Require Import Num ListNum ListAux ListNumR Model_C01 Proofs_C01 Model_C19.
Import ListNotations.
Local Open Scope R_scope.

(* ---------------- optically thick cloud deck ---------------------------- *)
Lemma cloud_flag_spec (P : list R) (Pc : R) (l : nat) : (l < length P)%nat ->
  (nth l (@cloud_flags R RNum P Pc) false = true <-> Pc <= nth l P 0).
Proof. intros Hl. unfold cloud_flags. rewrite (map_nth_lt _ P 0 false) by exact Hl. rnum. apply Rleb_true. Qed.

Section CloudLayer.
  Context (rho path : list R) (m l : nat) (fl : list bool) (cs : list (@contrib R)).

  (* a flagged layer is opaque at every wavenumber whatever else is in the model
     (the deck is the first source: SimpleClouds has the lowest computational order) *)
  Theorem cloud_layer_opaque : nth l fl false = true ->
    @trans R RTNum (@opaque_cut R RNum (Cloud fl :: cs) rho path m l)
                   (@tau_cut R RNum (Cloud fl :: cs) rho path m l)
    = map (fun _ => 0) (@tau_cut R RNum (Cloud fl :: cs) rho path m l).
  Proof. intros Hf. unfold opaque_cut, tau_cut, tau_cut_state. cbn [fold_left].
    rewrite zeros_not_saturated. cbn [opaque_of orb]. rewrite Hf.
    assert (Hst : forall cs0 t, fold_left (fun (st : bool * list R) c =>
                 let '(opq, t) := st in
                 if @saturated R RNum opq t then st
                 else (opq || @opaque_of R c l, @vadd R RNum t (@tau_of R RNum c rho path m l)))
              cs0 (true, t) = (true, t)).
    { induction cs0 as [|c cs0 IH]; intros t; cbn [fold_left]; [reflexivity|].
      unfold saturated at 1. cbn [orb]. apply IH. }
    rewrite Hst. cbn [fst snd]. unfold trans. apply map_ext. intros x. rnum. reflexivity. Qed.

  (* wherever in the list the deck is, the un-cut transmittance of a flagged layer is 0 ... *)
  Theorem cloud_layer_opaque_full cs1 cs2 : nth l fl false = true ->
    @opaque_full R (cs1 ++ Cloud fl :: cs2) l = true.
  Proof. intros Hf. unfold opaque_full. rewrite existsb_app. cbn [existsb opaque_of]. rewrite Hf.
    rewrite orb_true_r. reflexivity. Qed.

  (* layers above the deck are untouched *)
  Theorem cloud_layer_clear : nth l fl false = false ->
    @tau_cut_state R RNum (Cloud fl :: cs) rho path m l = @tau_cut_state R RNum cs rho path m l.
  Proof. intros Hf. unfold tau_cut_state. cbn [fold_left]. rewrite zeros_not_saturated.
    cbn [opaque_of orb tau_of]. rewrite Hf.
    replace (map (fun _ : nat => @n0 R RNum) (seq 0 m)) with (@zeros R RNum m) by reflexivity.
    rewrite vadd_zeros. reflexivity. Qed.
End CloudLayer.

(* ---------------- grey haze (FlatMie) ----------------------------------- *)
Lemma fold_max_both (r : list R) (x : R) :
  x <= fold_left (@nmax R RNum) r x /\ forall y, In y r -> y <= fold_left (@nmax R RNum) r x.
Proof. revert x. induction r as [|z r IH]; intros x; cbn [fold_left].
  - split; [lra|intros y []].
  - destruct (IH (@nmax R RNum x z)) as [H1 H2].
    assert (Hm : x <= @nmax R RNum x z /\ z <= @nmax R RNum x z).
    { rewrite nmax_R. split; [apply Rmax_l|apply Rmax_r]. }
    split; [lra|]. intros y [->|Hy]; [lra|apply H2; exact Hy]. Qed.

Lemma lmax_ge (d : R) (l : list R) (y : R) : In y l -> y <= @lmax R RNum d l.
Proof. destruct l as [|x r]; [intros []|]. cbn [lmax]. destruct (fold_max_both r x) as [H1 H2].
  intros [->|Hy]; [exact H1|apply H2; exact Hy]. Qed.

Section Flat.
  Context (lv : list R) (lo hi mix : R).
  Let n := (length lv - 1)%nat.
  Notation w := (@flat_w R RNum lv lo hi).

  Lemma flat_w_nonneg i : 0 <= w i.
  Proof. unfold flat_w. rewrite nmax_R. apply Rmax_l. Qed.

  Lemma flat_nth i : (i < n)%nat ->
    nth i (@flat_sigma_asc R RNum lv lo hi mix) 0
    = let start := @flat_start R RNum lv lo in
      let stop := @flat_stop R RNum lv hi in
      let ws := map w (seq start (Nat.min (stop + 1) n - start)) in
      let wmax := @lmax R RNum 0 ws in
      if (start <=? i)%nat && (i <=? stop)%nat
      then (if Rltb 0 wmax then w i / wmax else w i) * mix else 0.
  Proof. intros Hi. unfold flat_sigma_asc. fold n.
    rewrite (map_nth_lt _ _ 0%nat) by (rewrite seq_length; exact Hi). rewrite seq_nth by exact Hi.
    cbn [plus]. rnum. reflexivity. Qed.

  (* a layer wholly outside the window gets no extinction *)
  Theorem flat_outside i : (i < n)%nat ->
    (@nth_d R RNum lv (i + 1) <= lo \/ hi <= @nth_d R RNum lv i) ->
    nth i (@flat_sigma_asc R RNum lv lo hi mix) 0 = 0.
  Proof. intros Hi Hout. rewrite flat_nth by exact Hi. cbv zeta.
    assert (Hw : w i = 0).
    { unfold flat_w. rewrite nmin_R, !nmax_R. rnum. unfold Rmin, Rmax.
      repeat match goal with |- context [Rle_dec ?x ?y] =>
        lazymatch x with context [Rle_dec _ _] => fail | _ =>
          lazymatch y with context [Rle_dec _ _] => fail | _ => destruct (Rle_dec x y) end end end; lra. }
    rewrite Hw. destruct ((_ <=? i)%nat && (i <=? _)%nat); [|reflexivity].
    destruct (Rltb 0 _); unfold Rdiv; ring. Qed.

  (* inside, the extinction is the declared magnitude times a weight in [0,1] *)
  Theorem flat_bounded i : (i < n)%nat -> 0 <= mix ->
    0 <= nth i (@flat_sigma_asc R RNum lv lo hi mix) 0 <= mix.
  Proof. intros Hi Hm. rewrite flat_nth by exact Hi. cbv zeta.
    set (start := @flat_start R RNum lv lo). set (stop := @flat_stop R RNum lv hi).
    set (ws := map w (seq start (Nat.min (stop + 1) n - start))). set (wmax := @lmax R RNum 0 ws).
    destruct ((start <=? i)%nat && (i <=? stop)%nat) eqn:E; [|lra].
    apply andb_true_iff in E. destruct E as [E1 E2]. apply Nat.leb_le in E1, E2.
    assert (Hin : In (w i) ws).
    { unfold ws. apply in_map. apply in_seq. lia. }
    pose proof (lmax_ge 0 ws (w i) Hin) as Hle. fold wmax in Hle.
    pose proof (flat_w_nonneg i) as H0.
    destruct (Rltb 0 wmax) eqn:Ew.
    - apply Rltb_true in Ew.
      assert (0 <= w i / wmax <= 1).
      { split; [apply Rmult_le_pos; [exact H0|left; apply Rinv_0_lt_compat; exact Ew]|].
        apply Rmult_le_reg_r with wmax; [exact Ew|]. unfold Rdiv. rewrite Rmult_assoc, Rinv_l by lra. lra. }
      nra.
    - apply Rltb_false in Ew. assert (w i = 0) by lra. rewrite H. lra. Qed.
End Flat.

(* ---------------- parameterised haze (LeeMie) --------------------------- *)
Theorem lee_outside (P : list R) (top bottom : R) (l : nat) : (l < length P)%nat ->
  (nth l P 0 < top \/ bottom < nth l P 0) -> nth l (@lee_filter R RNum P top bottom) false = false.
Proof. intros Hl Hout. unfold lee_filter. rewrite (map_nth_lt _ P 0 false) by exact Hl. rnum.
  destruct Hout as [H|H].
  - assert (E : Rleb top (nth l P 0) = false) by (apply Rleb_false; exact H). rewrite E. apply andb_false_r.
  - assert (E : Rleb (nth l P 0) bottom = false) by (apply Rleb_false; exact H). rewrite E. reflexivity. Qed.

Theorem lee_inside (P : list R) (top bottom : R) (l : nat) : (l < length P)%nat ->
  top <= nth l P 0 <= bottom -> nth l (@lee_filter R RNum P top bottom) false = true.
Proof. intros Hl [H1 H2]. unfold lee_filter. rewrite (map_nth_lt _ P 0 false) by exact Hl. rnum.
  apply andb_true_iff. split; apply Rleb_true; assumption. Qed.

Theorem lee_layer_outside (a Q mix : R) (wn : list R) :
  @lee_layer R RTNum false a Q mix wn = map (fun _ => 0) wn.
Proof. unfold lee_layer. apply map_ext. intros. rnum. reflexivity. Qed.

Theorem lee_layer_inside (a Q mix : R) (wn : list R) :
  @lee_layer R RTNum true a Q mix wn = map (fun w => @lee_sigma R RTNum a Q w * mix) wn.
Proof. unfold lee_layer. apply map_ext. intros. rnum. reflexivity. Qed.
