(* Proofs_C09.v — posterior summaries are the weighted statistics of the stored samples. *)
From Coq Require Import ZArith Reals List Bool Arith Lia Lra Permutation Sorting.Sorted.
From TV Require Import Num ListNum ListAux ListNumR SortR Proofs_C05 Proofs_C13 Proofs_C19 MovAvg Model_C09.
Import ListNotations.
Local Open Scope R_scope.

Definition nondecr (l : list R) : Prop := StronglySorted Rle l.

(* ---- numpy.interp is non-decreasing in the query for non-decreasing node values ---- *)
Lemma interp_in_lower (xp fp : list R) (x x0 f0 : R) :
  length fp = length xp -> hd_error xp = Some x0 -> x0 <= x -> hd_error fp = Some f0 -> nondecr fp ->
  f0 <= @interp_in R RNum xp fp x.
Proof. intros Hl Hx Hx0 Hf Hs.
  assert (Hb : f0 <= @interp_in R RNum xp fp x <= @lmax R RNum f0 fp).
  { apply interp_in_between; try assumption.
    - intros y Hy. rewrite Hx in Hy. injection Hy as <-. exact Hx0.
    - destruct fp as [|g fp]; [discriminate|]. cbn in Hf. injection Hf as <-.
      apply Forall_forall. intros y Hy. split; [|apply lmax_ge; exact Hy].
      destruct Hy as [<-|Hy]; [lra|]. inversion Hs as [|? ? _ Hall]; subst. rewrite Forall_forall in Hall. apply Hall. exact Hy.
    - destruct fp; discriminate. }
  lra. Qed.

Lemma interp_in_mono : forall (xp fp : list R) (x y : R),
  length fp = length xp -> nondecr xp -> nondecr fp ->
  (forall x0, hd_error xp = Some x0 -> x0 <= x) -> x <= y ->
  @interp_in R RNum xp fp x <= @interp_in R RNum xp fp y.
Proof. induction xp as [|x0 xp IH]; intros fp x y Hl Hsx Hsf Hx Hxy.
  - destruct fp; [cbn; lra|discriminate].
  - destruct fp as [|f0 fp]; [discriminate|].
    destruct xp as [|x1 xp]; [destruct fp; [cbn; lra|discriminate]|].
    destruct fp as [|f1 fp]; [discriminate|]. rewrite !interp_in_step.
    assert (Hx0 : x0 <= x) by (apply Hx; reflexivity).
    inversion Hsf as [|? ? Hsf' Hf0]; subst. inversion Hsx as [|? ? Hsx' _]; subst.
    assert (Hf01 : f0 <= f1) by (rewrite Forall_forall in Hf0; apply Hf0; left; reflexivity).
    destruct (Rltb x x1) eqn:Ex; destruct (Rltb y x1) eqn:Ey.
    + apply Rltb_true in Ex, Ey.
      assert (Hd : 0 < x1 - x0) by lra.
      assert ((x - x0) / (x1 - x0) <= (y - x0) / (x1 - x0)).
      { apply Rmult_le_compat_r; [left; apply Rinv_0_lt_compat; exact Hd|lra]. }
      nra.
    + apply Rltb_true in Ex. apply Rltb_false in Ey.
      assert (Hd : 0 < x1 - x0) by lra.
      assert (Ht : 0 <= (x - x0) / (x1 - x0) <= 1).
      { split; [apply Rmult_le_pos; [lra|left; apply Rinv_0_lt_compat; exact Hd]|].
        apply Rmult_le_reg_r with (x1 - x0); [exact Hd|]. unfold Rdiv. rewrite Rmult_assoc, Rinv_l by lra. lra. }
      assert (f0 + (f1 - f0) * ((x - x0) / (x1 - x0)) <= f1) by nra.
      assert (f1 <= @interp_in R RNum (x1 :: xp) (f1 :: fp) y).
      { apply (interp_in_lower _ _ y x1 f1); try reflexivity; try assumption. simpl in Hl. simpl. lia. }
      lra.
    + apply Rltb_false in Ex. apply Rltb_true in Ey. lra.
    + apply Rltb_false in Ex. apply IH; try assumption.
      * simpl in Hl. simpl. lia.
      * intros z Hz. injection Hz as <-. exact Ex. Qed.

Lemma nondecr_nth_last (l : list R) (i : nat) : nondecr l -> (i < length l)%nat ->
  nth i l 0 <= nth (length l - 1) l 0.
Proof. intros Hs Hi. apply Proofs_C05.sorted_nth_le; [exact Hs|lia]. Qed.

Theorem np_interp_mono (xp fp : list R) (x y : R) :
  length fp = length xp -> nondecr xp -> nondecr fp -> x <= y ->
  @np_interp R RNum xp fp x <= @np_interp R RNum xp fp y.
Proof. intros Hl Hsx Hsf Hxy. unfold np_interp.
  destruct xp as [|x0 xp]; [destruct fp; [lra|discriminate]|]. destruct fp as [|f0 fp]; [discriminate|]. rnum.
  set (xl := @nth_d R RNum (x0 :: xp) (length (x0 :: xp) - 1)).
  set (fl := @nth_d R RNum (f0 :: fp) (length (f0 :: fp) - 1)).
  assert (Hf0l : f0 <= fl).
  { unfold fl, nth_d. apply (nondecr_nth_last (f0 :: fp) 0 Hsf). simpl. lia. }
  assert (Hin_lo : forall z, x0 <= z -> f0 <= @interp_in R RNum (x0 :: xp) (f0 :: fp) z).
  { intros z Hz. apply (interp_in_lower _ _ z x0 f0); try reflexivity; assumption. }
  assert (Hin_hi : forall z, x0 <= z -> @interp_in R RNum (x0 :: xp) (f0 :: fp) z <= fl).
  { intros z Hz.
    assert (Hb : f0 <= @interp_in R RNum (x0 :: xp) (f0 :: fp) z <= fl).
    { apply interp_in_between; try assumption.
      - intros w Hw. injection Hw as <-. exact Hz.
      - apply Forall_forall. intros v Hv. apply (In_nth _ _ 0) in Hv. destruct Hv as [k [Hk <-]]. split.
        + replace f0 with (nth 0 (f0 :: fp) 0) by reflexivity.
          clear - Hsf Hk. revert k Hk. inversion Hsf as [|? ? _ Hall]; subst. intros [|k] Hk; [simpl; lra|].
          simpl. rewrite Forall_forall in Hall. apply Hall. apply nth_In. simpl in Hk. lia.
        + unfold fl, nth_d. apply nondecr_nth_last; assumption.
      - discriminate. }
    lra. }
  destruct (Rltb x x0) eqn:E1; destruct (Rltb y x0) eqn:E2;
    [apply Rltb_true in E1, E2|apply Rltb_true in E1; apply Rltb_false in E2
    |apply Rltb_false in E1; apply Rltb_true in E2|apply Rltb_false in E1, E2]; try lra.
  - destruct (Rleb xl y); [exact Hf0l|apply Hin_lo; lra].
  - destruct (Rleb xl x) eqn:E3; destruct (Rleb xl y) eqn:E4;
      [|apply Rleb_true in E3; apply Rleb_false in E4; lra| |]; try lra.
    + apply Hin_hi. lra.
    + apply interp_in_mono; try assumption. intros z Hz. injection Hz as <-. lra. Qed.

Lemma nondecr_div (l : list R) (t : R) : nondecr l -> 0 < t -> nondecr (map (fun v => @ndiv R RNum v t) l).
Proof. intros Hs Ht. induction Hs as [|v l Hs IH Hv]; cbn [map]; constructor; [exact IH|].
  apply Forall_forall. intros z Hz. apply in_map_iff in Hz. destruct Hz as [u [<- Hu]].
  rewrite Forall_forall in Hv. specialize (Hv u Hu). rnum.
  apply Rmult_le_compat_r; [left; apply Rinv_0_lt_compat; exact Ht|exact Hv]. Qed.

(* ---- quantiles ---- *)
Section Quantiles.
  Context (xs ws : list R).
  Context (Hlen : length ws = length xs) (Hne : xs <> []).
  Context (Hw : Forall (fun w => 0 <= w) ws).

  Notation sp := (@sorted_pairs R RNum xs ws).

  Lemma sp_length : length sp = length xs.
  Proof. unfold sorted_pairs. rewrite isort_length, combine_length, Hlen. apply Nat.min_id. Qed.

  Lemma sp_values_sorted : nondecr (map fst sp).
  Proof. unfold sorted_pairs. pose proof (isort_sorted (@fst R R) (combine xs ws)) as Hs.
    induction Hs as [|p l Hs IH Hp]; cbn [map]; constructor; [exact IH|].
    apply Forall_forall. intros v Hv. apply in_map_iff in Hv. destruct Hv as [q [<- Hq]].
    rewrite Forall_forall in Hp. apply (Hp q Hq). Qed.

  Lemma sp_values_perm : Permutation (map fst sp) xs.
  Proof. unfold sorted_pairs. rewrite <- (isort_perm (@fst R R) (combine xs ws)).
    replace (map fst (combine xs ws)) with xs; [reflexivity|].
    clear - Hlen. revert ws Hlen. induction xs as [|x l IH]; intros [|w ws'] H; simpl in H; try discriminate; [reflexivity|].
    cbn [combine map fst]. f_equal. apply IH. lia. Qed.

  Lemma sp_weights_nonneg : Forall (fun w => 0 <= w) (map snd sp).
  Proof. apply Forall_forall. intros w Hin. apply in_map_iff in Hin. destruct Hin as [p [<- Hp]].
    unfold sorted_pairs in Hp. apply (Permutation_in _ (Permutation_sym (isort_perm (@fst R R) (combine xs ws)))) in Hp.
    destruct p as [a b]. apply in_combine_r in Hp. rewrite Forall_forall in Hw. apply Hw. exact Hp. Qed.

  (* the cumulative weights are non-decreasing, and dividing by a positive total keeps that *)
  Lemma cumsum_from_nondecr (acc : R) (l : list R) : Forall (fun w => 0 <= w) l ->
    nondecr (@cumsum_from R RNum acc l) /\ Forall (fun v => acc <= v) (@cumsum_from R RNum acc l).
  Proof. revert acc. induction l as [|w l IH]; intros acc Hl; cbn [cumsum_from]; [split; constructor|].
    inversion Hl as [|? ? Hw0 Hl']; subst. destruct (IH (@nadd R RNum acc w) Hl') as [H1 H2]. rnum. split.
    - constructor; [exact H1|]. exact H2.
    - constructor; [lra|]. rewrite Forall_forall in *. intros v Hv. specialize (H2 v Hv). lra. Qed.

  Lemma cdf_nondecr : 0 < Rsum ws -> nondecr (@cdf_of R RNum sp).
  Proof. intros Htot. unfold cdf_of.
    destruct (cumsum_from_nondecr 0 (map snd sp) sp_weights_nonneg) as [Hc _].
    set (c := @cumsum R RNum (map snd sp)) in *. set (tot := @nth_d R RNum c (length c - 1)).
    assert (Htp : 0 < tot).
    { unfold tot, nth_d, c. rewrite MovAvg.nth_cumsum by (rewrite MovAvg.cumsum_length, map_length, sp_length; destruct xs; [congruence|simpl; lia]).
      rewrite MovAvg.cumsum_length, map_length.
      replace (S (length sp - 1)) with (length (map snd sp)) by (rewrite map_length, sp_length; destruct xs; [congruence|simpl; lia]).
      rewrite firstn_all.
      assert (Hp : Permutation (map snd sp) ws).
      { unfold sorted_pairs. rewrite <- (isort_perm (@fst R R) (combine xs ws)).
        replace (map snd (combine xs ws)) with ws; [reflexivity|].
        clear - Hlen. revert xs Hlen. induction ws as [|w l IH]; intros [|x xs'] H; simpl in H; try discriminate; [reflexivity|].
        cbn [combine map snd]. f_equal. apply IH. lia. }
      rewrite (Rsum_perm _ _ Hp). exact Htot. }
    apply nondecr_div; assumption. Qed.

  (* (b) the three quantiles are ordered and stay within the range of the samples *)
  Theorem quantiles_ordered (q1 q2 : R) : 0 < Rsum ws -> q1 <= q2 ->
    @quantile R RNum xs ws q1 <= @quantile R RNum xs ws q2.
  Proof. intros Htot Hq. unfold quantile. apply np_interp_mono; [| |exact sp_values_sorted|exact Hq].
    - unfold cdf_of. rewrite !map_length, MovAvg.cumsum_length, map_length. reflexivity.
    - apply cdf_nondecr. exact Htot. Qed.

  Theorem quantile_in_range (q m M : R) : Forall (fun x => m <= x <= M) xs ->
    m <= @quantile R RNum xs ws q <= M.
  Proof. intros Hr. unfold quantile. apply np_interp_between.
    - unfold cdf_of. rewrite !map_length, MovAvg.cumsum_length, map_length. reflexivity.
    - apply Forall_forall. intros v Hv. apply (Permutation_in _ sp_values_perm) in Hv.
      rewrite Forall_forall in Hr. apply Hr. exact Hv.
    - intro Hnil. apply (f_equal (@length R)) in Hnil. rewrite map_length, sp_length in Hnil.
      destruct xs; [congruence|discriminate]. Qed.
End Quantiles.

(* both error bars are non-negative *)
Theorem summary_errors_nonneg (xs ws : list R) : length ws = length xs -> xs <> [] ->
  Forall (fun w => 0 <= w) ws -> 0 < Rsum ws ->
  let '(v, sm, sp) := @summary R RNum xs ws in 0 <= sm /\ 0 <= sp.
Proof. intros Hl Hne Hw Htot. unfold summary. rnum.
  assert (H1 : @q16 R RNum <= @q50 R RNum) by (unfold q16, q50; rnum; lra).
  assert (H2 : @q50 R RNum <= @q84 R RNum) by (unfold q50, q84; rnum; lra).
  pose proof (quantiles_ordered xs ws Hl Hne Hw _ _ Htot H1).
  pose proof (quantiles_ordered xs ws Hl Hne Hw _ _ Htot H2). split; lra. Qed.

(* quantiles do not depend on the order of the samples (values pairwise distinct, weights moved along) *)
Theorem quantile_order_independent (ps ps' : list (R * R)) (q : R) :
  NoDup (map fst ps) -> Permutation ps ps' ->
  @quantile R RNum (map fst ps) (map snd ps) q = @quantile R RNum (map fst ps') (map snd ps') q.
Proof. intros Hnd Hp. unfold quantile, sorted_pairs.
  assert (Hc : forall l : list (R * R), combine (map fst l) (map snd l) = l).
  { induction l as [|[a b] l IH]; [reflexivity|]. cbn [map combine fst snd]. rewrite IH. reflexivity. }
  rewrite !Hc. rewrite (isort_order_independent (@fst R R) ps ps' Hnd Hp). reflexivity. Qed.

(* ---- MAP: the sample of greatest weight ---- *)
Lemma argmax_from_spec : forall (l : list R) (best i : nat) (bv : R) (pre : list R),
  i = length pre -> (best < i)%nat -> nth best pre 0 = bv -> Forall (fun w => w <= bv) pre ->
  let k := @argmax_from R RNum best bv i l in
  (k < length (pre ++ l))%nat /\ Forall (fun w => w <= nth k (pre ++ l) 0) (pre ++ l).
Proof. induction l as [|x l IH]; intros best i bv pre Hi Hb Hbv Hall; cbn [argmax_from].
  - rewrite app_nil_r. split; [lia|]. rewrite Hbv. exact Hall.
  - rnum. replace (pre ++ x :: l) with ((pre ++ [x]) ++ l) by (rewrite <- app_assoc; reflexivity).
    destruct (Rltb bv x) eqn:E.
    + apply Rltb_true in E. apply IH.
      * rewrite app_length. simpl. lia.
      * lia.
      * rewrite app_nth2 by lia. replace (i - length pre)%nat with 0%nat by lia. reflexivity.
      * apply Forall_app. split; [|constructor; [lra|constructor]].
        rewrite Forall_forall in *. intros w Hw. specialize (Hall w Hw). lra.
    + apply Rltb_false in E. apply IH.
      * rewrite app_length. simpl. lia.
      * lia.
      * rewrite app_nth1 by lia. exact Hbv.
      * apply Forall_app. split; [exact Hall|constructor; [exact E|constructor]]. Qed.

Theorem map_is_heaviest (trace ws : list R) : ws <> [] ->
  let k := @argmax R RNum ws in
  (k < length ws)%nat /\ Forall (fun w => w <= nth k ws 0) ws /\ @map_of R RNum trace ws = nth k trace 0.
Proof. intros Hne. destruct ws as [|w0 ws]; [congruence|]. cbn [argmax].
  pose proof (argmax_from_spec ws 0%nat 1%nat w0 [w0] eq_refl ltac:(lia) eq_refl) as H.
  specialize (H ltac:(constructor; [lra|constructor])). cbv zeta in H. cbn [app] in H.
  destruct H as [H1 H2]. repeat split; assumption. Qed.

(* ---- mean ---- *)
Theorem mean_is_weighted (trace ws : list R) :
  @wmean_of R RNum trace ws = Rsum (map2 (@nmul R RNum) ws trace) / Rsum ws.
Proof. reflexivity. Qed.

(* ---- placement by name ---- *)
Lemma index_of_some (names : list nat) (k i : nat) :
  @index_of names k = Some i -> (i < length names)%nat /\ nth i names 0%nat = k.
Proof. revert i. induction names as [|n names IH]; intros i H; cbn [index_of] in H; [discriminate|].
  destruct (Nat.eqb n k) eqn:E.
  - injection H as <-. apply Nat.eqb_eq in E. simpl. split; [lia|exact E].
  - destruct (@index_of names k) as [j|]; [|discriminate]. injection H as <-.
    destruct (IH j eq_refl) as [H1 H2]. simpl. split; [lia|exact H2]. Qed.

Lemma set_nth_spec {A} (l : list A) (i j : nat) (v d : A) : (i < length l)%nat ->
  nth j (@set_nth A l i v) d = if Nat.eqb j i then v else nth j l d.
Proof. revert i j. induction l as [|x l IH]; intros i j Hi; simpl in Hi; [lia|].
  destruct i as [|i]; destruct j as [|j]; cbn [set_nth nth Nat.eqb]; try reflexivity.
  apply IH. lia. Qed.

(* the summary of the parameter called k ends up at the position of k in the name list *)
Theorem place_single (names : list nat) (init : list R) (k : nat) (v : R) (i : nat) :
  length init = length names -> @index_of names k = Some i ->
  nth i (@place R names init [(k, v)]) 0 = v /\
  forall j, j <> i -> nth j (@place R names init [(k, v)]) 0 = nth j init 0.
Proof. intros Hl Hi. unfold place. cbn [fold_left fst snd]. rewrite Hi.
  destruct (index_of_some names k i Hi) as [Hlt _].
  split.
  - rewrite set_nth_spec by lia. rewrite Nat.eqb_refl. reflexivity.
  - intros j Hj. rewrite set_nth_spec by lia. destruct (Nat.eqb j i) eqn:E; [apply Nat.eqb_eq in E; congruence|reflexivity]. Qed.
