(* Exec_C09.v — executable wrappers (exact rationals) for the C09 correspondence check. *)
From Coq Require Import ZArith QArith List.
From TV Require Import Num ListNum Model_C09.
Import ListNotations.

(* per parameter column: [value; sigma_m; sigma_p; map; mean] *)
Definition run_summaries (samples : list (list Q)) (ws : list Q) (ndim : nat) : list (list (list Z)) :=
  map (fun i => let tr := @column Q QNum samples i in
                let '(v, sm, sp) := @summary Q QNum tr ws in
                [Qout v; Qout sm; Qout sp; Qout (@map_of Q QNum tr ws); Qout (@wmean_of Q QNum tr ws)])
      (seq 0 ndim).
