(* Exec_C15.v — executable wrappers for the C15 correspondence check. Strings are returned as lists of character
   codes so that the harness parses nothing but nested integer lists. *)
From Coq Require Import String List Bool Ascii ZArith.
From TV Require Import Model_C15.
Import ListNotations.
Local Open Scope string_scope.
Local Open Scope list_scope.

Fixpoint codes (s : string) : list Z :=
  match s with EmptyString => [] | String c r => Z.of_nat (nat_of_ascii c) :: codes r end.

(* a typed value: [tag] :: payload strings *)
Definition enc_val (v : tval) : list (list Z) :=
  match v with
  | TBool b => [[0%Z; if b then 1%Z else 0%Z]]
  | TNum s => [[1%Z]; codes s]
  | TStr s => [[2%Z]; codes s]
  | TListNum l => [3%Z] :: map codes l
  | TListStr l => [4%Z] :: map codes l
  | TComp n => [[5%Z]; codes n]
  | TDef r => [[6%Z]; codes r]
  end.
(* an object: class names, then one entry per constructor argument: key :: value *)
Definition obj := (list string * list (string * tval))%type.
Definition enc_obj (o : obj) : list (list (list Z)) :=
  map codes (fst o) :: map (fun kv => codes (fst kv) :: enc_val (snd kv)) (snd o).
Definition enc_err (e : err) : Z :=
  match e with EKey => 1 | ENotImpl => 2 | EType => 3 | EValue => 4 | EOther => 5 end%Z.
Definition status (ok : bool) (e : Z) : list (list (list Z)) := [[[if ok then 1%Z else 0%Z; e]]].

Definition out1 (r : res obj) : list (list (list (list Z))) :=
  match r with Ok o => [status true 0%Z; enc_obj o] | Err e => [status false (enc_err e)] end.
Definition out2 (r : res (obj * list obj)) : list (list (list (list Z))) :=
  match r with Ok (o, l) => status true 0%Z :: enc_obj o :: map enc_obj l | Err e => [status false (enc_err e)] end.

(* raw entries as read from the file -> typed by transform *)
Inductive rentry := RVal (v : sval) | RSub (l : list (string * sval)).
Definition typed (l : list (string * sval)) : list (string * tval) := map (fun kv => (fst kv, transform (snd kv))) l.
Definition typed_section (l : list (string * rentry)) : section :=
  map (fun kv => (fst kv, match snd kv with RVal v => EVal (transform v) | RSub s => ESub (typed s) end)) l.

