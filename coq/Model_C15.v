(* Model_C15.v — from an input file to the object graph
   (taurex/parameter/parameterparser.py : transform ; taurex/parameter/factory.py : generic_factory and the
    *_factory functions, determine_klass, get_keywordarg_dict, create_klass, create_profile, create_star / planet /
    optimizer / observation / instrument, create_chemistry, create_model, generate_contributions, create_prior ;
    taurex/mixin/core.py : determine_mixin_args, mixed_init).
   The registries (classes, their selector keywords and constructor signatures) are DATA: they are exported from the
   live ClassFactory on every run (Gen_C15.v) ; the decision logic below is what the theorems are about. *)
From Coq Require Import String List Bool Ascii Arith.
Import ListNotations.
Local Open Scope string_scope.
Local Open Scope list_scope.

(* ---------- strings ---------- *)
Definition lower_ascii (c : ascii) : ascii :=
  let n := nat_of_ascii c in
  if Nat.leb 65 n && Nat.leb n 90 then ascii_of_nat (n + 32) else c.
Fixpoint lower (s : string) : string :=
  match s with EmptyString => EmptyString | String c r => String (lower_ascii c) (lower r) end.
Definition mem (s : string) (l : list string) : bool := existsb (String.eqb s) l.

(* str.split('+') *)
Fixpoint split_plus_aux (s acc : string) : list string :=
  match s with
  | EmptyString => [acc]
  | String c r => if Ascii.eqb c "+"%char then acc :: split_plus_aux r EmptyString
                  else split_plus_aux r (String.append acc (String c EmptyString))
  end.
Definition split_plus (s : string) : list string := split_plus_aux s EmptyString.

(* ---------- values ---------- *)
(* raw scalar as read by configobj: text, and whether Python's float() accepts it (supplied by the harness) *)
Inductive sval := SStr (s : string) (isnum : bool) | SList (l : list (string * bool)).
(* typed value after ParameterParser.transform ; TComp = a component object injected by create_model ;
   TDef = a constructor default (its repr) *)
Inductive tval := TBool (b : bool) | TNum (s : string) | TStr (s : string)
                | TListNum (l : list string) | TListStr (l : list string)
                | TComp (name : string) | TDef (repr : string).

Definition truthy : list string := ["true"; "yes"; "yeah"; "yup"; "certainly"; "uh-huh"].
Definition falsy : list string := ["false"; "no"; "nope"; "no-way"; "hell-no"].

Definition transform (v : sval) : tval :=
  match v with
  | SList l => if forallb snd l then TListNum (map fst l) else TListStr (map fst l)
  | SStr s isnum =>
      if mem (lower s) truthy then TBool true
      else if mem (lower s) falsy then TBool false
      else if isnum then TNum s else TStr s
  end.

(* a section: scalar entries and sub-sections, in file order *)
Inductive entry := EVal (v : tval) | ESub (l : list (string * tval)).
Definition section := list (string * entry).

Definition scalars (c : section) : list (string * tval) :=
  flat_map (fun kv => match snd kv with EVal v => [(fst kv, v)] | ESub _ => [] end) c.
Definition subsections (c : section) : list (string * list (string * tval)) :=
  flat_map (fun kv => match snd kv with EVal _ => [] | ESub l => [(fst kv, l)] end) c.

Fixpoint lookup {A} (k : string) (l : list (string * A)) : option A :=
  match l with [] => None | (k', v) :: r => if String.eqb k k' then Some v else lookup k r end.
Definition remove_key {A} (k : string) (l : list (string * A)) : list (string * A) :=
  filter (fun kv => negb (String.eqb k (fst kv))) l.

(* ---------- classes ---------- *)
Record klass := {
  k_name : string;
  k_kws : option (list string);         (* input_keywords() ; None = raises / absent : the class is skipped *)
  k_params : list string;               (* every constructor parameter after self *)
  k_defaults : list (string * string);  (* the keyword parameters with the repr of their default *)
  k_varkw : bool;                       (* accepts arbitrary keyword arguments *)
  k_mixin_args : list (string * string) (* __init_mixin__ keyword parameters (mixin classes) *) }.

Definition claims (kw : string) (k : klass) : bool :=
  match k_kws k with Some l => mem kw l | None => false end.

(* generic_factory and every *_factory : the first class in iteration order that claims the keyword *)
Definition resolve (reg : list klass) (kw : string) : option klass := find (claims kw) reg.

(* no keyword is claimed by two classes of a registry *)
Fixpoint disjoint (reg : list klass) : bool :=
  match reg with
  | [] => true
  | k :: r => forallb (fun k' => match k_kws k with
                                 | Some l => forallb (fun kw => negb (claims kw k')) l
                                 | None => true end) r && disjoint r
  end.

Inductive err := EKey | ENotImpl | EType | EValue | EOther.
Inductive res (A : Type) := Ok (a : A) | Err (e : err).
Arguments Ok {A}. Arguments Err {A}.

(* what determine_klass selects *)
Inductive choice := Plain (k : klass) | Mixed (mixins : list klass) (base : klass) | Custom (k : klass).

Fixpoint resolve_all (reg : list klass) (kws : list string) : option (list klass) :=
  match kws with
  | [] => Some []
  | kw :: r => match resolve reg kw, resolve_all reg r with
               | Some k, Some ks => Some (k :: ks) | _, _ => None end
  end.

Fixpoint has_dup (l : list string) : bool :=
  match l with [] => false | x :: r => mem x r || has_dup r end.

(* determine_klass(config, field, factory, baseclass) on the scalar entries of a section.
   custom : the class found in the user's python_file (None = the file defines no such class) *)
Definition determine (reg mixreg : list klass) (custom : option klass) (field : string)
           (cfg : list (string * tval)) : res (list (string * tval) * choice) :=
  match lookup field cfg with
  | None => Err EKey
  | Some (TStr sel) =>
      let cfg1 := remove_key field cfg in
      let sel := lower sel in
      if String.eqb sel "custom" then
        match lookup "python_file" cfg1 with
        | None => Err EKey
        | Some _ => match custom with
                    | Some k => Ok (remove_key "python_file" cfg1, Custom k)
                    | None => Err EOther end
        end
      else
        match rev (split_plus sel) with
        | [] => Err ENotImpl
        | [one] => match resolve reg one with Some k => Ok (cfg1, Plain k) | None => Err ENotImpl end
        | base :: mixins_rev =>
            match resolve reg base, resolve_all mixreg (rev mixins_rev) with
            | Some b, Some ms =>
                (* type(name, bases, ...) refuses a base class that appears twice *)
                if has_dup (map k_name ms ++ [k_name b]) then Err EType else Ok (cfg1, Mixed ms b)
            | _, _ => Err ENotImpl
            end
        end
  | Some _ => Err EOther          (* bool / number has no .lower() : AttributeError *)
  end.

(* get_keywordarg_dict : the keyword parameters and their defaults.
   mixed class : determine_mixin_args over (mixins..., base) : a later class overrides an earlier default *)
Fixpoint dict_of (l : list (string * string)) (acc : list (string * string)) : list (string * string) :=
  match l with
  | [] => acc
  | (k, v) :: r => dict_of r (if mem k (map fst acc)
                              then map (fun kv => if String.eqb (fst kv) k then (k, v) else kv) acc
                              else acc ++ [(k, v)])
  end.
Definition kwargs_of (c : choice) : list (string * string) :=
  match c with
  | Plain k | Custom k => k_defaults k
  | Mixed ms b => dict_of (flat_map k_mixin_args ms ++ k_defaults b) []
  end.
Definition names_of (c : choice) : list string :=
  match c with Plain k | Custom k => [k_name k] | Mixed ms b => map k_name ms ++ [k_name b] end.

(* the class is then called with exactly its keyword parameters: a constructor that also has a parameter without a
   default cannot be built from an input file at all (Python: missing required argument) *)
Definition missing_required (c : choice) : bool :=
  match c with
  | Plain k | Custom k => existsb (fun p => negb (mem p (map fst (k_defaults k)))) (k_params k)
  | Mixed _ _ => false
  end.

(* create_klass : strict — an unknown key is a KeyError ; otherwise defaults overridden by the given values *)
Definition apply_args (defaults : list (string * string)) (cfg : list (string * tval)) : list (string * tval) :=
  map (fun d => (fst d, match lookup (fst d) cfg with Some v => v | None => TDef (snd d) end)) defaults.
Definition create_strict (c : choice) (cfg : list (string * tval)) : res (list string * list (string * tval)) :=
  let kw := kwargs_of c in
  if forallb (fun kv => mem (fst kv) (map fst kw)) cfg then
    if missing_required c then Err EType else Ok (names_of c, apply_args kw cfg)
  else Err EKey.

(* klass called with the section as keyword arguments : Python's own binding — unknown name or missing required parameter is a TypeError.
   A mixed class has __init__(self, **kwargs) and accepts anything. *)
Definition create_loose (c : choice) (cfg : list (string * tval)) : res (list string * list (string * tval)) :=
  match c with
  | Mixed _ _ => Ok (names_of c, cfg)
  | Plain k | Custom k =>
      let required := filter (fun p => negb (mem p (map fst (k_defaults k)))) (k_params k) in
      if (k_varkw k || forallb (fun kv => mem (fst kv) (k_params k)) cfg)
         && forallb (fun p => mem p (map fst cfg)) required
      then Ok ([k_name k], apply_args (k_defaults k) cfg ++
                           filter (fun kv => negb (mem (fst kv) (map fst (k_defaults k)))) cfg)
      else Err EType
  end.

(* create_profile (Temperature, Pressure, Chemistry, Gas) *)
Definition create_profile (reg mixreg : list klass) (custom : option klass) (field : string)
           (cfg : list (string * tval)) : res (list string * list (string * tval)) :=
  match determine reg mixreg custom field cfg with
  | Err e => Err e
  | Ok (cfg1, c) => create_strict c cfg1
  end.

(* create_star / optimizer / observation / instrument ; create_planet first defaults planet_type to simple *)
Definition create_direct (reg mixreg : list klass) (custom : option klass) (field : string)
           (cfg : list (string * tval)) : res (list string * list (string * tval)) :=
  match determine reg mixreg custom field cfg with
  | Err e => Err e
  | Ok (cfg1, c) => create_loose c cfg1
  end.
Definition create_planet (reg mixreg : list klass) (custom : option klass) (cfg : list (string * tval)) :=
  create_direct reg mixreg custom "planet_type"
    (match lookup "planet_type" cfg with Some _ => cfg | None => cfg ++ [("planet_type", TStr "simple")] end).

(* create_chemistry : every sub-section is a gas (molecule_name = its header), the rest builds the chemistry *)
Fixpoint all_ok {A} (l : list (res A)) : res (list A) :=
  match l with
  | [] => Ok []
  | Err e :: _ => Err e
  | Ok a :: r => match all_ok r with Ok l' => Ok (a :: l') | Err e => Err e end
  end.
Definition create_chemistry (chemreg chemmix gasreg gasmix : list klass) (custom : option klass) (c : section)
  : res ((list string * list (string * tval)) * list (list string * list (string * tval))) :=
  match all_ok (map (fun g => create_profile gasreg gasmix None "gas_type"
                                (snd g ++ [("molecule_name", TStr (fst g))])) (subsections c)) with
  | Err e => Err e
  | Ok gases => match create_profile chemreg chemmix custom "chemistry_type" (scalars c) with
                | Err e => Err e
                | Ok ch => Ok (ch, gases)
                end
  end.

(* generate_contributions : sub-sections in file order ; the header is matched case-sensitively *)
Definition contributions (creg : list klass) (c : section)
  : res (list (list string * list (string * tval))) :=
  match all_ok (map (fun s => match resolve creg (fst s) with
                              | Some k => create_strict (Plain k) (snd s)
                              | None => Err EOther end) (subsections c)) with
  | Err e => Err e
  | Ok l => Ok l
  end.

(* create_model : defaults, then the built components where the constructor names them, then every scalar key *)
Definition components : list string :=
  ["planet"; "star"; "chemistry"; "temperature_profile"; "pressure_profile"; "observation"].
Definition create_model (mreg mmix creg : list klass) (custom : option klass) (c : section)
  : res ((list string * list (string * tval)) * list (list string * list (string * tval))) :=
  match determine mreg mmix custom "model_type" (scalars c) with
  | Err e => Err e
  | Ok (cfg1, ch) =>
      let kw := kwargs_of ch in
      let injected := map (fun d => (fst d, if mem (fst d) components then TComp (fst d) else TDef (snd d))) kw in
      let given := cfg1 in
      let merged := map (fun d => (fst d, match lookup (fst d) given with Some v => v | None => snd d end)) injected
                    ++ filter (fun kv => negb (mem (fst kv) (map fst kw))) given in
      let accepts := match ch with
                     | Mixed _ _ => true
                     | Plain k | Custom k => k_varkw k || forallb (fun kv => mem (fst kv) (k_params k)) merged
                     end in
      if negb accepts then Err EType
      else match contributions creg c with
           | Err e => Err e
           | Ok cs => Ok ((names_of ch, merged), cs)
           end
  end.

(* create_prior : the class whose name, lower-cased name or upper-cased name is the given one *)
Fixpoint upper (s : string) : string :=
  match s with
  | EmptyString => EmptyString
  | String c r => let n := nat_of_ascii c in
                  String (if Nat.leb 97 n && Nat.leb n 122 then ascii_of_nat (n - 32) else c) (upper r)
  end.
Definition prior_matches (name : string) (k : klass) : bool :=
  String.eqb name (k_name k) || String.eqb name (lower (k_name k)) || String.eqb name (upper (k_name k)).
Definition create_prior (preg : list klass) (name : string) (args : list (string * tval))
  : res (list string * list (string * tval)) :=
  match find (prior_matches name) preg with
  | None => Err EValue
  | Some k => create_loose (Plain k) args
  end.

(* ---- what ParameterParser adds around the factories ---- *)
(* generate_instrument: num_observations is taken out first; `instrument = snr / signalnoise` is built by the parser
   itself (SNR, default 10) and, like every other component, refuses keys it does not know *)
Definition parser_instrument (reg mix : list klass) (custom : option klass) (cfg : list (string * tval)) : res (list string * list (string * tval)) :=
  let cfg1 := remove_key "num_observations" cfg in
  match lookup "instrument" cfg1 with
  | Some (TStr s) =>
      if mem (lower s) ["snr"; "signalnoise"] then
        if forallb (fun kv => mem (fst kv) ["instrument"; "SNR"]) cfg1
        then Ok (["SNRInstrument"], [("SNR", match lookup "SNR" cfg1 with Some v => v | None => TDef "10" end);
                                     ("binner", TComp "binner")])
        else Err EKey
      else create_direct reg mix custom "instrument" cfg1
  | Some _ => Err EOther
  | None => create_direct reg mix custom "instrument" cfg1
  end.

(* generate_observation: the four direct file keys in their order of precedence, else the `observation` selector *)
Definition obs_keys : list (string * string) :=
  [("lightcurve", "ObservedLightCurve"); ("observed_spectrum", "ObservedSpectrum");
   ("taurex_spectrum", "TaurexSpectrum"); ("iraclis_spectrum", "IraclisSpectrum")].
Definition parser_observation (reg mix : list klass) (custom : option klass) (cfg : list (string * tval)) : res (list string * list (string * tval)) :=
  match find (fun kc => match lookup (fst kc) cfg with Some _ => true | None => false end) obs_keys with
  | Some (key, cls) =>
      if forallb (fun kv => String.eqb (fst kv) key) cfg then
        match lookup key cfg with
        | Some (TStr "self") => if String.eqb key "taurex_spectrum" then Ok (["self"], [])
                                else Ok ([cls], [("filename", TStr "self")])
        | Some v => Ok ([cls], [("filename", v)])
        | None => Err EOther
        end
      else Err EKey
  | None => create_direct reg mix custom "observation" cfg
  end.
