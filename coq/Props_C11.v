(* Props_C11.v — C11: vertical structure is hydrostatic, ordered and one value per layer. *)
From Coq Require Import Reals List Lra Lia Sorting.Sorted.
From TV Require Import Num ListNum ListNumR Model_C11 Proofs_C11 Model_C11a Proofs_C11a.
From TV Require Import NumIv Reflect.
Import ListNotations.
Local Open Scope R_scope.

(* (a) the log-spaced levels run from 10^lmax at the surface to 10^lmin at the top and decrease strictly *)
Theorem C11_levels_decreasing : forall (lmin lmax : R) (n i j : nat),
  lmin < lmax -> (0 < n)%nat -> (i < j <= n)%nat ->
  nth j (@levels R RTNum lmin lmax n) 0 < nth i (@levels R RTNum lmin lmax n) 0.
Proof. exact levels_decreasing. Qed.
Print Assumptions C11_levels_decreasing.

Theorem C11_level_ends : forall (lmin lmax : R) (n : nat), (0 < n)%nat ->
  @level_asc R RTNum lmin lmax n 0 = @npow10 R RTNum lmin /\
  @level_asc R RTNum lmin lmax n n = @npow10 R RTNum lmax.
Proof. exact level_ends. Qed.
Print Assumptions C11_level_ends.

Theorem C11_levels_count : forall lmin lmax n, length (@levels R RTNum lmin lmax n) = S n.
Proof. exact levels_length. Qed.
Print Assumptions C11_levels_count.

(* each layer pressure P_i sqrt(P_{i+1}/P_i) is the geometric mean of its levels, strictly between them *)
Theorem C11_layer_pressure : forall (p q : R), 0 < q < p ->
  p * sqrt (q / p) = sqrt (p * q) /\ q < p * sqrt (q / p) < p.
Proof. exact layer_pressure_geometric. Qed.
Print Assumptions C11_layer_pressure.

(* (b) for ANY strictly decreasing positive levels and positive temperatures / molecular weights:
   every layer has g = GM/(R+z)^2, H = kT/(mu g), dz = H ln(P_lower/P_upper) > 0, and the next
   boundary is z + dz, starting from z = 0 at the surface *)
Theorem C11_hydrostatic : forall (GM Rp k : R), 0 < GM -> 0 < Rp -> 0 < k ->
  forall (Ts ms : list R) (P0 : R) (Prest : list R),
  decreasing_pos P0 Prest -> length Ts = length Prest -> length ms = length Prest ->
  Forall (fun t => 0 < t) Ts -> Forall (fun m => 0 < m) ms ->
  let o := @scale_properties R RTNum GM Rp k Ts ms (P0 :: Prest) in
  hydro_ok GM Rp k 0 P0 Prest Ts ms (fst o) (snd o).
Proof. exact scale_properties_hydrostatic. Qed.
Print Assumptions C11_hydrostatic.

(* hence: one row per layer; boundary altitudes start at 0 and increase strictly *)
Theorem C11_one_row_per_layer : forall GM Rp k Pnext Ts ms z Pj rows zf,
  hydro_ok GM Rp k z Pj Pnext Ts ms rows zf -> length rows = length Pnext.
Proof. exact hydro_ok_length. Qed.
Print Assumptions C11_one_row_per_layer.

Theorem C11_altitudes_increase : forall GM Rp k Pnext Ts ms z Pj rows zf,
  hydro_ok GM Rp k z Pj Pnext Ts ms rows zf ->
  StronglySorted Rlt (@altitude_boundaries R (rows, zf)) /\
  hd 0 (@altitude_boundaries R (rows, zf)) = z /\
  Forall (fun a => z <= a) (@altitude_boundaries R (rows, zf)).
Proof. exact hydro_ok_altitudes. Qed.
Print Assumptions C11_altitudes_increase.

(* number density is P/(kT), one value per layer *)
Theorem C11_density : forall (k : R) (P Ts : list R) (i : nat), (i < length P)%nat -> (i < length Ts)%nat ->
  nth i (@density R RTNum k P Ts) 0 = nth i P 0 / (k * nth i Ts 0).
Proof. exact density_formula. Qed.
Print Assumptions C11_density.

Theorem C11_density_count : forall (k : R) (P Ts : list R), length Ts = length P ->
  length (@density R RTNum k P Ts) = length P.
Proof. exact density_length. Qed.
Print Assumptions C11_density_count.

(* the executed (interval) instance of the hydrostatic recurrence encloses the real-number instance, layer by layer
   (altitude, scale height, gravity, thickness) and for the top altitude, when the real side is defined in every layer
   (Reflect.layers_def: non-zero radius, mass x gravity and pressure, positive pressure ratio) *)
Theorem C11_layers_enclosed : forall GMI GM RI R0 kI k,
  encloses GMI GM -> encloses RI R0 -> encloses kI k ->
  forall PnI PnR, encl_list PnI PnR -> forall TsI TsR, encl_list TsI TsR -> forall msI msR, encl_list msI msR ->
  forall zI z PjI Pj, encloses zI z -> encloses PjI Pj -> layers_def GM R0 k z Pj PnR TsR msR ->
  Forall2 encl_row (fst (@layers _ IvTNum GMI RI kI zI PjI PnI TsI msI)) (fst (@layers R RTNum GM R0 k z Pj PnR TsR msR))
  /\ encloses (snd (@layers _ IvTNum GMI RI kI zI PjI PnI TsI msI)) (snd (@layers R RTNum GM R0 k z Pj PnR TsR msR)).
Proof. exact layers_transfer. Qed.
Print Assumptions C11_layers_enclosed.

(* ---- array pressure profile (ArrayPressureProfile.compute_pressure_profile), in log10 space ---------------------
   n layer pressures give n+1 levels; for strictly decreasing layer pressures whose neighbouring log-spacings differ by
   less than a factor three, every layer lies strictly between its two levels and the levels decrease strictly. The
   factor is sharp for the centred differences the code uses: the proof needs exactly  upper spacing < 3 x lower. *)
Theorem C11_array_levels_count : forall (l : list R), length (@array_loglevels R RNum l) = S (length l).
Proof. exact array_levels_length. Qed.
Print Assumptions C11_array_levels_count.

Theorem C11_array_levels_bracket : forall (l : list R), (2 <= length l)%nat -> decreasing l -> spacing3 l ->
  forall i, (i < length l)%nat ->
  nth (S i) (@array_loglevels R RNum l) 0 < @nth_d R RNum l i < nth i (@array_loglevels R RNum l) 0.
Proof. intros l Hn Hd Hs i Hi. rewrite !array_levels_nth by lia. apply array_levels_bracket; assumption. Qed.
Print Assumptions C11_array_levels_bracket.

Theorem C11_array_levels_decreasing : forall (l : list R), (2 <= length l)%nat -> decreasing l -> spacing3 l ->
  forall i, (i < length l)%nat ->
  nth (S i) (@array_loglevels R RNum l) 0 < nth i (@array_loglevels R RNum l) 0.
Proof. intros l Hn Hd Hs i Hi. rewrite !array_levels_nth by lia. apply array_levels_decreasing; assumption. Qed.
Print Assumptions C11_array_levels_decreasing.

(* non-vacuity: three layers with spacings 1 and 2 *)
Example C11_array_premises_hold : decreasing [6; 5; 3] /\ spacing3 [6; 5; 3].
Proof.
  split; intros i Hi; cbn [length] in Hi.
  - destruct i as [|[|i]]; unfold nth_d; cbn [nth]; try lra; lia.
  - destruct i as [|i]; unfold nth_d; cbn [nth]; try lra; lia.
Qed.
