(* Proofs_C16.v — output files hold what was computed and reload to the same model. *)
From Coq Require Import String List Bool Arith ZArith Lia Reals Lra.
From TV Require Import Num ListNum ListAux ListNumR Model_C16.
Import ListNotations.
Local Open Scope string_scope.
Local Open Scope list_scope.

(* ---------------- (A) the dictionary writer ------------------------------------ *)
Lemma lookup_map {A B} (f : A -> B) (k : string) (l : list (string * A)) :
  lookup k (map (fun kv => (fst kv, f (snd kv))) l) = option_map f (lookup k l).
Proof. induction l as [|[k' v] r IH]; [reflexivity|]. cbn [map fst snd lookup].
  destruct (String.eqb k k'); [reflexivity|exact IH]. Qed.

(* every nested name of the dictionary is a nested name of the file, and holds the stored form of the same entry;
   names that are not in the dictionary are not in the file *)
Theorem store_path (p : list string) (i : item) :
  get_node p (store i) = option_map store (get_item p i).
Proof. revert i. induction p as [|k r IH]; intros i; [reflexivity|].
  destruct i as [l|d]; [reflexivity|]. cbn [store get_node get_item].
  rewrite (lookup_map store). destruct (lookup k d) as [x|]; [apply IH|reflexivity]. Qed.

Lemma take_str_all (n : nat) (s : string) : String.length s <= n -> take_str n s = s.
Proof. revert n. induction s as [|c r IH]; intros n H; [destruct n; reflexivity|].
  destruct n as [|n]; [simpl in H; lia|]. cbn [take_str]. rewrite IH by (simpl in H; lia). reflexivity. Qed.

Lemma width_covers (l : list string) (s : string) : In s l -> String.length s <= width_of l.
Proof. unfold width_of. induction l as [|x r IH]; intros H; [destruct H|]. cbn [map fold_right].
  destruct H as [->|H]; [lia|]. specialize (IH H). lia. Qed.

(* arrays, scalars and strings come back unchanged (a list or tuple of numbers as the array of its elements) *)
Theorem values_unchanged (l : leaf) : value_of_dset (store_leaf l) = value_of_leaf l.
Proof. destruct l as [q|dims data|s|t l|t l]; try reflexivity. cbn [store_leaf value_of_dset value_of_leaf].
  rewrite map_length. f_equal. transitivity (map (fun s : string => s) l); [|apply map_id].
  apply map_ext_in. intros s Hs. apply take_str_all. apply width_covers. exact Hs. Qed.

Theorem stored_under_same_name (p : list string) (i : item) (l : leaf) :
  get_item p i = Some (Leaf l) ->
  exists d, get_node p (store i) = Some (NData d) /\ value_of_dset d = value_of_leaf l.
Proof. intros H. exists (store_leaf l). rewrite store_path, H. split; [reflexivity|apply values_unchanged]. Qed.

Theorem nothing_else_stored (p : list string) (i : item) :
  get_item p i = None -> get_node p (store i) = None.
Proof. intros H. rewrite store_path, H. reflexivity. Qed.

(* a fixed width below the longest element would not be enough: with width 64 a 65-character name is cut *)
Example fixed_width_64_truncates :
  let s := "aaaaaaaaaaaaaaaaaaaaaaaaaaaaaaaaaaaaaaaaaaaaaaaaaaaaaaaaaaaaaaaaX" in
  String.length s = 65 /\ take_str 64 s <> s.
Proof. cbv zeta. split; [reflexivity|]. intros H. apply (f_equal String.length) in H. discriminate. Qed.

(* ---------------- (B) spectrum dictionaries -------------------------------------- *)
Theorem native_tau_iff (b : bkind) (sz : Z) : In "native_tau" (spectrum_keys b sz) <-> (light < sz)%Z.
Proof. unfold spectrum_keys. destruct b; destruct (Z.ltb_spec light sz) as [H|H];
    try (destruct (Z.ltb_spec lighter sz) as [H1|H1]); unfold light, lighter in *; cbn; split; intros H0; try lia;
    repeat (destruct H0 as [H0|H0]; [discriminate|]); try contradiction; auto 20. Qed.

Theorem binned_tau_iff (b : bkind) (sz : Z) :
  In "binned_tau" (spectrum_keys b sz) <-> (b <> BNative /\ (lighter < sz)%Z).
Proof. unfold spectrum_keys. destruct b; destruct (Z.ltb_spec lighter sz) as [H1|H1];
    try (destruct (Z.ltb_spec light sz) as [H|H]); unfold light, lighter in *; cbn; split; intros H0;
    try (destruct H0 as [Ha Hb]; try contradiction; lia);
    try (repeat (destruct H0 as [H0|H0]; [discriminate|]); contradiction);
    try (split; [discriminate|lia]); auto 20. Qed.

Theorem spectrum_always_present (b : bkind) (sz : Z) :
  In "native_wngrid" (spectrum_keys b sz) /\ In "native_wlgrid" (spectrum_keys b sz) /\
  In "native_spectrum" (spectrum_keys b sz) /\
  (b <> BNative -> In "binned_spectrum" (spectrum_keys b sz) /\ In "binned_wngrid" (spectrum_keys b sz) /\
                   In "binned_wlgrid" (spectrum_keys b sz) /\ In "binned_wnwidth" (spectrum_keys b sz) /\
                   In "binned_wlwidth" (spectrum_keys b sz)).
Proof. unfold spectrum_keys. destruct b; destruct (Z.ltb lighter sz); destruct (Z.ltb light sz); cbn;
    repeat split; auto 20; intros H; try contradiction; repeat split; auto 20. Qed.

(* the three named sizes *)
Example named_sizes :
  spectrum_keys BFlux heavy = ["native_wngrid"; "native_wlgrid"; "native_spectrum"; "binned_spectrum"; "native_wnwidth";
                               "native_wlwidth"; "binned_tau"; "native_tau"; "binned_wngrid"; "binned_wlgrid";
                               "binned_wnwidth"; "binned_wlwidth"] /\
  ~ In "native_tau" (spectrum_keys BFlux light) /\ In "binned_tau" (spectrum_keys BFlux light) /\
  ~ In "binned_tau" (spectrum_keys BFlux lighter) /\
  (* the per-contribution dictionaries get size - 3 : only `heavy` keeps (binned) optical depths there *)
  In "binned_tau" (spectrum_keys BFlux (heavy - 3)) /\ ~ In "native_tau" (spectrum_keys BFlux (heavy - 3)) /\
  ~ In "binned_tau" (spectrum_keys BFlux (light - 3)) /\ ~ In "binned_tau" (spectrum_keys BFlux (lighter - 3)).
Proof. cbn. repeat split; auto 20; intros H; repeat (destruct H as [H|H]; [discriminate|]); exact H. Qed.

Local Open Scope R_scope.
(* wavelength grids are 10000 / wavenumber; the binned wavelength width is the wavenumber width of the SAME bin
   converted at its centre; converting back at the wavelength centre returns the wavenumber width *)
Theorem grids_consistent (wn w : list R) (k : nat) : (k < length wn)%nat -> length w = length wn ->
  nth k (@wl_of R RNum wn) 0 = 10000 / nth k wn 0 /\
  nth k (@wlwidth_of R RNum wn w) 0 = 10000 * nth k w 0 / (nth k wn 0 * nth k wn 0) /\
  length (@wl_of R RNum wn) = length wn /\ length (@wlwidth_of R RNum wn w) = length wn.
Proof. intros Hk Hl. unfold wl_of, wlwidth_of, c10000. repeat split.
  - rewrite (map_nth_lt _ wn 0 0 k Hk). rnum. reflexivity.
  - assert (Hg : forall (a b : list R) i, (i < length a)%nat -> (i < length b)%nat ->
                 nth i (map2 (fun g x : R => (nofZ 10000 * x / (g * g))%num) a b) 0 =
                 (nofZ 10000 * nth i b 0 / (nth i a 0 * nth i a 0))%num).
    { induction a as [|x a IH]; intros b i Ha Hb; [simpl in Ha; lia|]. destruct b as [|y b]; [simpl in Hb; lia|].
      destruct i as [|i]; [reflexivity|]. cbn [map2 nth]. apply IH; cbn [length] in *; lia. }
    rewrite Hg by lia. rnum. reflexivity.
  - apply map_length.
  - rewrite map2_length. rewrite Hl. apply Nat.min_id. Qed.

Theorem width_conversion_inverts (g w : R) : g <> 0 ->
  let wl := 10000 / g in let wlw := 10000 * w / (g * g) in 10000 * wlw / (wl * wl) = w.
Proof. intros Hg. cbv zeta. field. exact Hg. Qed.
Local Close Scope R_scope.

(* ---------------- (C) rebuilding a component ---------------------------------------- *)
Section LoadProofs.
  Context {V : Type}.

  Lemma lookup_app (k : string) (a b : list (string * V)) :
    lookup k (a ++ b) = match lookup k a with Some v => Some v | None => lookup k b end.
  Proof. induction a as [|[k' v] r IH]; [reflexivity|]. cbn [app lookup]. destruct (String.eqb k k'); [reflexivity|exact IH]. Qed.

  Lemma lookup_flat (kwargs : list string) (stored : list (string * V)) (k : string) :
    lookup k (flat_map (fun kw => match lookup kw stored with Some v => [(kw, v)] | None => [] end) kwargs) =
    if mem k kwargs then lookup k stored else None.
  Proof. induction kwargs as [|kw r IH]; [reflexivity|]. cbn [flat_map]. rewrite lookup_app. unfold mem. cbn [existsb].
    destruct (lookup kw stored) as [v|] eqn:E; cbn [lookup].
    - destruct (String.eqb_spec k kw) as [->|Hne]; [rewrite E; reflexivity|]. cbn [orb]. exact IH.
    - destruct (String.eqb_spec k kw) as [->|Hne]; cbn [orb].
      + rewrite IH, E. destruct (mem kw r); reflexivity.
      + exact IH. Qed.

  (* a stored constructor keyword comes back with its stored value; one that is not stored does not come back at
     all (the constructor default is used instead) *)
  Theorem load_args_spec (kwargs : list string) (stored premade : list (string * V)) (k : string) :
    lookup k premade = None ->
    lookup k (load_args kwargs stored premade []) = if mem k kwargs then lookup k stored else None.
  Proof. intros Hp. unfold load_args. rewrite lookup_app, Hp.
    rewrite <- lookup_flat. reflexivity. Qed.

  (* if write() stores every constructor keyword under its own name, the rebuilt component receives exactly the
     values the original was written with *)
  Theorem complete_write_reloads (kwargs written : list string) (orig : string -> V) (k : string) :
    complete kwargs written = true -> In k kwargs ->
    lookup k (load_args kwargs (map (fun w => (w, orig w)) written) [] []) = Some (orig k).
  Proof. intros Hc Hk. rewrite load_args_spec by reflexivity.
    assert (Hm : mem k kwargs = true). { unfold mem. apply existsb_exists. exists k. split; [exact Hk|apply String.eqb_refl]. }
    rewrite Hm. unfold complete in Hc. rewrite forallb_forall in Hc. specialize (Hc k Hk).
    unfold mem in Hc. apply existsb_exists in Hc. destruct Hc as [x [Hx E]]. apply String.eqb_eq in E. subst x.
    clear - Hx. induction written as [|w r IH]; [destruct Hx|]. cbn [map lookup].
    destruct (String.eqb_spec k w) as [->|Hne]; [reflexivity|]. destruct Hx as [->|Hx]; [contradiction|]. apply IH. exact Hx. Qed.

  Theorem unwritten_keyword_is_lost (kwargs : list string) (stored premade : list (string * V)) (k : string) :
    lookup k premade = None -> lookup k stored = None -> lookup k (load_args kwargs stored premade []) = None.
  Proof. intros Hp Hs. rewrite load_args_spec by exact Hp. rewrite Hs. destruct (mem k kwargs); reflexivity. Qed.
End LoadProofs.
