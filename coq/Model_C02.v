(* Model_C02.v — emission / direct-image forward model, cross-section path
   (taurex/model/emission.py : evaluate_emission, path_integral, compute_final_flux ;
    taurex/model/directimage.py : compute_final_flux ; taurex/util/emission.py : black_body).
   One wavenumber at a time except for the saturation clamp, which looks at the minimum over
   all wavenumbers. *)
From Coq Require Import ZArith List Bool Arith.
From TV Require Import Num ListNum Model_C01 Model_C20.
Import ListNotations.

Section Planck.
  Context {T : Type} {N : TNum T}.
  Local Open Scope num_scope.

  (* black_body(wn, temp) with the constants handed in: h (Planck), c (speed of light), k (Boltzmann)
       wl = 10000e-6 / wn ;  pi * 2 h c^2 / wl^5 / (exp(h c / (wl k temp)) - 1) * 1e-6 *)
  Definition micro : T := n1 / nofZ 1000000.
  Definition planck (h c k wn temp : T) : T :=
    let wl := nofZ 10000 * micro / wn in
    (npi * (n2 * h * (c * c)) / (wl * wl * wl * wl * wl))
    * (n1 / (nexp (h * c / (wl * k * temp)) - n1)) * micro.
End Planck.

Section Vertical.
  Context {T : Type} {N : Num T}.
  Local Open Scope num_scope.

  (* vertical optical depth of each layer for one source at one wavenumber:
     contribute(layer, layer+1, 0, 0, density, dtau, path_length=dz) adds sigma[l] * dz[l] * rho[l](^2) *)
  Definition delta_of (c : @contrib T) (rho dz : list T) (l w : nat) : T :=
    match c with
    | Sig sq sigma => let d := nth_d rho l in
                      sig_at sigma l w * nth_d dz l * (if sq then d * d else d)
    | Cloud _ => n0
    end.
  Definition delta (cs : list (@contrib T)) (rho dz : list T) (l w : nat) : T :=
    nsum (map (fun c => delta_of c rho dz l w) cs).
  (* per wavenumber: the list over layers *)
  Definition deltas (cs : list (@contrib T)) (rho dz : list T) (w : nat) : list T :=
    map (fun l => delta cs rho dz l w) (seq 0 (length rho)).

  (* optical depth above layer l:  sum_{k > l} delta_k   (= layer_tau) *)
  Definition above (d : list T) (l : nat) : T := nsum (skipn (S l) d).
  (* dtau of the code = layer_tau + the layer itself *)
  Definition upto (d : list T) (l : nat) : T := above d l + nth_d d l.

  (* the clamp: the exponential is only taken when the minimum over wavenumbers is below 10 *)
  Definition clamp_flag (vals : list T) : bool :=
    match vals with [] => false | x :: r => negb (lmin x vals <? nofZ 10) end.
End Vertical.

Section Emission.
  Context {T : Type} {N : TNum T}.
  Local Open Scope num_scope.

  Definition att (clamped : bool) (t m : T) : T := if clamped then n0 else nexp (- (t * m)).

  (* intensity at one wavenumber and one emission angle (m = 1/mu).
     B : B(T_l)/pi per layer;  d : vertical optical depth of each layer at this wavenumber;
     cA, cD : clamp flags of layer_tau and dtau per layer *)
  Definition intensity (B d : list T) (cA cD : list bool) (m : T) : T :=
    nth_d B 0 * nexp (- (nsum d * m))
    + nsum (map (fun l => nth_d B l * (att (nth l cA false) (above d l) m
                                       - att (nth l cD false) (upto d l) m))
                (seq 0 (length d))).

  (* everything for one model: per angle, per wavenumber intensities and the final spectrum.
     mus, wts : the quadrature nodes mu_i = (x_i+1)/2 and weights w_i/2 *)
  Definition emission_I (h c k : T) (wn Tl : list T) (cs : list (@contrib T)) (rho dz : list T)
    (mus : list T) : list (list T) :=
    let m := length wn in
    let ds := map (fun w => deltas cs rho dz w) (seq 0 m) in          (* [wn][layer] *)
    let n := length rho in
    let cA := map (fun l => clamp_flag (map (fun d => above d l) ds)) (seq 0 n) in
    let cD := map (fun l => clamp_flag (map (fun d => upto d l) ds)) (seq 0 n) in
    map (fun mu =>
           map (fun w => intensity (map (fun t => planck h c k (nth_d wn w) t / npi) Tl)
                                   (nth w ds []) cA cD (n1 / mu))
               (seq 0 m))
        mus.

  (* flux_total = 2 pi sum_i I_i * (w_i / _mu_i) with _mu_i = 1/mu_i *)
  Definition flux (Is : list (list T)) (mus wts : list T) (w : nat) : T :=
    n2 * npi * nsum (map2 (fun Ii mw => nth_d Ii w * (snd mw / (n1 / fst mw))) Is (combine mus wts)).

  (* eclipse: (flux / stellar black body) * (Rp/Rs)^2 *)
  Definition eclipse (fl star_bb Rp Rs : T) : T := (fl / star_bb) * ((Rp / Rs) * (Rp / Rs)).
  (* direct image: flux * Rp^2 * 2 pi / (4 pi d^2) *)
  Definition direct (fl Rp dist : T) : T := (fl * (Rp * Rp) * n2 * npi) / (nofZ 4 * npi * (dist * dist)).
End Emission.

(* ---------- correlated-k emission (taurex/model/emission.py : evaluate_emission_ktables) ----------
   The molecular absorber carries one vertical optical depth per layer AND per quadrature point g of the
   k-distribution; everything else (CIA, Rayleigh, hazes) one per layer as before. The transmittance from a level to
   the top is   exp(-m * sum_{k>=l} d_k) * sum_g w_g exp(-m * sum_{k>=l} kd_{k,g});   the intensity is the same
   layered sum as above with that transmittance, and there is NO saturation clamp on this path. *)
Section KEmission.
  Context {T : Type} {N : TNum T}.
  Local Open Scope num_scope.

  (* kd[layer][g] at one wavenumber; column g as a list over layers *)
  Definition kcol (kd : list (list T)) (g : nat) : list T := map (fun row => nth_d row g) kd.
  (* sum_g exp(-tau_g) * w_g  (contribute_ktau / the np.sum(np.exp(-k * mu) * wg) of the emission routine) *)
  Definition kmix (wts taus : list T) : T := ktrans wts taus.      (* Model_C20: the contribute_ktau mixture *)
  (* molecular transmittance for the column depth selected by sel (all layers / above l / down to l) *)
  Definition ktr (wts : list T) (kd : list (list T)) (sel : list T -> T) (m : T) : T :=
    kmix wts (map (fun g => sel (kcol kd g) * m) (seq 0 (length wts))).

  (* surface term: the molecular depth goes through contribute() = -log(sum_g w_g exp(-tau_g)) and is added to the
     other sources' depth before the exponential *)
  Definition ksurface_coded (d : list T) (kd : list (list T)) (wts : list T) (m : T) : T :=
    nexp (- (nsum d * m + - nln (ktr wts kd nsum m))).
  (* the same number without the detour through the logarithm (Proofs_C02k.ksurface_as_coded: equal whenever the
     weights are non-negative and sum to one); this form is the one executed, because an interval enclosure of a
     mixture that underflows contains 0 and has no logarithm, while the code's -log(0) = inf, exp(-inf) = 0 is benign *)
  Definition ksurface (d : list T) (kd : list (list T)) (wts : list T) (m : T) : T :=
    nexp (- (nsum d * m)) * ktr wts kd nsum m.

  Definition kintensity (B d : list T) (kd : list (list T)) (wts : list T) (m : T) : T :=
    nth_d B 0 * ksurface d kd wts m
    + nsum (map (fun l => nth_d B l *
                  (nexp (- (above d l * m)) * ktr wts kd (fun c => above c l) m
                   - nexp (- (upto d l * m)) * ktr wts kd (fun c => upto c l) m))
                (seq 0 (length d))).

  (* sigma[layer][wn][g] of the molecular absorber (mixing-ratio weighted k-coefficients) -> kd at wavenumber w *)
  Definition kdepths (sigma : list (list (list T))) (rho dz : list T) (w : nat) : list (list T) :=
    map (fun l => map (fun s => s * nth_d dz l * nth_d rho l) (nth w (nth l sigma []) []))
        (seq 0 (length rho)).

  Definition kemission_I (h c k : T) (wn Tl : list T) (cs : list (@contrib T)) (sigma : list (list (list T)))
    (kwts rho dz mus : list T) : list (list T) :=
    map (fun mu =>
           map (fun w => kintensity (map (fun t => planck h c k (nth_d wn w) t / npi) Tl)
                                    (deltas cs rho dz w) (kdepths sigma rho dz w) kwts (n1 / mu))
               (seq 0 (length wn)))
        mus.
End KEmission.
