(* Exec_C03.v — executable wrappers for the C03 correspondence check. *)
From Coq Require Import ZArith QArith List.
From TV Require Import Num ListNum Model_C01 Model_C03.
Import ListNotations.

(* prepared (summed) weighted cross-section of one source from its components, exact rationals *)
Definition run_prepare (nl m : nat) (comps : list (list Q * list (list Q))) : list (list (list Z)) :=
  map (map Qout)
      (@prepare_sum Q QNum nl m (map (fun fc => @weighted Q QNum (fst fc) (snd fc)) comps)).
