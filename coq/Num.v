(* Num.v — the abstract number interface every numeric model is written against,
   and its three instances:
     RNum / RTNum   Coq's real numbers        (the instance theorems are about)
     QNum           exact rationals            (executable, for purely rational code)
     IvNum / IvTNum 80-bit interval arithmetic (executable, rigorous enclosures of exp/ln/sqrt)
   A model is ONE polymorphic Gallina definition `forall {N : Num}, ...`; the
   theorem instance and the executed instance are that same definition. *)
From Coq Require Import ZArith QArith Qreduction Reals List Bool Lia Lra.
Import ListNotations.

Class Num (T : Type) := {
  n0 : T; n1 : T;
  nadd : T -> T -> T; nsub : T -> T -> T; nmul : T -> T -> T; ndiv : T -> T -> T;
  nopp : T -> T;
  nleb : T -> T -> bool; nltb : T -> T -> bool;
  nofZ : Z -> T }.

Class TNum (T : Type) := {
  tnum :> Num T;
  nexp : T -> T; nln : T -> T; nsqrt : T -> T; npi : T }.

Declare Scope num_scope.
Delimit Scope num_scope with num.
Infix "+" := nadd : num_scope.
Infix "-" := nsub : num_scope.
Infix "*" := nmul : num_scope.
Infix "/" := ndiv : num_scope.
Notation "- x" := (nopp x) : num_scope.
Infix "<=?" := nleb : num_scope.
Infix "<?" := nltb : num_scope.

Section Derived.
  Context {T : Type} {N : Num T}.
  Local Open Scope num_scope.
  Definition nmin (x y : T) : T := if x <=? y then x else y.
  Definition nmax (x y : T) : T := if x <=? y then y else x.
  Definition nabs (x : T) : T := if n0 <=? x then x else - x.
  Definition neqb (x y : T) : bool := (x <=? y) && (y <=? x).
  Definition n2 : T := nofZ 2.
  Definition n10 : T := nofZ 10.
  Definition nofnat (k : nat) : T := nofZ (Z.of_nat k).
  Definition nsq (x : T) : T := x * x.
End Derived.

Section DerivedT.
  Context {T : Type} {N : TNum T}.
  Local Open Scope num_scope.
  Definition nlog10 (x : T) : T := nln x / nln n10.
  Definition npow10 (x : T) : T := nexp (x * nln n10).
End DerivedT.

(* ------------------------------------------------------------------ *)
(* R instance *)
Definition Rleb (x y : R) : bool := if Rle_dec x y then true else false.
Definition Rltb (x y : R) : bool := if Rlt_dec x y then true else false.

Lemma Rleb_true x y : Rleb x y = true <-> (x <= y)%R.
Proof. unfold Rleb. destruct (Rle_dec x y); split; intros; auto; try discriminate; contradiction. Qed.
Lemma Rleb_false x y : Rleb x y = false <-> (y < x)%R.
Proof. unfold Rleb. destruct (Rle_dec x y); split; intros; auto; try discriminate; lra. Qed.
Lemma Rltb_true x y : Rltb x y = true <-> (x < y)%R.
Proof. unfold Rltb. destruct (Rlt_dec x y); split; intros; auto; try discriminate; contradiction. Qed.
Lemma Rltb_false x y : Rltb x y = false <-> (y <= x)%R.
Proof. unfold Rltb. destruct (Rlt_dec x y); split; intros; auto; try discriminate; lra. Qed.

#[export] Instance RNum : Num R := {|
  n0 := 0%R; n1 := 1%R;
  nadd := Rplus; nsub := Rminus; nmul := Rmult; ndiv := Rdiv; nopp := Ropp;
  nleb := Rleb; nltb := Rltb; nofZ := IZR |}.

#[export] Instance RTNum : TNum R := {|
  tnum := RNum; nexp := exp; nln := ln; nsqrt := sqrt; npi := PI |}.

(* unfold the class projections at the R instance so that lra/nra/field see plain reals *)
Ltac rnum_unfold := unfold nmin, nmax, nabs, neqb, n2, n10, nofnat, nsq, nlog10, npow10 in *.
Ltac rnum := rnum_unfold;
  cbn [n0 n1 nadd nsub nmul ndiv nopp nleb nltb nofZ RNum tnum nexp nln nsqrt npi RTNum] in *.

(* case analysis on one boolean comparison of reals *)
Ltac rcase x y :=
  let H := fresh "Hc" in
  destruct (Rle_dec x y) as [H|H]; [| apply Rnot_le_lt in H].

Lemma nmin_R (x y : R) : @nmin R RNum x y = Rmin x y.
Proof. unfold nmin; rnum. unfold Rleb, Rmin. destruct (Rle_dec x y); reflexivity. Qed.
Lemma nmax_R (x y : R) : @nmax R RNum x y = Rmax x y.
Proof. unfold nmax; rnum. unfold Rleb, Rmax. destruct (Rle_dec x y); reflexivity. Qed.

(* ------------------------------------------------------------------ *)
(* Q instance (kept reduced so vm_compute stays small) *)
Definition Qltb (x y : Q) : bool := negb (Qle_bool y x).
#[export] Instance QNum : Num Q := {|
  n0 := 0%Q; n1 := 1%Q;
  nadd := fun x y => Qred (x + y); nsub := fun x y => Qred (x - y);
  nmul := fun x y => Qred (x * y); ndiv := fun x y => Qred (x / y);
  nopp := Qopp;
  nleb := Qle_bool; nltb := Qltb; nofZ := inject_Z |}.

(* m * 2^e, exact *)
Definition Qdy (m e : Z) : Q :=
  match e with
  | Z0 => inject_Z m
  | Zpos p => inject_Z (m * 2 ^ (Zpos p))
  | Zneg p => Qred (Qmake m (2 ^ p))
  end.

(* printable form of a rational: [numerator; denominator] *)
Definition Qout (q : Q) : list Z := let r := Qred q in [Qnum r; Zpos (Qden r)].
