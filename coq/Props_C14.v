(* Props_C14.v — C14: opacity / CIA files of every supported format load to the same physical table. *)
From Coq Require Import ZArith Reals List Bool Arith Permutation String Sorting.Sorted.
From TV Require Import Num ListNum Model_C14 Proofs_C14.
Import ListNotations.
Local Open Scope R_scope.

(* (a) pressures stored in bar (pickle) or in any declared unit (HDF5) come back in Pa; nothing else moves *)
Theorem C14_pickle_round_trip : forall (tab : @table R),
  @load_pickle R RNum (tb_T tab) (map (fun v => v / 100000) (tb_P tab)) (tb_wn tab) (tb_x tab) = tab.
Proof. exact pickle_round_trip. Qed.
Print Assumptions C14_pickle_round_trip.

Theorem C14_hdf5_round_trip : forall (u : R) (tab : @table R), u <> 0 ->
  @load_hdf5 R RNum u (tb_T tab) (map (fun v => v / u) (tb_P tab)) (tb_wn tab) (tb_x tab) = tab.
Proof. exact hdf5_round_trip. Qed.
Print Assumptions C14_hdf5_round_trip.

Theorem C14_pickle_hdf5_agree : forall (u : R) (t p w : list R) (x : list (list (list R))), u <> 0 ->
  @load_pickle R RNum t (map (fun v => v / 100000) p) w x = @load_hdf5 R RNum u t (map (fun v => v / u) p) w x.
Proof. exact pickle_hdf5_agree. Qed.
Print Assumptions C14_pickle_hdf5_agree.

(* (a') Exo-Transmit: metres -> cm-1 and m2 -> cm2 (with the reader's 1e-60 m2 offset); blocks in any order are
   sorted by wavenumber and keep their rows *)
Theorem C14_exo_scalars : forall (wn x : R), wn <> 0 ->
  let lambda := 10000 * (1 / 1000000) / wn in
  10000 * (1 / 1000000) / lambda = wn /\ (x / 10000 + 1 / IZR (10 ^ 60)) * 10000 = x + 10000 / IZR (10 ^ 60).
Proof. exact exo_scalars. Qed.
Print Assumptions C14_exo_scalars.

Theorem C14_exo_order_independent : forall (t p : list R) (blocks blocks' : list (@exo_block R)),
  NoDup (map (@exo_wn R RNum) blocks) -> Permutation blocks blocks' ->
  @load_exo R RNum t p blocks = @load_exo R RNum t p blocks'.
Proof. exact exo_order_independent. Qed.
Print Assumptions C14_exo_order_independent.

Theorem C14_exo_wavenumbers_sorted : forall (t p : list R) (blocks : list (@exo_block R)),
  StronglySorted Rle (tb_wn (@load_exo R RNum t p blocks)).
Proof. exact exo_wavenumbers_sorted. Qed.
Print Assumptions C14_exo_wavenumbers_sorted.

Theorem C14_exo_attached : forall (t p : list R) (blocks : list (@exo_block R)) (ip it iw : nat),
  (ip < List.length p)%nat -> (it < List.length t)%nat -> (iw < List.length blocks)%nat ->
  let tab := @load_exo R RNum t p blocks in
  let b := nth iw (@isort_by R RNum _ (@exo_wn R RNum) blocks) {| eb_lambda := 0; eb_rows := [] |} in
  nth iw (tb_wn tab) 0 = @exo_wn R RNum b /\
  nth iw (nth it (nth ip (tb_x tab) []) []) 0 = (nth it (nth ip (eb_rows b) []) 0 + 1 / IZR (10 ^ 60)) * 10000 /\
  Permutation blocks (@isort_by R RNum _ (@exo_wn R RNum) blocks).
Proof. exact exo_attached. Qed.
Print Assumptions C14_exo_attached.

(* (b) HITRAN CIA: a wavenumber range keeps its own cross-sections at its own temperatures and is zero at master
   temperatures outside its coverage *)
Theorem C14_hitran_own_temperature : forall (g : @hgroup R) (t : R) (p : R * list R),
  find (fun q : R * list R => @neqb R RNum (fst q) t) (@isort_by R RNum _ fst (g_ts g)) = Some p ->
  @fill_one R RNum g t = snd p.
Proof. exact hitran_own_temperature. Qed.
Print Assumptions C14_hitran_own_temperature.

Theorem C14_hitran_outside_coverage_is_zero : forall (g : @hgroup R) (t : R),
  let ts := @isort_by R RNum _ fst (g_ts g) in
  find (fun q : R * list R => @neqb R RNum (fst q) t) ts = None ->
  (t < @lmin R RNum 0 (map fst ts) \/ @lmax R RNum 0 (map fst ts) < t) ->
  @fill_one R RNum g t = map (fun _ => 0) (g_wn g).
Proof. exact hitran_outside_coverage_is_zero. Qed.
Print Assumptions C14_hitran_outside_coverage_is_zero.

(* (c) molecule names: sanitising twice is sanitising once (a sanitised name identifies itself) *)
Theorem C14_sanitize_idempotent : forall (s : string), sanitize (sanitize s) = sanitize s.
Proof. exact sanitize_idempotent. Qed.
Print Assumptions C14_sanitize_idempotent.

(* (d) the cache: loaded once, the same object thereafter; a miss changes nothing; a new interpolation mode holds
   for every opacity served afterwards *)
Theorem C14_served_again_is_same_object : forall (s s1 : cstate) (mol : nat) (o : oobj),
  cstep s (Get mol) = (s1, Served o) -> cstep s1 (Get mol) = (s1, Served o).
Proof. exact served_again_is_same_object. Qed.
Print Assumptions C14_served_again_is_same_object.

Theorem C14_not_found_changes_nothing : forall (s s1 : cstate) (mol : nat),
  cstep s (Get mol) = (s1, NotFound) -> s1 = s.
Proof. exact not_found_changes_nothing. Qed.
Print Assumptions C14_not_found_changes_nothing.

Theorem C14_interpolation_takes_effect : forall (s : cstate) (m : imode) (ops : list cop),
  forallb quiet ops = true ->
  let s0 := fst (cstep s (SetInterp m)) in
  Forall (fun out => match out with Served o => o_mode o = m | _ => True end) (snd (crun s0 ops)).
Proof. exact interpolation_takes_effect. Qed.
Print Assumptions C14_interpolation_takes_effect.

Example C14_sanitize_examples :
  sanitize "H2O" = "H2O"%string /\ sanitize "1H2-16O" = "H2O"%string /\ sanitize "12C-16O2" = "CO2"%string /\
  sanitize "Na" = "Na"%string /\ sanitize "TiO" = "TiO"%string /\ sanitize "H2-He" = "H2He"%string.
Proof. exact sanitize_examples. Qed.

(* ---- the CIA cache ---- *)
(* a pair that has been served is served again as the same object and nothing is loaded a second time *)
Theorem C14_cia_served_again_is_same_object : forall (s s1 : cia_state) (p : nat) (o : cia_obj),
  cia_step s (CGet p) = (s1, CServed o) -> cia_step s1 (CGet p) = (s1, CServed o).
Proof. exact cia_served_again_is_same_object. Qed.
Print Assumptions C14_cia_served_again_is_same_object.

Theorem C14_cia_not_found_changes_nothing : forall (s s1 : cia_state) (p : nat),
  cia_step s (CGet p) = (s1, CNotFound) -> s1 = s.
Proof. exact cia_not_found_changes_nothing. Qed.
Print Assumptions C14_cia_not_found_changes_nothing.

(* whatever happens next (other pairs requested, the path changed, objects added), a cached pair keeps its object *)
Theorem C14_cia_served_forever : forall (s : cia_state) (p : nat) (ob : cia_obj) (o : cia_op),
  cia_find (ci_dict s) p = Some ob -> cia_find (ci_dict (fst (cia_step s o))) p = Some ob.
Proof. exact cia_served_forever. Qed.
Print Assumptions C14_cia_served_forever.

(* the documented priority: a pickle file of the pair is preferred over a HITRAN file *)
Theorem C14_cia_db_priority : forall (s s1 : cia_state) (p : nat) (ob : cia_obj) (f : cia_file),
  cia_find (ci_dict s) p = None -> In f (ci_files s) -> cf_pair f = p -> cf_hitran f = false ->
  cia_step s (CGet p) = (s1, CServed ob) ->
  exists g, In g (ci_files s) /\ cf_pair g = p /\ cf_hitran g = false /\ co_file ob = cf_id g.
Proof. exact cia_db_priority. Qed.
Print Assumptions C14_cia_db_priority.

Theorem C14_cia_added_is_served : forall (s : cia_state) (p file : nat), cia_find (ci_dict s) p = None ->
  exists o, cia_step (fst (cia_step s (CAdd p file))) (CGet p) = (fst (cia_step s (CAdd p file)), CServed o)
            /\ co_file o = file /\ co_pair o = p.
Proof. exact cia_added_is_served. Qed.
Print Assumptions C14_cia_added_is_served.
