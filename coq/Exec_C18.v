(* Exec_C18.v — executable wrappers (exact rationals) for the C18 correspondence check. *)
From Coq Require Import ZArith QArith List.
From TV Require Import Num ListNum Model_C18.
Import ListNotations.

Definition oq (o : option Q) : list Z := match o with Some v => Qout v | None => [] end.

(* round-robin split over `size` ranks: per rank [[count]; weight sum; mean; variance or [] for NaN],
   then [parallelVariance or []; combined mean; two-pass variance of all samples] *)
Definition run_ranks (size : nat) (samples : list (Q * Q)) : list (list (list Z)) :=
  let states := map (fun r => @ov_run Q QNum (stride (0, 0) r size samples)) (seq 0 size) in
  map (fun s => [[Z.of_nat (cnt s)]; Qout (wc s); Qout (mean s); oq (@ov_variance Q QNum s)]) states
  ++ [[oq (@parallel_variance Q QNum states);
       Qout (fst (@combine Q QNum (map (@rank_summary Q QNum) states)));
       Qout (@twopass_m2 Q QNum samples / @S0 Q QNum samples)]].

(* an arbitrary assignment of samples to ranks *)
Definition run_parts (parts : list (list (Q * Q))) : list (list Z) :=
  let states := map (@ov_run Q QNum) parts in
  [oq (@parallel_variance Q QNum states);
   Qout (@twopass_m2 Q QNum (concat parts) / @S0 Q QNum (concat parts))].

(* the gathered index pattern, followed by the restoration of sample order applied to the gathered values *)
Definition run_gather (size n : nat) : list Z := map Z.of_nat (gather_order size n).
Definition run_scatter (size : nat) (vals : list Q) : list (list Z) :=
  run_gather size (length vals) :: map Qout (scatter 0%Q (gather_order size (length vals)) vals).
