(* Proofs_C11a.v — the levels ArrayPressureProfile reconstructs: one more than the layers, and, for strictly decreasing
   layer pressures whose consecutive log-spacings differ by less than a factor 3, each interior level lies strictly
   between the two layer pressures it separates, the first above the first layer, the last below the last layer; hence
   the levels decrease strictly and every layer pressure lies strictly between its two levels. *)
From Coq Require Import ZArith Reals List Bool Arith Lia Lra.
From TV Require Import Num ListNum ListAux ListNumR Model_C11a.
Import ListNotations.
Local Open Scope R_scope.

Notation lv := (@array_loglevel R RNum).
Notation nd := (@nth_d R RNum).

Lemma array_levels_length (l : list R) : length (@array_loglevels R RNum l) = S (length l).
Proof. unfold array_loglevels. rewrite app_length, map_length, seq_length. cbn. lia. Qed.

Lemma array_levels_nth (l : list R) (i : nat) : (i <= length l)%nat ->
  nth i (@array_loglevels R RNum l) 0 = lv l i.
Proof.
  intros Hi. unfold array_loglevels, array_loglevel.
  destruct (Nat.ltb_spec i (length l)) as [Hlt|Hge].
  - rewrite app_nth1 by (rewrite map_length, seq_length; exact Hlt).
    set (f := fun j : nat => nd l j - @grad_at R RNum l j / n2).
    rewrite (nth_indep (map f (seq 0 (length l))) 0 (f 0%nat)) by (rewrite map_length, seq_length; exact Hlt).
    rewrite (map_nth f (seq 0 (length l)) 0%nat i), seq_nth by exact Hlt. reflexivity.
  - assert (i = length l) by lia. subst i.
    rewrite app_nth2 by (rewrite map_length, seq_length; lia).
    rewrite map_length, seq_length, Nat.sub_diag. reflexivity.
Qed.

(* the premise: strictly decreasing, neighbouring spacings within a factor 3 (only "the upper spacing is less than three
   times the lower one" is needed) *)
Definition decreasing (l : list R) : Prop := forall i, (S i < length l)%nat -> nd l (S i) < nd l i.
Definition spacing3 (l : list R) : Prop :=
  forall i, (S (S i) < length l)%nat -> nd l (S i) - nd l (S (S i)) < 3 * (nd l i - nd l (S i)).

Lemma level_first (l : list R) : (2 <= length l)%nat -> decreasing l -> nd l 0 < lv l 0.
Proof.
  intros Hn Hd. unfold array_loglevel, grad_at.
  destruct (Nat.ltb_spec 0 (length l)) as [_|?]; [|lia]. cbn [Nat.eqb]. rnum.
  specialize (Hd 0%nat ltac:(lia)). lra.
Qed.

Lemma level_last (l : list R) : (2 <= length l)%nat -> decreasing l ->
  lv l (length l) < nd l (length l - 1).
Proof.
  intros Hn Hd. unfold array_loglevel, grad_at.
  destruct (Nat.ltb_spec (length l) (length l)) as [?|_]; [lia|].
  destruct (Nat.eqb_spec (length l - 1) 0) as [?|_]; [lia|]. rewrite Nat.eqb_refl. rnum.
  specialize (Hd (length l - 2)%nat ltac:(lia)). replace (S (length l - 2)) with (length l - 1)%nat in Hd by lia. lra.
Qed.

Lemma level_interior (l : list R) (i : nat) : (0 < i < length l)%nat -> decreasing l -> spacing3 l ->
  nd l i < lv l i < nd l (i - 1).
Proof.
  intros Hi Hd Hs. unfold array_loglevel, grad_at.
  destruct (Nat.ltb_spec i (length l)) as [_|?]; [|lia].
  destruct (Nat.eqb_spec i 0) as [?|_]; [lia|].
  destruct (Nat.eqb_spec i (length l - 1)) as [E|NE]; rnum.
  - subst i. specialize (Hd (length l - 2)%nat ltac:(lia)).
    replace (S (length l - 2)) with (length l - 1)%nat in Hd by lia.
    replace (length l - 1 - 1)%nat with (length l - 2)%nat by lia. lra.
  - pose proof (Hd (i - 1)%nat ltac:(lia)) as H1. pose proof (Hd i ltac:(lia)) as H2.
    pose proof (Hs (i - 1)%nat ltac:(lia)) as H3.
    replace (S (i - 1)) with i in * by lia. replace (i + 1)%nat with (S i) by lia. lra.
Qed.

(* every level is strictly below the previous one, and every layer strictly between its two levels *)
Theorem array_levels_bracket (l : list R) : (2 <= length l)%nat -> decreasing l -> spacing3 l ->
  forall i, (i < length l)%nat -> lv l (S i) < nd l i < lv l i.
Proof.
  intros Hn Hd Hs i Hi. split.
  - destruct (Nat.eq_dec (S i) (length l)) as [E|NE].
    + rewrite E. replace i with (length l - 1)%nat by lia. apply level_last; assumption.
    + pose proof (level_interior l (S i) ltac:(lia) Hd Hs) as [_ H]. replace (S i - 1)%nat with i in H by lia. exact H.
  - destruct i as [|i].
    + apply level_first; assumption.
    + apply (level_interior l (S i) ltac:(lia) Hd Hs).
Qed.

Theorem array_levels_decreasing (l : list R) : (2 <= length l)%nat -> decreasing l -> spacing3 l ->
  forall i, (i < length l)%nat -> lv l (S i) < lv l i.
Proof.
  intros Hn Hd Hs i Hi. destruct (array_levels_bracket l Hn Hd Hs i Hi) as [H1 H2]. lra.
Qed.
