(* Exec_C10.v — executable wrappers for the C10 correspondence check. *)
From Coq Require Import ZArith QArith List.
From TV Require Import Num NumIv ListNum Model_C12 Model_C10.
Import ListNotations.

(* [] = InvalidChemistryException; otherwise the mixing-ratio rows (fill gases first) followed by mu *)
Definition run_mixture (nl nfill : nat) (ratios : list Q) (traces : list (list Q)) (masses : list Q)
  : list (list (list Z)) :=
  match @mixture Q QNum nl nfill ratios traces with
  | None => []
  | Some rows => map (map Qout) rows ++ [map Qout (@mu_profile Q QNum nl rows masses)]
  end.

Definition run_array (nl : nat) (arr : list Q) : list (list Z) := map Qout (@array_gas Q QNum nl arr).

Definition run_twopoint (P : list I.type) (surf top : I.type) : list (list Z) :=
  map Iout (@twopoint_gas I.type IvTNum P surf top).

Definition run_power (P Ts : list I.type) (ms al be ga : I.type) : list (list Z) :=
  map Iout (@power_gas I.type IvTNum P Ts ms al be ga).

(* two-layer gas in log10 space, exact rationals *)
Definition run_twolayer (lnP : list Q) (start_l end_l : nat) (ls lt : Q) (wsize0 : nat) : list (list Z) :=
  map Qout (@twolayer_log Q QNum lnP start_l end_l ls lt wsize0).
