(* Props_C05.v — C05: spectral binning is an overlap-weighted mean of the native spectrum.
   Only theorem statements, each closed by an `exact` of a lemma of Proofs_C05.v,
   followed by Print Assumptions. *)
From Coq Require Import Reals List Permutation Lra.
From TV Require Import Num ListNum ListNumR SortR Model_C05 Proofs_C05.
Import ListNotations.
Local Open Scope R_scope.

(* (a) for ordered, non-overlapping native bins and a target bin [a,b] of positive width with
   positive total overlap, the code's windowed computation IS the overlap-weighted mean over
   all native bins *)
Theorem C05_is_overlap_mean : forall (l : list (@nrow R)) (a b : R),
  wf_native l -> a < b -> pos_overlap l a b ->
  @flux_bin R RNum l a b = @overlap_mean R RNum l a b.
Proof. exact flux_bin_is_overlap_mean. Qed.
Print Assumptions C05_is_overlap_mean.

(* the skip test of the code only ever drops target bins without any overlap *)
Theorem C05_skip_only_without_overlap : forall (l : list (@nrow R)) (a b : R),
  wf_native l -> a < b -> @skipped R RNum l a b = true ->
  forall r, In r l -> @ov R RNum a b r = 0.
Proof. exact skipped_no_overlap. Qed.
Print Assumptions C05_skip_only_without_overlap.

(* (b) constant spectrum stays constant *)
Theorem C05_constant : forall (l : list (@nrow R)) (a b c : R),
  wf_native l -> a < b -> pos_overlap l a b ->
  (forall r, In r l -> @r_f R r = c) -> @flux_bin R RNum l a b = c.
Proof. exact flux_bin_constant. Qed.
Print Assumptions C05_constant.

(* (c) each binned value lies between the smallest and largest overlapping native values *)
Theorem C05_bounded : forall (l : list (@nrow R)) (a b m M : R),
  wf_native l -> a < b -> pos_overlap l a b ->
  (forall r, In r l -> 0 < @ov R RNum a b r -> m <= @r_f R r <= M) ->
  m <= @flux_bin R RNum l a b <= M.
Proof. exact flux_bin_bounded. Qed.
Print Assumptions C05_bounded.

(* (d) linear in the spectrum *)
Theorem C05_linear : forall (g1 g2 : @nrow R -> R) (al be : R) (l : list (@nrow R)) (a b : R),
  wf_native l -> a < b -> pos_overlap l a b ->
  @flux_bin R RNum (with_f (fun r => al * g1 r + be * g2 r) l) a b
  = al * @flux_bin R RNum (with_f g1 l) a b + be * @flux_bin R RNum (with_f g2 l) a b.
Proof. exact flux_bin_linear. Qed.
Print Assumptions C05_linear.

(* (e) the whole binner does not depend on the order of native or target points
   (pairwise distinct wavenumbers) *)
Theorem C05_order_independent : forall auto_t auto_n tg tg' (rows rows' : list (@nrow R)),
  NoDup (map (@r_wn R) rows) -> Permutation rows rows' ->
  NoDup (map (@t_wn R) tg) -> Permutation tg tg' ->
  @flux_binner R RNum auto_t auto_n tg rows = @flux_binner R RNum auto_t auto_n tg' rows'.
Proof. exact flux_binner_order_independent. Qed.
Print Assumptions C05_order_independent.

(* (g) binned uncertainties follow the same weights in quadrature (squared form) *)
Theorem C05_error_quadrature : forall (l : list (@nrow R)) (a b : R),
  @skipped R RNum l a b = false ->
  @err2_bin R RNum l a b
  = Rsum (map (fun r => (@weight R RNum a b r) ^ 2 * (@r_e R r) ^ 2) (window l a b))
    / (Rsum (map (@weight R RNum a b) (window l a b))) ^ 2.
Proof. exact err2_bin_quadrature. Qed.
Print Assumptions C05_error_quadrature.

(* (h) histogram binner: a constant spectrum has (sum, count) = (count*c, count) in every bin,
   i.e. its mean is c wherever the bin is not empty; the native binner is the identity *)
Theorem C05_histogram_constant : forall (edges : list R) (pts : list (R * R)) (c : R),
  Forall (fun p => snd p = c) pts ->
  Forall (fun sc => fst sc = INR (snd sc) * c) (@hist_bins R RNum edges pts).
Proof. exact hist_const. Qed.
Print Assumptions C05_histogram_constant.

Theorem C05_native_identity : forall (wn f : list R), @native_binner R wn f = (wn, f).
Proof. exact native_binner_identity. Qed.
Print Assumptions C05_native_identity.

(* non-vacuity: a concrete two-bin native grid and target bin satisfy every hypothesis *)
Definition ex_l : list (@nrow R) :=
  [ {| r_wn := 1; r_w := 1; r_f := 3; r_e := 0 |}; {| r_wn := 2; r_w := 1; r_f := 5; r_e := 0 |} ].
Example C05_nonvacuous : wf_native ex_l /\ 1 < 2 /\ pos_overlap ex_l 1 2.
Proof. exact ex_nonvacuous. Qed.
Print Assumptions C05_nonvacuous.
