(* Proofs_C20.v — correlated-k reduces to cross-sections when the k-distribution is degenerate. *)
From Coq Require Import ZArith Reals List Bool Arith Lia Lra.
From TV Require Import Num ListNum ListAux ListNumR Model_C01 Proofs_C01 Model_C20.
Import ListNotations.
Local Open Scope R_scope.

Notation ktr := (@ktrans R RTNum).

Lemma ktrans_sum (ws taus : list R) :
  ktr ws taus = Rsum (map (fun p => exp (- fst p) * snd p) (combine taus ws)).
Proof. unfold ktrans. rnum.
  rewrite (fold_add_sum (fun p : R * R => exp (- fst p) * snd p)). lra. Qed.

Lemma Rsum_combine_const (t : R) (ws : list R) :
  Rsum (map (fun p : R * R => exp (- fst p) * snd p) (combine (map (fun _ => t) ws) ws))
  = exp (- t) * Rsum ws.
Proof. induction ws as [|w ws IH]; cbn [map combine].
  - rewrite !Rsum_nil. ring.
  - rewrite !Rsum_cons, IH. cbn [fst snd]. ring. Qed.

(* (a) identical optical depth at every quadrature point and weights summing to one:
       -ln(sum_g w_g exp(-tau)) = tau *)
Theorem degenerate_ktrans (ws : list R) (t : R) : Rsum ws = 1 ->
  - ln (ktr ws (map (fun _ => t) ws)) = t.
Proof. intros H1. rewrite ktrans_sum, Rsum_combine_const, H1, Rmult_1_r, ln_exp. ring. Qed.

(* the per-point optical depth of contribute_ktau is the documented sum, so identical
   coefficients give identical per-point optical depths equal to the cross-section one *)
Lemma ktau_g_sum sigma rho path l w g :
  @ktau_g R RTNum sigma rho path l w g
  = Rsum (map (fun k => @ksig_at R RTNum sigma (k + l) w g * @nth_d R RNum path k * @nth_d R RNum rho (k + l))
              (seq 0 (length path))).
Proof. unfold ktau_g. rnum.
  rewrite (fold_add_sum (fun k => @ksig_at R RTNum sigma (k + l) w g * @nth_d R RNum path k * @nth_d R RNum rho (k + l))).
  lra. Qed.

Theorem degenerate_ktau (sigma : list (list (list R))) (xsec : list (list R)) (ws rho path : list R) (l w : nat) :
  Rsum ws = 1 ->
  (forall l' g, (g < length ws)%nat -> @ksig_at R RTNum sigma l' w g = @sig_at R RNum xsec l' w) ->
  @ktau R RTNum sigma ws rho path l w = @tau_loop R RNum false xsec rho path l w.
Proof. intros H1 Hdeg. unfold ktau. rnum.
  assert (Hmap : map (@ktau_g R RTNum sigma rho path l w) (seq 0 (length ws))
                 = map (fun _ => @tau_loop R RNum false xsec rho path l w) ws).
  { apply (nth_ext _ _ 0 0).
    - rewrite !map_length, seq_length. reflexivity.
    - intros g Hg. rewrite map_length, seq_length in Hg.
      rewrite (map_nth_lt _ _ 0%nat) by (rewrite seq_length; exact Hg). rewrite seq_nth by exact Hg.
      rewrite (map_nth_lt _ ws 0 0) by exact Hg. cbn [plus].
      rewrite ktau_g_sum, tau_loop_is_sum. apply Rsum_map_ext. intros k _.
      rewrite Hdeg by exact Hg. unfold dens. reflexivity. }
  rewrite Hmap. apply degenerate_ktrans. exact H1. Qed.

(* (b) the transmittance is a weighted mean of exponentials: in (0,1] *)
Theorem ktrans_unit_interval (ws taus : list R) :
  Forall (fun x => 0 <= x) ws -> Rsum ws = 1 -> length taus = length ws ->
  Forall (fun t => 0 <= t) taus -> 0 < ktr ws taus <= 1.
Proof. intros Hw H1 Hlen Ht. rewrite ktrans_sum.
  assert (Hle : forall ts, length ts = length ws -> Forall (fun t => 0 <= t) ts ->
            Rsum (map (fun p : R * R => exp (- fst p) * snd p) (combine ts ws)) <= Rsum ws).
  { clear - Hw. induction Hw as [|w ws Hw0 _ IH]; intros [|t ts] Hl Hts; simpl in Hl; try discriminate.
    - cbn [combine map]. lra.
    - cbn [combine map]. rewrite !Rsum_cons. cbn [fst snd]. inversion Hts; subst.
      assert (exp (- t) <= 1).
      { rewrite <- exp_0. destruct (Req_dec t 0) as [->|Hn]; [rewrite Ropp_0; lra|].
        left. apply exp_increasing. lra. }
      specialize (IH ts ltac:(lia) ltac:(assumption)). nra. }
  assert (Hpos : forall ts, length ts = length ws -> 0 < Rsum ws ->
            0 < Rsum (map (fun p : R * R => exp (- fst p) * snd p) (combine ts ws))).
  { clear - Hw. induction Hw as [|w ws Hw0 Hws IH]; intros [|t ts] Hl Hs; simpl in Hl; try discriminate.
    - rewrite Rsum_nil in Hs. lra.
    - cbn [combine map]. rewrite Rsum_cons in *. cbn [fst snd].
      pose proof (exp_pos (- t)).
      assert (0 <= Rsum (map (fun p : R * R => exp (- fst p) * snd p) (combine ts ws))).
      { apply Rsum_map_nonneg. intros [a b] Hin. cbn [fst snd]. apply in_combine_r in Hin.
        rewrite Forall_forall in Hws. specialize (Hws b Hin). pose proof (exp_pos (- a)). nra. }
      destruct (Rle_lt_or_eq_dec _ _ Hw0) as [Hwp|Hwz].
      + nra.
      + rewrite <- Hwz in *. specialize (IH ts ltac:(lia) ltac:(lra)). lra. }
  split; [apply Hpos; [exact Hlen|lra]|rewrite <- H1; apply Hle; assumption]. Qed.

Lemma affine_combine_sum (c d : R) (taus ws : list R) : length taus = length ws ->
  Rsum (map (fun p : R * R => (c + d * fst p) * snd p) (combine taus ws))
  = c * Rsum ws + d * Rsum (map (fun p : R * R => fst p * snd p) (combine taus ws)).
Proof. revert taus. induction ws as [|w ws IH]; intros [|t ts] Hl; simpl in Hl; try discriminate.
  - cbn [combine map]. rewrite !Rsum_nil. ring.
  - cbn [combine map]. rewrite !Rsum_cons, IH by lia. cbn [fst snd]. ring. Qed.

(* (c) Jensen: at least the transmittance obtained from the weight-averaged optical depth *)
Theorem ktrans_jensen (ws taus : list R) :
  Forall (fun x => 0 <= x) ws -> Rsum ws = 1 -> length taus = length ws ->
  exp (- Rsum (map (fun p : R * R => fst p * snd p) (combine taus ws))) <= ktr ws taus.
Proof. intros Hw H1 Hlen. rewrite ktrans_sum.
  set (a := - Rsum (map (fun p : R * R => fst p * snd p) (combine taus ws))).
  (* tangent line of exp at a *)
  assert (Htan : forall x, exp a * (1 + (x - a)) <= exp x).
  { intros x. pose proof (exp_ineq1_le (x - a)) as H. pose proof (exp_pos a).
    replace (exp x) with (exp a * exp (x - a)) by (rewrite <- exp_plus; f_equal; ring). nra. }
  assert (Hsum : Rsum (map (fun p : R * R => exp a * (1 + (- fst p - a)) * snd p) (combine taus ws))
                 <= Rsum (map (fun p : R * R => exp (- fst p) * snd p) (combine taus ws))).
  { apply Rsum_map_le. intros [t w] Hin. cbn [fst snd]. apply in_combine_r in Hin.
    rewrite Forall_forall in Hw. specialize (Hw w Hin). specialize (Htan (- t)). nra. }
  assert (Heq : Rsum (map (fun p : R * R => exp a * (1 + (- fst p - a)) * snd p) (combine taus ws)) = exp a).
  { rewrite (Rsum_map_ext _ (fun p : R * R => (exp a * (1 - a) + (- exp a) * fst p) * snd p))
      by (intros; ring).
    rewrite (affine_combine_sum (exp a * (1 - a)) (- exp a) taus ws Hlen), H1.
    replace (Rsum (map (fun p : R * R => fst p * snd p) (combine taus ws))) with (- a) by (unfold a; ring).
    ring. }
  lra. Qed.

(* what the model finally exponentiates: exp(-ktau) is the weight-averaged exponential itself *)
Theorem exp_neg_ktau sigma ws rho path l w :
  0 < ktr ws (map (@ktau_g R RTNum sigma rho path l w) (seq 0 (length ws))) ->
  exp (- @ktau R RTNum sigma ws rho path l w)
  = ktr ws (map (@ktau_g R RTNum sigma rho path l w) (seq 0 (length ws))).
Proof. intros H. unfold ktau. rnum. rewrite Ropp_involutive. apply exp_ln. exact H. Qed.
