(* Props_C01.v — C01: the transmission spectrum equals the documented transit-depth integral. *)
From Coq Require Import Reals List Lra.
From TV Require Import Num ListNum ListNumR Model_C01 Proofs_C01.
From TV Require Import NumIv Reflect.
Import ListNotations.
Local Open Scope R_scope.

(* (a) the accumulation loop of contribute_tau / contribute_cia is the documented sum
       tau = sum_k sigma[k+l] * chord[k] * rho[k+l]   (rho squared for CIA) *)
Theorem C01_tau_is_documented_sum : forall sq sigma rho path l w,
  @tau_loop R RNum sq sigma rho path l w
  = Rsum (map (fun k => @sig_at R RNum sigma (k + l) w * @nth_d R RNum path k * dens sq rho (k + l))
              (seq 0 (length path))).
Proof. exact tau_loop_is_sum. Qed.
Print Assumptions C01_tau_is_documented_sum.

(* (b) never below the bare planet, never above an atmosphere opaque to its top *)
Theorem C01_depth_bounds : forall Rp Rs z dz tr w,
  0 < Rs -> 0 <= Rp -> nonneg_list z -> nonneg_list dz -> trans_ok z tr w ->
  (Rp / Rs) ^ 2 <= @depth_at R RTNum Rp Rs z dz tr w
  <= (Rp * Rp + Rsum (map (fun l => (Rp + @nth_d R RNum z l) * @nth_d R RNum dz l * 2) (seq 0 (length z))))
     / (Rs * Rs).
Proof. intros. apply depth_bounds; assumption. Qed.
Print Assumptions C01_depth_bounds.

(* (c) nothing absorbs: the whole model (either path method, cut-off included) returns (Rp/Rs)^2 *)
Theorem C01_transparent : forall newm Rp Rs z dz zb rho (cs : list (@contrib R)) m w,
  0 < Rs -> Forall transparent cs -> (w < m)%nat -> length rho = length z ->
  nth w (snd (@transit R RTNum newm Rp Rs z dz zb rho cs m)) 0 = (Rp / Rs) ^ 2.
Proof. intros. apply transparent_depth; assumption. Qed.
Print Assumptions C01_transparent.

(* (e) the licensed deviation: skipping further absorbers in a layer already at tau > 10 at every
       wavenumber changes each transmittance by at most exp(-10), and only upwards *)
Theorem C01_cutoff_error : forall rho path m l (cs : list (@contrib R)),
  nonneg_list rho -> nonneg_list path -> Forall wf_contrib cs ->
  Forall2 (fun a b => 0 <= a - b <= exp (-10))
    (@trans R RTNum (@opaque_cut R RNum cs rho path m l) (@tau_cut R RNum cs rho path m l))
    (@trans R RTNum (@opaque_full R cs l) (@tau_full R RNum cs rho path m l)).
Proof. intros. apply cutoff_error; assumption. Qed.
Print Assumptions C01_cutoff_error.

(* (d) scaling: the depth never decreases when transmittances drop ... *)
Theorem C01_depth_monotone : forall Rp Rs z dz tr tr' w,
  0 < Rs -> 0 <= Rp -> nonneg_list z -> nonneg_list dz ->
  (forall l, (l < length z)%nat -> @nth_d R RNum (nth l tr' []) w <= @nth_d R RNum (nth l tr []) w) ->
  @depth_at R RTNum Rp Rs z dz tr w <= @depth_at R RTNum Rp Rs z dz tr' w.
Proof. intros. apply depth_monotone; assumption. Qed.
Print Assumptions C01_depth_monotone.

(* ... and every source's optical depth grows when its cross-sections are scaled by c >= 1 *)
Theorem C01_tau_scaling : forall c k rho path m l, 1 <= c -> wf_contrib k ->
  nonneg_list rho -> nonneg_list path ->
  Forall2 Rle (@tau_of R RNum k rho path m l) (@tau_of R RNum (scale_contrib c k) rho path m l).
Proof. intros. apply tau_scale_monotone; assumption. Qed.
Print Assumptions C01_tau_scaling.

(* (f) both path-length methods: chord segments are >= 0 and add up to the full chord *)
Theorem C01_path_old_sound : forall Rp z dz l,
  (l < length z)%nat -> 0 <= @tangent_old R RTNum Rp z dz l ->
  @tangent_old R RTNum Rp z dz l <= @shell_old R RTNum Rp z dz l ->
  (forall j, @shell_old R RTNum Rp z dz j <= @shell_old R RTNum Rp z dz (S j)) ->
  Forall (fun s => 0 <= s) (@path_old R RTNum Rp z dz l) /\
  Rsum (@path_old R RTNum Rp z dz l)
  = 2 * @half_chord R RTNum (@shell_old R RTNum Rp z dz (length z - 1)) (@tangent_old R RTNum Rp z dz l).
Proof. intros. apply path_old_sound; assumption. Qed.
Print Assumptions C01_path_old_sound.

Theorem C01_path_new_sound : forall Rp z dz zb l,
  (l < length z)%nat -> 0 <= Rp + (@nth_d R RNum z l + @nth_d R RNum dz l / 2) ->
  Rp + (@nth_d R RNum z l + @nth_d R RNum dz l / 2) <= Rp + @nth_d R RNum zb (l + 1) ->
  (forall j, @nth_d R RNum zb j <= @nth_d R RNum zb (S j)) ->
  Forall (fun s => 0 <= s) (@path_new R RTNum Rp z dz zb l) /\
  Rsum (@path_new R RTNum Rp z dz zb l)
  = 2 * @half_chord R RTNum (Rp + @nth_d R RNum zb (length z)) (Rp + (@nth_d R RNum z l + @nth_d R RNum dz l / 2)).
Proof. intros. apply path_new_sound; assumption. Qed.
Print Assumptions C01_path_new_sound.

(* ---- the executed (interval) instance encloses the real-number instance the theorems above are about:
   Reflect.transfer, proved once for every straight-line kernel from the Interval library's correctness lemmas;
   `defined` lists the side conditions of the real-number side (non-zero denominators, positive logarithm arguments) ---- *)
Theorem C01_half_chord_enclosed : forall aI bI a b, encloses aI a -> encloses bI b ->
  defined [a; b] half_chord_e -> encloses (@half_chord I.type IvTNum aI bI) (@half_chord R RTNum a b).
Proof. exact half_chord_transfer. Qed.
Print Assumptions C01_half_chord_enclosed.

(* the slant optical-depth loop (sums over the chord segments of one tangent layer) *)
Theorem C01_tau_enclosed : forall sq sI sR rI rR pI pR l w,
  Forall2 encl_list sI sR -> encl_list rI rR -> encl_list pI pR ->
  encloses (@tau_loop _ IvNum sq sI rI pI l w) (@tau_loop R RNum sq sR rR pR l w).
Proof. exact tau_loop_transfer. Qed.
Print Assumptions C01_tau_enclosed.
