(* Exec_C20.v — executable wrappers for the C20 correspondence check. *)
From Coq Require Import ZArith List.
From TV Require Import Num NumIv ListNum Model_C20.
Import ListNotations.

(* transmittance of every (layer, wavenumber) from the prepared k-coefficients: sum_g w_g exp(-tau_g),
   which is exp(-ktau) (theorem C20_trans_is_weighted_exponential); evaluating it in this form keeps
   the enclosure finite when every exp(-tau_g) underflows *)
Definition run_ktrans (sigma : list (list (list I.type))) (weights rho : list I.type)
  (paths : list (list I.type)) (m : nat) : list (list (list Z)) :=
  map (fun l => map (fun w => Iout (@ktrans I.type IvTNum weights
                  (map (@ktau_g I.type IvTNum sigma rho (nth l paths []) l w) (seq 0 (length weights)))))
                (seq 0 m))
      (seq 0 (length rho)).
