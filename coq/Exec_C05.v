(* Exec_C05.v — executable wrappers (exact rationals) used by the correspondence check. *)
From Coq Require Import ZArith QArith List.
From TV Require Import Num ListNum Model_C05.
Import ListNotations.

Definition mkrow (p : Q * Q * Q * Q) : @nrow Q :=
  let '(wn, w, f, e) := p in {| r_wn := wn; r_w := w; r_f := f; r_e := e |}.
Definition mkt (p : Q * Q) : @tbin Q := {| t_wn := fst p; t_w := snd p |}.

(* per target bin: [wn; flux; err^2; width], each as [num; den] *)
Definition run_flux (auto_t auto_n : bool) (tg : list (Q * Q)) (rows : list (Q * Q * Q * Q))
  : list (list (list Z)) :=
  map (fun r => let '(wn, f, e2, w) := r in [Qout wn; Qout f; Qout e2; Qout w])
      (@flux_binner Q QNum auto_t auto_n (map mkt tg) (map mkrow rows)).

(* per target bin: [sum as num/den ; [count; 1]] *)
Definition run_simple (twod : bool) (tg : list Q) (pts : list (Q * Q)) : list (list (list Z)) :=
  map (fun sc => [Qout (fst sc); [Z.of_nat (snd sc); 1%Z]])
      (if twod then @simple_binner_2d Q QNum tg pts else @simple_binner Q QNum tg pts).
