(* Proofs_C03.v — optical depth composes additively over sources and species. *)
From Coq Require Import ZArith Reals List Bool Arith Lia Lra Permutation.
From TV Require Import Num ListNum ListAux ListNumR Model_C01 Proofs_C01 Model_C03.
Import ListNotations.
Local Open Scope R_scope.

Notation Rprod := (@nprod R RNum).

Lemma Rprod_nil : Rprod (@nil R) = 1. Proof. reflexivity. Qed.
Lemma Rprod_cons (x : R) (l : list R) : Rprod (x :: l) = x * Rprod l. Proof. reflexivity. Qed.

Lemma exp_neg_sum (l : list R) : exp (- Rsum l) = Rprod (map (fun x => exp (- x)) l).
Proof. induction l as [|x l IH]; cbn [map].
  - rewrite Rsum_nil, Rprod_nil, Ropp_0. apply exp_0.
  - rewrite Rsum_cons, Rprod_cons, <- IH, <- exp_plus. f_equal. ring. Qed.

Lemma Rprod_perm (l m : list R) : Permutation l m -> Rprod l = Rprod m.
Proof. induction 1; rewrite ?Rprod_cons, ?Rprod_nil; try lra; try ring.
  rewrite IHPermutation. reflexivity. Qed.

Lemma Rprod_zero (l : list R) : In 0 l -> Rprod l = 0.
Proof. induction l as [|x l IH]; intros H; [destruct H|]. rewrite Rprod_cons.
  destruct H as [->|H]; [ring|rewrite (IH H); ring]. Qed.

(* ---------------- vectors -------------------------------------------- *)
Lemma nth_vadd (a b : list R) (w : nat) : (w < length a)%nat -> (w < length b)%nat ->
  nth w (@vadd R RNum a b) 0 = nth w a 0 + nth w b 0.
Proof. revert b w. induction a as [|x a IH]; intros [|y b] w Ha Hb; simpl in *; try lia.
  destruct w as [|w]; [rnum; reflexivity|]. apply IH; lia. Qed.

Lemma vadd_length (a b : list R) : length (@vadd R RNum a b) = Nat.min (length a) (length b).
Proof. apply map2_length. Qed.

Section Compose.
  Context (rho path : list R) (m l : nat).
  Notation tf := (fun c => @tau_of R RNum c rho path m l).

  Lemma fold_vadd_length (cs : list (@contrib R)) (t0 : list R) : length t0 = m ->
    length (fold_left (fun t c => @vadd R RNum t (tf c)) cs t0) = m.
  Proof. revert t0. induction cs as [|c cs IH]; intros t0 H0; cbn [fold_left]; [exact H0|].
    apply IH. rewrite vadd_length, tau_of_length, H0. lia. Qed.

  Lemma nth_fold_vadd (cs : list (@contrib R)) (t0 : list R) (w : nat) : length t0 = m -> (w < m)%nat ->
    nth w (fold_left (fun t c => @vadd R RNum t (tf c)) cs t0) 0
    = nth w t0 0 + Rsum (map (fun c => nth w (tf c) 0) cs).
  Proof. revert t0. induction cs as [|c cs IH]; intros t0 H0 Hw; cbn [fold_left map].
    - rewrite Rsum_nil. lra.
    - rewrite IH by (rewrite ?vadd_length, ?tau_of_length, ?H0; lia).
      rewrite nth_vadd by (rewrite ?tau_of_length, ?H0; lia). rewrite Rsum_cons. lra. Qed.

  Lemma nth_zeros (w : nat) : nth w (@zeros R RNum m) 0 = 0.
  Proof. unfold zeros. destruct (le_lt_dec m w).
    - apply nth_overflow. rewrite map_length, seq_length. lia.
    - rewrite (map_nth_lt _ _ 0%nat) by (rewrite seq_length; lia). reflexivity. Qed.

  (* the un-cut optical depth of a set of sources is the sum of the sources' optical depths *)
  Theorem tau_full_additive (cs : list (@contrib R)) (w : nat) : (w < m)%nat ->
    nth w (@tau_full R RNum cs rho path m l) 0 = Rsum (map (fun c => nth w (tf c) 0) cs).
  Proof. intros Hw. unfold tau_full. rewrite nth_fold_vadd by (rewrite ?zeros_length; lia).
    rewrite nth_zeros. lra. Qed.

  Lemma tau_full_length (cs : list (@contrib R)) : length (@tau_full R RNum cs rho path m l) = m.
  Proof. unfold tau_full. apply fold_vadd_length. apply zeros_length. Qed.

  Lemma tau_full_single (c : @contrib R) : @tau_full R RNum [c] rho path m l = tf c.
  Proof. unfold tau_full. cbn [fold_left]. apply (nth_ext _ _ 0 0).
    - rewrite vadd_length, zeros_length, tau_of_length. lia.
    - intros w Hw. rewrite vadd_length, zeros_length, tau_of_length in Hw.
      rewrite nth_vadd by (rewrite ?zeros_length, ?tau_of_length; lia). rewrite nth_zeros. lra. Qed.

  (* transmittance of layer l at wavenumber w for a set of sources, un-cut *)
  Definition Tfull (cs : list (@contrib R)) (w : nat) : R :=
    nth w (@trans R RTNum (@opaque_full R cs l) (@tau_full R RNum cs rho path m l)) 0.

  Lemma Tfull_unfold cs w : (w < m)%nat ->
    Tfull cs w = if @opaque_full R cs l then 0 else exp (- nth w (@tau_full R RNum cs rho path m l) 0).
  Proof. intros Hw. unfold Tfull, trans.
    rewrite (map_nth_lt _ _ 0) by (rewrite tau_full_length; exact Hw). rnum. reflexivity. Qed.

  (* (a) the transmittance of several sources is the product of the sources' transmittances *)
  Theorem transmittance_product (cs : list (@contrib R)) (w : nat) : (w < m)%nat ->
    Tfull cs w = Rprod (map (fun c => Tfull [c] w) cs).
  Proof. intros Hw. rewrite Tfull_unfold by exact Hw.
    assert (Hsingle : forall c, Tfull [c] w = if @opaque_of R c l then 0 else exp (- nth w (tf c) 0)).
    { intros c. rewrite Tfull_unfold by exact Hw. rewrite tau_full_single.
      unfold opaque_full. cbn [existsb]. rewrite orb_false_r. reflexivity. }
    rewrite (map_ext _ _ Hsingle).
    destruct (@opaque_full R cs l) eqn:Eo.
    - symmetry. apply Rprod_zero. unfold opaque_full in Eo. apply existsb_exists in Eo.
      destruct Eo as [c [Hc Ho]]. apply in_map_iff. exists c. rewrite Ho. split; [reflexivity|exact Hc].
    - rewrite tau_full_additive by exact Hw. rewrite exp_neg_sum, map_map.
      f_equal. apply map_ext_in. intros c Hc.
      assert (Hf : @opaque_of R c l = false).
      { destruct (@opaque_of R c l) eqn:E; [|reflexivity]. exfalso.
        assert (@opaque_full R cs l = true) by (unfold opaque_full; apply existsb_exists; exists c; tauto).
        congruence. }
      rewrite Hf. reflexivity. Qed.

  (* (b) the result does not depend on the order in which the sources were added *)
  Lemma opaque_full_perm cs cs' : Permutation cs cs' -> @opaque_full R cs l = @opaque_full R cs' l.
  Proof. intros Hp. unfold opaque_full.
    destruct (existsb (fun c => @opaque_of R c l) cs) eqn:E1; destruct (existsb (fun c => @opaque_of R c l) cs') eqn:E2;
      try reflexivity; exfalso.
    - apply existsb_exists in E1. destruct E1 as [c [Hc Ho]].
      assert (existsb (fun c => @opaque_of R c l) cs' = true)
        by (apply existsb_exists; exists c; split; [apply (Permutation_in _ Hp Hc)|exact Ho]). congruence.
    - apply existsb_exists in E2. destruct E2 as [c [Hc Ho]].
      assert (existsb (fun c => @opaque_of R c l) cs = true)
        by (apply existsb_exists; exists c; split; [apply (Permutation_in _ (Permutation_sym Hp) Hc)|exact Ho]). congruence.
  Qed.

  Theorem order_independent cs cs' w : (w < m)%nat -> Permutation cs cs' -> Tfull cs w = Tfull cs' w.
  Proof. intros Hw Hp. rewrite !Tfull_unfold by exact Hw. rewrite (opaque_full_perm cs cs' Hp).
    rewrite !tau_full_additive by exact Hw.
    rewrite (Rsum_perm _ _ (Permutation_map (fun c => nth w (tf c) 0) Hp)). reflexivity. Qed.
End Compose.

(* ---------------- components: weighting by abundance -------------------- *)
Lemma nth_map2_lt {A B C} (f : A -> B -> C) (a : list A) (b : list B) (da : A) (db : B) (dc : C) (i : nat) :
  (i < length a)%nat -> (i < length b)%nat -> nth i (map2 f a b) dc = f (nth i a da) (nth i b db).
Proof. revert b i. induction a as [|x a IH]; intros [|y b] i Ha Hb; simpl in *; try lia.
  destruct i as [|i]; [reflexivity|]. apply IH; lia. Qed.

Lemma sig_at_weighted (factor : list R) (xsec : list (list R)) (l w : nat) :
  (l < length factor)%nat -> (l < length xsec)%nat ->
  @sig_at R RNum (@weighted R RNum factor xsec) l w = @sig_at R RNum xsec l w * nth l factor 0.
Proof. intros Hf Hx. unfold sig_at, weighted, nth_d. rnum.
  rewrite (nth_map2_lt _ factor xsec 0 [] []) by assumption.
  destruct (le_lt_dec (length (nth l xsec [])) w) as [Hge|Hlt].
  - rewrite !nth_overflow by (rewrite ?map_length; exact Hge). ring.
  - rewrite (map_nth_lt _ _ 0 0) by exact Hlt. reflexivity. Qed.

(* (c) a species at zero abundance changes nothing *)
Theorem zero_abundance_component (factor : list R) (xsec : list (list R)) :
  Forall (fun f => f = 0) factor -> zero_sigma (@weighted R RNum factor xsec).
Proof. unfold zero_sigma, weighted. revert xsec. induction factor as [|f factor IH]; intros [|row xsec] Hz;
    cbn [map2]; try constructor.
  - inversion Hz; subst. apply Forall_forall. intros x Hx. apply in_map_iff in Hx.
    destruct Hx as [y [<- _]]. rnum. ring.
  - apply IH. inversion Hz; assumption. Qed.

(* a component's weighted opacity is proportional to its abundance *)
Theorem weighted_proportional (c : R) (factor : list R) (xsec : list (list R)) (l w : nat) :
  (l < length factor)%nat -> (l < length xsec)%nat ->
  @sig_at R RNum (@weighted R RNum (map (fun f => c * f) factor) xsec) l w
  = c * @sig_at R RNum (@weighted R RNum factor xsec) l w.
Proof. intros Hf Hx. rewrite !sig_at_weighted by (rewrite ?map_length; assumption).
  rewrite (map_nth_lt _ factor 0 0) by exact Hf. ring. Qed.

(* collision-induced absorption: weighted by the product of both partners' ratios *)
Theorem cia_factor_product (mix1 mix2 : list R) (l : nat) :
  (l < length mix1)%nat -> (l < length mix2)%nat ->
  nth l (@cia_factor R RNum mix1 mix2) 0 = nth l mix1 0 * nth l mix2 0.
Proof. intros H1 H2. unfold cia_factor. rewrite (nth_map2_lt _ mix1 mix2 0 0 0) by assumption. reflexivity. Qed.

(* ... and integrated against the density squared *)
Theorem cia_density_squared sigma rho path l w :
  @tau_loop R RNum true sigma rho path l w
  = Rsum (map (fun k => @sig_at R RNum sigma (k + l) w * @nth_d R RNum path k
                        * (@nth_d R RNum rho (k + l) * @nth_d R RNum rho (k + l)))
              (seq 0 (length path))).
Proof. rewrite tau_loop_is_sum. reflexivity. Qed.
