(* Model_C11a.v — ArrayPressureProfile.compute_pressure_profile (taurex/data/profiles/pressure/arraypressure.py):
   the level pressures reconstructed around a given list of layer pressures, in log10 space (the code computes
   logp = log10(P), gradp = np.gradient(logp), levels = 10^append(logp - gradp/2, logp[-1] + gradp[-1]/2); the model is
   the part between the log10 and the power of ten). Definitions only. *)
From Coq Require Import List Arith.
From TV Require Import Num ListNum.
Import ListNotations.

Section ArrayPressure.
  Context {T : Type} {N : Num T}.
  Local Open Scope num_scope.

  (* np.gradient with unit spacing: one-sided differences at the ends, centred differences inside (needs >= 2 points) *)
  Definition grad_at (l : list T) (i : nat) : T :=
    let n := length l in
    if (i =? 0)%nat then nth_d l 1 - nth_d l 0
    else if (i =? n - 1)%nat then nth_d l (n - 1) - nth_d l (n - 2)
    else (nth_d l (i + 1) - nth_d l (i - 1)) / n2.

  (* the i-th level, i = 0 .. n *)
  Definition array_loglevel (l : list T) (i : nat) : T :=
    let n := length l in
    if (i <? n)%nat then nth_d l i - grad_at l i / n2
    else nth_d l (n - 1) + grad_at l (n - 1) / n2.

  Definition array_loglevels (l : list T) : list T :=
    let n := length l in
    map (fun i => nth_d l i - grad_at l i / n2) (seq 0 n) ++ [nth_d l (n - 1) + grad_at l (n - 1) / n2].
End ArrayPressure.
