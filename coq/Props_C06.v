(* Props_C06.v — C06: every sampler is handed the Gaussian log-likelihood of the binned model. *)
From Coq Require Import Reals List Lra.
From TV Require Import Num ListNum ListNumR Model_C06 Proofs_C06.
From TV Require Import NumIv Reflect.
Import ListNotations.
Local Open Scope R_scope.

(* -sum log(sigma sqrt(2 pi)) - chi^2/2 is the log of the product of the Gaussian densities *)
Theorem C06_loglike_is_gaussian : forall (data sig model : list R),
  length sig = length data -> length model = length data -> Forall (fun s => 0 < s) sig ->
  @gauss_loglike R RTNum data sig model
  = Rsum (map2 (fun ds m => ln (@normal_pdf R RTNum (fst ds) m (snd ds))) (combine data sig) model).
Proof. exact loglike_is_log_density. Qed.
Print Assumptions C06_loglike_is_gaussian.

(* the forward model is evaluated at exactly the prior-transformed values, in parameter order *)
Theorem C06_update_order : forall (Ctx : Type) (tm : list (R -> R)) (w : @world R Ctx) (v : list R) (i : nat) (f : R -> R) (x : R),
  nth_error tm i = Some f -> nth_error v i = Some x ->
  nth_error (fitted (@update R Ctx tm w v)) i = Some (f x).
Proof. intros Ctx tm. exact (update_order tm). Qed.
Print Assumptions C06_update_order.

Theorem C06_valid_model_value : forall (Ctx : Type) (fm : list R -> Ctx -> option (list R)) (tm : list (R -> R))
  (data sig : list R) (w : @world R Ctx) (v m : list R),
  fm (map2 (fun f x => f x) tm v) (other w) = Some m ->
  snd (@loglike R RTNum Ctx fm tm data sig w v) = Some (@gauss_loglike R RTNum data sig m).
Proof. intros Ctx fm tm data sig. exact (valid_model_value fm tm data sig). Qed.
Print Assumptions C06_valid_model_value.

(* any sequence of valid and invalid vectors before it does not change the value returned for a vector *)
Theorem C06_history_independent : forall (Ctx : Type) (fm : list R -> Ctx -> option (list R)) (tm : list (R -> R))
  (data sig : list R) (w : @world R Ctx) (vs : list (list R)) (v : list R),
  snd (@loglike R RTNum Ctx fm tm data sig (eval_seq fm tm data sig w vs) v)
  = snd (@loglike R RTNum Ctx fm tm data sig w v).
Proof. intros Ctx fm tm data sig. exact (history_independent fm tm data sig). Qed.
Print Assumptions C06_history_independent.

(* an invalid atmosphere returns normally and never yields a finite likelihood *)
Theorem C06_invalid_not_finite : forall (Ctx : Type) (fm : list R -> Ctx -> option (list R)) (tm : list (R -> R))
  (data sig : list R) (w : @world R Ctx) (v : list R),
  fm (fitted (@update R Ctx tm w v)) (other w) = None ->
  snd (@loglike R RTNum Ctx fm tm data sig w v) = None.
Proof. intros Ctx fm tm data sig. exact (invalid_model_not_finite fm tm data sig). Qed.
Print Assumptions C06_invalid_not_finite.

(* nestle, MultiNest and PolyChord wrappers compute the same function of the cube prefix *)
Theorem C06_wrappers_agree : forall (Ctx : Type) (fm : list R -> Ctx -> option (list R)) (tm : list (R -> R))
  (data sig : list R) (w : @world R Ctx) (ndim : nat) (cube : list R),
  @multinest_loglike R RTNum Ctx fm tm data sig w ndim cube
    = @nestle_loglike R RTNum Ctx fm tm data sig w (firstn ndim cube) /\
  (let '(w', l, d) := @polychord_loglike R RTNum Ctx fm tm data sig w ndim cube in (w', l))
    = @nestle_loglike R RTNum Ctx fm tm data sig w (firstn ndim cube).
Proof. intros Ctx fm tm data sig. exact (wrappers_agree fm tm data sig). Qed.
Print Assumptions C06_wrappers_agree.

(* the prior callback maps the unit cube through each parameter's prior in the same order *)
Theorem C06_prior_order : forall (samplers : list (R -> R)) (u : list R) (i : nat) (f : R -> R) (x : R),
  nth_error samplers i = Some f -> nth_error u i = Some x ->
  nth_error (@prior_cb R samplers u) i = Some (f x).
Proof. exact prior_cb_order. Qed.
Print Assumptions C06_prior_order.

Theorem C06_multinest_prior_in_place : forall (samplers : list (R -> R)) (cube : list R),
  (length samplers <= length cube)%nat ->
  firstn (length samplers) (@multinest_prior R samplers cube) = @prior_cb R samplers (firstn (length samplers) cube) /\
  skipn (length samplers) (@multinest_prior R samplers cube) = skipn (length samplers) cube.
Proof. exact multinest_prior_prefix. Qed.
Print Assumptions C06_multinest_prior_in_place.

(* the executed (interval) instance of the Gaussian log-likelihood encloses the real-number instance, for positive
   error bars (Reflect.v) *)
Theorem C06_loglike_enclosed : forall dI dR sI sR mI mR, encl_list dI dR -> encl_list sI sR -> encl_list mI mR ->
  Forall (fun s => 0 < s) sR ->
  encloses (@gauss_loglike _ IvTNum dI sI mI) (@gauss_loglike R RTNum dR sR mR).
Proof. exact gauss_loglike_transfer. Qed.
Print Assumptions C06_loglike_enclosed.
