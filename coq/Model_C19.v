(* Model_C19.v — clouds and hazes (taurex/contributions/simpleclouds.py, flatmie.py, leemie.py). *)
From Coq Require Import ZArith List Bool Arith.
From TV Require Import Num ListNum.
Import ListNotations.

Section Clouds.
  Context {T : Type} {N : Num T}.
  Local Open Scope num_scope.

  (* SimpleCloudsContribution.prepare_each: layer l is opaque iff P_l >= P_cloud *)
  Definition cloud_flags (P : list T) (Pc : T) : list bool := map (fun p => Pc <=? p) P.

  (* FlatMieContribution.prepare_each.
     lv : log10 of the n+1 level pressures in ASCENDING order (top of atmosphere first),
     lo hi : the sorted window bounds in log10 (unset bounds already replaced by lv's ends),
     mix : the grey opacity.  Result in the same (ascending-pressure) layer order; the code
     finally reverses it to the model's surface-first order. *)
  Definition flat_w (lv : list T) (lo hi : T) (i : nat) : T :=
    nmax n0 (nmin hi (nth_d lv (i + 1)) - nmax lo (nth_d lv i)).
  Definition flat_start (lv : list T) (lo : T) : nat := ss_right (tl lv) lo.             (* P_right *)
  Definition flat_stop (lv : list T) (hi : T) : nat := ss_right (tl (removelast lv)) hi.  (* P_left[1:] *)
  Definition flat_sigma_asc (lv : list T) (lo hi mix : T) : list T :=
    let n := (length lv - 1)%nat in
    let start := flat_start lv lo in
    let stop := flat_stop lv hi in
    let ws := map (flat_w lv lo hi) (seq start (Nat.min (stop + 1) n - start)) in
    let wmax := lmax n0 ws in
    map (fun i => if (start <=? i)%nat && (i <=? stop)%nat
                  then (if n0 <? wmax then flat_w lv lo hi i / wmax else flat_w lv lo hi i) * mix
                  else n0)
        (seq 0 n).
  Definition flat_sigma (lv : list T) (lo hi mix : T) : list T := rev (flat_sigma_asc lv lo hi mix).

  (* window bounds: an unset (negative) bound means the end of the atmosphere; the pair is sorted *)
  Definition flat_window (lv : list T) (top bottom : option T) : T * T :=
    let b := match bottom with Some x => x | None => nth_d lv (length lv - 1) end in
    let t := match top with Some x => x | None => nth_d lv 0 end in
    (nmin t b, nmax t b).

  (* LeeMieContribution: layers whose centre pressure lies in [top, bottom] *)
  Definition lee_filter (P : list T) (top bottom : T) : list bool :=
    map (fun p => (p <=? bottom) && (top <=? p)) P.
End Clouds.

Section Lee.
  Context {T : Type} {N : TNum T}.
  Local Open Scope num_scope.
  Definition npow (x y : T) : T := nexp (y * nln x).
  (* Qext = 5 / (Q x^-4 + x^0.2),  x = 2 pi a / wavelength(um),  sigma = Qext pi (a 1e-6)^2 *)
  Definition lee_sigma (a Q wn : T) : T :=
    let wl := nofZ 10000 / wn in
    let x := n2 * npi * a / wl in
    let qext := nofZ 5 / (Q * npow x (- nofZ 4) + npow x (n1 / nofZ 5)) in
    let am := a * (n1 / nofZ 1000000) in
    qext * npi * (am * am).
  Definition lee_layer (flag : bool) (a Q mix : T) (wn : list T) : list T :=
    map (fun w => if flag then lee_sigma a Q w * mix else n0) wn.
End Lee.
