(* Props_C16.v — C16: output files hold what was computed and reload to the same model. *)
From Coq Require Import String List Bool Reals Arith ZArith QArith.
From TV Require Import Num ListNum Model_C16 Proofs_C16.
Import ListNotations.
Local Open Scope string_scope.

(* (a) every nested name of a result dictionary is the same nested name in the file, holding the stored form of
   that entry; nothing else is in the file *)
Theorem C16_store_path : forall (p : list string) (i : item),
  get_node p (store i) = option_map store (get_item p i).
Proof. exact store_path. Qed.
Print Assumptions C16_store_path.

Theorem C16_values_unchanged : forall (l : leaf), value_of_dset (store_leaf l) = value_of_leaf l.
Proof. exact values_unchanged. Qed.
Print Assumptions C16_values_unchanged.

Theorem C16_stored_under_same_name : forall (p : list string) (i : item) (l : leaf),
  get_item p i = Some (Leaf l) ->
  exists d, get_node p (store i) = Some (NData d) /\ value_of_dset d = value_of_leaf l.
Proof. exact stored_under_same_name. Qed.
Print Assumptions C16_stored_under_same_name.

Theorem C16_nothing_else_stored : forall (p : list string) (i : item),
  get_item p i = None -> get_node p (store i) = None.
Proof. exact nothing_else_stored. Qed.
Print Assumptions C16_nothing_else_stored.

(* (b) optical depths according to the output size; spectra and grids always *)
Theorem C16_native_tau_iff : forall (b : bkind) (sz : Z), In "native_tau" (spectrum_keys b sz) <-> (light < sz)%Z.
Proof. exact native_tau_iff. Qed.
Print Assumptions C16_native_tau_iff.

Theorem C16_binned_tau_iff : forall (b : bkind) (sz : Z),
  In "binned_tau" (spectrum_keys b sz) <-> (b <> BNative /\ (lighter < sz)%Z).
Proof. exact binned_tau_iff. Qed.
Print Assumptions C16_binned_tau_iff.

Theorem C16_spectrum_always_present : forall (b : bkind) (sz : Z),
  In "native_wngrid" (spectrum_keys b sz) /\ In "native_wlgrid" (spectrum_keys b sz) /\
  In "native_spectrum" (spectrum_keys b sz) /\
  (b <> BNative -> In "binned_spectrum" (spectrum_keys b sz) /\ In "binned_wngrid" (spectrum_keys b sz) /\
                   In "binned_wlgrid" (spectrum_keys b sz) /\ In "binned_wnwidth" (spectrum_keys b sz) /\
                   In "binned_wlwidth" (spectrum_keys b sz)).
Proof. exact spectrum_always_present. Qed.
Print Assumptions C16_spectrum_always_present.

Local Open Scope R_scope.
Theorem C16_grids_consistent : forall (wn w : list R) (k : nat), (k < length wn)%nat -> length w = length wn ->
  nth k (@wl_of R RNum wn) 0 = 10000 / nth k wn 0 /\
  nth k (@wlwidth_of R RNum wn w) 0 = 10000 * nth k w 0 / (nth k wn 0 * nth k wn 0) /\
  length (@wl_of R RNum wn) = length wn /\ length (@wlwidth_of R RNum wn w) = length wn.
Proof. exact grids_consistent. Qed.
Print Assumptions C16_grids_consistent.

Theorem C16_width_conversion_inverts : forall (g w : R), g <> 0 ->
  let wl := 10000 / g in let wlw := 10000 * w / (g * g) in 10000 * wlw / (wl * wl) = w.
Proof. exact width_conversion_inverts. Qed.
Print Assumptions C16_width_conversion_inverts.
Local Close Scope R_scope.

(* (c) a component whose write() stores every constructor keyword under its own name is rebuilt with the values
   it was written with; a keyword that is not written is silently replaced by the constructor default *)
Theorem C16_complete_write_reloads : forall (V : Type) (kwargs written : list string) (orig : string -> V) (k : string),
  complete kwargs written = true -> In k kwargs ->
  lookup k (load_args kwargs (map (fun w => (w, orig w)) written) [] []) = Some (orig k).
Proof. intros V. exact (@complete_write_reloads V). Qed.
Print Assumptions C16_complete_write_reloads.

Theorem C16_unwritten_keyword_is_lost : forall (V : Type) (kwargs : list string) (stored premade : list (string * V)) (k : string),
  lookup k premade = None -> lookup k stored = None -> lookup k (load_args kwargs stored premade []) = None.
Proof. intros V. exact (@unwritten_keyword_is_lost V). Qed.
Print Assumptions C16_unwritten_keyword_is_lost.

(* non-vacuity *)
Example C16_example :
  let d := Dict [("Spectra", Dict [("native_wngrid", Leaf (LArray [2%nat] [1%Q; 2%Q])); ("names", Leaf (LStrList false ["a"; "b"]))]);
                 ("logZ", Leaf (LScalar 3%Q))] in
  get_item ["Spectra"; "names"] d = Some (Leaf (LStrList false ["a"; "b"])) /\
  get_node ["Spectra"; "names"] (store d) = Some (NData (DStrArray ["a"; "b"])) /\
  complete ["T"; "alpha"] ["alpha"; "T"; "temperature_type"] = true.
Proof. cbv zeta. repeat split; reflexivity. Qed.
