(* Exec_C02.v — executable wrappers (interval arithmetic) for the emission checks. *)
From Coq Require Import ZArith List.
From TV Require Import Num NumIv ListNum Model_C01 Model_C02.
Import ListNotations.

(* returns [ intensities per angle per wavenumber ; [final spectrum per wavenumber] ] *)
Definition run_emission (directimg : bool) (h c k : I.type) (wn Tl : list I.type)
  (cs : list (@contrib I.type)) (rho dz mus wts : list I.type) (Tstar Rp Rs dist : I.type)
  : list (list (list (list Z))) :=
  let Is := @emission_I I.type IvTNum h c k wn Tl cs rho dz mus in
  let m := length wn in
  let spec := map (fun w =>
                let fl := @flux I.type IvTNum Is mus wts w in
                if directimg then @direct I.type IvTNum fl Rp dist
                else @eclipse I.type IvTNum fl (@planck I.type IvTNum h c k (nth w wn (@n0 _ IvNum)) Tstar) Rp Rs)
              (seq 0 m) in
  [ map (map Iout) Is ; [ map Iout spec ] ].

(* correlated-k mode: cs are the non-molecular sources, sigma[layer][wn][g] the molecular k-coefficients, kwts the
   quadrature weights of the k-distribution *)
Definition run_kemission (directimg : bool) (h c k : I.type) (wn Tl : list I.type)
  (cs : list (@contrib I.type)) (sigma : list (list (list I.type))) (kwts rho dz mus wts : list I.type)
  (Tstar Rp Rs dist : I.type) : list (list (list (list Z))) :=
  let Is := @kemission_I I.type IvTNum h c k wn Tl cs sigma kwts rho dz mus in
  let m := length wn in
  let spec := map (fun w =>
                let fl := @flux I.type IvTNum Is mus wts w in
                if directimg then @direct I.type IvTNum fl Rp dist
                else @eclipse I.type IvTNum fl (@planck I.type IvTNum h c k (nth w wn (@n0 _ IvNum)) Tstar) Rp Rs)
              (seq 0 m) in
  [ map (map Iout) Is ; [ map Iout spec ] ].
