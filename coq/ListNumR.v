(* ListNumR.v — lemmas about the list vocabulary at the real-number instance. *)
From Coq Require Import ZArith Reals List Bool Arith Lia Lra Permutation Sorting.Sorted.
From TV Require Import Num ListNum.
Import ListNotations.
Local Open Scope R_scope.

Notation Rsum := (@nsum R RNum).
Notation Rdot := (@ndot R RNum).

Lemma Rsum_nil : Rsum (@nil R) = 0. Proof. reflexivity. Qed.
Lemma Rsum_cons (x : R) (l : list R) : Rsum (x :: l) = x + Rsum l. Proof. reflexivity. Qed.

Ltac rsum := cbn [map app combine]; rewrite ?Rsum_cons, ?Rsum_nil.

Lemma Rsum_app (l m : list R) : Rsum (l ++ m) = Rsum l + Rsum m.
Proof. induction l as [|x l IH]; rsum; [lra|]. rewrite IH. lra. Qed.

Lemma Rsum_scale (c : R) (l : list R) : Rsum (map (fun x => c * x) l) = c * Rsum l.
Proof. induction l as [|x l IH]; rsum; [lra|]. rewrite IH. lra. Qed.

Lemma Rsum_map_add {A} (f g : A -> R) l :
  Rsum (map (fun a => f a + g a) l) = Rsum (map f l) + Rsum (map g l).
Proof. induction l as [|x l IH]; rsum; [lra|]. rewrite IH. lra. Qed.

Lemma Rsum_map_scale {A} c (f : A -> R) l :
  Rsum (map (fun a => c * f a) l) = c * Rsum (map f l).
Proof. induction l as [|x l IH]; rsum; [lra|]. rewrite IH. lra. Qed.

Lemma Rsum_nonneg (l : list R) : Forall (fun x => 0 <= x) l -> 0 <= Rsum l.
Proof. induction 1 as [|x l Hx _ IH]; rsum; lra. Qed.

Lemma Rsum_map_nonneg {A} (f : A -> R) l : (forall a, In a l -> 0 <= f a) -> 0 <= Rsum (map f l).
Proof. intros H. apply Rsum_nonneg. apply Forall_forall. intros x Hx.
  apply in_map_iff in Hx. destruct Hx as [a [<- Ha]]. auto. Qed.

Lemma Rsum_map_le {A} (f g : A -> R) l :
  (forall a, In a l -> f a <= g a) -> Rsum (map f l) <= Rsum (map g l).
Proof. induction l as [|x l IH]; intros H; rsum; [lra|].
  assert (f x <= g x) by (apply H; left; reflexivity).
  assert (Rsum (map f l) <= Rsum (map g l)) by (apply IH; intros; apply H; right; assumption). lra. Qed.

Lemma Rsum_map_ext {A} (f g : A -> R) l :
  (forall a, In a l -> f a = g a) -> Rsum (map f l) = Rsum (map g l).
Proof. intros H. f_equal. apply map_ext_in. exact H. Qed.

Lemma Rsum_map_zero {A} (f : A -> R) l : (forall a, In a l -> f a = 0) -> Rsum (map f l) = 0.
Proof. induction l as [|x l IH]; intros H; rsum; [lra|].
  rewrite IH by (intros; apply H; right; assumption). rewrite (H x) by (left; reflexivity). lra. Qed.

Lemma Rsum_perm (l m : list R) : Permutation l m -> Rsum l = Rsum m.
Proof. induction 1; rsum; lra. Qed.

Lemma Rsum_const {A} (c : R) (l : list A) : Rsum (map (fun _ => c) l) = INR (length l) * c.
Proof. induction l as [|x l IH]; rsum; [simpl; lra|].
  rewrite IH. change (length (x :: l)) with (S (length l)). rewrite S_INR. lra. Qed.

(* map2 facts *)
Lemma map2_length {A B C} (f : A -> B -> C) l m :
  length (map2 f l m) = Nat.min (length l) (length m).
Proof. revert m; induction l as [|a l IH]; intros [|b m]; simpl; auto. Qed.

Lemma map2_map_r {A B C} (f : A -> B -> C) (g : B -> A) (m : list B) :
  map2 f (map g m) m = map (fun b => f (g b) b) m.
Proof. induction m as [|b m IH]; simpl; [reflexivity|]. rewrite IH. reflexivity. Qed.

(* ---- weighted means ------------------------------------------------ *)
(* sum_i (w_i / sw) * f_i for a list of (weight, value) pairs *)
Definition wmean (wf : list (R * R)) : R :=
  Rsum (map (fun p => fst p / Rsum (map fst wf) * snd p) wf).

Lemma wmean_alt (wf : list (R * R)) : wmean wf = Rsum (map (fun p => fst p * snd p) wf) / Rsum (map fst wf).
Proof. unfold wmean. set (s := Rsum (map fst wf)).
  rewrite (Rsum_map_ext (fun p => fst p / s * snd p) (fun p => / s * (fst p * snd p))).
  - rewrite Rsum_map_scale. unfold Rdiv. ring.
  - intros p _. unfold Rdiv. ring.
Qed.

Lemma wmean_bounds (wf : list (R * R)) (lo hi : R) :
  Forall (fun p => 0 <= fst p) wf -> 0 < Rsum (map fst wf) ->
  Forall (fun p => 0 < fst p -> lo <= snd p <= hi) wf ->
  lo <= wmean wf <= hi.
Proof. intros Hw Hs Hf. rewrite wmean_alt. set (s := Rsum (map fst wf)) in *.
  assert (Hlo : lo * s <= Rsum (map (fun p => fst p * snd p) wf)).
  { unfold s. rewrite <- Rsum_map_scale. apply Rsum_map_le. intros p Hp.
    rewrite Forall_forall in Hw, Hf. specialize (Hw p Hp). specialize (Hf p Hp).
    destruct (Rle_lt_or_eq_dec _ _ Hw) as [Hpos|Hz]; [specialize (Hf Hpos); nra | rewrite <- Hz; lra]. }
  assert (Hhi : Rsum (map (fun p => fst p * snd p) wf) <= hi * s).
  { unfold s. rewrite <- Rsum_map_scale. apply Rsum_map_le. intros p Hp.
    rewrite Forall_forall in Hw, Hf. specialize (Hw p Hp). specialize (Hf p Hp).
    destruct (Rle_lt_or_eq_dec _ _ Hw) as [Hpos|Hz]; [specialize (Hf Hpos); nra | rewrite <- Hz; lra]. }
  split.
  - apply Rmult_le_reg_r with s; [lra|]. unfold Rdiv. rewrite Rmult_assoc, Rinv_l by lra. lra.
  - apply Rmult_le_reg_r with s; [lra|]. unfold Rdiv. rewrite Rmult_assoc, Rinv_l by lra. lra.
Qed.

Lemma wmean_const (wf : list (R * R)) (c : R) :
  Rsum (map fst wf) <> 0 -> Forall (fun p => snd p = c) wf -> wmean wf = c.
Proof. intros Hs Hc. rewrite wmean_alt.
  rewrite (Rsum_map_ext (fun p => fst p * snd p) (fun p => c * fst p)).
  - rewrite Rsum_map_scale. field. exact Hs.
  - intros p Hp. rewrite Forall_forall in Hc. specialize (Hc p Hp). cbv beta in *. rewrite Hc. lra.
Qed.

Lemma map_fst_combine {A B} (w : list A) (v : list B) :
  length v = length w -> map fst (combine w v) = w.
Proof. revert v. induction w as [|a w IH]; intros [|b v] Hv; simpl in *; try discriminate; auto.
  f_equal. apply IH. lia. Qed.

Lemma Rsum_combine_linear (w f g : list R) (al be : R) :
  length f = length w -> length g = length w ->
  Rsum (map (fun p => fst p * snd p) (combine w (map2 (fun x y => al * x + be * y) f g)))
  = al * Rsum (map (fun p => fst p * snd p) (combine w f))
    + be * Rsum (map (fun p => fst p * snd p) (combine w g)).
Proof. revert f g. induction w as [|a w IH]; intros [|x f] [|y g] Hf Hg;
    simpl in Hf, Hg; try discriminate; cbn [map2]; rsum; [lra|].
  rewrite IH by lia. cbn [fst snd]. lra. Qed.

(* linearity in the values, weights fixed *)
Lemma wmean_linear (w f g : list R) (al be : R) :
  length f = length w -> length g = length w ->
  wmean (combine w (map2 (fun x y => al * x + be * y) f g))
  = al * wmean (combine w f) + be * wmean (combine w g).
Proof. intros Hf Hg. rewrite !wmean_alt.
  rewrite (map_fst_combine w f Hf), (map_fst_combine w g Hg).
  rewrite map_fst_combine by (rewrite map2_length; lia).
  rewrite Rsum_combine_linear by assumption. unfold Rdiv. lra.
Qed.
