(* NumIv.v — the interval-arithmetic instance of the number interface
   (Interval library, arbitrary-precision radix-2 floats, 80-bit working precision).
   Only ever *executed* (vm_compute); it returns a rigorous enclosure of the
   real value of a model when all inputs are points. *)
From Coq Require Import ZArith List Bool.
From Interval Require Import Specific_bigint Specific_ops Float_full Interval Xreal Basic.
From Bignums Require Import BigZ.
From TV Require Import Num.
Import ListNotations.

Module F := SpecificFloat BigIntRadix2.
Module I := FloatIntervalFull F.

Definition prec := F.PtoP 80.

Definition Fdy (m e : Z) : F.type :=
  @Specific_ops.Float BigIntRadix2.smantissa_type BigIntRadix2.exponent_type
    (BigIntRadix2.ZtoM m) (BigIntRadix2.ZtoE e).

(* m * 2^e as a point interval *)
Definition Idy (m e : Z) : I.type := let f := Fdy m e in I.bnd f f.

(* comparisons: exact on point intervals (all inputs are points); on computed
   values the mid-points are compared *)
Definition Fleb (x y : F.type) : bool :=
  match F.cmp x y with Xlt | Xeq => true | _ => false end.
Definition Fltb (x y : F.type) : bool :=
  match F.cmp x y with Xlt => true | _ => false end.
Definition Ileb (x y : I.type) : bool := Fleb (I.midpoint x) (I.midpoint y).
Definition Iltb (x y : I.type) : bool := Fltb (I.midpoint x) (I.midpoint y).

#[export] Instance IvNum : Num I.type := {|
  n0 := I.fromZ prec 0; n1 := I.fromZ prec 1;
  nadd := I.add prec; nsub := I.sub prec; nmul := I.mul prec; ndiv := I.div prec;
  nopp := I.neg;
  nleb := Ileb; nltb := Iltb; nofZ := I.fromZ prec |}.

(* exp with a guard against astronomically small results: when x + 1400 is certainly negative, exp x lies in
   [0, exp(-1400)] and that interval (upper end: the upper end of the enclosure of exp(-1400), about 2^-2019.8) is
   returned; without the guard a later `1 - exp x` would align mantissas over millions of bits. The guard is built
   from interval operations only, so that its soundness (Reflect.Iexp_correct) follows from the library's own
   correctness lemmas. *)
Definition Iexp (x : I.type) : I.type :=
  match I.sign_strict (I.add prec x (I.fromZ prec 1400)) with
  | Xlt => I.meet (I.lower_extent (I.exp prec (I.fromZ prec (-1400)))) (I.upper_extent I.zero)
  | _ => I.exp prec x
  end.

#[export] Instance IvTNum : TNum I.type := {|
  tnum := IvNum; nexp := Iexp; nln := I.ln prec; nsqrt := I.sqrt prec; npi := I.pi prec |}.

(* printable form: [tag; m_lo; e_lo; m_hi; e_hi]  value bounds are m*2^e; tag 0 = finite,
   1 = NaN / unbounded *)
Definition Fout (f : F.type) : option (Z * Z) :=
  match F.toF f with
  | Fzero => Some (0%Z, 0%Z)
  | Basic.Float s m e => Some ((if s then Zneg m else Zpos m), e)
  | Fnan => None
  end.

Definition Iout (x : I.type) : list Z :=
  match x with
  | Float.Ibnd l u =>
      match Fout l, Fout u with
      | Some (ml, el), Some (mu, eu) => [0; ml; el; mu; eu]%Z
      | _, _ => [1; 0; 0; 0; 0]%Z
      end
  | _ => [1; 0; 0; 0; 0]%Z
  end.
