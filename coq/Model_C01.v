(* Model_C01.v — transmission forward model
   (taurex/model/transmission.py : compute_path_length_old, compute_path_length (new method, via
    taurex/util/geometry.py restricted to the parallel_vector configuration), path_integral,
    compute_absorption ; taurex/contributions/contribution.py : contribute_tau ;
    taurex/contributions/cia.py : contribute_cia ; simpleclouds.py : contribute).
   Shared by C01, C03, C19 and C20. Definitions only. *)
From Coq Require Import ZArith List Bool Arith.
From TV Require Import Num ListNum.
Import ListNotations.

Section Geometry.
  Context {T : Type} {N : TNum T}.
  Local Open Scope num_scope.

  (* old method.  z : altitude of each layer (n), dz : thickness of each layer (n), Rp : radius.
     for layer l:  p = (Rp + dz0/2 + z_l)^2,
       k_0 = sqrt((Rp + dz0/2 + z_l + dz_l/2)^2 - p)
       k_j = sqrt((Rp + dz0/2 + z_{l+j} + dz_{l+j}/2)^2 - p) - sqrt((Rp + dz0/2 + z_{l+j-1} + dz_{l+j-1}/2)^2 - p)
     path = 2 k *)
  Definition shell_old (Rp : T) (z dz : list T) (j : nat) : T :=
    Rp + nth_d dz 0 / n2 + nth_d z j + nth_d dz j / n2.
  Definition tangent_old (Rp : T) (z dz : list T) (l : nat) : T :=
    Rp + nth_d dz 0 / n2 + nth_d z l.
  Definition half_chord (r p : T) : T := nsqrt (r * r - p * p).

  Definition path_old (Rp : T) (z dz : list T) (l : nat) : list T :=
    let n := length z in
    let p := tangent_old Rp z dz l in
    map (fun j => match j with
                  | O => n2 * half_chord (shell_old Rp z dz l) p
                  | S j' => n2 * (half_chord (shell_old Rp z dz (l + j)) p
                                  - half_chord (shell_old Rp z dz (l + j')) p)
                  end)
        (seq 0 (n - l)).

  (* new method. zb : altitude of the n+1 layer boundaries; the ray for layer l is tangent at
     Rp + z_l + dz_l/2 and crosses the spheres Rp + zb_j with zb_j above the tangent point (j > l):
     segment lengths are differences of successive full chords. *)
  Definition path_new (Rp : T) (z dz zb : list T) (l : nat) : list T :=
    let n := length z in
    let p := Rp + (nth_d z l + nth_d dz l / n2) in
    map (fun j => match j with
                  | O => n2 * half_chord (Rp + nth_d zb (l + 1)) p
                  | S j' => n2 * half_chord (Rp + nth_d zb (l + j + 1)) p
                            - n2 * half_chord (Rp + nth_d zb (l + j' + 1)) p
                  end)
        (seq 0 (n - l)).
End Geometry.

Section Tau.
  Context {T : Type} {N : Num T}.
  Local Open Scope num_scope.

  (* one opacity source after prepare():
       Sig false sigma : sigma[layer][wn] * rho        (absorption, Rayleigh, hazes ...)
       Sig true  sigma : sigma[layer][wn] * rho^2      (collision-induced absorption)
       Cloud flags     : infinite optical depth in the flagged layers (SimpleClouds) *)
  Inductive contrib :=
  | Sig (squared : bool) (sigma : list (list T))
  | Cloud (opaque : list bool).

  Definition sig_at (sigma : list (list T)) (l w : nat) : T := nth_d (nth l sigma []) w.

  (* contribute_tau / contribute_cia for one (layer, wavenumber): the loop
       for k in range(0, endK): tau += sigma[k+layer, wn] * path[k] * density[k+layer](^2) *)
  Definition tau_loop (squared : bool) (sigma : list (list T)) (rho path : list T) (l w : nat) : T :=
    fold_left (fun acc k =>
                 let d := nth_d rho (k + l) in
                 let d := if squared then d * d else d in
                 acc + sig_at sigma (k + l) w * nth_d path k * d)
              (seq 0 (length path)) n0.

  (* finite part of the optical depth one source adds to layer l, for each of m wavenumbers *)
  Definition tau_of (c : contrib) (rho path : list T) (m l : nat) : list T :=
    match c with
    | Sig sq sigma => map (tau_loop sq sigma rho path l) (seq 0 m)
    | Cloud _ => map (fun _ => n0) (seq 0 m)
    end.
  Definition opaque_of (c : contrib) (l : nat) : bool :=
    match c with Sig _ _ => false | Cloud fl => nth l fl false end.

  Definition zeros (m : nat) : list T := map (fun _ => n0) (seq 0 m).

  (* un-cut optical depth of layer l: every source added *)
  Definition tau_full (cs : list contrib) (rho path : list T) (m l : nat) : list T :=
    fold_left (fun t c => vadd t (tau_of c rho path m l)) cs (zeros m).

  (* as coded: before each source, stop if the layer is already at tau > 10 at EVERY wavenumber
     (an opaque cloud layer is at +inf, hence also stops) *)
  Definition saturated (opq : bool) (t : list T) : bool :=
    opq || match t with [] => false | x :: r => nofZ 10 <? lmin x t end.
  Definition tau_cut_state (cs : list contrib) (rho path : list T) (m l : nat) : bool * list T :=
    fold_left (fun (st : bool * list T) c =>
                 let '(opq, t) := st in
                 if saturated opq t then st
                 else (opq || opaque_of c l, vadd t (tau_of c rho path m l)))
              cs (false, zeros m).
  Definition tau_cut cs rho path m l : list T := snd (tau_cut_state cs rho path m l).
  Definition opaque_cut cs rho path m l : bool := fst (tau_cut_state cs rho path m l).
  Definition opaque_full (cs : list contrib) (l : nat) : bool := existsb (fun c => opaque_of c l) cs.
End Tau.

Section Depth.
  Context {T : Type} {N : TNum T}.
  Local Open Scope num_scope.

  (* transmittance of one layer *)
  Definition trans (opq : bool) (t : list T) : list T :=
    map (fun x => if opq then n0 else nexp (- x)) t.

  (* compute_absorption: (Rp^2 + sum_l 2 (Rp + z_l) (1 - T_l) dz_l) / Rs^2 for one wavenumber w,
     tr : per layer list of transmittances *)
  Definition depth_at (Rp Rs : T) (z dz : list T) (tr : list (list T)) (w : nat) : T :=
    (Rp * Rp +
     nsum (map (fun l => (Rp + nth_d z l) * (n1 - nth_d (nth l tr []) w) * nth_d dz l * n2)
               (seq 0 (length z))))
    / (Rs * Rs).

  (* the whole model as coded, old/new geometry, cut-off included *)
  Definition layer_paths (newm : bool) (Rp : T) (z dz zb : list T) : list (list T) :=
    map (fun l => if newm then path_new Rp z dz zb l else path_old Rp z dz l) (seq 0 (length z)).

  Definition transmittances (cs : list contrib) (rho : list T) (paths : list (list T)) (m : nat)
    : list (list T) :=
    map (fun l => let p := nth l paths [] in
                  trans (opaque_cut cs rho p m l) (tau_cut cs rho p m l))
        (seq 0 (length rho)).

  Definition transit (newm : bool) (Rp Rs : T) (z dz zb rho : list T) (cs : list contrib) (m : nat)
    : list (list T) * list (list T) * list T :=
    let paths := layer_paths newm Rp z dz zb in
    let tr := transmittances cs rho paths m in
    (paths, tr, map (depth_at Rp Rs z dz tr) (seq 0 m)).
End Depth.
