(* Props_C02.v — C02: emission / direct-image spectra equal the documented layered thermal integral. *)
From Coq Require Import Reals List Lra.
From TV Require Import Num ListNum ListNumR Model_C01 Proofs_C01 Model_C02 Proofs_C02 Proofs_C02k.
From TV Require Import NumIv Reflect.
Import ListNotations.
Local Open Scope R_scope.

(* the per-layer weights telescope: sum_l [f(tau above l) - f(tau above l + layer l)] = f(0) - f(total) *)
Theorem C02_telescope : forall (f : R -> R) (d : list R), (0 < length d)%nat ->
  Rsum (map (fun l => f (@above R RNum d l) - f (@upto R RNum d l)) (seq 0 (length d))) = f 0 - f (Rsum d).
Proof. exact telescope. Qed.
Print Assumptions C02_telescope.

(* (a) isothermal: every angle sees exactly B(T)/pi, whatever the optical depths *)
Theorem C02_isothermal_intensity : forall (B0 : R) (B d : list R) (cA cD : list bool) (m : R),
  (0 < length d)%nat -> (forall l, @nth_d R RNum B l = B0) -> no_clamp cA -> no_clamp cD ->
  @intensity R RTNum B d cA cD m = B0.
Proof. exact isothermal_intensity. Qed.
Print Assumptions C02_isothermal_intensity.

(* with quadrature weights satisfying sum_i w_i mu_i = 1/2 the flux is pi * (B/pi) ... *)
Theorem C02_isothermal_flux : forall (B0 : R) (Is : list (list R)) (mus wts : list R) (w : nat),
  length Is = length mus -> length wts = length mus ->
  (forall Ii, In Ii Is -> @nth_d R RNum Ii w = B0) -> Forall (fun mu => mu <> 0) mus ->
  Rsum (map (fun p : R * R => fst p * snd p) (combine mus wts)) = 1 / 2 ->
  @flux R RTNum Is mus wts w = PI * B0.
Proof. exact isothermal_flux. Qed.
Print Assumptions C02_isothermal_flux.

(* ... and the eclipse depth is the black-body ratio scaled by (Rp/Rs)^2 *)
Theorem C02_isothermal_eclipse : forall (B Bstar Rp Rs : R), Bstar <> 0 -> Rs <> 0 ->
  @eclipse R RTNum (PI * (B / PI)) Bstar Rp Rs = B / Bstar * (Rp / Rs) ^ 2.
Proof. exact isothermal_eclipse. Qed.
Print Assumptions C02_isothermal_eclipse.

(* (b) any intensity lies between the black bodies of the coldest and hottest layers, up to the
   licensed exp(-10) of the saturation clamp *)
Theorem C02_hot_cold_bounds : forall (B d : list R) (cA cD : list bool) (m Bmin Bmax : R),
  (0 < length d)%nat -> nonneg_list d -> 1 <= m ->
  (forall l, (l < length d)%nat -> Bmin <= @nth_d R RNum B l <= Bmax) -> 0 <= Bmin ->
  (forall l, (S l < length d)%nat -> nth l cA false = nth (S l) cD false) ->
  nth (length d - 1) cA false = false ->
  (forall l, nth l cA false = true -> 10 <= @above R RNum d l) ->
  (forall l, nth l cD false = true -> 10 <= @upto R RNum d l) ->
  (forall l, nth l cA false = true -> nth l cD false = true) ->
  Bmin <= @intensity R RTNum B d cA cD m <= Bmax * (1 + exp (-10)).
Proof. intros. apply hot_cold_bounds; assumption. Qed.
Print Assumptions C02_hot_cold_bounds.

(* (c) hotter layers are brighter at every wavenumber *)
Theorem C02_planck_increasing : forall (h c k wn T1 T2 : R),
  0 < h -> 0 < c -> 0 < k -> 0 < wn -> 0 < T1 < T2 ->
  @planck R RTNum h c k wn T1 < @planck R RTNum h c k wn T2.
Proof. exact planck_increasing. Qed.
Print Assumptions C02_planck_increasing.

(* ---- correlated-k opacity mode (evaluate_emission_ktables): kd[layer][g] is the molecular vertical optical depth of
   each layer at each quadrature point of the k-distribution, ws the quadrature weights ---- *)
(* (a') isothermal: exactly B(T)/pi at every angle, whatever the k-distribution *)
Theorem C02_k_isothermal_intensity : forall (B d : list R) (kd : list (list R)) (ws : list R) (m B0 : R),
  (0 < length d)%nat -> length kd = length d -> Forall (fun x => 0 <= x) ws -> Rsum ws = 1 ->
  (forall l, @nth_d R RNum B l = B0) ->
  @kintensity R RTNum B d kd ws m = B0.
Proof. intros. apply k_isothermal_intensity; assumption. Qed.
Print Assumptions C02_k_isothermal_intensity.

(* (b') between the coldest and the hottest layer; this path has no saturation clamp, hence no exp(-10) slack *)
Theorem C02_k_hot_cold_bounds : forall (B d : list R) (kd : list (list R)) (ws : list R) (m Bmin Bmax : R),
  (0 < length d)%nat -> length kd = length d -> Forall (fun x => 0 <= x) ws -> Rsum ws = 1 ->
  nonneg_list d -> Forall nonneg_list kd -> 0 <= m ->
  (forall l, (l < length d)%nat -> Bmin <= @nth_d R RNum B l <= Bmax) ->
  Bmin <= @kintensity R RTNum B d kd ws m <= Bmax.
Proof. intros. apply k_hot_cold_bounds; assumption. Qed.
Print Assumptions C02_k_hot_cold_bounds.

(* the surface term as coded (molecular depth through contribute() = -log of the mixture, added to the other sources,
   then exponentiated) is the product form the model executes *)
Theorem C02_k_surface_as_coded : forall (d : list R) (kd : list (list R)) (ws : list R) (m : R),
  Forall (fun x => 0 <= x) ws -> Rsum ws = 1 ->
  @ksurface_coded R RTNum d kd ws m = @ksurface R RTNum d kd ws m.
Proof. intros. apply ksurface_as_coded; assumption. Qed.
Print Assumptions C02_k_surface_as_coded.

(* ---- the executed (interval) instance encloses the real-number instance the theorems above are about:
   Reflect.transfer, proved once for every straight-line kernel from the Interval library's correctness lemmas;
   `defined` lists the side conditions of the real-number side (non-zero denominators, positive logarithm arguments) ---- *)
Theorem C02_planck_enclosed : forall hI cI kI wI tI h c k w t,
  encloses hI h -> encloses cI c -> encloses kI k -> encloses wI w -> encloses tI t ->
  defined [h; c; k; w; t] planck_e ->
  encloses (@planck I.type IvTNum hI cI kI wI tI) (@planck R RTNum h c k w t).
Proof. exact planck_transfer. Qed.
Print Assumptions C02_planck_enclosed.

Theorem C02_eclipse_enclosed : forall aI bI cI dI a b c d,
  encloses aI a -> encloses bI b -> encloses cI c -> encloses dI d -> defined [a; b; c; d] eclipse_e ->
  encloses (@eclipse I.type IvTNum aI bI cI dI) (@eclipse R RTNum a b c d).
Proof. exact eclipse_transfer. Qed.
Print Assumptions C02_eclipse_enclosed.

(* the layered integral itself (sums over layers; the saturation flags are inputs) and its correlated-k form:
   pointwise-enclosing inputs give an enclosing result *)
Theorem C02_intensity_enclosed : forall BI BR dI dR cA cD mI mR,
  encl_list BI BR -> encl_list dI dR -> encloses mI mR ->
  encloses (@intensity _ IvTNum BI dI cA cD mI) (@intensity R RTNum BR dR cA cD mR).
Proof. exact intensity_transfer. Qed.
Print Assumptions C02_intensity_enclosed.

Theorem C02_kintensity_enclosed : forall BI BR dI dR kdI kdR wI wR mI mR,
  encl_list BI BR -> encl_list dI dR -> Forall2 encl_list kdI kdR -> encl_list wI wR -> encloses mI mR ->
  encloses (@kintensity _ IvTNum BI dI kdI wI mI) (@kintensity R RTNum BR dR kdR wR mR).
Proof. exact kintensity_transfer. Qed.
Print Assumptions C02_kintensity_enclosed.

(* the angle quadrature (non-zero nodes): with C02_intensity_enclosed, C02_planck_enclosed and C02_eclipse_enclosed every
   arithmetic stage of the eclipse spectrum is covered; the saturation flags between them are decided on mid-points *)
Theorem C02_flux_enclosed : forall IsI IsR muI muR wtI wtR w,
  Forall2 encl_list IsI IsR -> encl_list muI muR -> encl_list wtI wtR -> Forall (fun mu => mu <> 0) muR ->
  encloses (@flux _ IvTNum IsI muI wtI w) (@flux R RTNum IsR muR wtR w).
Proof. exact flux_transfer. Qed.
Print Assumptions C02_flux_enclosed.
