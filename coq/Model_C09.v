(* Model_C09.v — posterior summaries
   (taurex/util/util.py : quantile_corner ; taurex/optimizer/nestle.py : store_nestle_output, get_solution ;
    multinest.py / polychord.py : the same quantile rule, MAP and mean taken from the sampler's statistics). *)
From Coq Require Import ZArith List Bool Arith.
From TV Require Import Num ListNum.
Import ListNotations.

Section Summaries.
  Context {T : Type} {N : Num T}.
  Local Open Scope num_scope.

  (* quantile_corner(x, q, weights): sort by value, cumulative weights / total, np.interp(q, cdf, xsorted) *)
  Definition sorted_pairs (xs ws : list T) : list (T * T) := isort_by fst (combine xs ws).
  Definition cdf_of (s : list (T * T)) : list T :=
    let c := cumsum (map snd s) in
    let tot := nth_d c (length c - 1) in map (fun v => v / tot) c.
  Definition quantile (xs ws : list T) (q : T) : T :=
    let s := sorted_pairs xs ws in np_interp (cdf_of s) (map fst s) q.

  Definition q16 : T := nofZ 16 / nofZ 100.
  Definition q50 : T := nofZ 50 / nofZ 100.
  Definition q84 : T := nofZ 84 / nofZ 100.

  (* value, sigma_m, sigma_p *)
  Definition summary (xs ws : list T) : T * T * T :=
    let a := quantile xs ws q16 in let b := quantile xs ws q50 in let c := quantile xs ws q84 in
    (b, b - a, c - b).

  (* numpy argmax: index of the first maximum *)
  Fixpoint argmax_from (best : nat) (bv : T) (i : nat) (l : list T) : nat :=
    match l with
    | [] => best
    | x :: r => if bv <? x then argmax_from i x (S i) r else argmax_from best bv (S i) r
    end.
  Definition argmax (l : list T) : nat :=
    match l with [] => 0%nat | x :: r => argmax_from 0%nat x 1%nat r end.

  (* MAP of a parameter: its trace at the sample of greatest weight *)
  Definition map_of (trace ws : list T) : T := nth_d trace (argmax ws).
  (* weighted mean *)
  Definition wmean_of (trace ws : list T) : T := ndot ws trace / nsum ws.

  (* column i of the sample matrix *)
  Definition column (samples : list (list T)) (i : nat) : list T := map (fun row => nth_d row i) samples.

  (* get_solution: every named summary is placed at the index of its name *)
  Fixpoint index_of (names : list nat) (k : nat) : option nat :=
    match names with
    | [] => None
    | n :: r => if Nat.eqb n k then Some 0%nat
                else match index_of r k with Some i => Some (S i) | None => None end
    end.
  Fixpoint set_nth {A} (l : list A) (i : nat) (v : A) : list A :=
    match l, i with
    | [], _ => []
    | _ :: r, O => v :: r
    | x :: r, S j => x :: set_nth r j v
    end.
  Definition place (names : list nat) (init : list T) (entries : list (nat * T)) : list T :=
    fold_left (fun acc kv => match index_of names (fst kv) with
                             | Some i => set_nth acc i (snd kv) | None => acc end) entries init.
End Summaries.
