(* Model_C08.v — prior transforms (taurex/core/priors.py ; default priors of
   taurex/optimizer/optimizer.py : compile_params). *)
From Coq Require Import ZArith List Bool Arith.
From TV Require Import Num ListNum.
Import ListNotations.

Section Priors.
  Context {T : Type} {N : Num T}.
  Local Open Scope num_scope.

  Inductive space := Linear | Log.

  (* a prior: its space and the affine map applied to the base quantile
       Uniform / LogUniform : sample u = lo + (hi - lo) * u          (base quantile = u)
       Gaussian / LogGaussian : sample u = loc + scale * ndtri u     (base quantile = ndtri u) *)
  Inductive prior :=
  | PUniform (sp : space) (lo hi : T)
  | PGauss (sp : space) (loc scale : T).

  (* Uniform(bounds=[a,b]) : low = min, up = max *)
  Definition mk_uniform (sp : space) (a b : T) : prior := PUniform sp (nmin a b) (nmax a b).

  Definition prior_space (p : prior) : space :=
    match p with PUniform sp _ _ => sp | PGauss sp _ _ => sp end.

  (* sample(u): ndtri_u is norm.ppf(u), supplied by the caller (unused by uniform priors) *)
  Definition sample (p : prior) (u ndtri_u : T) : T :=
    match p with
    | PUniform _ lo hi => lo + (hi - lo) * u
    | PGauss _ loc scale => loc + scale * ndtri_u
    end.

  Definition boundaries_uniform (p : prior) : T * T :=
    match p with PUniform _ lo hi => (lo, hi) | PGauss _ loc _ => (loc, loc) end.
End Priors.

Section LogSpace.
  Context {T : Type} {N : TNum T}.
  Local Open Scope num_scope.

  (* prior(value): what is written into the model *)
  Definition to_model (sp : space) (v : T) : T :=
    match sp with Linear => v | Log => npow10 v end.

  (* LogUniform(lin_bounds=[a,b]) = LogUniform(bounds=[log10 a, log10 b]) *)
  Definition mk_loguniform_lin (a b : T) : prior := mk_uniform Log (nlog10 a) (nlog10 b).
  (* LogGaussian(lin_mean, lin_std) *)
  Definition mk_loggauss_lin (lm ls : T) : prior := PGauss Log (nlog10 lm) (nlog10 ls).

  (* default prior of a fitted parameter from its mode and bounds (compile_params) *)
  Definition default_prior (log_mode : bool) (a b : T) : prior :=
    if log_mode then mk_loguniform_lin a b else mk_uniform Linear a b.
End LogSpace.
