(* Model_C14.v — opacity / CIA files and the caches that serve them
   (taurex/opacity/pickleopacity.py : _load_pickle_file ; hdf5opacity.py : _load_hdf_file ; exotransmit.py :
    _load_exo_transmit ; ktables/picklektable.py ; cia/hitrancia.py : load_hitran_file, HitranCiaGrid.fill_temperature,
    compute_final_grid ; util/util.py : sanitize_molecule_string ; cache/opacitycache.py : __getitem__, add_opacity,
    load_opacity_from_path, set_interpolation, set_memory_mode, clear_cache). *)
From Coq Require Import ZArith List Bool Arith String Ascii.
From TV Require Import Num ListNum.
Import ListNotations.

(* ---------- (A) tables and unit conversion ---------- *)
Section Tables.
  Context {T : Type} {N : Num T}.
  Local Open Scope num_scope.

  (* the physical table: temperatures (K), pressures (Pa), wavenumbers (cm-1), cross-sections [P][T][wn] (cm2) *)
  Record table := { tb_T : list T; tb_P : list T; tb_wn : list T; tb_x : list (list (list T)) }.

  Definition c1e5 : T := nofZ 100000.
  Definition c1e4 : T := nofZ 10000.
  (* pickle: pressures in bar *)
  Definition load_pickle (t p wno : list T) (x : list (list (list T))) : table :=
    {| tb_T := t; tb_P := map (fun v => v * c1e5) p; tb_wn := wno; tb_x := x |}.
  (* HDF5: pressures in the unit declared by the attribute; u = that unit in Pa *)
  Definition load_hdf5 (u : T) (t p edges : list T) (x : list (list (list T))) : table :=
    {| tb_T := t; tb_P := map (fun v => v * u) p; tb_wn := edges; tb_x := x |}.

  (* Exo-Transmit text: line 1 temperatures, line 2 pressures (bar), then per wavelength (m) one block:
     the wavelength, then one row per pressure: pressure followed by one cross-section (m2) per temperature *)
  Record exo_block := { eb_lambda : T; eb_rows : list (list T) }.   (* rows WITHOUT the leading pressure *)
  Definition exo_offset : T := nofZ 1 / nofZ (10 ^ 60).
  Definition exo_wn (b : exo_block) : T := c1e4 * (n1 / nofZ 1000000) / eb_lambda b.   (* 10000 * 1e-6 / lambda *)
  (* blocks sorted by wavenumber (ascending) ; x[p][t][w] = (row p of block w)[t] + 1e-60, times 10000 *)
  Definition load_exo (t p : list T) (blocks : list exo_block) : table :=
    let s := isort_by exo_wn blocks in
    {| tb_T := t; tb_P := map (fun v => v * c1e5) p; tb_wn := map exo_wn s;
       tb_x := map (fun ip => map (fun it => map (fun b => (nth it (nth ip (eb_rows b) []) n0 + exo_offset) * c1e4) s)
                                  (seq 0 (List.length t)))
                   (seq 0 (List.length p)) |}.
  (* how the same table is laid out in an Exo-Transmit file (any block order) *)
  Definition exo_blocks_of (tab : table) : list exo_block :=
    map (fun iw => {| eb_lambda := c1e4 * (n1 / nofZ 1000000) / nth iw (tb_wn tab) n0;
                      eb_rows := map (fun ip => map (fun it => nth iw (nth it (nth ip (tb_x tab) []) []) n0 / c1e4)
                                                    (seq 0 (List.length (tb_T tab))))
                                     (seq 0 (List.length (tb_P tab))) |})
        (seq 0 (List.length (tb_wn tab))).

  (* ---------- (B) HITRAN CIA: one record per (wavenumber range, temperature) ---------- *)
  Record hrec := { h_start : T; h_end : T; h_T : T; h_wn : list T; h_sigma : list T }.   (* sigma in cm5 *)
  Record hgroup := { g_start : T; g_end : T; g_wn : list T; g_ts : list (T * list T) }.

  Definition c1em10 : T := n1 / nofZ (10 ^ 10).
  Definition clip (v : T) : T := if v <? n0 then n0 else v.
  Definition same_range (r : hrec) (g : hgroup) : bool := neqb (h_start r) (g_start g) && neqb (h_end r) (g_end g).

  (* load_hitran_file: records appended to the group of their range (first appearance order); the group's grid is
     that of its last record *)
  Fixpoint add_rec (r : hrec) (gs : list hgroup) : list hgroup :=
    match gs with
    | [] => [ {| g_start := h_start r; g_end := h_end r; g_wn := h_wn r;
                 g_ts := [(h_T r, map (fun s => clip (s * c1em10)) (h_sigma r))] |} ]
    | g :: rest => if same_range r g
                   then {| g_start := g_start g; g_end := g_end g; g_wn := h_wn r;
                           g_ts := g_ts g ++ [(h_T r, map (fun s => clip (s * c1em10)) (h_sigma r))] |} :: rest
                   else g :: add_rec r rest
    end.
  Definition groups_of (recs : list hrec) : list hgroup := fold_left (fun gs r => add_rec r gs) recs [].

  (* the master temperature grid: distinct temperatures, ascending *)
  Fixpoint dedup (l : list T) : list T :=
    match l with
    | [] => []
    | x :: r => let d := dedup r in if existsb (fun y => neqb x y) d then d else x :: d
    end.
  Definition master_temps (recs : list hrec) : list T := isort_by (fun t => t) (dedup (map h_T recs)).

  (* fill_temperature: a master temperature the group has -> its own cross-sections; one outside the group's
     temperature coverage -> zeros; one inside -> linear interpolation between the group's neighbours *)
  Definition lerp (f0 f1 : list T) (t t0 t1 : T) : list T :=
    map2 (fun a b => a + (b - a) * ((t - t0) / (t1 - t0))) f0 f1.
  Fixpoint bracket (ts : list (T * list T)) (t : T) : option ((T * list T) * (T * list T)) :=
    match ts with
    | a :: ((b :: _) as rest) => if (fst a <=? t) && (t <? fst b) then Some (a, b) else bracket rest t
    | _ => None
    end.
  Definition fill_one (g : hgroup) (t : T) : list T :=
    let ts := isort_by fst (g_ts g) in
    match find (fun p => neqb (fst p) t) ts with
    | Some p => snd p
    | None =>
        let tmin := lmin n0 (map fst ts) in
        let tmax := lmax n0 (map fst ts) in
        if (t <? tmin) || (tmax <? t) then map (fun _ => n0) (g_wn g)
        else match bracket ts t with
             | Some (a, b) => lerp (snd a) (snd b) t (fst a) (fst b)
             | None => map (fun _ => n0) (g_wn g)
             end
    end.
  (* compute_final_grid: all group grids concatenated and sorted; cross-sections carried along *)
  Definition load_hitran (recs : list hrec) : list T * list T * list (list T) :=
    let gs := groups_of recs in
    let temps := master_temps recs in
    let wn := flat_map g_wn gs in
    let cols := fun t => flat_map (fun g => fill_one g t) gs in
    let order := isort_by fst (combine wn (seq 0 (List.length wn))) in
    (temps, map fst order, map (fun t => map (fun o => nth (snd o) (cols t) n0) order) temps).
End Tables.

(* ---------- (C) molecule names ---------- *)
(* re.findall of the pattern  [A-Z][a-z]?  followed by  [0-9]-star , joined: an upper-case letter, at most one lower-case letter, then digits;
   everything else is dropped *)
Definition is_upper (c : ascii) : bool := let n := nat_of_ascii c in Nat.leb 65 n && Nat.leb n 90.
Definition is_lower (c : ascii) : bool := let n := nat_of_ascii c in Nat.leb 97 n && Nat.leb n 122.
Definition is_digit (c : ascii) : bool := let n := nat_of_ascii c in Nat.leb 48 n && Nat.leb n 57.

(* st = 0 : looking for an upper-case letter ; 1 : just took one (a lower-case letter or digits may follow) ;
   2 : taking digits *)
Fixpoint sanitize_aux (st : nat) (s : string) : string :=
  match s with
  | EmptyString => EmptyString
  | String c r =>
      if is_upper c then String c (sanitize_aux 1 r)
      else match st with
           | 1 => if is_lower c then String c (sanitize_aux 2 r)
                  else if is_digit c then String c (sanitize_aux 2 r)
                  else sanitize_aux 0 r
           | 2 => if is_digit c then String c (sanitize_aux 2 r) else sanitize_aux 0 r
           | _ => sanitize_aux 0 r
           end
  end.
Definition sanitize (s : string) : string := sanitize_aux 0 s.

(* ---------- (D) the opacity cache ---------- *)
Inductive imode := Linear | Exp.
(* a file found on the search path: molecule it is discovered under, priority of its reader class, file id *)
Record ofile := { f_mol : nat; f_prio : nat; f_id : nat }.
(* a loaded opacity object: identity, molecule, file it came from, interpolation mode it was built with *)
Record oobj := { o_id : nat; o_mol : nat; o_file : nat; o_mode : imode }.
Record cstate := { c_dict : list oobj; c_mode : imode; c_files : list ofile; c_next : nat }.

Inductive cop := Get (mol : nat) | SetInterp (m : imode) | SetMemory | Clear | SetPath (files : list ofile)
               | Add (mol file : nat) (m : imode).
Inductive cout := Served (o : oobj) | NotFound | Done.

Definition find_obj (d : list oobj) (mol : nat) : option oobj := find (fun o => Nat.eqb (o_mol o) mol) d.
(* load_opacity_from_path: reader classes in priority order, their files in discovery order; the first file of the
   molecule is loaded with the current interpolation mode *)
Fixpoint insert_file (f : ofile) (l : list ofile) : list ofile :=
  match l with [] => [f] | g :: r => if Nat.ltb (f_prio f) (f_prio g) then f :: l else g :: insert_file f r end.
Definition by_priority (l : list ofile) : list ofile := fold_left (fun acc f => insert_file f acc) l [].
Definition cstep (s : cstate) (o : cop) : cstate * cout :=
  match o with
  | Get mol =>
      match find_obj (c_dict s) mol with
      | Some ob => (s, Served ob)
      | None =>
          match find (fun f => Nat.eqb (f_mol f) mol) (by_priority (c_files s)) with
          | Some f => let ob := {| o_id := c_next s; o_mol := mol; o_file := f_id f; o_mode := c_mode s |} in
                      ({| c_dict := c_dict s ++ [ob]; c_mode := c_mode s; c_files := c_files s; c_next := S (c_next s) |},
                       Served ob)
          | None => (s, NotFound)
          end
      end
  | SetInterp m => ({| c_dict := []; c_mode := m; c_files := c_files s; c_next := c_next s |}, Done)
  | SetMemory | Clear => ({| c_dict := []; c_mode := c_mode s; c_files := c_files s; c_next := c_next s |}, Done)
  | SetPath files => ({| c_dict := c_dict s; c_mode := c_mode s; c_files := files; c_next := c_next s |}, Done)
  | Add mol file m =>
      match find_obj (c_dict s) mol with
      | Some _ => (s, Done)                       (* already there: skipped with a warning *)
      | None => ({| c_dict := c_dict s ++ [ {| o_id := c_next s; o_mol := mol; o_file := file; o_mode := m |} ];
                    c_mode := c_mode s; c_files := c_files s; c_next := S (c_next s) |}, Done)
      end
  end.
Fixpoint crun (s : cstate) (ops : list cop) : cstate * list cout :=
  match ops with
  | [] => (s, [])
  | o :: r => let '(s1, out) := cstep s o in let '(s2, outs) := crun s1 r in (s2, out :: outs)
  end.

(* ---------- (E) the CIA cache (taurex/cache/ciaacache.py : __getitem__, add_cia, load_cia_from_path, set_cia_path) ----------
   Differences from the opacity cache: nothing ever clears the dictionary; adding an object for a pair that is already
   there is an error; a miss looks through the pickle .db files of the pair first and the HITRAN .cia files after them
   and constructs the first one only (.db files take priority). *)
Record cia_file := { cf_pair : nat; cf_hitran : bool; cf_id : nat }.
Record cia_obj := { co_id : nat; co_pair : nat; co_file : nat }.
Record cia_state := { ci_dict : list cia_obj; ci_files : list cia_file; ci_next : nat }.
Inductive cia_op := CGet (pair : nat) | CSetPath (files : list cia_file) | CAdd (pair file : nat).
Inductive cia_out := CServed (o : cia_obj) | CNotFound | CDone | CRaised.

Definition cia_find (d : list cia_obj) (p : nat) : option cia_obj := find (fun o => Nat.eqb (co_pair o) p) d.
Definition cia_construct (s : cia_state) (p file : nat) : cia_state :=
  {| ci_dict := ci_dict s ++ [ {| co_id := ci_next s; co_pair := p; co_file := file |} ];
     ci_files := ci_files s; ci_next := S (ci_next s) |}.
Definition cia_files_of (fs : list cia_file) (p : nat) : list cia_file :=
  filter (fun f => Nat.eqb (cf_pair f) p && negb (cf_hitran f)) fs
  ++ filter (fun f => Nat.eqb (cf_pair f) p && cf_hitran f) fs.
Definition cia_step (s : cia_state) (o : cia_op) : cia_state * cia_out :=
  match o with
  | CGet p =>
      match cia_find (ci_dict s) p with
      | Some ob => (s, CServed ob)
      | None => match cia_files_of (ci_files s) p with
                | f :: _ => let ob := {| co_id := ci_next s; co_pair := p; co_file := cf_id f |} in
                            (cia_construct s p (cf_id f), CServed ob)
                | [] => (s, CNotFound)
                end
      end
  | CSetPath fs => ({| ci_dict := ci_dict s; ci_files := fs; ci_next := ci_next s |}, CDone)
  | CAdd p file => match cia_find (ci_dict s) p with
                   | Some _ => (s, CRaised)
                   | None => (cia_construct s p file, CDone)
                   end
  end.
Fixpoint cia_run (s : cia_state) (ops : list cia_op) : cia_state * list cia_out :=
  match ops with
  | [] => (s, [])
  | o :: r => let '(s1, out) := cia_step s o in let '(s2, outs) := cia_run s1 r in (s2, out :: outs)
  end.
