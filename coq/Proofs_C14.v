(* Proofs_C14.v — opacity / CIA files of every supported format load to the same physical table. *)
From Coq Require Import ZArith Reals List Bool Arith Lia Lra Permutation String Ascii Sorting.Sorted.
From TV Require Import Num ListNum ListAux ListNumR SortR Model_C14.
Import ListNotations.
Local Open Scope R_scope.

Notation tableR := (@table R).

(* ---------------- (A) units --------------------------------------------------- *)
Lemma map_scale_back (u : R) (l : list R) : u <> 0 -> map (fun v => v * u) (map (fun v => v / u) l) = l.
Proof. intros Hu. rewrite map_map. rewrite <- (map_id l) at 2. apply map_ext. intros a. field. exact Hu. Qed.

(* a table written with its pressures in bar (pickle) or in any declared unit (HDF5) loads to the same table *)
Theorem pickle_round_trip (tab : tableR) :
  @load_pickle R RNum (tb_T tab) (map (fun v => v / 100000) (tb_P tab)) (tb_wn tab) (tb_x tab) = tab.
Proof. destruct tab as [t p w x]. unfold load_pickle, c1e5. cbn [tb_T tb_P tb_wn tb_x]. rnum.
  rewrite (map_scale_back 100000) by lra. reflexivity. Qed.

Theorem hdf5_round_trip (u : R) (tab : tableR) : u <> 0 ->
  @load_hdf5 R RNum u (tb_T tab) (map (fun v => v / u) (tb_P tab)) (tb_wn tab) (tb_x tab) = tab.
Proof. intros Hu. destruct tab as [t p w x]. unfold load_hdf5. cbn [tb_T tb_P tb_wn tb_x]. rnum.
  rewrite (map_scale_back u _ Hu). reflexivity. Qed.

Theorem pickle_hdf5_agree (u : R) (t p w : list R) (x : list (list (list R))) : u <> 0 ->
  @load_pickle R RNum t (map (fun v => v / 100000) p) w x = @load_hdf5 R RNum u t (map (fun v => v / u) p) w x.
Proof. intros Hu. unfold load_pickle, load_hdf5, c1e5. rnum. rewrite (map_scale_back 100000) by lra.
  rewrite (map_scale_back u _ Hu). reflexivity. Qed.

(* ---------------- (A') Exo-Transmit ------------------------------------------------ *)
(* wavelength in metres back to wavenumber; cross-section in m2 back to cm2 with the reader's 1e-60 offset *)
Theorem exo_scalars (wn x : R) : wn <> 0 ->
  let lambda := 10000 * (1 / 1000000) / wn in
  10000 * (1 / 1000000) / lambda = wn /\ (x / 10000 + 1 / IZR (10 ^ 60)) * 10000 = x + 10000 / IZR (10 ^ 60).
Proof. intros Hw. cbv zeta. split; field; try exact Hw. apply not_0_IZR. discriminate. Qed.

(* the blocks may come in any order: they are sorted by wavenumber, each with its own rows *)
Theorem exo_order_independent (t p : list R) (blocks blocks' : list (@exo_block R)) :
  NoDup (map (@exo_wn R RNum) blocks) -> Permutation blocks blocks' ->
  @load_exo R RNum t p blocks = @load_exo R RNum t p blocks'.
Proof. intros Hnd Hp. unfold load_exo. rewrite (isort_order_independent (@exo_wn R RNum) blocks blocks' Hnd Hp). reflexivity. Qed.

Theorem exo_wavenumbers_sorted (t p : list R) (blocks : list (@exo_block R)) :
  StronglySorted Rle (tb_wn (@load_exo R RNum t p blocks)).
Proof. unfold load_exo. cbn [tb_wn]. pose proof (isort_sorted (@exo_wn R RNum) blocks) as Hs.
  induction Hs as [|b l Hs IH Hb]; [constructor|]. cbn [map]. constructor; [exact IH|].
  rewrite Forall_forall in *. intros y Hy. apply in_map_iff in Hy. destruct Hy as [z [<- Hz]]. apply Hb. exact Hz. Qed.

(* every entry of the loaded grid is the entry of ITS block (same wavenumber), offset and rescaled *)
Theorem exo_attached (t p : list R) (blocks : list (@exo_block R)) (ip it iw : nat) :
  (ip < List.length p)%nat -> (it < List.length t)%nat -> (iw < List.length blocks)%nat ->
  let tab := @load_exo R RNum t p blocks in
  let b := nth iw (@isort_by R RNum _ (@exo_wn R RNum) blocks) {| eb_lambda := 0; eb_rows := [] |} in
  nth iw (tb_wn tab) 0 = @exo_wn R RNum b /\
  nth iw (nth it (nth ip (tb_x tab) []) []) 0 = (nth it (nth ip (eb_rows b) []) 0 + 1 / IZR (10 ^ 60)) * 10000 /\
  Permutation blocks (@isort_by R RNum _ (@exo_wn R RNum) blocks).
Proof. intros Hp Ht Hw. cbv zeta. unfold load_exo. cbn [tb_wn tb_x].
  set (s := @isort_by R RNum _ (@exo_wn R RNum) blocks).
  assert (Hl : List.length s = List.length blocks) by apply isort_length.
  set (d := {| eb_lambda := 0; eb_rows := [] |}).
  repeat split.
  - rewrite (map_nth_lt _ s d 0 iw) by lia. reflexivity.
  - rewrite (map_nth_lt _ (seq 0 (List.length p)) 0%nat [] ip) by (rewrite seq_length; exact Hp). rewrite seq_nth by exact Hp.
    rewrite (map_nth_lt _ (seq 0 (List.length t)) 0%nat [] it) by (rewrite seq_length; exact Ht). rewrite seq_nth by exact Ht.
    rewrite (map_nth_lt _ s d 0 iw) by lia. cbn [Nat.add]. unfold exo_offset, c1e4. rnum. reflexivity.
  - apply isort_perm. Qed.

(* ---------------- (B) HITRAN: what a wavenumber range holds at a master temperature -------- *)
Theorem hitran_own_temperature (g : @hgroup R) (t : R) (p : R * list R) :
  find (fun q : R * list R => @neqb R RNum (fst q) t) (@isort_by R RNum _ fst (g_ts g)) = Some p ->
  @fill_one R RNum g t = snd p.
Proof. intros H. unfold fill_one. rewrite H. reflexivity. Qed.

Theorem hitran_outside_coverage_is_zero (g : @hgroup R) (t : R) :
  let ts := @isort_by R RNum _ fst (g_ts g) in
  find (fun q : R * list R => @neqb R RNum (fst q) t) ts = None ->
  (t < @lmin R RNum 0 (map fst ts) \/ @lmax R RNum 0 (map fst ts) < t) ->
  @fill_one R RNum g t = map (fun _ => 0) (g_wn g).
Proof. cbv zeta. intros Hf Ho. unfold fill_one. rewrite Hf. rnum.
  destruct Ho as [Ho|Ho].
  - rewrite (proj2 (Rltb_true _ _) Ho). reflexivity.
  - rewrite (proj2 (Rltb_true _ _) Ho). rewrite orb_true_r. reflexivity. Qed.

(* ---------------- (C) molecule names -------------------------------------------------- *)
Lemma sanitize_upper (st : nat) (c : ascii) (r : string) :
  is_upper c = true -> sanitize_aux st (String c r) = String c (sanitize_aux 1 r).
Proof. intros H. cbn [sanitize_aux]. rewrite H. reflexivity. Qed.

Lemma sanitize0_head (r : string) :
  sanitize_aux 0 r = EmptyString \/ exists c r', is_upper c = true /\ sanitize_aux 0 r = String c r'.
Proof. induction r as [|c r IH]; [left; reflexivity|]. cbn [sanitize_aux].
  destruct (is_upper c) eqn:E; [right; exists c, (sanitize_aux 1 r); split; [exact E|reflexivity]|exact IH]. Qed.

(* a string that is empty or starts with an upper-case letter is scanned the same way from every state *)
Lemma state_irrelevant (st : nat) (x : string) :
  (x = EmptyString \/ exists c r', is_upper c = true /\ x = String c r') -> sanitize_aux st x = sanitize_aux 0 x.
Proof. intros [->|[c [r' [Hc ->]]]]; [reflexivity|]. rewrite !sanitize_upper by exact Hc. reflexivity. Qed.

Theorem sanitize_aux_idempotent (s : string) : forall st, sanitize_aux st (sanitize_aux st s) = sanitize_aux st s.
Proof. induction s as [|c r IH]; intros st; [reflexivity|].
  assert (M : forall st', sanitize_aux st' (sanitize_aux 0 r) = sanitize_aux 0 r).
  { intros st'. rewrite (state_irrelevant st' _ (sanitize0_head r)). apply IH. }
  cbn [sanitize_aux]. destruct (is_upper c) eqn:Eu.
  - rewrite sanitize_upper by exact Eu. rewrite IH. reflexivity.
  - destruct st as [|[|[|n]]].
    + apply M.
    + destruct (is_lower c) eqn:El.
      * cbn [sanitize_aux]. rewrite Eu, El, IH. reflexivity.
      * destruct (is_digit c) eqn:Ed.
        -- cbn [sanitize_aux]. rewrite Eu, El, Ed, IH. reflexivity.
        -- apply M.
    + destruct (is_digit c) eqn:Ed.
      * cbn [sanitize_aux]. rewrite Eu, Ed, IH. reflexivity.
      * apply M.
    + apply M. Qed.

Theorem sanitize_idempotent (s : string) : sanitize (sanitize s) = sanitize s.
Proof. apply sanitize_aux_idempotent. Qed.

Example sanitize_examples :
  sanitize "H2O" = "H2O"%string /\ sanitize "1H2-16O" = "H2O"%string /\ sanitize "12C-16O2" = "CO2"%string /\
  sanitize "Na" = "Na"%string /\ sanitize "TiO" = "TiO"%string /\ sanitize "H2-He" = "H2He"%string.
Proof. repeat split; reflexivity. Qed.

(* ---------------- (D) the cache ---------------------------------------------------------- *)
Lemma find_app_none {A} (f : A -> bool) (a b : list A) : find f a = None -> find f (a ++ b) = find f b.
Proof. induction a as [|x a IH]; intros H; [reflexivity|]. cbn [app find] in *. destruct (f x); [discriminate|apply IH; exact H]. Qed.

(* a molecule that was served is served again as the same object, without touching the state *)
Theorem served_again_is_same_object (s s1 : cstate) (mol : nat) (o : oobj) :
  cstep s (Get mol) = (s1, Served o) -> cstep s1 (Get mol) = (s1, Served o).
Proof. cbn [cstep]. destruct (find_obj (c_dict s) mol) as [ob|] eqn:E.
  - intros H. inversion H; subst. cbn [cstep]. rewrite E. reflexivity.
  - destruct (find _ (by_priority (c_files s))) as [f|] eqn:Ef; [|discriminate].
    intros H. inversion H; subst. clear H. cbn [cstep c_dict].
    unfold find_obj. rewrite find_app_none.
    + cbn [find o_mol]. rewrite Nat.eqb_refl. reflexivity.
    + exact E. Qed.

Theorem not_found_changes_nothing (s s1 : cstate) (mol : nat) :
  cstep s (Get mol) = (s1, NotFound) -> s1 = s.
Proof. cbn [cstep]. destruct (find_obj (c_dict s) mol); [discriminate|].
  destruct (find _ (by_priority (c_files s))); [discriminate|]. intros H. inversion H. reflexivity. Qed.

(* every cached object was built with the current interpolation mode *)
Definition mode_inv (s : cstate) : Prop := Forall (fun o => o_mode o = c_mode s) (c_dict s).
Definition quiet (o : cop) : bool := match o with SetInterp _ | Add _ _ _ => false | _ => true end.

Lemma mode_inv_step (s : cstate) (o : cop) : quiet o = true -> mode_inv s ->
  mode_inv (fst (cstep s o)) /\ c_mode (fst (cstep s o)) = c_mode s /\
  (forall ob, snd (cstep s o) = Served ob -> o_mode ob = c_mode s).
Proof. intros Hq Hi. destruct o as [mol|m| | |files|mol file m]; try discriminate; cbn [cstep].
  - destruct (find_obj (c_dict s) mol) as [ob|] eqn:E.
    + cbn [fst snd]. repeat split; [exact Hi|]. intros ob' H. inversion H; subst.
      unfold find_obj in E. apply find_some in E. unfold mode_inv in Hi. rewrite Forall_forall in Hi. apply Hi. apply E.
    + destruct (find _ (by_priority (c_files s))) as [f|]; cbn [fst snd].
      * repeat split.
        -- unfold mode_inv. cbn [c_dict c_mode]. apply Forall_app. split; [exact Hi|]. constructor; [reflexivity|constructor].
        -- intros ob H. inversion H; subst. reflexivity.
      * repeat split; [exact Hi|]. intros ob H. discriminate.
  - cbn [fst snd]. repeat split; [constructor|]. intros ob H. discriminate.
  - cbn [fst snd]. repeat split; [constructor|]. intros ob H. discriminate.
  - cbn [fst snd]. repeat split; [exact Hi|]. intros ob H. discriminate. Qed.

(* after the interpolation mode is set, every opacity served afterwards — cached or newly loaded — has that mode,
   until the mode is set again (or an object is added by hand) *)
Theorem interpolation_takes_effect (s : cstate) (m : imode) (ops : list cop) :
  forallb quiet ops = true ->
  let s0 := fst (cstep s (SetInterp m)) in
  Forall (fun out => match out with Served o => o_mode o = m | _ => True end) (snd (crun s0 ops)).
Proof. intros Hq. cbv zeta. cbn [cstep fst].
  set (s0 := {| c_dict := []; c_mode := m; c_files := c_files s; c_next := c_next s |}).
  assert (Hi : mode_inv s0) by constructor. assert (Hm : c_mode s0 = m) by reflexivity.
  clearbody s0. revert s0 Hi Hm. induction ops as [|o r IH]; intros s0 Hi Hm; [constructor|].
  cbn [forallb] in Hq. apply andb_true_iff in Hq. destruct Hq as [Hqo Hqr].
  cbn [crun]. destruct (mode_inv_step s0 o Hqo Hi) as [Hi1 [Hm1 Hs1]].
  destruct (cstep s0 o) as [s1 out] eqn:E. cbn [fst snd] in *.
  specialize (IH Hqr s1 Hi1 ltac:(congruence)). destruct (crun s1 r) as [s2 outs]. cbn [snd] in *.
  constructor; [|exact IH]. destruct out; try exact I. rewrite <- Hm. apply Hs1. reflexivity. Qed.

(* ---------------- (E) the CIA cache ---------------- *)
Lemma cia_find_app_none d o p : cia_find d p = None -> cia_find (d ++ [o]) p = cia_find [o] p.
Proof. unfold cia_find. induction d as [|x d IH]; [reflexivity|]. cbn [find app].
  destruct (Nat.eqb (co_pair x) p); [discriminate|exact IH]. Qed.

Lemma cia_find_app_some d o p ob : cia_find d p = Some ob -> cia_find (d ++ [o]) p = Some ob.
Proof. unfold cia_find. induction d as [|x d IH]; [discriminate|]. cbn [find app].
  destruct (Nat.eqb (co_pair x) p); [intros H; exact H|exact IH]. Qed.

Lemma cia_find_app_other d o p : co_pair o <> p -> cia_find (d ++ [o]) p = cia_find d p.
Proof. intros Hne. unfold cia_find. induction d as [|x d IH]; cbn [find app].
  - destruct (Nat.eqb_spec (co_pair o) p); [congruence|reflexivity].
  - destruct (Nat.eqb (co_pair x) p); [reflexivity|exact IH]. Qed.

(* a pair that has been served is served again as the same object, and the cache does not change: loaded once *)
Theorem cia_served_again_is_same_object (s s1 : cia_state) (p : nat) (o : cia_obj) :
  cia_step s (CGet p) = (s1, CServed o) -> cia_step s1 (CGet p) = (s1, CServed o).
Proof. cbn [cia_step]. destruct (cia_find (ci_dict s) p) as [ob|] eqn:E.
  - intros H. inversion H; subst. cbn [cia_step]. rewrite E. reflexivity.
  - destruct (cia_files_of (ci_files s) p) as [|f fs]; [discriminate|].
    intros H. inversion H; subst. clear H. cbn [cia_step]. unfold cia_construct at 1. cbn [ci_dict].
    rewrite (cia_find_app_none _ _ _ E). unfold cia_find. cbn [find co_pair]. rewrite Nat.eqb_refl. reflexivity. Qed.

(* a miss leaves the cache as it was *)
Theorem cia_not_found_changes_nothing (s s1 : cia_state) (p : nat) :
  cia_step s (CGet p) = (s1, CNotFound) -> s1 = s.
Proof. cbn [cia_step]. destruct (cia_find (ci_dict s) p); [discriminate|].
  destruct (cia_files_of (ci_files s) p); [|discriminate]. intros H. inversion H. reflexivity. Qed.

(* no operation ever changes which object an already-served pair is served as: nothing is loaded twice,
   nothing replaces a cached object *)
Theorem cia_served_forever (s : cia_state) (p : nat) (ob : cia_obj) (o : cia_op) :
  cia_find (ci_dict s) p = Some ob -> cia_find (ci_dict (fst (cia_step s o))) p = Some ob.
Proof. intros H. destruct o as [q|fs|q file]; cbn [cia_step].
  - destruct (cia_find (ci_dict s) q); [exact H|].
    destruct (cia_files_of (ci_files s) q); [exact H|]. cbn [fst cia_construct ci_dict].
    apply cia_find_app_some. exact H.
  - exact H.
  - destruct (cia_find (ci_dict s) q); [exact H|]. cbn [fst cia_construct ci_dict]. apply cia_find_app_some. exact H. Qed.

(* a pickle (.db) file of the pair is preferred over a HITRAN (.cia) file *)
Theorem cia_db_priority (s s1 : cia_state) (p : nat) (ob : cia_obj) (f : cia_file) :
  cia_find (ci_dict s) p = None -> In f (ci_files s) -> cf_pair f = p -> cf_hitran f = false ->
  cia_step s (CGet p) = (s1, CServed ob) ->
  exists g, In g (ci_files s) /\ cf_pair g = p /\ cf_hitran g = false /\ co_file ob = cf_id g.
Proof. intros Hn Hin Hp Hh. cbn [cia_step]. rewrite Hn. unfold cia_files_of.
  destruct (filter (fun f0 => Nat.eqb (cf_pair f0) p && negb (cf_hitran f0)) (ci_files s)) as [|g gs] eqn:Ef.
  - exfalso. assert (Hf : In f (filter (fun f0 => Nat.eqb (cf_pair f0) p && negb (cf_hitran f0)) (ci_files s))).
    { apply filter_In. split; [exact Hin|]. rewrite Hp, Nat.eqb_refl, Hh. reflexivity. }
    rewrite Ef in Hf. destruct Hf.
  - cbn [app]. intros H. inversion H; subst. exists g.
    assert (Hg : In g (filter (fun f0 => Nat.eqb (cf_pair f0) (cf_pair f) && negb (cf_hitran f0)) (ci_files s))) by (rewrite Ef; left; reflexivity).
    apply filter_In in Hg. destruct Hg as [Hg1 Hg2]. apply andb_true_iff in Hg2. destruct Hg2 as [Hg2 Hg3].
    apply Nat.eqb_eq in Hg2. apply negb_true_iff in Hg3. repeat split; assumption. Qed.

(* an object added for a pair not yet cached is the one served from then on *)
Theorem cia_added_is_served (s : cia_state) (p file : nat) : cia_find (ci_dict s) p = None ->
  exists o, cia_step (fst (cia_step s (CAdd p file))) (CGet p) = (fst (cia_step s (CAdd p file)), CServed o)
            /\ co_file o = file /\ co_pair o = p.
Proof. intros Hn. cbn [cia_step]. rewrite Hn. cbn [fst cia_step]. unfold cia_construct at 1 3. cbn [ci_dict].
  rewrite (cia_find_app_none _ _ _ Hn). unfold cia_find at 1. cbn [find co_pair]. rewrite Nat.eqb_refl.
  eexists. split; [reflexivity|]. split; reflexivity. Qed.
