(* Proofs_C13.v — restricting the spectral grid never changes the values computed on it. *)
From Coq Require Import ZArith Reals List Bool Arith Lia Lra.
From TV Require Import Num ListNum ListAux ListNumR Model_C01 Proofs_C01 Proofs_C03 Model_C13 Model_C05.
Import ListNotations.
Local Open Scope R_scope.

(* ---------------- (a) column locality ------------------------------------- *)
Lemma sig_at_restrict (sel : list nat) (sigma : list (list R)) (l i : nat) : (i < length sel)%nat ->
  @sig_at R RNum (@restrict_cols R RNum sel sigma) l i = @sig_at R RNum sigma l (nth i sel 0%nat).
Proof. intros Hi. unfold sig_at, restrict_cols.
  destruct (le_lt_dec (length sigma) l) as [Hge|Hlt].
  - rewrite !nth_overflow by (rewrite ?map_length; exact Hge). unfold nth_d. destruct i, (nth _ sel 0%nat); reflexivity.
  - rewrite (map_nth_lt _ sigma [] []) by exact Hlt. unfold nth_d at 1.
    rewrite (map_nth_lt _ sel 0%nat) by exact Hi. reflexivity. Qed.

(* the optical depth at a retained wavenumber is the same function of that wavenumber's own
   cross-sections whatever other wavenumbers are computed *)
Theorem tau_loop_restrict (sq : bool) (sel : list nat) sigma rho path l i : (i < length sel)%nat ->
  @tau_loop R RNum sq (@restrict_cols R RNum sel sigma) rho path l i
  = @tau_loop R RNum sq sigma rho path l (nth i sel 0%nat).
Proof. intros Hi. rewrite !tau_loop_is_sum. apply Rsum_map_ext. intros k _.
  rewrite sig_at_restrict by exact Hi. reflexivity. Qed.

Definition restrict_contrib (sel : list nat) (c : @contrib R) : @contrib R :=
  match c with Sig sq s => Sig sq (@restrict_cols R RNum sel s) | Cloud fl => Cloud fl end.

Lemma tau_of_restrict sel c rho path (m l i : nat) : (i < length sel)%nat -> (nth i sel 0 < m)%nat ->
  nth i (@tau_of R RNum (restrict_contrib sel c) rho path (length sel) l) 0
  = nth (nth i sel 0%nat) (@tau_of R RNum c rho path m l) 0.
Proof. intros Hi Hm. destruct c as [sq s|fl]; cbn [tau_of restrict_contrib].
  - rewrite (map_nth_lt _ _ 0%nat) by (rewrite seq_length; exact Hi). rewrite seq_nth by exact Hi.
    rewrite (map_nth_lt _ _ 0%nat) by (rewrite seq_length; exact Hm). rewrite seq_nth by exact Hm.
    cbn [plus]. apply tau_loop_restrict. exact Hi.
  - rewrite !(map_nth_lt _ _ 0%nat) by (rewrite seq_length; assumption). reflexivity. Qed.

Lemma opaque_of_restrict sel c l : @opaque_of R (restrict_contrib sel c) l = @opaque_of R c l.
Proof. destruct c; reflexivity. Qed.

(* un-cut transmittance: identical on the retained points *)
Theorem Tfull_restrict sel (cs : list (@contrib R)) rho path (m l i : nat) :
  (i < length sel)%nat -> (nth i sel 0 < m)%nat ->
  Tfull rho path (length sel) l (map (restrict_contrib sel) cs) i
  = Tfull rho path m l cs (nth i sel 0%nat).
Proof. intros Hi Hm. rewrite !Tfull_unfold by assumption.
  assert (Ho : @opaque_full R (map (restrict_contrib sel) cs) l = @opaque_full R cs l).
  { unfold opaque_full. induction cs as [|c cs IH]; cbn [map existsb]; [reflexivity|].
    rewrite opaque_of_restrict, IH. reflexivity. }
  rewrite Ho. destruct (@opaque_full R cs l); [reflexivity|]. f_equal. f_equal.
  rewrite !tau_full_additive by assumption. rewrite map_map. apply Rsum_map_ext. intros c _.
  apply tau_of_restrict; assumption. Qed.

(* with the saturation cut-off: both the restricted and the full computation lie within exp(-10)
   above the same un-cut value, hence within exp(-10) of each other *)
Theorem cut_restrict_bound (a b t : R) :
  0 <= a - t <= exp (-10) -> 0 <= b - t <= exp (-10) -> Rabs (a - b) <= exp (-10).
Proof. intros Ha Hb. apply Rabs_le. lra. Qed.

(* ---------------- (b) what the clip keeps ---------------------------------- *)
Theorem clip_spec (native obs : list R) (x : R) :
  In x (@clip R RNum native obs) <->
  In x native /\ @lmin R RNum 0 obs - @lmax R RNum 0 (@bin_widths R RNum obs) <= x
              /\ x <= @lmax R RNum 0 obs + @lmax R RNum 0 (@bin_widths R RNum obs).
Proof. unfold clip. rewrite filter_In. rnum. rewrite andb_true_iff, !Rleb_true. tauto. Qed.

(* ---------------- (d) interpolation onto foreign points --------------------- *)
(* numpy.interp between the two bracketing nodes: a convex combination of their values *)
Lemma interp_in_step (x0 x1 : R) (xp : list R) (f0 f1 : R) (fp : list R) (x : R) :
  @interp_in R RNum (x0 :: x1 :: xp) (f0 :: f1 :: fp) x
  = if Rltb x x1 then f0 + (f1 - f0) * ((x - x0) / (x1 - x0)) else @interp_in R RNum (x1 :: xp) (f1 :: fp) x.
Proof. reflexivity. Qed.

Lemma interp_in_between : forall (xp fp : list R) (x : R) (m M : R),
  length fp = length xp -> (forall x0, hd_error xp = Some x0 -> x0 <= x) ->
  Forall (fun f => m <= f <= M) fp -> fp <> [] ->
  m <= @interp_in R RNum xp fp x <= M.
Proof. induction xp as [|x0 xp IH]; intros fp x m M Hl Hx Hf Hne.
  - destruct fp; [congruence|discriminate].
  - destruct fp as [|f0 fp]; [congruence|]. inversion Hf as [|? ? Hf0 Hf']; subst.
    destruct xp as [|x1 xp]; [destruct fp; [cbn; exact Hf0|discriminate]|].
    destruct fp as [|f1 fp]; [discriminate|]. rewrite interp_in_step.
    destruct (Rltb x x1) eqn:E.
    + apply Rltb_true in E. assert (Hx0 : x0 <= x) by (apply Hx; reflexivity).
      inversion Hf' as [|? ? Hf1 _]; subst.
      set (t := (x - x0) / (x1 - x0)).
      assert (Ht : 0 <= t <= 1).
      { unfold t. split.
        - apply Rmult_le_pos; [lra|left; apply Rinv_0_lt_compat; lra].
        - apply Rmult_le_reg_r with (x1 - x0); [lra|]. unfold Rdiv. rewrite Rmult_assoc, Rinv_l by lra. lra. }
      replace (f0 + (f1 - f0) * t) with ((1 - t) * f0 + t * f1) by ring. nra.
    + apply Rltb_false in E. apply IH; try assumption.
      * simpl in Hl. simpl. lia.
      * intros y Hy. injection Hy as <-. exact E.
      * discriminate. Qed.

Theorem np_interp_between (xp fp : list R) (x m M : R) :
  length fp = length xp -> Forall (fun f => m <= f <= M) fp -> fp <> [] ->
  m <= @np_interp R RNum xp fp x <= M.
Proof. intros Hl Hf Hne. unfold np_interp.
  destruct xp as [|x0 xp]; [destruct fp; [congruence|discriminate]|].
  destruct fp as [|f0 fp]; [congruence|]. rnum.
  destruct (Rltb x x0) eqn:E0; [inversion Hf; assumption|]. apply Rltb_false in E0.
  destruct (Rleb _ x) eqn:E1.
  - unfold nth_d. rewrite Forall_forall in Hf. apply Hf. apply nth_In. simpl. lia.
  - apply interp_in_between; try assumption.
    intros y Hy. injection Hy as <-. lra. Qed.

(* requested exactly on the molecule's own points: returned unchanged *)
Theorem opacity_own_points (native vals req : list R) :
  @list_eqb R RNum (@sub R native (@ss_left R RNum native (@lmin R RNum 0 req))
                                  (@ss_right R RNum native (@lmax R RNum 0 req))) req = true ->
  @opacity_on R RNum native vals req
  = @sub R vals (@ss_left R RNum native (@lmin R RNum 0 req)) (@ss_right R RNum native (@lmax R RNum 0 req)).
Proof. intros H. unfold opacity_on. rnum. rewrite H. reflexivity. Qed.

Lemma Forall_sub {A} (P : A -> Prop) (l : list A) (a b : nat) : Forall P l -> Forall P (sub l a b).
Proof. intros H. unfold sub. apply Forall_forall. intros x Hx.
  rewrite Forall_forall in H. apply H. apply (In_skipn_firstn x l a (b - a) Hx). Qed.

Lemma ss_left_le_length (a : list R) v : (@ss_left R RNum a v <= length a)%nat.
Proof. induction a as [|x a IH]; simpl; [lia|]. rnum. destruct (Rltb x v); simpl; lia. Qed.
Lemma ss_right_le_length' (a : list R) v : (@ss_right R RNum a v <= length a)%nat.
Proof. induction a as [|x a IH]; simpl; [lia|]. rnum. destruct (Rleb x v); simpl; lia. Qed.

(* on other points: every returned value lies between the smallest and largest native values used *)
Theorem opacity_foreign_bounded (native vals req : list R) (m M : R) (i : nat) :
  length vals = length native -> Forall (fun f => m <= f <= M) vals -> native <> [] ->
  @list_eqb R RNum (@sub R native (@ss_left R RNum native (@lmin R RNum 0 req))
                                  (@ss_right R RNum native (@lmax R RNum 0 req))) req = false ->
  (i < length req)%nat -> m <= nth i (@opacity_on R RNum native vals req) 0 <= M.
Proof. intros Hl Hf Hne He Hi. unfold opacity_on. rnum. rewrite He.
  set (a := @ss_left R RNum native (@lmin R RNum 0 req)). set (b := @ss_right R RNum native (@lmax R RNum 0 req)).
  set (n := length native).
  assert (Hn : (0 < n)%nat) by (unfold n; destruct native; [congruence|simpl; lia]).
  assert (Ha : (a <= n)%nat) by apply ss_left_le_length.
  assert (Hb : (b <= n)%nat) by apply ss_right_le_length'.
  assert (Hnonempty : forall lo hi, (lo <= hi)%nat -> (hi < n)%nat -> @sub R vals lo (S hi) <> []).
  { intros lo hi H1 H2 Hnil. apply (f_equal (@length R)) in Hnil. unfold sub in Hnil.
    rewrite firstn_length, skipn_length, Hl in Hnil. fold n in Hnil. cbn [length] in Hnil. clear - H1 H2 Hnil. lia. }
  destruct (a <? b)%nat eqn:Eab.
  - apply Nat.ltb_lt in Eab. rewrite (map_nth_lt _ req 0 0) by exact Hi.
    apply np_interp_between.
    + unfold sub. rewrite !firstn_length, !skipn_length, Hl. reflexivity.
    + apply Forall_sub. exact Hf.
    + apply Hnonempty; clear - Eab Ha Hb Hn; lia.
  - apply Nat.ltb_ge in Eab. rewrite (map_nth_lt _ req 0 0) by exact Hi.
    apply np_interp_between.
    + unfold sub. rewrite !firstn_length, !skipn_length, Hl. reflexivity.
    + apply Forall_sub. exact Hf.
    + apply Hnonempty; clear - Eab Ha Hb Hn; lia. Qed.

(* ---------------- native grid choice --------------------------------------- *)
Lemma longest_from_in (cur : list R) gs : In (@longest_from R cur gs) (cur :: gs).
Proof. revert cur. induction gs as [|g gs IH]; intros cur; cbn [longest_from]; [left; reflexivity|].
  destruct (length cur <? length g)%nat.
  - right. apply IH.
  - destruct (IH cur) as [H|H]; [left; exact H|right; right; exact H]. Qed.

Lemma longest_from_self gs : forall cur : list R, (length cur <= length (@longest_from R cur gs))%nat.
Proof. induction gs as [|g0 gs IH]; intros cur; cbn [longest_from]; [lia|].
  destruct (length cur <? length g0)%nat eqn:E.
  - apply Nat.ltb_lt in E. specialize (IH g0). lia.
  - apply IH. Qed.

Lemma longest_from_tail gs g : forall cur : list R, In g gs -> (length g <= length (@longest_from R cur gs))%nat.
Proof. induction gs as [|g0 gs IH]; intros cur Hin; [destruct Hin|]. cbn [longest_from].
  destruct (length cur <? length g0)%nat eqn:E.
  - destruct Hin as [->|Hin]; [apply longest_from_self|apply IH; exact Hin].
  - apply Nat.ltb_ge in E. destruct Hin as [->|Hin]; [|apply IH; exact Hin].
    pose proof (longest_from_self gs cur). lia. Qed.

Lemma longest_from_max (cur : list R) gs g : In g (cur :: gs) -> (length g <= length (@longest_from R cur gs))%nat.
Proof. intros [->|Hin]; [apply longest_from_self|apply longest_from_tail; exact Hin]. Qed.

Theorem native_grid_longest (gs : list (list R)) g : In g gs ->
  In (@native_grid R gs) gs /\ (length g <= length (@native_grid R gs))%nat.
Proof. intros Hin. destruct gs as [|g0 gs]; [destruct Hin|]. cbn [native_grid].
  split; [apply longest_from_in|apply longest_from_max; exact Hin]. Qed.

(* ---------------- binning the restricted result: locality of the overlap-weighted mean ---------------- *)
Notation ovR := (@ov R RNum).
Notation omean := (@overlap_mean R RNum).

(* two native rows count the same for the target bin [a,b]: same overlap, and the same value when they overlap it *)
Definition same_for (a b : R) (r1 r2 : @nrow R) : Prop :=
  ovR a b r1 = ovR a b r2 /\ (ovR a b r1 <> 0 -> @r_f R r1 = @r_f R r2).

Lemma sum_zero_ov (a b : R) (f : @nrow R -> R) (l : list (@nrow R)) :
  Forall (fun r => ovR a b r = 0) l -> Rsum (map (fun r => ovR a b r * f r) l) = 0.
Proof. induction 1 as [|r l Hr _ IH]; cbn [map]; [apply Rsum_nil|]. rewrite Rsum_cons, IH, Hr. ring. Qed.

Lemma sum_zero_ov1 (a b : R) (l : list (@nrow R)) :
  Forall (fun r => ovR a b r = 0) l -> Rsum (map (ovR a b) l) = 0.
Proof. induction 1 as [|r l Hr _ IH]; cbn [map]; [apply Rsum_nil|]. rewrite Rsum_cons, IH, Hr. ring. Qed.

Lemma sum_same (a b : R) (l1 l2 : list (@nrow R)) : Forall2 (same_for a b) l1 l2 ->
  Rsum (map (fun r => ovR a b r * @r_f R r) l1) = Rsum (map (fun r => ovR a b r * @r_f R r) l2)
  /\ Rsum (map (ovR a b) l1) = Rsum (map (ovR a b) l2).
Proof. induction 1 as [|r1 r2 l1 l2 [Ho Hf] _ [IH1 IH2]]; cbn [map]; [split; reflexivity|].
  rewrite !Rsum_cons, IH1, IH2, <- Ho. split; [|reflexivity].
  destruct (Req_dec (ovR a b r1) 0) as [Hz|Hnz]; [rewrite Hz; ring|rewrite (Hf Hnz); reflexivity]. Qed.

(* the binned value of a target bin depends only on the native bins that overlap it: rows without overlap may be
   added or removed at either end, rows in between may change in any way that keeps their overlap and value *)
Theorem overlap_mean_local (a b : R) (pre mid post pre' mid' post' : list (@nrow R)) :
  Forall (fun r => ovR a b r = 0) pre -> Forall (fun r => ovR a b r = 0) post ->
  Forall (fun r => ovR a b r = 0) pre' -> Forall (fun r => ovR a b r = 0) post' ->
  Forall2 (same_for a b) mid mid' ->
  omean (pre ++ mid ++ post) a b = omean (pre' ++ mid' ++ post') a b.
Proof. intros H1 H2 H3 H4 Hm. unfold overlap_mean. rnum.
  rewrite !map_app, !Rsum_app.
  rewrite (sum_zero_ov a b _ pre H1), (sum_zero_ov a b _ post H2), (sum_zero_ov a b _ pre' H3), (sum_zero_ov a b _ post' H4).
  rewrite (sum_zero_ov1 a b pre H1), (sum_zero_ov1 a b post H2), (sum_zero_ov1 a b pre' H3), (sum_zero_ov1 a b post' H4).
  destruct (sum_same a b mid mid' Hm) as [E1 E2]. rewrite E1, E2. reflexivity. Qed.
