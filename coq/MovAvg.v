(* MovAvg.v — taurex.util.util.movingaverage as coded (cumulative-sum trick) is the windowed mean:
   every output lies between the smallest and largest input, constants are preserved. *)
From Coq Require Import ZArith Reals List Bool Arith Lia Lra.
From TV Require Import Num ListNum ListAux ListNumR Proofs_C03.
Import ListNotations.
Local Open Scope R_scope.

Notation csum := (@cumsum R RNum).
Notation mavg := (@movavg R RNum).

Lemma cumsum_from_length (acc : R) (a : list R) : length (@cumsum_from R RNum acc a) = length a.
Proof. revert acc. induction a as [|x a IH]; intros acc; cbn [cumsum_from length]; [reflexivity|]. rewrite IH. reflexivity. Qed.

Lemma cumsum_length (a : list R) : length (csum a) = length a.
Proof. apply cumsum_from_length. Qed.

Lemma nth_cumsum_from (acc : R) (a : list R) (j : nat) : (j < length a)%nat ->
  nth j (@cumsum_from R RNum acc a) 0 = acc + Rsum (firstn (S j) a).
Proof. revert acc j. induction a as [|x a IH]; intros acc j Hj; simpl in Hj; [lia|].
  cbn [cumsum_from]. destruct j as [|j].
  - cbn [nth firstn]. rewrite Rsum_cons, Rsum_nil. rnum. lra.
  - cbn [nth]. rewrite IH by lia. cbn [firstn]. rewrite !Rsum_cons. rnum. lra. Qed.

Lemma nth_cumsum (a : list R) (j : nat) : (j < length a)%nat -> nth j (csum a) 0 = Rsum (firstn (S j) a).
Proof. intros Hj. unfold cumsum. rewrite nth_cumsum_from by exact Hj. rnum. lra. Qed.

Lemma firstn_split_sum (a : list R) (i k : nat) :
  Rsum (firstn (i + k) a) = Rsum (firstn i a) + Rsum (firstn k (skipn i a)).
Proof. revert a. induction i as [|i IH]; intros a; cbn [plus firstn skipn].
  - rewrite Rsum_nil. lra.
  - destruct a as [|x a]; [rewrite !firstn_nil, !Rsum_nil; lra|]. cbn [firstn skipn]. rewrite !Rsum_cons, IH. lra. Qed.

Lemma Rsum_window_bounds (l : list R) (m M : R) : Forall (fun x => m <= x <= M) l ->
  INR (length l) * m <= Rsum l <= INR (length l) * M.
Proof. induction 1 as [|x l Hx _ IH]; [cbn [length]; rewrite Rsum_nil; simpl; lra|].
  change (length (x :: l)) with (S (length l)). rewrite S_INR, Rsum_cons. lra. Qed.

Lemma Forall_firstn_skipn {A} (P : A -> Prop) (l : list A) (i k : nat) :
  Forall P l -> Forall P (firstn k (skipn i l)).
Proof. intros H. apply Forall_forall. intros x Hx. rewrite Forall_forall in H. apply H.
  apply (In_skipn_firstn x l i k Hx). Qed.

(* the vector after  ret[n:] = ret[n:] - ret[:-n] *)
Definition shifted (a : list R) (n : nat) : list R :=
  let c := csum a in firstn n c ++ map2 (@nsub R RNum) (skipn n c) (firstn (length c - n) c).

Lemma mavg_unfold (a : list R) (n : nat) :
  mavg a n = map (fun x => x / INR n) (skipn (n - 1) (shifted a n)).
Proof. unfold movavg, shifted. apply map_ext. intros x. unfold nofnat. rnum. rewrite INR_IZR_INZ. reflexivity. Qed.

Lemma shifted_length (a : list R) (n : nat) : (n <= length a)%nat -> length (shifted a n) = length a.
Proof. intros Hn. unfold shifted. rewrite app_length, firstn_length, map2_length, skipn_length, firstn_length, cumsum_length. lia. Qed.

(* every entry of the shifted vector from index n-1 on is the sum of a window of n inputs *)
Lemma shifted_window (a : list R) (n j : nat) : (1 <= n)%nat -> (n - 1 <= j < length a)%nat ->
  nth j (shifted a n) 0 = Rsum (firstn n (skipn (j + 1 - n) a)).
Proof. intros Hn Hj. unfold shifted. set (c := csum a).
  assert (Hc : length c = length a) by apply cumsum_length.
  destruct (lt_dec j n) as [Hlt|Hge].
  - assert (j = n - 1)%nat by lia. subst j.
    rewrite app_nth1 by (rewrite firstn_length; lia). rewrite nth_firstn_lt by lia.
    unfold c. rewrite nth_cumsum by lia. replace (n - 1 + 1 - n)%nat with 0%nat by lia. cbn [skipn].
    replace (S (n - 1)) with n by lia. reflexivity.
  - rewrite app_nth2 by (rewrite firstn_length; lia). rewrite firstn_length. replace (Nat.min n (length c)) with n by lia.
    rewrite (nth_map2_lt _ _ _ 0 0 0) by (rewrite ?skipn_length, ?firstn_length; lia).
    rewrite nth_skipn_add, nth_firstn_lt by lia. replace (n + (j - n))%nat with j by lia.
    unfold c. rewrite !nth_cumsum by lia. rnum.
    replace (S j) with (S (j - n) + n)%nat by lia. rewrite firstn_split_sum.
    replace (j + 1 - n)%nat with (S (j - n)) by lia. lra. Qed.

Theorem movavg_bounded (a : list R) (n : nat) (m M : R) : (1 <= n <= length a)%nat ->
  Forall (fun x => m <= x <= M) a -> Forall (fun x => m <= x <= M) (mavg a n).
Proof. intros Hn Ha. rewrite mavg_unfold. apply Forall_forall. intros y Hy. apply in_map_iff in Hy.
  destruct Hy as [x [<- Hx]]. apply (In_nth _ _ 0) in Hx. destruct Hx as [k [Hk <-]].
  rewrite skipn_length, shifted_length in Hk by lia. rewrite nth_skipn_add.
  rewrite shifted_window by lia.
  set (w := firstn n (skipn (n - 1 + k + 1 - n) a)).
  assert (Hlen : length w = n).
  { unfold w. rewrite firstn_length, skipn_length. lia. }
  pose proof (Rsum_window_bounds w m M (Forall_firstn_skipn _ a _ n Ha)) as Hb. rewrite Hlen in Hb.
  assert (Hpos : 0 < INR n) by (apply lt_0_INR; lia).
  split.
  - apply Rmult_le_reg_r with (INR n); [exact Hpos|]. unfold Rdiv. rewrite Rmult_assoc, Rinv_l by lra. lra.
  - apply Rmult_le_reg_r with (INR n); [exact Hpos|]. unfold Rdiv. rewrite Rmult_assoc, Rinv_l by lra. lra. Qed.

Theorem movavg_length (a : list R) (n : nat) : (1 <= n <= length a)%nat ->
  length (mavg a n) = (length a - (n - 1))%nat.
Proof. intros Hn. rewrite mavg_unfold, map_length, skipn_length, shifted_length by lia. reflexivity. Qed.
