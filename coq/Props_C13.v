(* Props_C13.v — C13: restricting the spectral grid never changes the values computed on it. *)
From Coq Require Import Reals List Lra.
From TV Require Import Num ListNum ListNumR Model_C01 Proofs_C01 Proofs_C03 Model_C13 Proofs_C13 Model_C05.
Import ListNotations.
Local Open Scope R_scope.

(* (a) the optical depth at a retained wavenumber is the same function of that wavenumber's own
   cross-sections whatever other wavenumbers are computed ... *)
Theorem C13_tau_column_local : forall (sq : bool) (sel : list nat) sigma rho path l i, (i < length sel)%nat ->
  @tau_loop R RNum sq (@restrict_cols R RNum sel sigma) rho path l i
  = @tau_loop R RNum sq sigma rho path l (nth i sel 0%nat).
Proof. exact tau_loop_restrict. Qed.
Print Assumptions C13_tau_column_local.

(* ... hence the un-cut transmittance on a sub-grid equals the full computation at those points *)
Theorem C13_restriction_exact : forall sel (cs : list (@contrib R)) rho path (m l i : nat),
  (i < length sel)%nat -> (nth i sel 0 < m)%nat ->
  Tfull rho path (length sel) l (map (restrict_contrib sel) cs) i
  = Tfull rho path m l cs (nth i sel 0%nat).
Proof. exact Tfull_restrict. Qed.
Print Assumptions C13_restriction_exact.

(* with the licensed cut-off both computations lie within exp(-10) above that common value *)
Theorem C13_cutoff_slack : forall (a b t : R),
  0 <= a - t <= exp (-10) -> 0 <= b - t <= exp (-10) -> Rabs (a - b) <= exp (-10).
Proof. exact cut_restrict_bound. Qed.
Print Assumptions C13_cutoff_slack.

(* (b) the clip keeps exactly the native points within one maximum bin width of the requested range *)
Theorem C13_clip_spec : forall (native obs : list R) (x : R),
  In x (@clip R RNum native obs) <->
  In x native /\ @lmin R RNum 0 obs - @lmax R RNum 0 (@bin_widths R RNum obs) <= x
              /\ x <= @lmax R RNum 0 obs + @lmax R RNum 0 (@bin_widths R RNum obs).
Proof. exact clip_spec. Qed.
Print Assumptions C13_clip_spec.

(* (d) opacities requested on the molecule's own points are returned unchanged ... *)
Theorem C13_own_points : forall (native vals req : list R),
  @list_eqb R RNum (@sub R native (@ss_left R RNum native (@lmin R RNum 0 req))
                                  (@ss_right R RNum native (@lmax R RNum 0 req))) req = true ->
  @opacity_on R RNum native vals req
  = @sub R vals (@ss_left R RNum native (@lmin R RNum 0 req)) (@ss_right R RNum native (@lmax R RNum 0 req)).
Proof. exact opacity_own_points. Qed.
Print Assumptions C13_own_points.

(* ... and on other points lie between the native values they are interpolated from *)
Theorem C13_foreign_points_bounded : forall (native vals req : list R) (m M : R) (i : nat),
  length vals = length native -> Forall (fun f => m <= f <= M) vals -> native <> [] ->
  @list_eqb R RNum (@sub R native (@ss_left R RNum native (@lmin R RNum 0 req))
                                  (@ss_right R RNum native (@lmax R RNum 0 req))) req = false ->
  (i < length req)%nat -> m <= nth i (@opacity_on R RNum native vals req) 0 <= M.
Proof. exact opacity_foreign_bounded. Qed.
Print Assumptions C13_foreign_points_bounded.

Theorem C13_interp_between : forall (xp fp : list R) (x m M : R),
  length fp = length xp -> Forall (fun f => m <= f <= M) fp -> fp <> [] ->
  m <= @np_interp R RNum xp fp x <= M.
Proof. exact np_interp_between. Qed.
Print Assumptions C13_interp_between.

(* the model's native grid is one of the molecules' grids and none is longer *)
Theorem C13_native_grid : forall (gs : list (list R)) g, In g gs ->
  In (@native_grid R gs) gs /\ (length g <= length (@native_grid R gs))%nat.
Proof. exact native_grid_longest. Qed.
Print Assumptions C13_native_grid.

(* (e) binning the restricted result equals binning the full result: the overlap-weighted mean of a target bin [a,b]
   (which is what the flux binner computes: C05_flux_is_overlap_mean) depends only on the native bins that overlap it.
   Native rows without overlap may be dropped at either end (the clip), and the remaining rows may change in any way
   that keeps their overlap with [a,b] and their value (the end rows of the clipped grid get other mid-point widths).
   The premises are evaluated by the driver on every generated instance that satisfies the property's width condition. *)
Theorem C13_binning_local : forall (a b : R) (pre mid post pre' mid' post' : list (@nrow R)),
  Forall (fun r => @ov R RNum a b r = 0) pre -> Forall (fun r => @ov R RNum a b r = 0) post ->
  Forall (fun r => @ov R RNum a b r = 0) pre' -> Forall (fun r => @ov R RNum a b r = 0) post' ->
  Forall2 (same_for a b) mid mid' ->
  @overlap_mean R RNum (pre ++ mid ++ post) a b = @overlap_mean R RNum (pre' ++ mid' ++ post') a b.
Proof. exact overlap_mean_local. Qed.
Print Assumptions C13_binning_local.
