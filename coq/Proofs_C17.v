(* Proofs_C17.v — observations load independent of row order, with aligned columns and units. *)
From Coq Require Import ZArith Reals List Bool Arith Lia Lra Permutation Sorting.Sorted.
From TV Require Import Num ListNum ListAux ListNumR SortR Model_C05 Model_C17.
Import ListNotations.
Local Open Scope R_scope.

Notation row := (@orow R).
Notation wl := (@o_wl R).
Notation sortd := (@sort_desc R RNum).
Notation ld := (@load R RNum).

(* ---------------- (a) row order does not matter ------------------------------- *)
Theorem sort_desc_order_independent (rows rows' : list row) :
  NoDup (map wl rows) -> Permutation rows rows' -> sortd rows = sortd rows'.
Proof. intros Hnd Hp. unfold sort_desc. f_equal. apply isort_order_independent; assumption. Qed.

Theorem load_order_independent (four : bool) (rows rows' : list row) :
  NoDup (map wl rows) -> Permutation rows rows' -> ld four rows = ld four rows'.
Proof. intros Hnd Hp. unfold load. rewrite (sort_desc_order_independent rows rows' Hnd Hp). reflexivity. Qed.

(* ---------------- (b) the rows are kept whole, wavenumbers ascending ----------- *)
Lemma sort_desc_perm (rows : list row) : Permutation rows (sortd rows).
Proof. unfold sort_desc. rewrite <- Permutation_rev. apply isort_perm. Qed.

Theorem load_rows_attached (four : bool) (rows : list row) :
  let o := ld four rows in
  Permutation rows (ob_rows o) /\
  ob_wn o = map (fun r => 10000 / wl r) (ob_rows o) /\
  ob_spec o = map (@o_v R) (ob_rows o) /\ ob_err o = map (@o_e R) (ob_rows o) /\
  length (ob_wn o) = length rows.
Proof. cbv zeta. unfold load. cbn [ob_rows ob_wn ob_spec ob_err]. repeat split.
  - apply sort_desc_perm.
  - rewrite map_length. symmetry. apply Permutation_length. apply sort_desc_perm. Qed.

Lemma sorted_strict {A} (key : A -> R) (m : list A) :
  StronglySorted (kle key) m -> NoDup (map key m) -> StronglySorted (klt key) m.
Proof. induction 1 as [|x m Hs IH Hx]; intros Hnd; [constructor|].
  cbn [map] in Hnd. inversion Hnd as [|? ? Hnin Hnd']; subst. constructor; [apply IH; exact Hnd'|].
  rewrite Forall_forall in *. intros y Hy. specialize (Hx y Hy). unfold kle, klt in *.
  destruct Hx as [Hlt|Heq]; [exact Hlt|]. exfalso. apply Hnin. rewrite Heq. apply in_map. exact Hy. Qed.

Lemma sorted_app {A} (P : A -> A -> Prop) (a b : list A) :
  StronglySorted P a -> StronglySorted P b -> (forall x y, In x a -> In y b -> P x y) ->
  StronglySorted P (a ++ b).
Proof. induction 1 as [|x a Hs IH Hx]; intros Hb Hab; [exact Hb|]. cbn [app]. constructor.
  - apply IH; [exact Hb|]. intros u v Hu Hv. apply Hab; [right; exact Hu|exact Hv].
  - apply Forall_app. split; [exact Hx|]. apply Forall_forall. intros v Hv. apply Hab; [left; reflexivity|exact Hv]. Qed.

Lemma sorted_rev {A} (P : A -> A -> Prop) (m : list A) :
  StronglySorted P m -> StronglySorted (fun a b => P b a) (rev m).
Proof. induction 1 as [|x m Hs IH Hx]; [constructor|]. cbn [rev]. apply sorted_app.
  - exact IH.
  - repeat constructor.
  - intros u v Hu Hv. destruct Hv as [<-|[]]. apply in_rev in Hu. rewrite Forall_forall in Hx. apply Hx. exact Hu. Qed.

Lemma sorted_map {A B} (f : A -> B) (P : B -> B -> Prop) (m : list A) :
  StronglySorted (fun a b => P (f a) (f b)) m -> StronglySorted P (map f m).
Proof. induction 1 as [|x m Hs IH Hx]; [constructor|]. cbn [map]. constructor; [exact IH|].
  rewrite Forall_forall in *. intros y Hy. apply in_map_iff in Hy. destruct Hy as [z [<- Hz]]. apply Hx. exact Hz. Qed.

Lemma sorted_weaken {A} (P Q : A -> A -> Prop) (m : list A) :
  (forall a b, In a m -> In b m -> P a b -> Q a b) -> StronglySorted P m -> StronglySorted Q m.
Proof. intros H Hs. induction Hs as [|x m Hs IH Hx]; [constructor|]. constructor.
  - apply IH. intros a b Ha Hb. apply H; right; assumption.
  - rewrite Forall_forall in *. intros y Hy. apply H; [left; reflexivity|right; exact Hy|apply Hx; exact Hy]. Qed.

Lemma sort_desc_sorted (rows : list row) : NoDup (map wl rows) ->
  StronglySorted (fun a b => wl b < wl a) (sortd rows).
Proof. intros Hnd. unfold sort_desc. apply (sorted_rev (klt wl)). apply sorted_strict; [apply isort_sorted|].
  apply (Permutation_NoDup (l := map wl rows)); [|exact Hnd]. apply Permutation_map. apply isort_perm. Qed.

Theorem wavenumbers_ascending (four : bool) (rows : list row) :
  NoDup (map wl rows) -> Forall (fun r => 0 < wl r) rows ->
  StronglySorted Rlt (ob_wn (ld four rows)).
Proof. intros Hnd Hpos. unfold load. cbn [ob_wn]. apply sorted_map.
  apply (sorted_weaken (fun a b => wl b < wl a)); [|apply sort_desc_sorted; exact Hnd].
  intros a b Ha Hb Hlt. rnum. unfold c10000. rnum.
  assert (Hin : forall r, In r (sortd rows) -> 0 < wl r).
  { intros r Hr. rewrite Forall_forall in Hpos. apply Hpos. apply (Permutation_in _ (Permutation_sym (sort_desc_perm rows))). exact Hr. }
  pose proof (Hin a Ha) as Pa. pose proof (Hin b Hb) as Pb.
  unfold Rdiv. apply Rmult_lt_compat_l; [lra|]. apply Rinv_lt_contravar; [apply Rmult_lt_0_compat; assumption|exact Hlt]. Qed.

(* ---------------- (c) widths and edges, four columns --------------------------- *)
Lemma rev_concat_pairs {A} (a b : row -> A) (s : list row) :
  rev (concat (map (fun r => [a r; b r]) (rev s))) = concat (map (fun r => [b r; a r]) s).
Proof. induction s as [|x s IH]; [reflexivity|]. cbn [rev map]. rewrite map_app, concat_app, rev_app_distr, IH.
  cbn [map concat app rev]. reflexivity. Qed.

Lemma nth_concat_pairs {A} (a b : row -> A) (s : list row) (k : nat) (d : A) (dr : row) : (k < length s)%nat ->
  nth (2 * k) (concat (map (fun r => [a r; b r]) s)) d = a (nth k s dr) /\
  nth (2 * k + 1) (concat (map (fun r => [a r; b r]) s)) d = b (nth k s dr).
Proof. revert k. induction s as [|x s IH]; intros k Hk; [simpl in Hk; lia|].
  destruct k as [|k]; [split; reflexivity|]. cbn [length] in Hk.
  replace (2 * S k)%nat with (S (S (2 * k))) by lia. replace (S (S (2 * k)) + 1)%nat with (S (S (2 * k + 1))) by lia.
  cbn [map concat app nth]. apply IH. lia. Qed.

Lemma map2_map_both {A B C D} (f : B -> C -> D) (g : A -> B) (h : A -> C) (l : list A) :
  map2 f (map g l) (map h l) = map (fun x => f (g x) (h x)) l.
Proof. induction l as [|x l IH]; [reflexivity|]. cbn [map map2]. rewrite IH. reflexivity. Qed.

Definition drow : row := {| o_wl := 0; o_v := 0; o_e := 0; o_bw := 0 |}.

Theorem four_column_edges (rows : list row) (k : nat) : (k < length rows)%nat ->
  let o := ld true rows in
  let r := nth k (ob_rows o) drow in
  length (ob_edges o) = (2 * length rows)%nat /\
  nth (2 * k) (ob_edges o) 0 = 10000 / (wl r + o_bw r / 2) /\
  nth (2 * k + 1) (ob_edges o) 0 = 10000 / (wl r - o_bw r / 2) /\
  nth k (ob_wnw o) 0 = 10000 * o_bw r / (wl r * wl r) /\
  nth k (ob_wn o) 0 = 10000 / wl r.
Proof. intros Hk. cbv zeta. unfold load. cbn [ob_rows ob_edges ob_wnw ob_wn]. unfold wl_edges, wl_widths.
  rewrite rev_concat_pairs.
  assert (Hlen : length (sortd rows) = length rows) by (symmetry; apply Permutation_length, sort_desc_perm).
  set (s := sortd rows) in *. rewrite <- Hlen in Hk.
  set (e := concat (map (fun r : row => [(o_wl r + o_bw r / n2)%num; (o_wl r - o_bw r / n2)%num]) s)).
  assert (Hel : length e = (2 * length s)%nat).
  { unfold e. clear. induction s as [|x s IH]; [reflexivity|]. cbn [map concat app length]. rewrite IH. lia. }
  split; [rewrite map_length, Hel, Hlen; reflexivity|].
  destruct (nth_concat_pairs (fun r : row => (o_wl r + o_bw r / n2)%num) (fun r : row => (o_wl r - o_bw r / n2)%num)
              s k 0 drow Hk) as [E0 E1]. fold e in E0, E1.
  assert (D0 : forall i, (i < length e)%nat -> nth i (map (fun x : R => (c10000 / x)%num) e) 0 = 10000 / nth i e 0).
  { intros i Hi. rewrite (nth_indep _ 0 ((fun x : R => (c10000 / x)%num) 0)) by (rewrite map_length; exact Hi).
    rewrite map_nth. unfold c10000. rnum. reflexivity. }
  rewrite !D0 by lia. rewrite E0, E1. rnum. repeat split; try reflexivity.
  - rewrite map2_map_both. rewrite (map_nth_lt _ s drow 0 k Hk). unfold conv_width, c10000. rnum. reflexivity.
  - rewrite (map_nth_lt _ s drow 0 k Hk). unfold c10000. rnum. reflexivity. Qed.

(* with 0 < bw/2 < wl the two edges of a bin bracket its centre, in wavenumber *)
Theorem four_column_bracket (rows : list row) (k : nat) : (k < length rows)%nat ->
  Forall (fun r => 0 < o_bw r / 2 < wl r) rows ->
  let o := ld true rows in
  nth (2 * k) (ob_edges o) 0 < nth k (ob_wn o) 0 < nth (2 * k + 1) (ob_edges o) 0.
Proof. intros Hk Hall. cbv zeta. destruct (four_column_edges rows k Hk) as [_ [E0 [E1 [_ Ec]]]]. cbv zeta in *.
  rewrite E0, E1, Ec.
  set (r := nth k (ob_rows (ld true rows)) drow).
  assert (Hr : 0 < o_bw r / 2 < wl r).
  { rewrite Forall_forall in Hall. apply Hall. apply (Permutation_in _ (Permutation_sym (sort_desc_perm rows))).
    unfold r, load. cbn [ob_rows]. apply nth_In. rewrite <- (Permutation_length (sort_desc_perm rows)). exact Hk. }
  clearbody r. unfold Rdiv at 1 3 5. split; apply Rmult_lt_compat_l; try lra; apply Rinv_lt_contravar; try lra.
  - apply Rmult_lt_0_compat; lra.
  - apply Rmult_lt_0_compat; lra. Qed.

(* ---------------- (d) three columns: edges are the mid-points ------------------- *)
Lemma nth_diff (l : list R) (k : nat) : (S k < length l)%nat ->
  nth k (@diff R RNum l) 0 = nth (S k) l 0 - nth k l 0.
Proof. revert k. induction l as [|x l IH]; intros k Hk; [simpl in Hk; lia|].
  destruct l as [|y l']; [simpl in Hk; lia|]. destruct k as [|k]; [reflexivity|].
  change (@diff R RNum (x :: y :: l')) with ((y - x)%num :: @diff R RNum (y :: l')). cbn [nth].
  rewrite IH by (cbn [length] in *; lia). reflexivity. Qed.

Lemma diff_length (l : list R) : length (@diff R RNum l) = (length l - 1)%nat.
Proof. induction l as [|x l IH]; [reflexivity|]. destruct l as [|y l']; [reflexivity|].
  change (@diff R RNum (x :: y :: l')) with ((y - x)%num :: @diff R RNum (y :: l')). cbn [length] in *. rewrite IH. lia. Qed.

Lemma mids_spec (g : list R) : @mids R RNum g = map2 (fun a b => (a + b) / 2) g (tl g).
Proof. unfold mids. induction g as [|x g IH]; [reflexivity|]. destruct g as [|y g']; [reflexivity|].
  change (@diff R RNum (x :: y :: g')) with ((y - x)%num :: @diff R RNum (y :: g')).
  change (removelast (x :: y :: g')) with (x :: removelast (y :: g')). cbn [map2 tl]. cbn [tl] in IH. rewrite IH.
  f_equal. rnum. field. Qed.

Lemma nth_map2 {A B C} (f : A -> B -> C) (a : list A) (b : list B) (da : A) (db : B) (dc : C) (i : nat) :
  (i < length a)%nat -> (i < length b)%nat -> nth i (map2 f a b) dc = f (nth i a da) (nth i b db).
Proof. revert b i. induction a as [|x a IH]; intros b i Ha Hb; [simpl in Ha; lia|].
  destruct b as [|y b]; [simpl in Hb; lia|]. destruct i as [|i]; [reflexivity|]. cbn [map2 nth]. apply IH; cbn [length] in *; lia. Qed.

Lemma nth_tl_R (l : list R) (i : nat) : nth i (tl l) 0 = nth (S i) l 0.
Proof. destruct l; [destruct i; reflexivity|reflexivity]. Qed.

Theorem three_column_edges (g : list R) : (2 <= length g)%nat ->
  let e := @bin_edges R RNum g in let n := length g in
  length e = S n /\
  nth 0 e 0 = nth 0 g 0 - (nth 1 g 0 - nth 0 g 0) / 2 /\
  (forall k, (1 <= k < n)%nat -> nth k e 0 = (nth (k - 1) g 0 + nth k g 0) / 2) /\
  nth n e 0 = (nth (n - 1) g 0 - nth (n - 2) g 0) / 2 + nth (n - 1) g 0.
Proof. intros Hn. cbv zeta. destruct g as [|g0 [|g1 g']]; try (simpl in Hn; lia).
  remember (g0 :: g1 :: g') as g eqn:Eg.
  assert (He : @bin_edges R RNum g = (g0 - (g1 - g0) / 2) :: @mids R RNum g ++
             [(nth (length g - 1) g 0 - nth (length g - 2) g 0) / 2 + nth (length g - 1) g 0]).
  { rewrite Eg. unfold bin_edges, nth_d. rnum. reflexivity. }
  rewrite He, mids_spec.
  assert (Hml : length (map2 (fun a b => (a + b) / 2) g (tl g)) = (length g - 1)%nat).
  { rewrite map2_length. destruct g; [reflexivity|]. cbn [tl length]. lia. }
  set (m := map2 (fun a b => (a + b) / 2) g (tl g)) in *.
  assert (G0 : nth 0 g 0 = g0 /\ nth 1 g 0 = g1) by (rewrite Eg; split; reflexivity). destruct G0 as [G0 G1].
  repeat split.
  - cbn [length]. rewrite app_length, Hml. cbn [length]. lia.
  - cbn [nth]. rewrite G0, G1. reflexivity.
  - intros k Hk. destruct k as [|k]; [lia|]. cbn [nth]. rewrite app_nth1 by lia.
    unfold m. rewrite (nth_map2 _ g (tl g) 0 0 0) by (destruct g; cbn [tl length] in *; lia).
    rewrite nth_tl_R. replace (S k - 1)%nat with k by lia. reflexivity.
  - replace (length g) with (S (length m)) at 1 by lia. cbn [nth]. rewrite app_nth2 by lia. rewrite Nat.sub_diag. cbn [nth].
    reflexivity. Qed.

(* descending wavelengths: every centre lies strictly between its two edges, widths are edge differences *)
Definition descending (g : list R) : Prop := forall i j, (i < j < length g)%nat -> nth j g 0 < nth i g 0.

Theorem three_column_bracket (g : list R) (k : nat) : (2 <= length g)%nat -> descending g -> (k < length g)%nat ->
  let e := @bin_edges R RNum g in
  nth (S k) e 0 < nth k g 0 < nth k e 0 /\
  nth k (@bin_widths R RNum g) 0 = nth k e 0 - nth (S k) e 0.
Proof. intros Hn Hd Hk. cbv zeta. destruct (three_column_edges g Hn) as [Hl [E0 [Em El]]]. cbv zeta in *.
  set (e := @bin_edges R RNum g) in *. set (n := length g) in *.
  assert (Hbr : nth (S k) e 0 < nth k g 0 < nth k e 0).
  { destruct (Nat.eq_dec k 0) as [->|Hk0].
    - rewrite E0. pose proof (Hd 0%nat 1%nat ltac:(lia)) as H01.
      rewrite (Em 1%nat) by lia. cbn [Nat.sub]. lra.
    - destruct (Nat.eq_dec (S k) n) as [E|E].
      + rewrite E, El. rewrite (Em k) by lia. replace (n - 1)%nat with k by lia. replace (n - 2)%nat with (k - 1)%nat by lia.
        pose proof (Hd (k - 1)%nat k ltac:(lia)). lra.
      + rewrite (Em (S k)) by lia. rewrite (Em k) by lia. replace (S k - 1)%nat with k by lia.
        pose proof (Hd (k - 1)%nat k ltac:(lia)). pose proof (Hd k (S k) ltac:(lia)). lra. }
  split; [exact Hbr|]. unfold bin_widths. fold e.
  rewrite (nth_indep _ 0 (@nabs R RNum 0)) by (rewrite map_length, diff_length; lia).
  rewrite map_nth, nth_diff by lia. unfold nabs. rnum. destruct (Rleb 0 (nth (S k) e 0 - nth k e 0)) eqn:E.
  - apply Rleb_true in E. lra.
  - lra. Qed.

(* the sorted wavelengths of a loaded observation are descending *)
Lemma sorted_desc_nth (rows : list row) : NoDup (map wl rows) -> descending (map wl (sortd rows)).
Proof. intros Hnd. pose proof (sort_desc_sorted rows Hnd) as Hs. unfold descending. rewrite map_length.
  induction Hs as [|x m Hs IH Hx]; intros i j Hij; [simpl in Hij; lia|].
  destruct j as [|j]; [lia|]. destruct i as [|i].
  - cbn [map nth]. rewrite Forall_forall in Hx. rewrite (nth_indep _ 0 (wl drow)) by (rewrite map_length; cbn [length] in Hij; lia).
    rewrite map_nth. apply Hx. apply nth_In. cbn [length] in Hij. lia.
  - cbn [map nth]. apply IH. cbn [length] in Hij. lia. Qed.

Theorem three_column_obs (rows : list row) (k : nat) : (2 <= length rows)%nat -> NoDup (map wl rows) ->
  (k < length rows)%nat ->
  let o := ld false rows in
  let g := map wl (ob_rows o) in
  let e := @bin_edges R RNum g in
  length (ob_edges o) = S (length rows) /\
  nth k (ob_edges o) 0 = 10000 / nth k e 0 /\ nth (S k) (ob_edges o) 0 = 10000 / nth (S k) e 0 /\
  nth (S k) e 0 < nth k g 0 < nth k e 0 /\
  nth k (ob_wnw o) 0 = 10000 * (nth k e 0 - nth (S k) e 0) / (nth k g 0 * nth k g 0).
Proof. intros Hn Hnd Hk. cbv zeta. unfold load. cbn [ob_rows ob_edges ob_wnw]. unfold wl_edges, wl_widths.
  assert (Hlen : length (sortd rows) = length rows) by (symmetry; apply Permutation_length, sort_desc_perm).
  set (g := map wl (sortd rows)). assert (Hgl : length g = length rows) by (unfold g; rewrite map_length; exact Hlen).
  destruct (three_column_edges g ltac:(lia)) as [Hl _]. cbv zeta in Hl.
  destruct (three_column_bracket g k ltac:(lia) (sorted_desc_nth rows Hnd) ltac:(lia)) as [Hbr Hw]. cbv zeta in Hbr, Hw.
  set (e := @bin_edges R RNum g) in *.
  assert (D0 : forall i, (i < length e)%nat -> nth i (map (fun x : R => (c10000 / x)%num) e) 0 = 10000 / nth i e 0).
  { intros i Hi. rewrite (nth_indep _ 0 ((fun x : R => (c10000 / x)%num) 0)) by (rewrite map_length; exact Hi).
    rewrite map_nth. unfold c10000. rnum. reflexivity. }
  repeat split; try (apply Hbr).
  - rewrite map_length, Hl, Hgl. reflexivity.
  - apply D0. lia.
  - apply D0. lia.
  - rewrite (nth_map2 _ g (@bin_widths R RNum g) 0 0 0).
    + rewrite Hw. unfold conv_width, c10000. rnum. reflexivity.
    + lia.
    + unfold bin_widths. fold e. rewrite map_length, diff_length. lia. Qed.

(* ---------------- (e) TauREx HDF5 spectra come back as written ------------------ *)
Theorem taurex_round_trip (rows : list row) : Forall (fun r => wl r <> 0) rows ->
  let o := @load_taurex R RNum rows in
  exists rows', Permutation rows rows' /\
    ob_wn o = map wl rows' /\ ob_spec o = map (@o_v R) rows' /\ ob_err o = map (@o_e R) rows' /\
    ob_wnw o = map (@o_bw R) rows'.
Proof. intros Hnz. cbv zeta. unfold load_taurex, load. cbn [ob_wn ob_spec ob_err ob_wnw]. unfold wl_widths.
  set (conv := fun r : row => {| o_wl := (c10000 / o_wl r)%num; o_v := o_v r; o_e := o_e r;
                                 o_bw := conv_width (o_wl r) (o_bw r) |}).
  change (@taurex_rows R RNum rows) with (map conv rows).
  destruct (Permutation_map_inv conv _ (Permutation_sym (sort_desc_perm (map conv rows)))) as [rows' [Es Hp]].
  exists rows'. split; [exact Hp|]. rewrite Es.
  assert (Hnz' : forall r, In r rows' -> wl r <> 0).
  { intros r Hr. rewrite Forall_forall in Hnz. apply Hnz. apply (Permutation_in _ (Permutation_sym Hp)). exact Hr. }
  rewrite map2_map_both. rewrite !map_map. repeat split.
  - apply map_ext_in. intros r Hr. unfold conv, c10000. cbn [o_wl]. rnum. field. apply Hnz'. exact Hr.
  - apply map_ext_in. intros r Hr. unfold conv, conv_width, c10000. cbn [o_wl o_bw]. rnum. field. apply Hnz'. exact Hr. Qed.

(* ---------------- (f) the binner made from the observation is aligned with it ------ *)
Lemma isort_sorted_id {A} (key : A -> R) (m : list A) :
  StronglySorted (klt key) m -> @isort_by R RNum A key m = m.
Proof. intros Hs. symmetry. apply (sorted_perm_unique key).
  - apply (sorted_weaken (klt key)); [|exact Hs]. intros a b _ _ H. unfold klt, kle in *. lra.
  - apply isort_sorted.
  - clear - Hs. induction Hs as [|x m Hs IH Hx]; [constructor|]. cbn [map]. constructor; [|exact IH].
    intros Hin. apply in_map_iff in Hin. destruct Hin as [y [Ey Hy]]. rewrite Forall_forall in Hx.
    specialize (Hx y Hy). unfold klt in Hx. lra.
  - apply isort_perm. Qed.

Theorem binner_aligned (four : bool) (rows : list row) :
  NoDup (map wl rows) -> Forall (fun r => 0 < wl r) rows ->
  let o := ld four rows in
  length (ob_wnw o) = length (ob_wn o) ->
  map (@t_wn R) (@binner_targets R RNum o) = ob_wn o /\ map (@t_w R) (@binner_targets R RNum o) = ob_wnw o.
Proof. intros Hnd Hpos. cbv zeta. intros Hlen. pose proof (wavenumbers_ascending four rows Hnd Hpos) as Hs.
  set (o := ld four rows) in *. unfold binner_targets, target_grid.
  set (tg := map2 (fun c w => {| t_wn := c; t_w := w |}) (ob_wn o) (ob_wnw o)).
  assert (E1 : map (@t_wn R) tg = ob_wn o /\ map (@t_w R) tg = ob_wnw o).
  { unfold tg. clear - Hlen. revert Hlen. generalize (ob_wnw o). induction (ob_wn o) as [|c cs IH]; intros ws Hl.
    - destruct ws; [split; reflexivity|simpl in Hl; lia].
    - destruct ws as [|w ws]; [simpl in Hl; lia|]. cbn [map2 map t_wn t_w]. destruct (IH ws) as [A B]; [simpl in Hl; lia|].
      rewrite A, B. split; reflexivity. }
  rewrite isort_sorted_id; [exact E1|].
  destruct E1 as [E1 _]. rewrite <- E1 in Hs. clear - Hs. induction tg as [|t tg IH]; [constructor|].
  cbn [map] in Hs. inversion Hs as [|? ? Hs' Hx]; subst. constructor; [apply IH; exact Hs'|].
  rewrite Forall_forall in *. intros y Hy. unfold klt. apply Hx. apply in_map. exact Hy. Qed.
