(* Exec_C07.v — executable wrappers for the C07 correspondence check. *)
From Coq Require Import ZArith QArith Qreduction List.
From TV Require Import Model_C07.
Import ListNotations.

Definition qz (q : Q) : list Z := let r := Qred q in [Qnum r; Zpos (Qden r)].
Definition enc_val (v : val) : list Z := match v with Raw q => 0%Z :: qz q | P10 q => 1%Z :: qz q end.
Definition enc_vv (v : vv) : list Z :=
  match v with VRaw q => 0%Z :: qz q | VP10 q => 1%Z :: qz q | VLg q => 2%Z :: qz q end.
Definition enc_space (s : space) : Z := match s with Linear => 0%Z | Log => 1%Z end.
Definition enc_res (r : result) : Z := match r with Ok => 0%Z | KeyErr => 1%Z | ValueErr => 2%Z end.

(* one record per operation:
   [ [rc]; names (id, logflag)* ; values ; boundaries (space, lo, hi) ; priors (space, tag, lo, hi) ;
     derived ids ; all parameter values in table order ] *)
Definition snapshot (s : state) (r : result) : list (list Z) :=
  [ [enc_res r];
    concat (map (fun nb : nat * bool => [Z.of_nat (fst nb); if snd nb then 1%Z else 0%Z]) (fit_names s));
    concat (map enc_vv (fit_values s));
    concat (map (fun b : space * Q * Q => let '(sp, lo, hi) := b in enc_space sp :: qz lo ++ qz hi) (fit_boundaries s));
    concat (map (fun p : prior => enc_space (pr_space p) :: Z.of_nat (pr_tag p) :: qz (pr_lo p) ++ qz (pr_hi p)) (fitting_priors s));
    map Z.of_nat (derived_names s);
    concat (map (fun p : param => enc_val (p_val p)) (params s)) ].

Fixpoint run_history (s : state) (ops : list op) : list (list (list Z)) :=
  match ops with
  | [] => []
  | o :: r => let '(s', rc) := step s o in snapshot s' rc :: run_history s' r
  end.

Definition mkp (n : nat) (obs log fit : bool) (lo hi v : Q) : param :=
  {| p_name := n; p_owner := if obs then OObs else OModel; p_log := log; p_fit := fit;
     p_lo := lo; p_hi := hi; p_val := Raw v |}.
Definition mkd (n : nat) (obs comp : bool) : dparam :=
  {| d_name := n; d_owner := if obs then OObs else OModel; d_compute := comp |}.
Definition mkstate (ps : list param) (ds : list dparam) : state :=
  {| params := ps; derived := ds; user_priors := []; compiled := []; cderived := [] |}.
Definition mkprior (log : bool) (tag : nat) (lo hi : Q) : prior :=
  {| pr_space := if log then Log else Linear; pr_tag := tag; pr_lo := lo; pr_hi := hi |}.
