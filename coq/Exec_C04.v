(* Exec_C04.v — executable wrappers for the C04 correspondence check. *)
From Coq Require Import ZArith QArith List.
From TV Require Import Num NumIv ListNum Model_C04.
Import ListNotations.

(* table as nested lists [p][t][entry] *)
Definition tabq (tb : list (list (list Q))) (k p t : nat) : Q := nth k (nth t (nth p tb []) []) 0%Q.
Definition run_lin (Tg Pg : list Q) (tb : list (list (list Q))) (nw : nat) (Tv P : Q) : list (list Z) :=
  map (fun k => Qout (@opacity_linear Q QNum Tg Pg (tabq tb k) Tv P)) (seq 0 nw).

Definition tabi (tb : list (list (list I.type))) (k p t : nat) : I.type :=
  nth k (nth t (nth p tb []) []) (@n0 _ IvNum).
Definition run_exp (Tg Pg : list I.type) (tb : list (list (list I.type))) (nw : nat) (Tv P : I.type)
  : list (list Z) :=
  map (fun k => Iout (@opacity_exp I.type IvTNum Tg Pg (tabi tb k) Tv P)) (seq 0 nw).
