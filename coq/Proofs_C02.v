(* Proofs_C02.v — the layered thermal-emission integral at the real-number instance. *)
From Coq Require Import ZArith Reals List Bool Arith Lia Lra.
From TV Require Import Num ListNum ListAux ListNumR Model_C01 Proofs_C01 Model_C02.
Import ListNotations.
Local Open Scope R_scope.

Notation abv := (@above R RNum).
Notation upt := (@upto R RNum).

(* ---------------- optical depths above a layer ------------------------- *)
Lemma above_last (d : list R) (l : nat) : (length d <= S l)%nat -> abv d l = 0.
Proof. intros H. unfold above. rewrite skipn_all2 by exact H. reflexivity. Qed.

Lemma skipn_cons_nth (d : list R) (l : nat) : (l < length d)%nat ->
  skipn l d = nth l d 0 :: skipn (S l) d.
Proof. revert l. induction d as [|x d IH]; intros l Hl; simpl in Hl; [lia|].
  destruct l as [|l]; [reflexivity|]. cbn [skipn nth]. apply IH. lia. Qed.

(* dtau of layer l is layer_tau of the layer below: upto d (S l) = above d l *)
Lemma upto_S (d : list R) (l : nat) : (S l < length d)%nat -> upt d (S l) = abv d l.
Proof. intros H. unfold upto, above, nth_d. rewrite (skipn_cons_nth d (S l) H). rewrite Rsum_cons. rnum. lra. Qed.

Lemma upto_0 (d : list R) : (0 < length d)%nat -> upt d 0 = Rsum d.
Proof. intros H. unfold upto, above, nth_d. destruct d as [|x d]; [simpl in H; lia|].
  cbn [skipn nth]. rewrite Rsum_cons. rnum. lra. Qed.

Lemma above_nonneg (d : list R) (l : nat) : nonneg_list d -> 0 <= abv d l.
Proof. intros H. unfold above. apply Rsum_nonneg. unfold nonneg_list in H. rewrite Forall_forall in *.
  intros x Hx. apply H. revert Hx. generalize (S l). intros k. revert d H.
  induction k as [|k IH]; intros d H Hx; [exact Hx|]. destruct d as [|y d]; [destruct Hx|].
  right. apply (IH d); [intros z Hz; apply H; right; exact Hz|exact Hx]. Qed.

(* ---------------- telescoping of the un-clamped sum ---------------------- *)
(* sum_l f(above l) - f(upto l) = f(0) - f(total) for any f *)
Lemma telescope (f : R -> R) (d : list R) : (0 < length d)%nat ->
  Rsum (map (fun l => f (abv d l) - f (upt d l)) (seq 0 (length d))) = f 0 - f (Rsum d).
Proof. intros Hn.
  assert (H : forall k, (k <= length d)%nat -> (0 < k)%nat ->
            Rsum (map (fun l => f (abv d l) - f (upt d l)) (seq 0 k)) = f (abv d (k - 1)) - f (Rsum d)).
  { induction k as [|k IH]; intros Hk H0; [lia|].
    destruct (Nat.eq_dec k 0) as [->|Hk0].
    - cbn [seq map]. rewrite Rsum_cons, Rsum_nil. rewrite upto_0 by exact Hn. cbn [Nat.sub]. lra.
    - rewrite seq_S, map_app, Rsum_app, IH by lia. cbn [plus map]. rewrite Rsum_cons, Rsum_nil.
      replace (S k - 1)%nat with k by lia.
      replace k with (S (k - 1)) at 3 by lia. rewrite upto_S by lia. lra. }
  rewrite H by lia. rewrite above_last by lia. reflexivity. Qed.

(* ---------------- (a) an isothermal atmosphere radiates as a black body --------- *)
Definition no_clamp (flags : list bool) : Prop := Forall (fun b => b = false) flags.

Lemma nth_no_clamp flags l : no_clamp flags -> nth l flags false = false.
Proof. intros H. destruct (nth_in_or_default l flags false) as [Hin|Hd]; [|exact Hd].
  unfold no_clamp in H. rewrite Forall_forall in H. apply H. exact Hin. Qed.

Theorem isothermal_intensity (B0 : R) (B d : list R) (cA cD : list bool) (m : R) :
  (0 < length d)%nat -> (forall l, @nth_d R RNum B l = B0) -> no_clamp cA -> no_clamp cD ->
  @intensity R RTNum B d cA cD m = B0.
Proof. intros Hn HB HA HD. unfold intensity. rnum.
  rewrite HB.
  rewrite (Rsum_map_ext _ (fun l => B0 * (exp (- (abv d l * m)) - exp (- (upt d l * m))))).
  2:{ intros l _. rewrite HB, !nth_no_clamp by assumption. unfold att. rnum. reflexivity. }
  rewrite Rsum_map_scale.
  rewrite (telescope (fun t => exp (- (t * m))) d Hn).
  rewrite Rmult_0_l, Ropp_0, exp_0. ring. Qed.

(* with Gauss-Legendre weights on [0,1] (sum w_i mu_i = 1/2) the flux is pi * (B/pi) = B *)
Theorem isothermal_flux (B0 : R) (Is : list (list R)) (mus wts : list R) (w : nat) :
  length Is = length mus -> length wts = length mus ->
  (forall Ii, In Ii Is -> @nth_d R RNum Ii w = B0) -> Forall (fun mu => mu <> 0) mus ->
  Rsum (map (fun p : R * R => fst p * snd p) (combine mus wts)) = 1 / 2 ->
  @flux R RTNum Is mus wts w = PI * B0.
Proof. intros HlI Hlw HI Hmu Hq. unfold flux. rnum.
  assert (Hs : Rsum (map2 (fun (Ii : list R) (mw : R * R) => @nth_d R RNum Ii w * (snd mw / (1 / fst mw)))
                          Is (combine mus wts))
               = B0 * Rsum (map (fun p : R * R => fst p * snd p) (combine mus wts))).
  { clear Hq. revert Is wts HlI Hlw HI. induction mus as [|mu mus IH]; intros [|Ii Is] [|wt wts] HlI Hlw HI;
      simpl in HlI, Hlw; try discriminate.
    - cbn [combine map2 map]. rewrite !Rsum_nil. ring.
    - cbn [combine map2 map]. rewrite !Rsum_cons. inversion Hmu; subst.
      rewrite (IH ltac:(assumption) Is wts) by (try lia; intros; apply HI; right; assumption).
      rewrite (HI Ii) by (left; reflexivity). cbn [fst snd]. field. assumption. }
  rewrite Hs, Hq. field. Qed.

(* eclipse depth of an isothermal atmosphere: B(T) / B(Tstar) * (Rp/Rs)^2, independent of the opacity *)
Theorem isothermal_eclipse (B Bstar Rp Rs : R) : Bstar <> 0 -> Rs <> 0 ->
  @eclipse R RTNum (PI * (B / PI)) Bstar Rp Rs = B / Bstar * (Rp / Rs) ^ 2.
Proof. intros HB HR. unfold eclipse. rnum. field. repeat split; try assumption. apply PI_neq0. Qed.

(* ---------------- (c) the Planck function increases with temperature -------- *)
Theorem planck_increasing (h c k wn T1 T2 : R) :
  0 < h -> 0 < c -> 0 < k -> 0 < wn -> 0 < T1 < T2 ->
  @planck R RTNum h c k wn T1 < @planck R RTNum h c k wn T2.
Proof. intros Hh Hc Hk Hwn [HT1 HT12]. unfold planck, micro. rnum.
  set (wl := 10000 * (1 / 1000000) / wn).
  assert (Hwl : 0 < wl) by (unfold wl; apply Rdiv_lt_0_compat; lra).
  clearbody wl.
  set (A := PI * (2 * h * (c * c)) / (wl * wl * wl * wl * wl)).
  assert (HA : 0 < A).
  { unfold A. apply Rdiv_lt_0_compat.
    - apply Rmult_lt_0_compat; [apply PI_RGT_0|]. repeat apply Rmult_lt_0_compat; lra.
    - repeat apply Rmult_lt_0_compat; lra. }
  clearbody A.
  assert (Hwk : 0 < wl * k) by (apply Rmult_lt_0_compat; assumption).
  assert (Hhc : 0 < h * c) by (apply Rmult_lt_0_compat; assumption).
  assert (Hx : forall t, 0 < t -> 0 < h * c / (wl * k * t)).
  { intros t Ht. apply Rdiv_lt_0_compat; [lra|apply Rmult_lt_0_compat; lra]. }
  assert (Hlt : h * c / (wl * k * T2) < h * c / (wl * k * T1)).
  { unfold Rdiv. apply Rmult_lt_compat_l; [exact Hhc|].
    apply Rinv_lt_contravar; [|apply Rmult_lt_compat_l; [exact Hwk|lra]].
    apply Rmult_lt_0_compat; apply Rmult_lt_0_compat; lra. }
  assert (He2 : 0 < exp (h * c / (wl * k * T2)) - 1).
  { pose proof (exp_ineq1 (h * c / (wl * k * T2))) as H. specialize (Hx T2 ltac:(lra)). lra. }
  assert (He12 : exp (h * c / (wl * k * T2)) - 1 < exp (h * c / (wl * k * T1)) - 1).
  { pose proof (exp_increasing _ _ Hlt). lra. }
  assert (Hinv : 1 / (exp (h * c / (wl * k * T1)) - 1) < 1 / (exp (h * c / (wl * k * T2)) - 1)).
  { unfold Rdiv. rewrite !Rmult_1_l. apply Rinv_lt_contravar; [|exact He12]. apply Rmult_lt_0_compat; lra. }
  assert (0 < 1 / 1000000) by lra. nra. Qed.

(* ---------------- (b) bounded by the coldest and hottest layer ------------- *)
Section Bounds.
  Context (B d : list R) (cA cD : list bool) (m : R) (Bmin Bmax : R).
  Context (Hn : (0 < length d)%nat) (Hd : nonneg_list d) (Hm : 1 <= m).
  Context (HB : forall l, (l < length d)%nat -> Bmin <= @nth_d R RNum B l <= Bmax) (HBmin : 0 <= Bmin).
  (* structure of the clamp flags: they are functions of the optical depth they guard *)
  Context (Hsame : forall l, (S l < length d)%nat -> nth l cA false = nth (S l) cD false).
  Context (HlastA : nth (length d - 1) cA false = false).
  Context (HA10 : forall l, nth l cA false = true -> 10 <= abv d l).
  Context (HD10 : forall l, nth l cD false = true -> 10 <= upt d l).
  Context (Hmono : forall l, nth l cA false = true -> nth l cD false = true).

  Let n := length d.
  Let E (t : R) := exp (- (t * m)).
  (* g j : the (clamped) attenuation down to level j; level 0 is the surface, level n the top *)
  Let g (j : nat) : R := if (j <? n)%nat then @att R RTNum (nth j cD false) (upt d j) m
                         else @att R RTNum (nth (n - 1) cA false) (abv d (n - 1)) m.

  Lemma attA_is_g l : (l < n)%nat -> @att R RTNum (nth l cA false) (abv d l) m = g (S l).
  Proof. intros Hl. unfold g. destruct (S l <? n)%nat eqn:E1.
    - apply Nat.ltb_lt in E1. rewrite (Hsame l E1), upto_S by exact E1. reflexivity.
    - apply Nat.ltb_ge in E1. replace (n - 1)%nat with l by lia. reflexivity. Qed.
  Lemma attD_is_g l : (l < n)%nat -> @att R RTNum (nth l cD false) (upt d l) m = g l.
  Proof. intros Hl. unfold g. apply Nat.ltb_lt in Hl. rewrite Hl. reflexivity. Qed.

  Lemma upto_ge_above l : abv d l <= upt d l.
  Proof. unfold upto. pose proof (nth_d_nonneg d l Hd). rnum. lra. Qed.

  Lemma g_mono l : (l < n)%nat -> g l <= g (S l).
  Proof. intros Hl. rewrite <- attA_is_g, <- attD_is_g by exact Hl. unfold att. rnum.
    destruct (nth l cA false) eqn:EA; destruct (nth l cD false) eqn:ED.
    - lra.
    - rewrite (Hmono l EA) in ED. discriminate.
    - left. apply exp_pos.
    - pose proof (upto_ge_above l). pose proof (above_nonneg d l Hd).
      destruct (Req_dec (abv d l) (upt d l)) as [->|Hne]; [lra|]. left. apply exp_increasing. nra. Qed.

  Lemma g_top : g n = 1.
  Proof. unfold g. rewrite Nat.ltb_irrefl. fold n in HlastA. rewrite HlastA. unfold att. rnum.
    rewrite above_last by (fold n; lia). rewrite Rmult_0_l, Ropp_0. apply exp_0. Qed.

  Lemma sum_weights_telescope k : (k <= n)%nat ->
    Rsum (map (fun l => g (S l) - g l) (seq 0 k)) = g k - g 0.
  Proof. induction k as [|k IH]; intros Hk; [cbn [seq map]; rewrite Rsum_nil; lra|].
    rewrite seq_S, map_app, Rsum_app, IH by lia. cbn [plus map]. rewrite Rsum_cons, Rsum_nil. lra. Qed.

  (* surface attenuation vs its clamped version *)
  Lemma g0_bounds : 0 <= E (Rsum d) - g 0 <= exp (-10).
  Proof. unfold g. assert (Hlt : (0 <? n)%nat = true) by (apply Nat.ltb_lt; exact Hn). rewrite Hlt.
    unfold att, E. rnum. rewrite upto_0 by exact Hn.
    destruct (nth 0 cD false) eqn:E0.
    - pose proof (HD10 0%nat E0) as H10. rewrite upto_0 in H10 by exact Hn.
      pose proof (exp_pos (- (Rsum d * m))).
      assert (exp (- (Rsum d * m)) <= exp (-10)).
      { assert (Hge : 10 <= Rsum d * m) by nra.
        destruct Hge as [Hlt10|Heq10]; [left; apply exp_increasing; lra|right; f_equal; lra]. }
      lra.
    - pose proof (exp_pos (-10)). lra. Qed.

  Theorem hot_cold_bounds :
    Bmin <= @intensity R RTNum B d cA cD m <= Bmax * (1 + exp (-10)).
  Proof. unfold intensity. rnum. fold n.
    rewrite (Rsum_map_ext _ (fun l => @nth_d R RNum B l * (g (S l) - g l))).
    2:{ intros l Hl. apply in_seq in Hl. rewrite attA_is_g, attD_is_g by lia. reflexivity. }
    pose proof g0_bounds as [Hg0a Hg0b]. unfold E in *.
    set (S0 := exp (- (Rsum d * m))) in *.
    assert (HS0 : 0 < S0) by apply exp_pos.
    pose proof (HB 0%nat Hn) as HB0.
    assert (Hw : forall l, (l < n)%nat -> 0 <= g (S l) - g l) by (intros l Hl; pose proof (g_mono l Hl); lra).
    assert (Hlo : Bmin * (g n - g 0) <= Rsum (map (fun l => @nth_d R RNum B l * (g (S l) - g l)) (seq 0 n))).
    { rewrite <- (sum_weights_telescope n (le_n n)). rewrite <- Rsum_map_scale. apply Rsum_map_le.
      intros l Hl. apply in_seq in Hl. specialize (Hw l ltac:(lia)). pose proof (HB l ltac:(fold n; lia)). nra. }
    assert (Hhi : Rsum (map (fun l => @nth_d R RNum B l * (g (S l) - g l)) (seq 0 n)) <= Bmax * (g n - g 0)).
    { rewrite <- (sum_weights_telescope n (le_n n)). rewrite <- Rsum_map_scale. apply Rsum_map_le.
      intros l Hl. apply in_seq in Hl. specialize (Hw l ltac:(lia)). pose proof (HB l ltac:(fold n; lia)). nra. }
    rewrite g_top in *.
    assert (0 <= Bmax) by lra.
    assert (Hg0 : 0 <= g 0).
    { unfold g. assert (Hlt : (0 <? n)%nat = true) by (apply Nat.ltb_lt; exact Hn). rewrite Hlt.
      unfold att. rnum. destruct (nth 0 cD false); [lra|left; apply exp_pos]. }
    split; nra. Qed.
End Bounds.
