(* Exec_C12.v — executable wrappers for the C12 correspondence check. *)
From Coq Require Import ZArith QArith List.
From TV Require Import Num NumIv ListNum Model_C12.
Import ListNotations.

(* [] = InvalidTemperatureException *)
Definition run_npoint (nl : nat) (lp lpn tn : list Q) (wsize0 : nat) (limit : Q) : list (list Z) :=
  match @npoint Q QNum nl lp lpn tn wsize0 limit with None => [] | Some p => map Qout p end.
Definition run_rodgers (cov : list (list Q)) (tl : list Q) : list (list Z) := map Qout (@rodgers Q QNum cov tl).
Definition run_temp_array (nl : nat) (arr : list Q) : list (list Z) := map Qout (@temp_array Q QNum nl arr).

(* per layer: (P, E2(g1 tau), E2(g2 tau)) *)
Definition run_guillot (kir kv1 kv2 alpha Tirr Tint grav : I.type) (rows : list (I.type * I.type * I.type))
  : list (list Z) :=
  map (fun r => let '(P, e1, e2) := r in
                Iout (@guillot_T I.type IvTNum kir kv1 kv2 alpha Tirr Tint grav P e1 e2)) rows.
