(* Proofs_C15.v — an input file builds exactly the documented object graph: the decision logic. *)
From Coq Require Import String List Bool Ascii Arith Permutation Lia.
From TV Require Import Model_C15.
Import ListNotations.
Local Open Scope string_scope.
Local Open Scope list_scope.

(* ---------------- (a) selector -> class ---------------------------------------- *)
Lemma resolve_claims (reg : list klass) (kw : string) (k : klass) :
  resolve reg kw = Some k -> In k reg /\ claims kw k = true.
Proof. unfold resolve. intros H. apply find_some in H. exact H. Qed.

Lemma resolve_none (reg : list klass) (kw : string) :
  resolve reg kw = None <-> (forall k, In k reg -> claims kw k = false).
Proof. unfold resolve. split.
  - intros H k Hk. exact (find_none _ _ H k Hk).
  - intros H. induction reg as [|k r IH]; [reflexivity|]. cbn [find]. rewrite (H k (or_introl eq_refl)).
    apply IH. intros k' Hk'. apply H. right. exact Hk'. Qed.

Lemma claims_spec (kw : string) (k : klass) :
  claims kw k = true <-> exists l, k_kws k = Some l /\ In kw l.
Proof. unfold claims, mem. destruct (k_kws k) as [l|].
  - rewrite existsb_exists. split.
    + intros [x [Hx E]]. apply String.eqb_eq in E. subst x. exists l. split; [reflexivity|exact Hx].
    + intros [l' [E Hin]]. inversion E; subst l'. exists kw. split; [exact Hin|apply String.eqb_refl].
  - split; [discriminate|]. intros [l [E _]]. discriminate. Qed.

(* with pairwise disjoint keyword sets a claimed keyword resolves to its claimant, wherever it stands *)
Lemma disjoint_head (k : klass) (r : list klass) (kw : string) (k' : klass) :
  disjoint (k :: r) = true -> claims kw k = true -> In k' r -> claims kw k' = false.
Proof. cbn [disjoint]. intros H Hc Hin. apply andb_true_iff in H. destruct H as [H _].
  rewrite forallb_forall in H. specialize (H k' Hin).
  apply claims_spec in Hc. destruct Hc as [l [El Hkw]]. rewrite El in H. rewrite forallb_forall in H.
  specialize (H kw Hkw). apply negb_true_iff in H. exact H. Qed.

Theorem disjoint_resolves_claimant (reg : list klass) (kw : string) (k : klass) :
  disjoint reg = true -> In k reg -> claims kw k = true -> resolve reg kw = Some k.
Proof. induction reg as [|k0 r IH]; intros Hd Hin Hc; [destruct Hin|]. unfold resolve. cbn [find].
  destruct Hin as [->|Hin].
  - rewrite Hc. reflexivity.
  - destruct (claims kw k0) eqn:E0.
    + rewrite (disjoint_head k0 r kw k Hd E0 Hin) in Hc. discriminate.
    + apply IH; [|exact Hin|exact Hc]. cbn [disjoint] in Hd. apply andb_true_iff in Hd. apply Hd. Qed.

(* exactly one class : any two claimants of a keyword in a disjoint registry are the same class *)
Theorem disjoint_unique (reg : list klass) (kw : string) (k k' : klass) :
  disjoint reg = true -> In k reg -> In k' reg -> claims kw k = true -> claims kw k' = true -> k = k'.
Proof. intros Hd Hk Hk' Hc Hc'.
  pose proof (disjoint_resolves_claimant reg kw k Hd Hk Hc) as E1.
  pose proof (disjoint_resolves_claimant reg kw k' Hd Hk' Hc') as E2. congruence. Qed.

(* the registries are Python sets: the iteration order does not matter *)
Theorem resolve_order_independent (reg reg' : list klass) (kw : string) :
  disjoint reg = true -> Permutation reg reg' -> resolve reg kw = resolve reg' kw.
Proof. intros Hd Hp. destruct (resolve reg' kw) as [k'|] eqn:E'.
  - apply resolve_claims in E'. destruct E' as [Hin Hc].
    apply disjoint_resolves_claimant; [exact Hd| |exact Hc]. apply (Permutation_in _ (Permutation_sym Hp)). exact Hin.
  - apply resolve_none. intros k Hk. rewrite resolve_none in E'. apply E'. apply (Permutation_in _ Hp). exact Hk. Qed.

(* ---------------- (b) values are typed --------------------------------------- *)
Theorem transform_list (l : list (string * bool)) :
  (forallb snd l = true -> transform (SList l) = TListNum (map fst l)) /\
  (forallb snd l = false -> transform (SList l) = TListStr (map fst l)).
Proof. unfold transform. split; intros ->; reflexivity. Qed.

Theorem transform_bool (s : string) (isnum : bool) :
  (mem (lower s) truthy = true -> transform (SStr s isnum) = TBool true) /\
  (mem (lower s) truthy = false -> mem (lower s) falsy = true -> transform (SStr s isnum) = TBool false).
Proof. unfold transform. split.
  - intros ->. reflexivity.
  - intros -> ->. reflexivity. Qed.

Theorem transform_other (s : string) (isnum : bool) :
  mem (lower s) truthy = false -> mem (lower s) falsy = false ->
  transform (SStr s isnum) = if isnum then TNum s else TStr s.
Proof. unfold transform. intros -> ->. reflexivity. Qed.

Lemma truthy_falsy_disjoint : forallb (fun w => negb (mem w falsy)) truthy = true.
Proof. reflexivity. Qed.

(* ---------------- (c) keys reach the constructor ------------------------------- *)
Lemma lookup_In {A} (k : string) (l : list (string * A)) : In k (map fst l) <-> exists v, lookup k l = Some v.
Proof. induction l as [|[k' v'] r IH]; cbn [map fst lookup In].
  - split; [intros []|intros [v H]; discriminate].
  - destruct (String.eqb_spec k k') as [->|Hne].
    + split; [intros _; exists v'; reflexivity|intros _; left; reflexivity].
    + rewrite IH. split; [intros [E|H]; [congruence|exact H]|intros H; right; exact H]. Qed.

Lemma mem_In (s : string) (l : list string) : mem s l = true <-> In s l.
Proof. unfold mem. rewrite existsb_exists. split.
  - intros [x [Hx E]]. apply String.eqb_eq in E. subst. exact Hx.
  - intros H. exists s. split; [exact H|apply String.eqb_refl]. Qed.

Lemma lookup_apply_args (d : list (string * string)) (cfg : list (string * tval)) (k : string) :
  lookup k (apply_args d cfg) =
  match lookup k d with
  | Some dv => Some (match lookup k cfg with Some v => v | None => TDef dv end)
  | None => None end.
Proof. unfold apply_args. induction d as [|[k' dv] r IH]; [reflexivity|]. cbn [map fst snd lookup].
  destruct (String.eqb_spec k k') as [->|Hne]; [reflexivity|exact IH]. Qed.

Lemma apply_args_keys (d : list (string * string)) (cfg : list (string * tval)) :
  map fst (apply_args d cfg) = map fst d.
Proof. unfold apply_args. rewrite map_map. reflexivity. Qed.

(* strict creation: exactly the constructor's keyword parameters, the given value where one is given, the default
   otherwise; and any key the constructor does not have is an error *)
Theorem create_strict_ok (c : choice) (cfg : list (string * tval)) names args :
  create_strict c cfg = Ok (names, args) ->
  names = names_of c /\ map fst args = map fst (kwargs_of c) /\
  (forall k v, lookup k cfg = Some v -> lookup k args = Some v) /\
  (forall k dv, lookup k cfg = None -> lookup k (kwargs_of c) = Some dv -> lookup k args = Some (TDef dv)).
Proof. unfold create_strict. destruct (forallb _ cfg) eqn:E; [|discriminate].
  destruct (missing_required c); [discriminate|]. intros H. inversion H; subst. clear H.
  rewrite forallb_forall in E. repeat split.
  - apply apply_args_keys.
  - intros k v Hk. rewrite lookup_apply_args, Hk.
    assert (Hin : In k (map fst cfg)) by (apply lookup_In; exists v; exact Hk).
    apply in_map_iff in Hin. destruct Hin as [[k' v'] [Ek Hin]]. cbn [fst] in Ek. subst k'.
    specialize (E _ Hin). cbn [fst] in E. apply mem_In, lookup_In in E. destruct E as [dv ->]. reflexivity.
  - intros k dv Hk Hd. rewrite lookup_apply_args, Hd, Hk. reflexivity. Qed.

Theorem create_strict_unknown_key (c : choice) (cfg : list (string * tval)) :
  (exists k, In k (map fst cfg) /\ ~ In k (map fst (kwargs_of c))) <-> create_strict c cfg = Err EKey.
Proof. unfold create_strict. destruct (forallb _ cfg) eqn:E.
  - split; [|destruct (missing_required c); discriminate]. intros [k [Hk Hn]]. exfalso. rewrite forallb_forall in E.
    apply in_map_iff in Hk. destruct Hk as [kv [<- Hin]]. apply Hn. apply mem_In. apply E. exact Hin.
  - split; [reflexivity|]. intros _.
    assert (H : exists kv, In kv cfg /\ mem (fst kv) (map fst (kwargs_of c)) = false).
    { clear - E. induction cfg as [|kv r IH]; [discriminate|]. cbn [forallb] in E. apply andb_false_iff in E.
      destruct E as [E|E]; [exists kv; split; [left; reflexivity|exact E]|].
      destruct (IH E) as [x [Hx Hm]]. exists x. split; [right; exact Hx|exact Hm]. }
    destruct H as [kv [Hin Hm]]. exists (fst kv). split; [apply in_map; exact Hin|].
    intros Hc. apply mem_In in Hc. congruence. Qed.

(* loose creation (Python's own argument binding): an unknown name is a TypeError unless the class takes **kwargs *)
Theorem create_loose_unknown_key (k : klass) (cfg : list (string * tval)) :
  k_varkw k = false -> (exists key, In key (map fst cfg) /\ ~ In key (k_params k)) ->
  create_loose (Plain k) cfg = Err EType.
Proof. intros Hv [key [Hk Hn]]. unfold create_loose. rewrite Hv. cbn [orb].
  assert (E : forallb (fun kv : string * tval => mem (fst kv) (k_params k)) cfg = false).
  { apply in_map_iff in Hk. destruct Hk as [kv [<- Hin]]. clear - Hin Hn.
    induction cfg as [|x r IH]; [destruct Hin|]. cbn [forallb]. destruct Hin as [->|Hin].
    - destruct (mem (fst kv) (k_params k)) eqn:E; [apply mem_In in E; contradiction|reflexivity].
    - rewrite (IH Hin). apply andb_false_r. }
  rewrite E. reflexivity. Qed.

Theorem create_loose_ok (k : klass) (cfg : list (string * tval)) names args :
  create_loose (Plain k) cfg = Ok (names, args) ->
  names = [k_name k] /\
  (forall key v, lookup key cfg = Some v -> lookup key args = Some v) /\
  (forall key dv, lookup key cfg = None -> lookup key (k_defaults k) = Some dv -> lookup key args = Some (TDef dv)) /\
  (k_varkw k = false -> forall key, In key (map fst cfg) -> In key (k_params k)).
Proof. unfold create_loose. destruct (_ && _) eqn:E; [|discriminate]. intros H. inversion H; subst. clear H.
  apply andb_true_iff in E. destruct E as [E1 E2]. repeat split.
  - intros key v Hk.
    assert (La : forall (a b : list (string * tval)), lookup key (a ++ b) =
                   match lookup key a with Some x => Some x | None => lookup key b end).
    { intros a b. induction a as [|[k' v'] r IH]; [reflexivity|]. cbn [app lookup].
      destruct (String.eqb key k'); [reflexivity|exact IH]. }
    rewrite La, lookup_apply_args, Hk. destruct (lookup key (k_defaults k)) as [dv|] eqn:Ed; [reflexivity|].
    clear - Hk Ed. induction cfg as [|[k' v'] r IH]; [discriminate|]. cbn [filter fst lookup] in *.
    destruct (String.eqb_spec key k') as [->|Hne].
    + assert (Hm : mem k' (map fst (k_defaults k)) = false).
      { destruct (mem k' (map fst (k_defaults k))) eqn:Em; [|reflexivity]. apply mem_In, lookup_In in Em.
        destruct Em as [x Ex]. congruence. }
      rewrite Hm. cbn [negb lookup]. rewrite String.eqb_refl. exact Hk.
    + destruct (negb _); [cbn [lookup]; destruct (String.eqb_spec key k'); [contradiction|]|]; apply IH; exact Hk.
  - intros key dv Hk Hd.
    assert (La : forall (a b : list (string * tval)), lookup key (a ++ b) =
                   match lookup key a with Some x => Some x | None => lookup key b end).
    { intros a b. induction a as [|[k' v'] r IH]; [reflexivity|]. cbn [app lookup].
      destruct (String.eqb key k'); [reflexivity|exact IH]. }
    rewrite La, lookup_apply_args, Hd, Hk. reflexivity.
  - intros Hv key Hkey. rewrite Hv in E1. cbn [orb] in E1. rewrite forallb_forall in E1.
    apply in_map_iff in Hkey. destruct Hkey as [kv [<- Hin]]. apply mem_In. apply E1. exact Hin. Qed.

(* ---------------- (d) the selector field ---------------------------------------- *)
Lemma lookup_remove_key {A} (k k' : string) (l : list (string * A)) :
  lookup k (remove_key k' l) = if String.eqb k k' then None else lookup k l.
Proof. unfold remove_key. induction l as [|[a v] r IH]; cbn [filter fst lookup].
  - destruct (String.eqb k k'); reflexivity.
  - destruct (String.eqb_spec k' a) as [Ea|Hne]; cbn [negb].
    + subst a. rewrite IH. destruct (String.eqb_spec k k'); reflexivity.
    + cbn [lookup]. rewrite IH. destruct (String.eqb_spec k a) as [Eb|Hka]; [|reflexivity].
      subst a. destruct (String.eqb_spec k k'); [congruence|reflexivity]. Qed.

Theorem determine_missing_field reg mixreg custom field cfg :
  lookup field cfg = None -> determine reg mixreg custom field cfg = Err EKey.
Proof. unfold determine. intros ->. reflexivity. Qed.

(* an unknown (single) selector is an error *)
Theorem determine_unknown_selector reg mixreg custom field cfg sel :
  lookup field cfg = Some (TStr sel) -> lower sel <> "custom" -> split_plus (lower sel) = [lower sel] ->
  resolve reg (lower sel) = None -> determine reg mixreg custom field cfg = Err ENotImpl.
Proof. unfold determine. intros -> Hc Hs Hr. destruct (String.eqb_spec (lower sel) "custom"); [contradiction|].
  rewrite Hs. cbn [rev app]. rewrite Hr. reflexivity. Qed.

(* a plain selector picks the class that claims it, and the selector itself does not reach the constructor *)
Theorem determine_plain reg mixreg custom field cfg sel k :
  lookup field cfg = Some (TStr sel) -> lower sel <> "custom" -> split_plus (lower sel) = [lower sel] ->
  resolve reg (lower sel) = Some k ->
  determine reg mixreg custom field cfg = Ok (remove_key field cfg, Plain k).
Proof. unfold determine. intros -> Hc Hs Hr. destruct (String.eqb_spec (lower sel) "custom"); [contradiction|].
  rewrite Hs. cbn [rev app]. rewrite Hr. reflexivity. Qed.

Theorem determine_field_removed reg mixreg custom field cfg cfg1 c :
  determine reg mixreg custom field cfg = Ok (cfg1, c) ->
  lookup field cfg1 = None /\ forall k v, lookup k cfg1 = Some v -> lookup k cfg = Some v.
Proof. unfold determine. destruct (lookup field cfg) as [[b|s|sel|l|l|n|r]|] eqn:E; try discriminate.
  destruct (String.eqb (lower sel) "custom").
  - destruct (lookup "python_file" (remove_key field cfg)) eqn:Ep; [|discriminate].
    destruct custom as [k|]; [|discriminate]. intros H. inversion H; subst. clear H. split.
    + rewrite !lookup_remove_key. destruct (String.eqb field "python_file"); [reflexivity|]. rewrite String.eqb_refl. reflexivity.
    + intros k0 v. rewrite !lookup_remove_key. destruct (String.eqb k0 "python_file"); [discriminate|].
      destruct (String.eqb k0 field); [discriminate|]. intros H; exact H.
  - assert (Hrk : lookup field (remove_key field cfg) = None /\
                  forall k v, lookup k (remove_key field cfg) = Some v -> lookup k cfg = Some v).
    { split; [rewrite lookup_remove_key, String.eqb_refl; reflexivity|].
      intros k v. rewrite lookup_remove_key. destruct (String.eqb k field); [discriminate|]. intros H; exact H. }
    destruct (rev (split_plus (lower sel))) as [|base [|m ms]].
    + discriminate.
    + destruct (resolve reg base); [|discriminate]. intros H. inversion H; subst. exact Hrk.
    + destruct (resolve reg base); [|discriminate]. destruct (resolve_all mixreg _); [|discriminate].
      destruct (has_dup _); [discriminate|]. intros H. inversion H; subst. exact Hrk. Qed.

(* end to end for the strictly checked sections (temperature, pressure, chemistry, gas): when an object is built
   every key of the section other than the selector (and python_file) reached the constructor with its value *)
Theorem profile_values_reach reg mixreg custom field cfg names args :
  create_profile reg mixreg custom field cfg = Ok (names, args) ->
  forall k v, lookup k cfg = Some v -> k <> field -> k <> "python_file" -> lookup k args = Some v.
Proof. unfold create_profile. destruct (determine reg mixreg custom field cfg) as [[cfg1 c]|e] eqn:Ed; [|discriminate].
  intros Hc k v Hk Hf Hp. destruct (create_strict_ok c cfg1 names args Hc) as [_ [_ [Hgiven _]]]. apply Hgiven.
  unfold determine in Ed. destruct (lookup field cfg) as [[b|s|sel|l|l|n|r]|] eqn:E; try discriminate.
  assert (Hrk : lookup k (remove_key field cfg) = Some v).
  { rewrite lookup_remove_key. destruct (String.eqb_spec k field); [contradiction|exact Hk]. }
  destruct (String.eqb (lower sel) "custom").
  - destruct (lookup "python_file" (remove_key field cfg)); [|discriminate]. destruct custom; [|discriminate].
    inversion Ed; subst. rewrite lookup_remove_key. destruct (String.eqb_spec k "python_file"); [contradiction|exact Hrk].
  - destruct (rev (split_plus (lower sel))) as [|base [|m ms]]; [discriminate| |].
    + destruct (resolve reg base); [|discriminate]. inversion Ed; subst. exact Hrk.
    + destruct (resolve reg base); [|discriminate]. destruct (resolve_all mixreg _); [|discriminate].
      destruct (has_dup _); [discriminate|]. inversion Ed; subst. exact Hrk. Qed.

(* ---------------- (e) contributions --------------------------------------------- *)
Lemma all_ok_length {A} (l : list (res A)) (r : list A) : all_ok l = Ok r -> length r = length l.
Proof. revert r. induction l as [|[a|e] t IH]; intros r H; cbn [all_ok] in H.
  - inversion H. reflexivity.
  - destruct (all_ok t) as [t'|e'] eqn:E; [|discriminate]. inversion H; subst. cbn [length]. rewrite (IH t' eq_refl). reflexivity.
  - discriminate. Qed.

Lemma all_ok_err {A} (l : list (res A)) (e : err) : In (Err e) l -> exists e', all_ok l = Err e'.
Proof. induction l as [|[a|e0] t IH]; intros H; [destruct H| |].
  - destruct H as [H|H]; [discriminate|]. destruct (IH H) as [e' E]. exists e'. cbn [all_ok]. rewrite E. reflexivity.
  - exists e0. reflexivity. Qed.

(* one contribution per sub-section, in file order; an unknown header is an error, never ignored *)
Theorem contributions_one_per_subsection creg c l :
  contributions creg c = Ok l -> length l = length (subsections c).
Proof. unfold contributions. destruct (all_ok _) as [r|e] eqn:E; [|discriminate]. intros H. inversion H; subst.
  rewrite (all_ok_length _ _ E), map_length. reflexivity. Qed.

Theorem contributions_unknown_header creg c name body :
  In (name, body) (subsections c) -> resolve creg name = None -> exists e, contributions creg c = Err e.
Proof. intros Hin Hr. unfold contributions.
  destruct (all_ok_err (map (fun s => match resolve creg (fst s) with
                                      | Some k => create_strict (Plain k) (snd s) | None => Err EOther end)
                            (subsections c)) EOther) as [e' E].
  { apply in_map_iff. exists (name, body). cbn [fst snd]. rewrite Hr. split; [reflexivity|exact Hin]. }
  exists e'. rewrite E. reflexivity. Qed.

(* ---------------- (f) the sections the parser builds itself ---------------------- *)
Theorem instrument_snr_unknown_key reg mix custom cfg s key :
  lookup "instrument" (remove_key "num_observations" cfg) = Some (TStr s) ->
  mem (lower s) ["snr"; "signalnoise"] = true ->
  In key (map fst (remove_key "num_observations" cfg)) -> key <> "instrument" -> key <> "SNR" ->
  parser_instrument reg mix custom cfg = Err EKey.
Proof. intros Hl Hm Hin Hn1 Hn2. unfold parser_instrument. rewrite Hl, Hm.
  set (cfg1 := remove_key "num_observations" cfg) in *.
  assert (E : forallb (fun kv : string * tval => mem (fst kv) ["instrument"; "SNR"]) cfg1 = false).
  { apply in_map_iff in Hin. destruct Hin as [kv [Ek Hin]]. clear - Hin Ek Hn1 Hn2.
    induction cfg1 as [|x r IH]; [destruct Hin|]. cbn [forallb]. destruct Hin as [->|Hin].
    - rewrite Ek. unfold mem. cbn [existsb]. destruct (String.eqb_spec key "instrument"); [contradiction|].
      destruct (String.eqb_spec key "SNR"); [contradiction|]. reflexivity.
    - rewrite (IH Hin). apply andb_false_r. }
  rewrite E. reflexivity. Qed.

Theorem observation_extra_key reg mix custom cfg key cls other :
  find (fun kc : string * string => match lookup (fst kc) cfg with Some _ => true | None => false end) obs_keys
    = Some (key, cls) ->
  In other (map fst cfg) -> other <> key -> parser_observation reg mix custom cfg = Err EKey.
Proof. intros Hf Hin Hne. unfold parser_observation. rewrite Hf.
  assert (E : forallb (fun kv : string * tval => String.eqb (fst kv) key) cfg = false).
  { apply in_map_iff in Hin. destruct Hin as [kv [Ek Hin]]. clear - Hin Ek Hne.
    induction cfg as [|x r IH]; [destruct Hin|]. cbn [forallb]. destruct Hin as [->|Hin].
    - rewrite Ek. destruct (String.eqb_spec other key); [contradiction|]. reflexivity.
    - rewrite (IH Hin). apply andb_false_r. }
  rewrite E. reflexivity. Qed.
