(* Model_C07.v — retrieval set-up as a state machine
   (taurex/optimizer/optimizer.py : enable_fit, disable_fit, set_mode, set_boundary,
    set_factor_boundary, set_prior, enable_derived, disable_derived, compile_params, update_model,
    fit_names, fit_values, fit_boundaries, derived_names ; after repairs F7, F8, F9).
   Discrete: names are numbers, values are exact rationals, 10^x / log10 x are kept symbolic. *)
From Coq Require Import ZArith QArith List Bool Arith.
Import ListNotations.

(* a parameter value: a plain number or 10^q (what a log-space prior writes into the model) *)
Inductive val := Raw (q : Q) | P10 (q : Q).
(* a value as reported in a space: plain, 10^q, or log10 of a plain number *)
Inductive vv := VRaw (q : Q) | VP10 (q : Q) | VLg (q : Q).

Inductive space := Linear | Log.
Definition space_eqb (a b : space) : bool :=
  match a, b with Linear, Linear => true | Log, Log => true | _, _ => false end.

(* log10 of a value, symbolically: log10(10^q) = q *)
Definition log10v (v : val) : vv := match v with Raw q => VLg q | P10 q => VRaw q end.
Definition plainv (v : val) : vv := match v with Raw q => VRaw q | P10 q => VP10 q end.
Definition view_val (sp : space) (v : val) : vv := match sp with Linear => plainv v | Log => log10v v end.

(* prior.prior(x): what is written into the model for a reported value x *)
Definition to_model (sp : space) (x : vv) : option val :=
  match sp, x with
  | Linear, VRaw q => Some (Raw q)
  | Linear, VP10 q => Some (P10 q)
  | Log, VRaw q => Some (P10 q)
  | Log, VLg q => Some (Raw q)              (* 10^(log10 q) = q *)
  | _, _ => None
  end.

Inductive owner := OModel | OObs.

Record param := { p_name : nat; p_owner : owner; p_log : bool; p_fit : bool;
                  p_lo : Q; p_hi : Q; p_val : val }.
Record dparam := { d_name : nat; d_owner : owner; d_compute : bool }.

(* a prior as far as the set-up is concerned: its space and a tag identifying it
   (0 = default derived from mode and bounds, with those bounds; k > 0 = the k-th prior given by the user) *)
Record prior := { pr_space : space; pr_tag : nat; pr_lo : Q; pr_hi : Q }.

(* a compiled fitting entry: the parameter tuple as it was at compile time, and its prior *)
Record centry := { c_name : nat; c_log : bool; c_lo : Q; c_hi : Q; c_prior : prior }.

Record state := {
  params : list param;            (* model parameters first, then observation parameters: dict order *)
  derived : list dparam;
  user_priors : list (nat * prior);
  compiled : list centry;         (* fitting_parameters / fitting_priors *)
  cderived : list nat }.          (* derived_parameters *)

Inductive result := Ok | KeyErr | ValueErr.

Definition find_param (s : state) (n : nat) : option param :=
  find (fun p => Nat.eqb (p_name p) n) (params s).
Definition find_dparam (s : state) (n : nat) : option dparam :=
  find (fun d => Nat.eqb (d_name d) n) (derived s).
Definition lookup_prior (l : list (nat * prior)) (n : nat) : option prior :=
  match find (fun x => Nat.eqb (fst x) n) l with Some x => Some (snd x) | None => None end.

Definition upd_param (s : state) (n : nat) (f : param -> param) : state :=
  {| params := map (fun p => if Nat.eqb (p_name p) n then f p else p) (params s);
     derived := derived s; user_priors := user_priors s; compiled := compiled s; cderived := cderived s |}.
Definition upd_dparam (s : state) (n : nat) (f : dparam -> dparam) : state :=
  {| params := params s;
     derived := map (fun d => if Nat.eqb (d_name d) n then f d else d) (derived s);
     user_priors := user_priors s; compiled := compiled s; cderived := cderived s |}.

Definition set_fit (b : bool) (p : param) : param :=
  {| p_name := p_name p; p_owner := p_owner p; p_log := p_log p; p_fit := b;
     p_lo := p_lo p; p_hi := p_hi p; p_val := p_val p |}.
Definition set_log (b : bool) (p : param) : param :=
  {| p_name := p_name p; p_owner := p_owner p; p_log := b; p_fit := p_fit p;
     p_lo := p_lo p; p_hi := p_hi p; p_val := p_val p |}.
Definition set_bounds (lo hi : Q) (p : param) : param :=
  {| p_name := p_name p; p_owner := p_owner p; p_log := p_log p; p_fit := p_fit p;
     p_lo := lo; p_hi := hi; p_val := p_val p |}.
Definition set_val (v : val) (p : param) : param :=
  {| p_name := p_name p; p_owner := p_owner p; p_log := p_log p; p_fit := p_fit p;
     p_lo := p_lo p; p_hi := p_hi p; p_val := v |}.
Definition set_compute (b : bool) (d : dparam) : dparam :=
  {| d_name := d_name d; d_owner := d_owner d; d_compute := b |}.

Inductive op :=
| EnableFit (n : nat) | DisableFit (n : nat) | SetMode (n : nat) (log : bool)
| SetBoundary (n : nat) (lo hi : Q) | SetFactorBoundary (n : nat) (f0 f1 : Q)
| SetPrior (n : nat) (p : prior) | EnableDerived (n : nat) | DisableDerived (n : nat)
| Compile | UpdateModel (vs : list vv).

(* the default prior of compile_params: LogUniform(lin_bounds) for log mode, Uniform(bounds) otherwise *)
Definition default_prior (p : param) : prior :=
  {| pr_space := if p_log p then Log else Linear; pr_tag := 0; pr_lo := p_lo p; pr_hi := p_hi p |}.

(* compile_params: fitted parameters in table order (model then observation); the prior is the one the
   user set, else the default for the CURRENT mode and bounds *)
Definition compile_entries (s : state) : list centry :=
  map (fun p => {| c_name := p_name p; c_log := p_log p; c_lo := p_lo p; c_hi := p_hi p;
                   c_prior := match lookup_prior (user_priors s) (p_name p) with
                              | Some pr => pr | None => default_prior p end |})
      (filter p_fit (params s)).
Definition compile (s : state) : state :=
  {| params := params s; derived := derived s; user_priors := user_priors s;
     compiled := compile_entries s;
     cderived := map d_name (filter d_compute (derived s)) |}.

Fixpoint write_back (s : state) (cs : list centry) (vs : list vv) : option state :=
  match cs, vs with
  | [], [] => Some s
  | c :: cs', v :: vs' =>
      match to_model (pr_space (c_prior c)) v with
      | Some x => write_back (upd_param s (c_name c) (set_val x)) cs' vs'
      | None => None
      end
  | _, _ => None
  end.

Definition scale_val (f : Q) (v : val) : option Q :=
  match v with Raw q => Some (Qred (f * q)) | P10 _ => None end.

Definition step (s : state) (o : op) : state * result :=
  match o with
  | EnableFit n => match find_param s n with
                   | Some _ => (upd_param s n (set_fit true), Ok) | None => (s, KeyErr) end
  | DisableFit n => match find_param s n with
                    | Some _ => (upd_param s n (set_fit false), Ok) | None => (s, KeyErr) end
  | SetMode n b => match find_param s n with
                   | Some _ => (upd_param s n (set_log b), Ok) | None => (s, KeyErr) end
  | SetBoundary n lo hi => match find_param s n with
                           | Some _ => (upd_param s n (set_bounds lo hi), Ok) | None => (s, KeyErr) end
  | SetFactorBoundary n f0 f1 =>
      match find_param s n with
      | Some p => match scale_val f0 (p_val p), scale_val f1 (p_val p) with
                  | Some lo, Some hi => (upd_param s n (set_bounds lo hi), Ok)
                  | _, _ => (s, ValueErr)
                  end
      | None => (s, KeyErr)
      end
  | SetPrior n pr => match find_param s n with
                     | Some _ => ({| params := params s; derived := derived s;
                                     user_priors := (n, pr) :: filter (fun x => negb (Nat.eqb (fst x) n)) (user_priors s);
                                     compiled := compiled s; cderived := cderived s |}, Ok)
                     | None => (s, ValueErr) end
  | EnableDerived n => match find_dparam s n with
                       | Some _ => (upd_dparam s n (set_compute true), Ok) | None => (s, KeyErr) end
  | DisableDerived n => match find_dparam s n with
                        | Some _ => (upd_dparam s n (set_compute false), Ok) | None => (s, KeyErr) end
  | Compile => (compile s, Ok)
  | UpdateModel vs =>
      if negb (Nat.eqb (length vs) (length (compiled s))) then (s, ValueErr)
      else match write_back s (compiled s) vs with Some s' => (s', Ok) | None => (s, ValueErr) end
  end.

Definition run (ops : list op) (s : state) : state := fold_left (fun st o => fst (step st o)) ops s.

(* ---- views ---- *)
Definition value_of (s : state) (n : nat) : val :=
  match find_param s n with Some p => p_val p | None => Raw 0 end.
(* fit_names: (name, is "log_" prefixed) — follows the prior's space *)
Definition fit_names (s : state) : list (nat * bool) :=
  map (fun c => (c_name c, negb (space_eqb (pr_space (c_prior c)) Linear))) (compiled s).
Definition fit_values (s : state) : list vv :=
  map (fun c => view_val (pr_space (c_prior c)) (value_of s (c_name c))) (compiled s).
(* fit_boundaries: the compile-time bounds, (space, lo, hi) with space = prior space *)
Definition fit_boundaries (s : state) : list (space * Q * Q) :=
  map (fun c => (pr_space (c_prior c), c_lo c, c_hi c)) (compiled s).
Definition fitting_priors (s : state) : list prior := map c_prior (compiled s).
Definition derived_names (s : state) : list nat := cderived s.

(* what the user controls *)
Definition settings (s : state) := (params s, derived s, user_priors s).
Definition views (s : state) := (fit_names s, fit_values s, fit_boundaries s, fitting_priors s, derived_names s).
