(* Model_C05.v — spectral binning (taurex/binning/fluxbinner.py, simplebinner.py,
   nativebinner.py, taurex/util/util.py: bindown, compute_bin_edges).
   Definitions only; proofs are in Proofs_C05.v. *)
From Coq Require Import ZArith List Bool Arith.
From TV Require Import Num ListNum.
Import ListNotations.

Section Model.
  Context {T : Type} {N : Num T}.
  Local Open Scope num_scope.

  (* a native sample: centre, full width, value, error bar *)
  Record nrow := { r_wn : T; r_w : T; r_f : T; r_e : T }.
  Definition r_lo (r : nrow) : T := r_wn r - r_w r / n2.
  Definition r_hi (r : nrow) : T := r_wn r + r_w r / n2.

  (* FluxBinner.bindown first sorts the native points by wavenumber (numpy argsort),
     carrying spectrum, error and (since the F16 repair) the explicit widths along.
     When no widths are given they are derived from the sorted grid. *)
  Definition sort_rows (rows : list nrow) : list nrow := isort_by r_wn rows.
  Definition with_auto_widths (rows : list nrow) : list nrow :=
    map2 (fun r w => {| r_wn := r_wn r; r_w := w; r_f := r_f r; r_e := r_e r |})
         rows (bin_widths (map r_wn rows)).
  Definition prepare (auto : bool) (rows : list nrow) : list nrow :=
    let s := sort_rows rows in if auto then with_auto_widths s else s.

  (* the index window the code selects for the target bin [a,b] *)
  Definition win_start (l : list nrow) (a : T) : nat :=
    Nat.min (ss_right (map r_hi l) a) (length l - 1).
  Definition win_stop (l : list nrow) (b : T) : nat :=
    Nat.min (ss_right (tl (map r_lo l)) b) (length l - 1).
  Definition slice {A} (l : list A) (start stop : nat) : list A :=
    firstn (stop + 1 - start) (skipn start l).

  Definition dummy : nrow := {| r_wn := n0; r_w := n0; r_f := n0; r_e := n0 |}.

  (* raw (unclipped) overlap weight exactly as coded *)
  Definition weight (a b : T) (r : nrow) : T :=
    (nmin b (r_hi r) - nmax (r_lo r) a) / (b - a).

  Definition skipped (l : list nrow) (a b : T) : bool :=
    let start := win_start l a in
    let stop := win_stop l b in
    negb (a <=? r_hi (nth start l dummy)) || negb (r_lo (nth stop l dummy) <=? b).

  (* binned flux of one target bin; l is the prepared (sorted) native list *)
  Definition flux_bin (l : list nrow) (a b : T) : T :=
    if skipped l a b then n0
    else
      let s := slice l (win_start l a) (win_stop l b) in
      let w := map (weight a b) s in
      let sw := nsum w in
      nsum (map2 (fun wi r => wi / sw * r_f r) w s).

  (* binned error SQUARED of one target bin: sum(w^2 e^2)/sw/sw  (the code takes sqrt) *)
  Definition err2_bin (l : list nrow) (a b : T) : T :=
    if skipped l a b then n0
    else
      let s := slice l (win_start l a) (win_stop l b) in
      let w := map (weight a b) s in
      let sw := nsum w in
      nsum (map2 (fun wi r => wi * wi * (r_e r * r_e r)) w s) / sw / sw.

  (* FluxBinner.__init__ : target grid sorted, widths carried or derived *)
  Record tbin := { t_wn : T; t_w : T }.
  Definition target_grid (auto : bool) (tg : list tbin) : list tbin :=
    let s := isort_by t_wn tg in
    if auto then map2 (fun t w => {| t_wn := t_wn t; t_w := w |}) s (bin_widths (map t_wn s))
    else s.

  Definition flux_binner (auto_t auto_n : bool) (tg : list tbin) (rows : list nrow)
    : list (T * T * T * T) :=            (* (wn, flux, err2, width) per target bin *)
    let l := prepare auto_n rows in
    map (fun t => let a := t_wn t - t_w t / n2 in
                  let b := t_wn t + t_w t / n2 in
                  (t_wn t, flux_bin l a b, err2_bin l a b, t_w t))
        (target_grid auto_t tg).

  (* ---- the specification: overlap-weighted mean over ALL native bins ---- *)
  Definition ov (a b : T) (r : nrow) : T := nmax n0 (nmin b (r_hi r) - nmax (r_lo r) a).
  Definition overlap_mean (l : list nrow) (a b : T) : T :=
    nsum (map (fun r => ov a b r * r_f r) l) / nsum (map (ov a b) l).

  (* ---- histogram binner: taurex.util.util.bindown, 1-D branch (numpy.histogram) ---- *)
  (* points x with e_i <= x < e_{i+1}; the last bin also takes x = e_last *)
  Fixpoint hist_bins (edges : list T) (pts : list (T * T)) : list (T * nat) :=
    match edges with
    | e0 :: ((e1 :: rest) as er) =>
        let last := match rest with [] => true | _ => false end in
        let inb := filter (fun p => (e0 <=? fst p) && ((fst p <? e1) || (last && (fst p <=? e1)))) pts in
        (nsum (map snd inb), length inb) :: hist_bins er pts
    | _ => []
    end.
  (* (sum, count) per bin; the code returns sum/count (NaN when count = 0) *)
  Definition simple_binner (tg : list T) (pts : list (T * T)) : list (T * nat) :=
    hist_bins (bin_edges tg) pts.

  (* 2-D branch (numpy.digitize right=True): e_i < x <= e_{i+1} *)
  Fixpoint digi_bins (edges : list T) (pts : list (T * T)) : list (T * nat) :=
    match edges with
    | e0 :: ((e1 :: _) as er) =>
        let inb := filter (fun p => (e0 <? fst p) && (fst p <=? e1)) pts in
        (nsum (map snd inb), length inb) :: digi_bins er pts
    | _ => []
    end.
  Definition simple_binner_2d (tg : list T) (pts : list (T * T)) : list (T * nat) :=
    digi_bins (bin_edges tg) pts.

  (* NativeBinner.bindown *)
  Definition native_binner (wn f : list T) : list T * list T := (wn, f).
End Model.
