(* Proofs_C02k.v — the correlated-k emission integral (evaluate_emission_ktables) at the real-number instance:
   the layer weights still telescope, so an isothermal atmosphere is a black body, every intensity lies between the
   coldest and hottest layer (no clamp on this path, hence no exp(-10) slack), and a degenerate k-distribution gives
   the cross-section intensity. *)
From Coq Require Import ZArith Reals List Bool Arith Lia Lra.
From TV Require Import Num ListNum ListAux ListNumR Model_C01 Proofs_C01 Model_C02 Proofs_C02 Model_C20 Proofs_C20.
Import ListNotations.
Local Open Scope R_scope.

Notation ndR := (@nth_d R RNum).

(* depth from level j to the top *)
Definition tail_sum (c : list R) (j : nat) : R := Rsum (skipn j c).

Lemma above_tail (c : list R) (l : nat) : abv c l = tail_sum c (S l).
Proof. reflexivity. Qed.

Lemma upto_tail (c : list R) (l : nat) : (l < length c)%nat -> upt c l = tail_sum c l.
Proof. intros H. unfold upto, above, tail_sum, nth_d. rewrite (skipn_cons_nth c l H), Rsum_cons. rnum. lra. Qed.

Lemma tail_sum_0 (c : list R) : tail_sum c 0 = Rsum c.
Proof. reflexivity. Qed.

Lemma tail_sum_all (c : list R) (j : nat) : (length c <= j)%nat -> tail_sum c j = 0.
Proof. intros H. unfold tail_sum. rewrite skipn_all2 by exact H. reflexivity. Qed.

Lemma tail_sum_step (c : list R) (j : nat) : (j < length c)%nat -> tail_sum c j = nth j c 0 + tail_sum c (S j).
Proof. intros H. unfold tail_sum. rewrite (skipn_cons_nth c j H), Rsum_cons. reflexivity. Qed.

Lemma tail_sum_mono (c : list R) (j : nat) : nonneg_list c -> tail_sum c (S j) <= tail_sum c j.
Proof. intros Hc. destruct (Nat.lt_ge_cases j (length c)) as [Hj|Hj].
  - rewrite (tail_sum_step c j Hj). pose proof (nth_d_nonneg c j Hc) as Hn. unfold nth_d in Hn. rnum. lra.
  - rewrite !tail_sum_all by lia. lra. Qed.

Lemma kcol_length (kd : list (list R)) g : length (@kcol R RTNum kd g) = length kd.
Proof. unfold kcol. apply map_length. Qed.

(* ---- the mixture over quadrature points ---- *)
Definition mixsum (ws : list R) (f : nat -> R) : R :=
  @ktrans R RTNum ws (map f (seq 0 (length ws))).

Lemma ktr_is_mixsum ws kd sel m : @Model_C02.ktr R RTNum ws kd sel m = mixsum ws (fun g => sel (@kcol R RTNum kd g) * m).
Proof. reflexivity. Qed.

Lemma combine_sum_pos (ws ts : list R) : Forall (fun x => 0 <= x) ws -> length ts = length ws -> 0 < Rsum ws ->
  0 < Rsum (map (fun p : R * R => exp (- fst p) * snd p) (combine ts ws)).
Proof. intros Hw. revert ts. induction Hw as [|w ws Hw0 Hws IH]; intros [|t ts] Hl Hs; simpl in Hl; try discriminate.
  - rewrite Rsum_nil in Hs. lra.
  - cbn [combine map]. rewrite Rsum_cons in *. cbn [fst snd].
    pose proof (exp_pos (- t)).
    assert (0 <= Rsum (map (fun p : R * R => exp (- fst p) * snd p) (combine ts ws))).
    { apply Rsum_map_nonneg. intros [a b] Hin. cbn [fst snd]. apply in_combine_r in Hin.
      rewrite Forall_forall in Hws. specialize (Hws b Hin). pose proof (exp_pos (- a)). nra. }
    destruct (Rle_lt_or_eq_dec _ _ Hw0) as [Hwp|Hwz].
    + nra.
    + rewrite <- Hwz in *. specialize (IH ts ltac:(lia) ltac:(lra)). lra. Qed.

Lemma mixsum_pos ws f : Forall (fun x => 0 <= x) ws -> Rsum ws = 1 -> 0 < mixsum ws f.
Proof. intros Hw H1. unfold mixsum. rewrite ktrans_sum. apply combine_sum_pos; [exact Hw| |lra].
  rewrite map_length, seq_length. reflexivity. Qed.

Lemma combine_sum_le (ws ts us : list R) : Forall (fun x => 0 <= x) ws -> length ts = length ws -> length us = length ws ->
  (forall i, (i < length ws)%nat -> nth i us 0 <= nth i ts 0) ->
  Rsum (map (fun p : R * R => exp (- fst p) * snd p) (combine ts ws))
  <= Rsum (map (fun p : R * R => exp (- fst p) * snd p) (combine us ws)).
Proof. intros Hw. revert ts us. induction Hw as [|w ws Hw0 _ IH]; intros [|t ts] [|u us] Ht Hu Hle; simpl in Ht, Hu; try discriminate.
  - cbn [combine map]. lra.
  - cbn [combine map]. rewrite !Rsum_cons. cbn [fst snd].
    assert (Hut : u <= t) by (apply (Hle 0%nat); simpl; lia).
    assert (exp (- t) <= exp (- u)).
    { destruct Hut as [Hlt|Heq]; [left; apply exp_increasing; lra|subst; lra]. }
    assert (Hrest : Rsum (map (fun p : R * R => exp (- fst p) * snd p) (combine ts ws))
                    <= Rsum (map (fun p : R * R => exp (- fst p) * snd p) (combine us ws))).
    { apply IH; try lia. intros i Hi. apply (Hle (S i)). simpl. lia. }
    nra. Qed.

Lemma mixsum_mono ws f f' : Forall (fun x => 0 <= x) ws -> (forall g, (g < length ws)%nat -> f' g <= f g) ->
  mixsum ws f <= mixsum ws f'.
Proof. intros Hw Hle. unfold mixsum. rewrite !ktrans_sum. apply combine_sum_le; [exact Hw| | |].
  - rewrite map_length, seq_length. reflexivity.
  - rewrite map_length, seq_length. reflexivity.
  - intros i Hi.
    rewrite (nth_indep _ 0 (f' 0%nat)) by (rewrite map_length, seq_length; exact Hi).
    rewrite (nth_indep (map f _) 0 (f 0%nat)) by (rewrite map_length, seq_length; exact Hi).
    rewrite !map_nth. rewrite !seq_nth by exact Hi. apply Hle. exact Hi. Qed.

Lemma map_seq_const {A} (t : A) (ws : list R) : map (fun _ => t) (seq 0 (length ws)) = map (fun _ => t) ws.
Proof. generalize 0%nat. induction ws as [|w ws IH]; intros a; [reflexivity|]. cbn [length seq map]. f_equal. apply IH. Qed.

Lemma mixsum_const ws t : Rsum ws = 1 -> mixsum ws (fun _ => t) = exp (- t).
Proof. intros H1. unfold mixsum. rewrite map_seq_const, ktrans_sum, Rsum_combine_const, H1. ring. Qed.

Lemma mixsum_ext ws f f' : (forall g, (g < length ws)%nat -> f g = f' g) -> mixsum ws f = mixsum ws f'.
Proof. intros H. unfold mixsum. f_equal. apply map_ext_in. intros g Hg. apply in_seq in Hg. apply H. lia. Qed.

(* ---- the layered sum with an abstract transmittance G (level 0 = surface, level n = top) ---- *)
Section Layered.
  Context (B : list R) (n : nat) (G : nat -> R).
  Context (Hn : (0 < n)%nat).

  Lemma G_telescope k : Rsum (map (fun l => G (S l) - G l) (seq 0 k)) = G k - G 0%nat.
  Proof. induction k as [|k IH]; [cbn [seq map]; rewrite Rsum_nil; lra|].
    rewrite seq_S, map_app, Rsum_app, IH. cbn [plus map]. rewrite Rsum_cons, Rsum_nil. lra. Qed.

  Lemma layered_isothermal B0 : (forall l, ndR B l = B0) -> G n = 1 ->
    ndR B 0 * G 0%nat + Rsum (map (fun l => ndR B l * (G (S l) - G l)) (seq 0 n)) = B0.
  Proof. intros HB Hone. rewrite HB.
    rewrite (Rsum_map_ext _ (fun l => B0 * (G (S l) - G l))) by (intros l _; rewrite HB; reflexivity).
    rewrite Rsum_map_scale, G_telescope, Hone. ring. Qed.

  Lemma layered_bounds Bmin Bmax :
    (forall l, (l < n)%nat -> Bmin <= ndR B l <= Bmax) -> (forall l, (l < n)%nat -> G l <= G (S l)) ->
    G n = 1 -> 0 <= G 0%nat ->
    Bmin <= ndR B 0 * G 0%nat + Rsum (map (fun l => ndR B l * (G (S l) - G l)) (seq 0 n)) <= Bmax.
  Proof. intros HB Hmono Hone H0.
    assert (Hlo : Bmin * (G n - G 0%nat) <= Rsum (map (fun l => ndR B l * (G (S l) - G l)) (seq 0 n))).
    { rewrite <- (G_telescope n). rewrite <- Rsum_map_scale. apply Rsum_map_le.
      intros l Hl. apply in_seq in Hl. pose proof (Hmono l ltac:(lia)). pose proof (HB l ltac:(lia)). nra. }
    assert (Hhi : Rsum (map (fun l => ndR B l * (G (S l) - G l)) (seq 0 n)) <= Bmax * (G n - G 0%nat)).
    { rewrite <- (G_telescope n). rewrite <- Rsum_map_scale. apply Rsum_map_le.
      intros l Hl. apply in_seq in Hl. pose proof (Hmono l ltac:(lia)). pose proof (HB l ltac:(lia)). nra. }
    pose proof (HB 0%nat Hn). rewrite Hone in *. split; nra. Qed.
End Layered.

(* ---- kintensity is that layered sum with G j = exp(-m tail_j(d)) * mix_g exp(-m tail_j(kd_g)) ---- *)
Section KIntensity.
  Context (B d : list R) (kd : list (list R)) (ws : list R) (m : R).
  Context (Hn : (0 < length d)%nat) (Hlen : length kd = length d).
  Context (Hw : Forall (fun x => 0 <= x) ws) (H1 : Rsum ws = 1).

  Definition KG (j : nat) : R :=
    exp (- (tail_sum d j * m)) * mixsum ws (fun g => tail_sum (@kcol R RTNum kd g) j * m).

  Lemma KG_pos j : 0 < KG j.
  Proof. unfold KG. apply Rmult_lt_0_compat; [apply exp_pos|apply mixsum_pos; assumption]. Qed.

  Lemma KG_top : KG (length d) = 1.
  Proof. unfold KG. rewrite tail_sum_all by lia.
    rewrite (mixsum_ext ws _ (fun _ => 0)).
    2:{ intros g _. rewrite tail_sum_all by (rewrite kcol_length; lia). ring. }
    rewrite mixsum_const by exact H1. rewrite Rmult_0_l, !Ropp_0, exp_0. ring. Qed.

  (* the surface term as the code computes it (optical depth of the mixture through -log, then exp) *)
  Lemma ksurface_as_coded : @ksurface_coded R RTNum d kd ws m = @ksurface R RTNum d kd ws m.
  Proof. unfold ksurface_coded, ksurface. rewrite !ktr_is_mixsum. rnum.
    pose proof (mixsum_pos ws (fun g => Rsum (@kcol R RTNum kd g) * m) Hw H1) as Hp.
    replace (- (Rsum d * m + - ln (mixsum ws (fun g => Rsum (@kcol R RTNum kd g) * m))))
      with (- (Rsum d * m) + ln (mixsum ws (fun g => Rsum (@kcol R RTNum kd g) * m))) by ring.
    rewrite exp_plus, exp_ln by exact Hp. reflexivity. Qed.

  Lemma kintensity_layered :
    @kintensity R RTNum B d kd ws m
    = ndR B 0 * KG 0 + Rsum (map (fun l => ndR B l * (KG (S l) - KG l)) (seq 0 (length d))).
  Proof. unfold kintensity, ksurface. rewrite !ktr_is_mixsum. rnum. f_equal.
    apply Rsum_map_ext. intros l Hl. apply in_seq in Hl. f_equal. unfold KG. rewrite !ktr_is_mixsum.
    rewrite above_tail. rewrite (upto_tail d l) by lia.
    rewrite (mixsum_ext ws (fun g => upt (@kcol R RTNum kd g) l * m) (fun g => tail_sum (@kcol R RTNum kd g) l * m)).
    2:{ intros g _. rewrite upto_tail by (rewrite kcol_length; lia). reflexivity. }
    reflexivity. Qed.

  Theorem k_isothermal_intensity B0 : (forall l, ndR B l = B0) -> @kintensity R RTNum B d kd ws m = B0.
  Proof. intros HB. rewrite kintensity_layered. apply layered_isothermal; [exact HB|exact KG_top]. Qed.

  Context (Hd : nonneg_list d) (Hkd : Forall nonneg_list kd) (Hm : 0 <= m).

  Lemma kcol_nonneg g : nonneg_list (@kcol R RTNum kd g).
  Proof. unfold kcol, nonneg_list. apply Forall_forall. intros x Hx. apply in_map_iff in Hx.
    destruct Hx as [row [<- Hrow]]. rewrite Forall_forall in Hkd. apply nth_d_nonneg. apply Hkd. exact Hrow. Qed.

  Lemma KG_mono l : KG l <= KG (S l).
  Proof. unfold KG.
    assert (He : exp (- (tail_sum d l * m)) <= exp (- (tail_sum d (S l) * m))).
    { pose proof (tail_sum_mono d l Hd) as Ht.
      assert (Hle : - (tail_sum d l * m) <= - (tail_sum d (S l) * m)) by nra.
      destruct Hle as [Hlt|Heq]; [left; apply exp_increasing; exact Hlt|rewrite Heq; lra]. }
    assert (Hmx : mixsum ws (fun g => tail_sum (@kcol R RTNum kd g) l * m)
                  <= mixsum ws (fun g => tail_sum (@kcol R RTNum kd g) (S l) * m)).
    { apply mixsum_mono; [exact Hw|]. intros g _. pose proof (tail_sum_mono _ l (kcol_nonneg g)). nra. }
    pose proof (exp_pos (- (tail_sum d l * m))).
    pose proof (mixsum_pos ws (fun g => tail_sum (@kcol R RTNum kd g) l * m) Hw H1).
    nra. Qed.

  Theorem k_hot_cold_bounds Bmin Bmax :
    (forall l, (l < length d)%nat -> Bmin <= ndR B l <= Bmax) ->
    Bmin <= @kintensity R RTNum B d kd ws m <= Bmax.
  Proof. intros HB. rewrite kintensity_layered. apply layered_bounds.
    - exact Hn.
    - exact HB.
    - intros l _. apply KG_mono.
    - exact KG_top.
    - left. apply KG_pos. Qed.
End KIntensity.

(* ---- degenerate k-distribution: every quadrature point carries the same depth xs_l in layer l ---- *)
Lemma Rsum_map2_plus (a b : list R) : length a = length b -> Rsum (map2 Rplus a b) = Rsum a + Rsum b.
Proof. revert b. induction a as [|x a IH]; intros [|y b] H; simpl in H; try discriminate; cbn [map2].
  - rewrite !Rsum_nil. lra.
  - rewrite !Rsum_cons, IH by lia. lra. Qed.

Lemma skipn_map2 {A B C} (f : A -> B -> C) j a b : skipn j (map2 f a b) = map2 f (skipn j a) (skipn j b).
Proof. revert a b. induction j as [|j IH]; intros a b; [reflexivity|].
  destruct a as [|x a]; destruct b as [|y b]; cbn [skipn map2]; try reflexivity.
  - destruct (skipn j a); reflexivity.
  - apply IH. Qed.

Lemma tail_sum_map2_plus (a b : list R) j : length a = length b ->
  tail_sum (map2 Rplus a b) j = tail_sum a j + tail_sum b j.
Proof. intros H. unfold tail_sum. rewrite skipn_map2. apply Rsum_map2_plus. rewrite !skipn_length. lia. Qed.

Theorem k_degenerate_intensity (B d xs : list R) (kd : list (list R)) (ws : list R) (m : R) :
  (0 < length d)%nat -> length kd = length d -> length xs = length d ->
  Forall (fun x => 0 <= x) ws -> Rsum ws = 1 ->
  (forall g, (g < length ws)%nat -> @kcol R RTNum kd g = xs) ->
  @kintensity R RTNum B d kd ws m = @intensity R RTNum B (map2 Rplus d xs) [] [] m.
Proof. intros Hn Hlen Hxs Hw H1 Hcol.
  rewrite (kintensity_layered B d kd ws m Hn Hlen).
  assert (HKG : forall j, KG d kd ws m j = exp (- (tail_sum (map2 Rplus d xs) j * m))).
  { intros j. unfold KG. rewrite (mixsum_ext ws _ (fun _ => tail_sum xs j * m)).
    2:{ intros g Hg. rewrite (Hcol g Hg). reflexivity. }
    rewrite mixsum_const by exact H1. rewrite <- exp_plus. f_equal.
    rewrite tail_sum_map2_plus by lia. ring. }
  assert (Hl2 : length (map2 Rplus d xs) = length d) by (rewrite map2_length; lia).
  unfold intensity. rnum. rewrite Hl2. f_equal.
  - rewrite HKG, tail_sum_0. reflexivity.
  - apply Rsum_map_ext. intros l Hl. apply in_seq in Hl. f_equal. rewrite !HKG.
    replace (nth l (@nil bool) false) with false by (destruct l; reflexivity).
    unfold att. rnum. rewrite above_tail, (upto_tail _ l) by lia. reflexivity. Qed.
