(* Props_C08.v — C08: prior transforms are monotone inverse-CDF maps in the declared space. *)
From Coq Require Import Reals List Lra.
From TV Require Import Num ListNum Model_C08 Proofs_C08.
Import ListNotations.
Local Open Scope R_scope.

(* uniform between its bounds whatever their order *)
Theorem C08_uniform_endpoints : forall (sp : space) (a b : R),
  @sample R RNum (@mk_uniform R RNum sp a b) 0 0 = Rmin a b /\
  @sample R RNum (@mk_uniform R RNum sp a b) 1 0 = Rmax a b.
Proof. exact uniform_endpoints. Qed.
Print Assumptions C08_uniform_endpoints.

Theorem C08_uniform_order_independent : forall (sp : space) (a b : R),
  @mk_uniform R RNum sp a b = @mk_uniform R RNum sp b a.
Proof. exact uniform_order_independent. Qed.
Print Assumptions C08_uniform_order_independent.

Theorem C08_uniform_monotone : forall (sp : space) (a b u v : R), u <= v ->
  @sample R RNum (@mk_uniform R RNum sp a b) u 0 <= @sample R RNum (@mk_uniform R RNum sp a b) v 0.
Proof. exact uniform_monotone. Qed.
Print Assumptions C08_uniform_monotone.

Theorem C08_uniform_onto_support : forall (sp : space) (a b u : R), 0 <= u <= 1 ->
  Rmin a b <= @sample R RNum (@mk_uniform R RNum sp a b) u 0 <= Rmax a b.
Proof. exact uniform_onto. Qed.
Print Assumptions C08_uniform_onto_support.

Theorem C08_uniform_inverse_cdf : forall (sp : space) (a b u : R), a <> b ->
  let lo := Rmin a b in let hi := Rmax a b in
  (@sample R RNum (@mk_uniform R RNum sp a b) u 0 - lo) / (hi - lo) = u.
Proof. exact uniform_inverse_cdf. Qed.
Print Assumptions C08_uniform_inverse_cdf.

(* normal with the given mean and width: increasing affine image of the standard normal quantile *)
Theorem C08_gaussian_monotone : forall (sp : space) (loc scale q1 q2 : R), 0 < scale -> q1 < q2 ->
  @sample R RNum (PGauss sp loc scale) 0 q1 < @sample R RNum (PGauss sp loc scale) 0 q2.
Proof. exact gaussian_monotone. Qed.
Print Assumptions C08_gaussian_monotone.

Theorem C08_gaussian_inverse_cdf : forall (sp : space) (loc scale q : R), scale <> 0 ->
  (@sample R RNum (PGauss sp loc scale) 0 q - loc) / scale = q.
Proof. exact gaussian_standardises. Qed.
Print Assumptions C08_gaussian_inverse_cdf.

(* log-space variants return 10**x to the model: positive and monotone *)
Theorem C08_log_positive : forall (v : R), 0 < @to_model R RTNum Log v.
Proof. exact to_model_log_positive. Qed.
Print Assumptions C08_log_positive.

Theorem C08_to_model_monotone : forall (sp : space) (v w : R), v < w ->
  @to_model R RTNum sp v < @to_model R RTNum sp w.
Proof. exact to_model_monotone. Qed.
Print Assumptions C08_to_model_monotone.

(* arguments given in linear space are equivalent to giving their log10; the support in linear
   space is [min, max] of the linear bounds *)
Theorem C08_lin_bounds_equiv : forall (a b : R),
  @mk_loguniform_lin R RTNum a b = @mk_uniform R RNum Log (@nlog10 R RTNum a) (@nlog10 R RTNum b).
Proof. exact lin_bounds_equiv. Qed.
Print Assumptions C08_lin_bounds_equiv.

Theorem C08_loguniform_support : forall (a b u : R), 0 < a -> 0 < b -> 0 <= u <= 1 ->
  Rmin a b <= @to_model R RTNum Log (@sample R RNum (@mk_loguniform_lin R RTNum a b) u 0) <= Rmax a b.
Proof. exact loguniform_support. Qed.
Print Assumptions C08_loguniform_support.

(* default priors derive from the parameter's mode and bounds *)
Theorem C08_default_prior : forall (log_mode : bool) (a b : R),
  @prior_space R (@default_prior R RTNum log_mode a b) = (if log_mode then Log else Linear) /\
  @boundaries_uniform R (@default_prior R RTNum false a b) = (Rmin a b, Rmax a b).
Proof. intros. split; [apply default_prior_space|apply default_prior_linear_bounds]. Qed.
Print Assumptions C08_default_prior.
