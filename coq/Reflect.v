(* Reflect.v — the interval instance encloses the real-number instance, proved once for every straight-line kernel.
   A kernel that uses only + - * / unary minus, integer constants, exp, ln, sqrt and pi is (by conversion) the
   evaluation [ev] of an expression tree at the number interface; [ev_enclosure] then says that evaluating that tree
   in interval arithmetic on intervals containing the real arguments yields an interval containing the real value
   (or no information, when a division by zero / logarithm of a non-positive number occurs on the real side). *)
From Coq Require Import ZArith Reals List Bool Lra.
From Interval Require Import Specific_bigint Specific_ops Float_full Interval Xreal Basic.
From TV Require Import Num NumIv.
Import ListNotations.

Inductive expr :=
| EVar (i : nat) | ECst (z : Z) | EPi | EZero | EOne
| EAdd (a b : expr) | ESub (a b : expr) | EMul (a b : expr) | EDiv (a b : expr)
| EOpp (a : expr) | EExp (a : expr) | ELn (a : expr) | ESqrt (a : expr).

Section Eval.
  Context {T : Type} {N : TNum T}.
  Local Open Scope num_scope.
  Fixpoint ev (env : list T) (e : expr) : T :=
    match e with
    | EVar i => nth i env n0
    | ECst z => nofZ z
    | EPi => npi
    | EZero => n0
    | EOne => n1
    | EAdd a b => ev env a + ev env b
    | ESub a b => ev env a - ev env b
    | EMul a b => ev env a * ev env b
    | EDiv a b => ev env a / ev env b
    | EOpp a => - ev env a
    | EExp a => nexp (ev env a)
    | ELn a => nln (ev env a)
    | ESqrt a => nsqrt (ev env a)
    end.
End Eval.

(* the same tree over the extended reals of the Interval library (NaN = undefined) *)
Fixpoint evX (env : list ExtendedR) (e : expr) : ExtendedR :=
  match e with
  | EVar i => nth i env (Xreal 0)
  | ECst z => Xreal (IZR z)
  | EPi => Xreal PI
  | EZero => Xreal 0
  | EOne => Xreal 1
  | EAdd a b => Xadd (evX env a) (evX env b)
  | ESub a b => Xsub (evX env a) (evX env b)
  | EMul a b => Xmul (evX env a) (evX env b)
  | EDiv a b => Xdiv (evX env a) (evX env b)
  | EOpp a => Xneg (evX env a)
  | EExp a => Xexp (evX env a)
  | ELn a => Xln (evX env a)
  | ESqrt a => Xsqrt (evX env a)
  end.

(* the guarded exponential of NumIv is a sound extension of exp *)
Lemma Iexp_correct : I.extension Xexp Iexp.
Proof. intros b x Hx. unfold Iexp.
  set (d := I.add prec b (I.fromZ prec 1400)).
  pose proof (I.sign_strict_correct d) as Hs.
  destruct (I.sign_strict d); try (apply I.exp_correct; exact Hx).
  assert (Hd : contains (I.convert d) (Xadd x (Xreal (IZR 1400)))).
  { unfold d. apply I.add_correct; [exact Hx|apply I.fromZ_correct]. }
  destruct (Hs _ Hd) as [Hreal Hneg]. destruct x as [|r]; [discriminate|].
  cbn [Xadd proj_val] in Hneg. cbn [Xexp Xlift Xbind].
  apply I.meet_correct.
  - apply (I.lower_extent_correct _ (exp r) (exp (IZR (-1400)))).
    + exact (I.exp_correct prec _ _ (I.fromZ_correct prec (-1400))).
    + assert (r <= IZR (-1400))%R by (change (IZR (-1400)) with (- IZR 1400)%R; lra).
      destruct H as [H|H]; [left; apply exp_increasing; exact H|rewrite H; right; reflexivity].
  - apply (I.upper_extent_correct _ (exp r) 0%R).
    + rewrite I.zero_correct. cbn. split; lra.
    + left. apply exp_pos. Qed.

Theorem ev_enclosure (envI : list I.type) (envX : list ExtendedR) (e : expr) :
  Forall2 (fun xi x => contains (I.convert xi) x) envI envX ->
  contains (I.convert (@ev I.type IvTNum envI e)) (evX envX e).
Proof. intros Henv. induction e as [i|z| | | |a IHa b IHb|a IHa b IHb|a IHa b IHb|a IHa b IHb|a IHa|a IHa|a IHa|a IHa];
    cbn [ev evX n0 n1 nadd nsub nmul ndiv nopp nofZ tnum nexp nln nsqrt npi IvNum IvTNum].
  - revert i. induction Henv as [|xi x envI envX Hc _ IH]; intros [|i]; cbn [nth];
      try apply (I.fromZ_correct prec 0); [exact Hc|apply IH].
  - apply I.fromZ_correct.
  - apply I.pi_correct.
  - apply (I.fromZ_correct prec 0).
  - apply (I.fromZ_correct prec 1).
  - apply I.add_correct; assumption.
  - apply I.sub_correct; assumption.
  - apply I.mul_correct; assumption.
  - apply I.div_correct; assumption.
  - apply I.neg_correct; assumption.
  - apply Iexp_correct; assumption.
  - apply I.ln_correct; assumption.
  - apply I.sqrt_correct; assumption. Qed.

(* when nothing is undefined on the real side, the extended-real value IS the real-number instance's value *)
Fixpoint defined (env : list R) (e : expr) : Prop :=
  match e with
  | EVar _ | ECst _ | EPi | EZero | EOne => True
  | EAdd a b | ESub a b | EMul a b => defined env a /\ defined env b
  | EDiv a b => defined env a /\ defined env b /\ @ev R RTNum env b <> 0%R
  | EOpp a | EExp a => defined env a
  | ELn a => defined env a /\ (0 < @ev R RTNum env a)%R
  | ESqrt a => defined env a /\ (0 <= @ev R RTNum env a)%R
  end.

Lemma evX_real (env : list R) (e : expr) : defined env e ->
  evX (map Xreal env) e = Xreal (@ev R RTNum env e).
Proof. induction e as [i|z| | | |a IHa b IHb|a IHa b IHb|a IHa b IHb|a IHa b IHb|a IHa|a IHa|a IHa|a IHa];
    cbn [defined ev evX n0 n1 nadd nsub nmul ndiv nopp nofZ tnum nexp nln nsqrt npi RNum RTNum]; intros Hd.
  - change (Xreal 0) with (Xreal (IZR 0)). rewrite (map_nth Xreal). reflexivity.
  - reflexivity.
  - reflexivity.
  - reflexivity.
  - reflexivity.
  - destruct Hd as [Ha Hb]. rewrite IHa, IHb by assumption. reflexivity.
  - destruct Hd as [Ha Hb]. rewrite IHa, IHb by assumption. reflexivity.
  - destruct Hd as [Ha Hb]. rewrite IHa, IHb by assumption. reflexivity.
  - destruct Hd as [Ha [Hb Hn]]. rewrite IHa, IHb by assumption. cbn [Xdiv Xdiv']. unfold Xdiv'.
    destruct (is_zero_spec (@ev R RTNum env b)) as [Hz|Hz]; [contradiction|reflexivity].
  - rewrite IHa by assumption. reflexivity.
  - rewrite IHa by assumption. reflexivity.
  - destruct Hd as [Ha Hp]. rewrite IHa by assumption. cbn [Xln Xbind]. unfold Xln'.
    destruct (is_positive_spec (@ev R RTNum env a)) as [Hq|Hq]; [reflexivity|lra].
  - destruct Hd as [Ha Hp]. rewrite IHa by assumption. cbn [Xsqrt Xbind]. unfold Xsqrt'.
    destruct (is_negative_spec (@ev R RTNum env a)) as [Hq|Hq]; [lra|reflexivity]. Qed.

(* the interval xi (as a set of reals) contains x *)
Definition encloses (xi : I.type) (x : R) : Prop := contains (I.convert xi) (Xreal x).
(* the transfer statement used per kernel: point (or any enclosing) inputs in, enclosure of the real value out *)
Corollary transfer (envI : list I.type) (env : list R) (e : expr) :
  Forall2 encloses envI env -> defined env e ->
  encloses (@ev I.type IvTNum envI e) (@ev R RTNum env e).
Proof. unfold encloses. intros Henv Hd. rewrite <- (evX_real env e Hd). apply ev_enclosure.
  clear Hd. induction Henv as [|xi x envI env Hc _ IH]; cbn [map]; constructor; assumption. Qed.

(* ---------------- reification of the straight-line kernels of the models ---------------- *)
Ltac index_of x l :=
  lazymatch l with
  | x :: _ => constr:(0%nat)
  | _ :: ?r => let i := index_of x r in constr:(S i)
  end.
Ltac reify env t :=
  lazymatch t with
  | @n0 _ _ => constr:(EZero)
  | @n1 _ _ => constr:(EOne)
  | @nofZ _ _ ?z => constr:(ECst z)
  | @npi _ _ => constr:(EPi)
  | @nadd _ _ ?a ?b => let a' := reify env a in let b' := reify env b in constr:(EAdd a' b')
  | @nsub _ _ ?a ?b => let a' := reify env a in let b' := reify env b in constr:(ESub a' b')
  | @nmul _ _ ?a ?b => let a' := reify env a in let b' := reify env b in constr:(EMul a' b')
  | @ndiv _ _ ?a ?b => let a' := reify env a in let b' := reify env b in constr:(EDiv a' b')
  | @nopp _ _ ?a => let a' := reify env a in constr:(EOpp a')
  | @nexp _ _ ?a => let a' := reify env a in constr:(EExp a')
  | @nln _ _ ?a => let a' := reify env a in constr:(ELn a')
  | @nsqrt _ _ ?a => let a' := reify env a in constr:(ESqrt a')
  | _ => let i := index_of t env in constr:(EVar i)
  end.

From TV Require Import ListNum Model_C01 Model_C02 Model_C04 Model_C06 Model_C11 Model_C12 Model_C17 Model_C19 Model_C20.

Section Trees.
  Context {T : Type} {N : TNum T} (a b c d e f g h i j : T).
  Definition planck_e : expr := ltac:(let t := eval cbv delta [planck micro n2] beta zeta in (planck a b c d e) in
                                      let r := reify [a; b; c; d; e] t in exact r).
  Definition eclipse_e : expr := ltac:(let t := eval cbv delta [eclipse] beta zeta in (eclipse a b c d) in
                                       let r := reify [a; b; c; d] t in exact r).
  Definition direct_e : expr := ltac:(let t := eval cbv delta [direct n2] beta zeta in (direct a b c) in
                                      let r := reify [a; b; c] t in exact r).
  Definition half_chord_e : expr := ltac:(let t := eval cbv delta [half_chord] beta zeta in (half_chord a b) in
                                          let r := reify [a; b] t in exact r).
  Definition k_lin_e : expr := ltac:(let t := eval cbv delta [k_lin] beta zeta in (k_lin a b c d e) in
                                     let r := reify [a; b; c; d; e] t in exact r).
  Definition k_bilin_e : expr := ltac:(let t := eval cbv delta [k_bilin] beta zeta in (k_bilin a b c d e f g h i j) in
                                       let r := reify [a; b; c; d; e; f; g; h; i; j] t in exact r).
  Definition k_exp_e : expr := ltac:(let t := eval cbv delta [k_exp] beta zeta in (k_exp a b c d e) in
                                     let r := reify [a; b; c; d; e] t in exact r).
  Definition k_explin_e : expr := ltac:(let t := eval cbv delta [k_explin] beta zeta in (k_explin a b c d e f g h i j) in
                                        let r := reify [a; b; c; d; e; f; g; h; i; j] t in exact r).
  Definition normal_pdf_e : expr := ltac:(let t := eval cbv delta [normal_pdf n2] beta zeta in (normal_pdf a b c) in
                                          let r := reify [a; b; c] t in exact r).
  Definition eta_e : expr := ltac:(let t := eval cbv delta [eta n2] beta zeta in (eta a b c) in
                                   let r := reify [a; b; c] t in exact r).
  Definition guillot_T4_e : expr := ltac:(let t := eval cbv delta [guillot_T4 eta n2] beta zeta in (guillot_T4 a b c d e f g h i j) in
                                          let r := reify [a; b; c; d; e; f; g; h; i; j] t in exact r).
  Definition guillot_T_e : expr := ltac:(let t := eval cbv delta [guillot_T guillot_T4 eta n2] beta zeta in (guillot_T a b c d e f g h i j) in
                                         let r := reify [a; b; c; d; e; f; g; h; i; j] t in exact r).
  Definition conv_width_e : expr := ltac:(let t := eval cbv delta [conv_width c10000] beta zeta in (conv_width a b) in
                                          let r := reify [a; b] t in exact r).
  Definition lee_sigma_e : expr := ltac:(let t := eval cbv delta [lee_sigma npow n2] beta zeta in (lee_sigma a b c) in
                                         let r := reify [a; b; c] t in exact r).
End Trees.

(* each kernel IS the evaluation of its tree, at every instance of the number interface (by conversion) *)
Section Reified.
  Context {T : Type} {N : TNum T}.
  Lemma planck_ev a b c d e : planck a b c d e = ev [a; b; c; d; e] planck_e. Proof. reflexivity. Qed.
  Lemma eclipse_ev a b c d : eclipse a b c d = ev [a; b; c; d] eclipse_e. Proof. reflexivity. Qed.
  Lemma direct_ev a b c : direct a b c = ev [a; b; c] direct_e. Proof. reflexivity. Qed.
  Lemma half_chord_ev (a b : T) : half_chord a b = ev [a; b] half_chord_e. Proof. reflexivity. Qed.
  Lemma k_lin_ev (a b c d e : T) : k_lin a b c d e = ev [a; b; c; d; e] k_lin_e. Proof. reflexivity. Qed.
  Lemma k_bilin_ev (a b c d e f g h i j : T) : k_bilin a b c d e f g h i j = ev [a; b; c; d; e; f; g; h; i; j] k_bilin_e.
  Proof. reflexivity. Qed.
  Lemma k_exp_ev a b c d e : k_exp a b c d e = ev [a; b; c; d; e] k_exp_e. Proof. reflexivity. Qed.
  Lemma k_explin_ev a b c d e f g h i j : k_explin a b c d e f g h i j = ev [a; b; c; d; e; f; g; h; i; j] k_explin_e.
  Proof. reflexivity. Qed.
  Lemma normal_pdf_ev a b c : normal_pdf a b c = ev [a; b; c] normal_pdf_e. Proof. reflexivity. Qed.
  Lemma eta_ev a b c : eta a b c = ev [a; b; c] eta_e. Proof. reflexivity. Qed.
  Lemma guillot_T4_ev a b c d e f g h i j : guillot_T4 a b c d e f g h i j = ev [a; b; c; d; e; f; g; h; i; j] guillot_T4_e.
  Proof. reflexivity. Qed.
  Lemma guillot_T_ev a b c d e f g h i j : guillot_T a b c d e f g h i j = ev [a; b; c; d; e; f; g; h; i; j] guillot_T_e.
  Proof. reflexivity. Qed.
  Lemma conv_width_ev (a b : T) : conv_width a b = ev [a; b] conv_width_e. Proof. reflexivity. Qed.
  Lemma lee_sigma_ev a b c : lee_sigma a b c = ev [a; b; c] lee_sigma_e. Proof. reflexivity. Qed.
End Reified.

(* ---------------- the transfer statements ---------------- *)
Notation encl xi x := (encloses xi x).
Ltac kernel_transfer lem :=
  intros; rewrite (lem I.type IvTNum), (lem R RTNum); apply transfer; [repeat (constructor; try assumption)|assumption].


Section Transfers.
  Theorem planck_transfer hI cI kI wI tI h c k w t : encl hI h -> encl cI c -> encl kI k -> encl wI w -> encl tI t ->
    defined [h; c; k; w; t] planck_e -> encl (@planck I.type IvTNum hI cI kI wI tI) (@planck R RTNum h c k w t).
  Proof. kernel_transfer @planck_ev. Qed.
  Theorem eclipse_transfer aI bI cI dI a b c d : encl aI a -> encl bI b -> encl cI c -> encl dI d ->
    defined [a; b; c; d] eclipse_e -> encl (@eclipse I.type IvTNum aI bI cI dI) (@eclipse R RTNum a b c d).
  Proof. kernel_transfer @eclipse_ev. Qed.
  Theorem direct_transfer aI bI cI a b c : encl aI a -> encl bI b -> encl cI c ->
    defined [a; b; c] direct_e -> encl (@direct I.type IvTNum aI bI cI) (@direct R RTNum a b c).
  Proof. kernel_transfer @direct_ev. Qed.
  Theorem half_chord_transfer aI bI a b : encl aI a -> encl bI b ->
    defined [a; b] half_chord_e -> encl (@half_chord I.type IvTNum aI bI) (@half_chord R RTNum a b).
  Proof. kernel_transfer @half_chord_ev. Qed.
  Theorem k_lin_transfer aI bI cI dI eI a b c d e : encl aI a -> encl bI b -> encl cI c -> encl dI d -> encl eI e ->
    defined [a; b; c; d; e] k_lin_e -> encl (@k_lin I.type IvNum aI bI cI dI eI) (@k_lin R RNum a b c d e).
  Proof. kernel_transfer @k_lin_ev. Qed.
  Theorem k_bilin_transfer aI bI cI dI eI fI gI hI iI jI a b c d e f g h i j :
    encl aI a -> encl bI b -> encl cI c -> encl dI d -> encl eI e -> encl fI f -> encl gI g -> encl hI h -> encl iI i -> encl jI j ->
    defined [a; b; c; d; e; f; g; h; i; j] k_bilin_e ->
    encl (@k_bilin I.type IvNum aI bI cI dI eI fI gI hI iI jI) (@k_bilin R RNum a b c d e f g h i j).
  Proof. kernel_transfer @k_bilin_ev. Qed.
  Theorem k_exp_transfer aI bI cI dI eI a b c d e : encl aI a -> encl bI b -> encl cI c -> encl dI d -> encl eI e ->
    defined [a; b; c; d; e] k_exp_e -> encl (@k_exp I.type IvTNum aI bI cI dI eI) (@k_exp R RTNum a b c d e).
  Proof. kernel_transfer @k_exp_ev. Qed.
  Theorem k_explin_transfer aI bI cI dI eI fI gI hI iI jI a b c d e f g h i j :
    encl aI a -> encl bI b -> encl cI c -> encl dI d -> encl eI e -> encl fI f -> encl gI g -> encl hI h -> encl iI i -> encl jI j ->
    defined [a; b; c; d; e; f; g; h; i; j] k_explin_e ->
    encl (@k_explin I.type IvTNum aI bI cI dI eI fI gI hI iI jI) (@k_explin R RTNum a b c d e f g h i j).
  Proof. kernel_transfer @k_explin_ev. Qed.
  Theorem normal_pdf_transfer aI bI cI a b c : encl aI a -> encl bI b -> encl cI c ->
    defined [a; b; c] normal_pdf_e -> encl (@normal_pdf I.type IvTNum aI bI cI) (@normal_pdf R RTNum a b c).
  Proof. kernel_transfer @normal_pdf_ev. Qed.
  Theorem eta_transfer aI bI cI a b c : encl aI a -> encl bI b -> encl cI c ->
    defined [a; b; c] eta_e -> encl (@eta I.type IvTNum aI bI cI) (@eta R RTNum a b c).
  Proof. kernel_transfer @eta_ev. Qed.
  Theorem guillot_T_transfer aI bI cI dI eI fI gI hI iI jI a b c d e f g h i j :
    encl aI a -> encl bI b -> encl cI c -> encl dI d -> encl eI e -> encl fI f -> encl gI g -> encl hI h -> encl iI i -> encl jI j ->
    defined [a; b; c; d; e; f; g; h; i; j] guillot_T_e ->
    encl (@guillot_T I.type IvTNum aI bI cI dI eI fI gI hI iI jI) (@guillot_T R RTNum a b c d e f g h i j).
  Proof. kernel_transfer @guillot_T_ev. Qed.
  Theorem conv_width_transfer aI bI a b : encl aI a -> encl bI b ->
    defined [a; b] conv_width_e -> encl (@conv_width I.type IvNum aI bI) (@conv_width R RNum a b).
  Proof. kernel_transfer @conv_width_ev. Qed.
  Theorem lee_sigma_transfer aI bI cI a b c : encl aI a -> encl bI b -> encl cI c ->
    defined [a; b; c] lee_sigma_e -> encl (@lee_sigma I.type IvTNum aI bI cI) (@lee_sigma R RTNum a b c).
  Proof. kernel_transfer @lee_sigma_ev. Qed.
End Transfers.

(* ================= list-structured models without comparisons =================
   Sums over layers, the correlated-k mixture and the slant optical-depth loop contain no branch on a number (the
   saturation flags of the emission integral are inputs), so the enclosure follows by induction over the lists from the
   operation-level lemmas. *)
(* ---- operation-level enclosure on real values ---- *)
Lemma encl_zero : encloses (@n0 _ IvNum) 0%R. Proof. apply (I.fromZ_correct prec 0). Qed.
Lemma encl_add a b x y : encloses a x -> encloses b y -> encloses (@nadd _ IvNum a b) (x + y)%R.
Proof. intros Ha Hb. exact (I.add_correct prec a b (Xreal x) (Xreal y) Ha Hb). Qed.
Lemma encl_sub a b x y : encloses a x -> encloses b y -> encloses (@nsub _ IvNum a b) (x - y)%R.
Proof. intros Ha Hb. exact (I.sub_correct prec a b (Xreal x) (Xreal y) Ha Hb). Qed.
Lemma encl_mul a b x y : encloses a x -> encloses b y -> encloses (@nmul _ IvNum a b) (x * y)%R.
Proof. intros Ha Hb. exact (I.mul_correct prec a b (Xreal x) (Xreal y) Ha Hb). Qed.
Lemma encl_opp a x : encloses a x -> encloses (@nopp _ IvNum a) (- x)%R.
Proof. intros Ha. exact (I.neg_correct a (Xreal x) Ha). Qed.
Lemma encl_exp a x : encloses a x -> encloses (@nexp _ IvTNum a) (exp x).
Proof. intros Ha. exact (Iexp_correct a (Xreal x) Ha). Qed.

(* ---- lists: pointwise enclosure ---- *)
Definition encl_list (lI : list I.type) (lR : list R) : Prop := Forall2 encloses lI lR.

Lemma encl_nsum lI lR : encl_list lI lR -> encloses (@nsum _ IvNum lI) (@nsum R RNum lR).
Proof. induction 1 as [|a x lI lR Hax _ IH]; [exact encl_zero|].
  unfold nsum. cbn [fold_right]. apply encl_add; assumption. Qed.

Lemma encl_nth_d lI lR i : encl_list lI lR -> encloses (@nth_d _ IvNum lI i) (@nth_d R RNum lR i).
Proof. intros H. revert i. induction H as [|a x lI lR Hax _ IH]; intros [|i]; unfold nth_d; cbn [nth];
    try exact encl_zero; [exact Hax|apply IH]. Qed.

Lemma encl_skipn lI lR k : encl_list lI lR -> encl_list (skipn k lI) (skipn k lR).
Proof. intros H. revert k. induction H as [|a x lI lR Hax Hl IH]; intros [|k]; cbn [skipn]; try constructor; try assumption.
  apply IH. Qed.

Lemma encl_length lI lR : encl_list lI lR -> length lI = length lR.
Proof. induction 1; cbn [length]; congruence. Qed.

Lemma encl_map_seq (f : nat -> I.type) (g : nat -> R) a n :
  (forall i, encloses (f i) (g i)) -> encl_list (map f (seq a n)) (map g (seq a n)).
Proof. intros H. revert a. induction n as [|n IH]; intros a; cbn [seq map]; constructor; [apply H|apply IH]. Qed.

(* ---- the layered emission integral (Model_C02.intensity): clamp flags are inputs, so nothing branches on a number ---- *)
Lemma encl_above dI dR l : encl_list dI dR -> encloses (@above _ IvNum dI l) (@above R RNum dR l).
Proof. intros H. unfold above. apply encl_nsum, encl_skipn, H. Qed.
Lemma encl_upto dI dR l : encl_list dI dR -> encloses (@upto _ IvNum dI l) (@upto R RNum dR l).
Proof. intros H. unfold upto. apply encl_add; [apply encl_above, H|apply encl_nth_d, H]. Qed.
Lemma encl_att c tI tR mI mR : encloses tI tR -> encloses mI mR ->
  encloses (@att _ IvTNum c tI mI) (@att R RTNum c tR mR).
Proof. intros Ht Hm. unfold att. destruct c; [exact encl_zero|]. apply encl_exp, encl_opp, encl_mul; assumption. Qed.

Theorem intensity_transfer BI BR dI dR cA cD mI mR :
  encl_list BI BR -> encl_list dI dR -> encloses mI mR ->
  encloses (@intensity _ IvTNum BI dI cA cD mI) (@intensity R RTNum BR dR cA cD mR).
Proof. intros HB Hd Hm. unfold intensity. apply encl_add.
  - apply encl_mul; [apply encl_nth_d, HB|]. apply encl_exp, encl_opp, encl_mul; [apply encl_nsum, Hd|exact Hm].
  - rewrite (encl_length _ _ Hd). apply encl_nsum, encl_map_seq. intros l.
    apply encl_mul; [apply encl_nth_d, HB|]. apply encl_sub; apply encl_att; try assumption;
      [apply encl_above, Hd|apply encl_upto, Hd]. Qed.

(* ---- the correlated-k intensity (Model_C02.kintensity) ---- *)
Lemma encl_ktrans wI wR tI tR : encl_list wI wR -> encl_list tI tR ->
  encloses (@ktrans _ IvTNum wI tI) (@ktrans R RTNum wR tR).
Proof. intros Hw Ht. unfold ktrans.
  assert (Hacc : forall aI aR, encloses aI aR ->
     encloses (fold_left (fun acc p => @nadd _ IvNum acc (@nmul _ IvNum (@nexp _ IvTNum (@nopp _ IvNum (fst p))) (snd p))) (combine tI wI) aI)
              (fold_left (fun acc p => (acc + exp (- fst p) * snd p)%R) (combine tR wR) aR)).
  { revert wI wR Hw. induction Ht as [|t x tI tR Htx _ IH]; intros wI wR Hw aI aR Ha; [exact Ha|].
    destruct Hw as [|w y wI wR Hwy Hw]; [exact Ha|]. cbn [combine fold_left fst snd].
    apply IH; [exact Hw|]. apply encl_add; [exact Ha|]. apply encl_mul; [apply encl_exp, encl_opp, Htx|exact Hwy]. }
  apply Hacc. exact encl_zero. Qed.

Lemma encl_kcol kdI kdR g : Forall2 encl_list kdI kdR -> encl_list (@kcol _ IvTNum kdI g) (@kcol R RTNum kdR g).
Proof. intros H. unfold kcol. induction H as [|rI rR kdI kdR Hr _ IH]; cbn [map]; constructor; [apply encl_nth_d, Hr|exact IH]. Qed.

Lemma encl_ktr wI wR kdI kdR (selI : list I.type -> I.type) (selR : list R -> R) mI mR :
  encl_list wI wR -> Forall2 encl_list kdI kdR -> encloses mI mR ->
  (forall cI cR, encl_list cI cR -> encloses (selI cI) (selR cR)) ->
  encloses (@Model_C02.ktr _ IvTNum wI kdI selI mI) (@Model_C02.ktr R RTNum wR kdR selR mR).
Proof. intros Hw Hk Hm Hsel. unfold Model_C02.ktr, kmix. apply encl_ktrans; [exact Hw|].
  rewrite (encl_length _ _ Hw). apply encl_map_seq. intros g. apply encl_mul; [apply Hsel, encl_kcol, Hk|exact Hm]. Qed.

Theorem kintensity_transfer BI BR dI dR kdI kdR wI wR mI mR :
  encl_list BI BR -> encl_list dI dR -> Forall2 encl_list kdI kdR -> encl_list wI wR -> encloses mI mR ->
  encloses (@kintensity _ IvTNum BI dI kdI wI mI) (@kintensity R RTNum BR dR kdR wR mR).
Proof. intros HB Hd Hk Hw Hm. unfold kintensity, ksurface. apply encl_add.
  - apply encl_mul; [apply encl_nth_d, HB|]. apply encl_mul.
    + apply encl_exp, encl_opp, encl_mul; [apply encl_nsum, Hd|exact Hm].
    + apply encl_ktr; try assumption. intros cI cR Hc. apply encl_nsum, Hc.
  - rewrite (encl_length _ _ Hd). apply encl_nsum, encl_map_seq. intros l.
    apply encl_mul; [apply encl_nth_d, HB|]. apply encl_sub; apply encl_mul.
    + apply encl_exp, encl_opp, encl_mul; [apply encl_above, Hd|exact Hm].
    + apply encl_ktr; try assumption. intros cI cR Hc. apply encl_above, Hc.
    + apply encl_exp, encl_opp, encl_mul; [apply encl_upto, Hd|exact Hm].
    + apply encl_ktr; try assumption. intros cI cR Hc. apply encl_upto, Hc. Qed.

(* ---- more operations ---- *)
Lemma encl_div a b x y : encloses a x -> encloses b y -> y <> 0%R -> encloses (@ndiv _ IvNum a b) (x / y)%R.
Proof. intros Ha Hb Hy. pose proof (I.div_correct prec a b (Xreal x) (Xreal y) Ha Hb) as H.
  cbn [Xdiv] in H. unfold Xdiv' in H. destruct (is_zero_spec y) as [Hz|Hz]; [contradiction|exact H]. Qed.
Lemma encl_ln a x : encloses a x -> (0 < x)%R -> encloses (@nln _ IvTNum a) (ln x).
Proof. intros Ha Hx. pose proof (I.ln_correct prec a (Xreal x) Ha) as H.
  cbn [Xln Xbind] in H. unfold Xln' in H. destruct (is_positive_spec x) as [Hp|Hp]; [exact H|lra]. Qed.
Lemma encl_sqrt a x : encloses a x -> (0 <= x)%R -> encloses (@nsqrt _ IvTNum a) (sqrt x).
Proof. intros Ha Hx. pose proof (I.sqrt_correct prec a (Xreal x) Ha) as H.
  cbn [Xsqrt Xbind] in H. unfold Xsqrt' in H. destruct (is_negative_spec x) as [Hp|Hp]; [lra|exact H]. Qed.
Lemma encl_ofZ z : encloses (@nofZ _ IvNum z) (IZR z). Proof. apply I.fromZ_correct. Qed.
Lemma encl_pi : encloses (@npi _ IvTNum) PI. Proof. apply I.pi_correct. Qed.

(* ---- slant optical depth (Model_C01.tau_loop): the loop of contribute_tau / contribute_cia ---- *)
Lemma encl_sig_at sI sR l w : Forall2 encl_list sI sR -> encloses (@sig_at _ IvNum sI l w) (@sig_at R RNum sR l w).
Proof. intros H. unfold sig_at. apply encl_nth_d. revert l. induction H as [|a x sI sR Hax _ IH]; intros [|l]; cbn [nth];
    try constructor; [exact Hax|apply IH]. Qed.

Theorem tau_loop_transfer sq sI sR rI rR pI pR l w :
  Forall2 encl_list sI sR -> encl_list rI rR -> encl_list pI pR ->
  encloses (@tau_loop _ IvNum sq sI rI pI l w) (@tau_loop R RNum sq sR rR pR l w).
Proof. intros Hs Hr Hp. unfold tau_loop. rewrite (encl_length _ _ Hp).
  generalize (seq 0 (length pR)). intros ks.
  assert (Hacc : forall aI aR, encloses aI aR ->
    encloses (fold_left (fun acc k => let d := @nth_d _ IvNum rI (k + l) in let d0 := if sq then @nmul _ IvNum d d else d in
                                     @nadd _ IvNum acc (@nmul _ IvNum (@nmul _ IvNum (@sig_at _ IvNum sI (k + l) w) (@nth_d _ IvNum pI k)) d0)) ks aI)
             (fold_left (fun acc k => let d := @nth_d R RNum rR (k + l) in let d0 := if sq then (d * d)%R else d in
                                     (acc + @sig_at R RNum sR (k + l) w * @nth_d R RNum pR k * d0)%R) ks aR)).
  { induction ks as [|k ks IH]; intros aI aR Ha; [exact Ha|]. cbn [fold_left]. apply IH.
    apply encl_add; [exact Ha|]. apply encl_mul; [apply encl_mul; [apply encl_sig_at, Hs|apply encl_nth_d, Hp]|].
    destruct sq; [apply encl_mul; apply encl_nth_d, Hr|apply encl_nth_d, Hr]. }
  apply Hacc. exact encl_zero. Qed.


(* ---- correlated-k optical depth of one layer (Model_C20.ktau): -ln of the mixture, which must be positive ---- *)
Lemma encl_ksig_at sI sR l w g : Forall2 (Forall2 encl_list) sI sR ->
  encloses (@ksig_at _ IvTNum sI l w g) (@ksig_at R RTNum sR l w g).
Proof. intros H. unfold ksig_at. apply encl_nth_d.
  assert (Hl : Forall2 encl_list (nth l sI []) (nth l sR [])).
  { revert l. induction H as [|a x sI sR Hax _ IH]; intros [|l]; cbn [nth]; try constructor; [exact Hax|apply IH]. }
  revert w. induction Hl as [|a x rI rR Hax _ IH]; intros [|w]; cbn [nth]; try constructor; [exact Hax|apply IH]. Qed.

Lemma encl_ktau_g sI sR rI rR pI pR l w g :
  Forall2 (Forall2 encl_list) sI sR -> encl_list rI rR -> encl_list pI pR ->
  encloses (@ktau_g _ IvTNum sI rI pI l w g) (@ktau_g R RTNum sR rR pR l w g).
Proof. intros Hs Hr Hp. unfold ktau_g. rewrite (encl_length _ _ Hp). generalize (seq 0 (length pR)). intros ks.
  assert (Hacc : forall aI aR, encloses aI aR ->
    encloses (fold_left (fun acc k => @nadd _ IvNum acc (@nmul _ IvNum (@nmul _ IvNum (@ksig_at _ IvTNum sI (k + l) w g) (@nth_d _ IvNum pI k)) (@nth_d _ IvNum rI (k + l)))) ks aI)
             (fold_left (fun acc k => (acc + @ksig_at R RTNum sR (k + l) w g * @nth_d R RNum pR k * @nth_d R RNum rR (k + l))%R) ks aR)).
  { induction ks as [|k ks IH]; intros aI aR Ha; [exact Ha|]. cbn [fold_left]. apply IH.
    apply encl_add; [exact Ha|]. apply encl_mul; [apply encl_mul; [apply encl_ksig_at, Hs|apply encl_nth_d, Hp]|apply encl_nth_d, Hr]. }
  apply Hacc. exact encl_zero. Qed.

Theorem ktau_transfer sI sR wI wR rI rR pI pR l w :
  Forall2 (Forall2 encl_list) sI sR -> encl_list wI wR -> encl_list rI rR -> encl_list pI pR ->
  (0 < @ktrans R RTNum wR (map (@ktau_g R RTNum sR rR pR l w) (seq 0 (length wR))))%R ->
  encloses (@ktau _ IvTNum sI wI rI pI l w) (@ktau R RTNum sR wR rR pR l w).
Proof. intros Hs Hw Hr Hp Hpos. unfold ktau. apply encl_opp, encl_ln; [|exact Hpos].
  apply encl_ktrans; [exact Hw|]. rewrite (encl_length _ _ Hw). apply encl_map_seq. intros g.
  apply encl_ktau_g; assumption. Qed.

(* ---- Gaussian log-likelihood (Model_C06): positive error bars on the real side ---- *)
Lemma encl_chisq dI dR sI sR mI mR : encl_list dI dR -> encl_list sI sR -> encl_list mI mR ->
  Forall (fun s => s <> 0%R) sR ->
  encloses (@chisq _ IvTNum dI sI mI) (@chisq R RTNum dR sR mR).
Proof. intros Hd Hs Hm Hnz. unfold chisq. apply encl_nsum.
  revert sI sR Hs Hnz mI mR Hm. induction Hd as [|d x dI dR Hdx _ IH]; intros sI sR Hs Hnz mI mR Hm; cbn [combine map2]; [constructor|].
  destruct Hs as [|s y sI sR Hsy Hs]; cbn [combine map2]; [constructor|].
  destruct Hm as [|m z mI mR Hmz Hm]; cbn [map2]; [constructor|]. inversion Hnz; subst.
  constructor; [|apply IH; assumption]. cbn [fst snd].
  apply encl_mul; apply encl_div; try assumption; apply encl_sub; assumption. Qed.

Theorem gauss_loglike_transfer dI dR sI sR mI mR : encl_list dI dR -> encl_list sI sR -> encl_list mI mR ->
  Forall (fun s => 0 < s)%R sR ->
  encloses (@gauss_loglike _ IvTNum dI sI mI) (@gauss_loglike R RTNum dR sR mR).
Proof. intros Hd Hs Hm Hpos. unfold gauss_loglike. apply encl_sub.
  - apply encl_opp, encl_nsum. clear Hd Hm. induction Hs as [|s y sI sR Hsy _ IH]; cbn [map]; [constructor|].
    inversion Hpos; subst. constructor; [|apply IH; assumption].
    assert (H2pi : (0 < 2 * PI)%R) by (pose proof PI_RGT_0; lra).
    apply encl_ln.
    + apply encl_mul; [exact Hsy|]. apply encl_sqrt; [|unfold n2; cbn; lra].
      unfold n2. apply encl_mul; [apply encl_ofZ|apply encl_pi].
    + apply Rmult_lt_0_compat; [assumption|]. apply sqrt_lt_R0. unfold n2. cbn. exact H2pi.
  - apply encl_div.
    + apply encl_chisq; try assumption. eapply Forall_impl; [|exact Hpos]. cbn. intros a Ha. lra.
    + unfold n2. apply encl_ofZ.
    + unfold n2. cbn. lra. Qed.

(* the angle quadrature of the emission model: 2 pi sum_i I_i(w) * (w_i / (1/mu_i)), for non-zero nodes *)
Theorem flux_transfer IsI IsR muI muR wtI wtR w :
  Forall2 encl_list IsI IsR -> encl_list muI muR -> encl_list wtI wtR -> Forall (fun mu => mu <> 0%R) muR ->
  encloses (@flux _ IvTNum IsI muI wtI w) (@flux R RTNum IsR muR wtR w).
Proof. intros HI Hmu Hwt Hnz. unfold flux. apply encl_mul; [apply encl_mul; [unfold n2; apply encl_ofZ|apply encl_pi]|].
  apply encl_nsum.
  revert muI muR Hmu Hnz wtI wtR Hwt. induction HI as [|iI iR IsI IsR Hi _ IH]; intros muI muR Hmu Hnz wtI wtR Hwt; cbn [map2]; [constructor|].
  destruct Hmu as [|mI mR muI muR Hm Hmu]; cbn [combine map2]; [constructor|].
  destruct Hwt as [|wI wR wtI wtR Hw Hwt]; cbn [combine map2]; [constructor|]. inversion Hnz; subst.
  constructor; [|apply IH; assumption]. cbn [fst snd].
  apply encl_mul; [apply encl_nth_d, Hi|]. apply encl_div; [exact Hw| |].
  - apply encl_div; [apply (I.fromZ_correct prec 1)|exact Hm|assumption].
  - cbn. unfold Rdiv. rewrite Rmult_1_l. apply Rinv_neq_0_compat. assumption. Qed.

(* the hydrostatic recurrence (Model_C11.layers): no branch on a number, but divisions and a logarithm per layer;
   [layers_def] lists what must hold on the real side for every layer *)
Fixpoint layers_def (GM R0 k z Pj : R) (Pnext Ts ms : list R) : Prop :=
  match Pnext, Ts, ms with
  | P1 :: Prest, t :: Ts', m :: ms' =>
      let g := (GM / ((R0 + z) * (R0 + z)))%R in
      let H := (k * t / (m * g))%R in
      let dz := (- (1) * H * ln (P1 / Pj))%R in
      ((R0 + z) * (R0 + z) <> 0 /\ m * g <> 0 /\ Pj <> 0 /\ 0 < P1 / Pj)%R
      /\ layers_def GM R0 k (z + dz)%R P1 Prest Ts' ms'
  | _, _, _ => True
  end.

Definition encl_row (rI : I.type * I.type * I.type * I.type) (rR : R * R * R * R) : Prop :=
  encloses (fst (fst (fst rI))) (fst (fst (fst rR))) /\ encloses (snd (fst (fst rI))) (snd (fst (fst rR)))
  /\ encloses (snd (fst rI)) (snd (fst rR)) /\ encloses (snd rI) (snd rR).

Theorem layers_transfer GMI GM RI R0 kI k :
  encloses GMI GM -> encloses RI R0 -> encloses kI k ->
  forall PnI PnR, encl_list PnI PnR -> forall TsI TsR, encl_list TsI TsR -> forall msI msR, encl_list msI msR ->
  forall zI z PjI Pj, encloses zI z -> encloses PjI Pj -> layers_def GM R0 k z Pj PnR TsR msR ->
  Forall2 encl_row (fst (@layers _ IvTNum GMI RI kI zI PjI PnI TsI msI)) (fst (@layers R RTNum GM R0 k z Pj PnR TsR msR))
  /\ encloses (snd (@layers _ IvTNum GMI RI kI zI PjI PnI TsI msI)) (snd (@layers R RTNum GM R0 k z Pj PnR TsR msR)).
Proof. intros HGM HR Hk PnI PnR HP. induction HP as [|P1I P1 PnI PnR HP1 HP IH]; intros TsI TsR HT msI msR Hm zI z PjI Pj Hz HPj Hdef.
  - cbn [layers fst snd]. split; [constructor|exact Hz].
  - destruct HT as [|tI t TsI TsR Ht HT]; [cbn [layers fst snd]; split; [constructor|exact Hz]|].
    destruct Hm as [|mI m msI msR Hmm Hm]; [cbn [layers fst snd]; split; [constructor|exact Hz]|].
    cbn [layers_def] in Hdef. destruct Hdef as [[Hd1 [Hd2 [Hd3 Hd4]]] Hrest].
    cbn [layers].
    match goal with |- context [@layers _ IvTNum GMI RI kI ?zn P1I PnI TsI msI] => set (zIn := zn) end.
    match goal with |- context [@layers R RTNum GM R0 k ?zn P1 PnR TsR msR] => set (zRn := zn) end.
    assert (Hg : encloses (@ndiv _ IvNum GMI (@nmul _ IvNum (@nadd _ IvNum RI zI) (@nadd _ IvNum RI zI)))
                          (GM / ((R0 + z) * (R0 + z)))%R).
    { apply encl_div; [exact HGM|apply encl_mul; apply encl_add; assumption|exact Hd1]. }
    assert (HH : encloses (@ndiv _ IvNum (@nmul _ IvNum kI tI) (@nmul _ IvNum mI (@ndiv _ IvNum GMI (@nmul _ IvNum (@nadd _ IvNum RI zI) (@nadd _ IvNum RI zI)))))
                          (k * t / (m * (GM / ((R0 + z) * (R0 + z)))))%R).
    { apply encl_div; [apply encl_mul; assumption|apply encl_mul; assumption|exact Hd2]. }
    assert (Hdz : encloses (@nmul _ IvNum (@nmul _ IvNum (@nopp _ IvNum (@n1 _ IvNum)) (@ndiv _ IvNum (@nmul _ IvNum kI tI) (@nmul _ IvNum mI (@ndiv _ IvNum GMI (@nmul _ IvNum (@nadd _ IvNum RI zI) (@nadd _ IvNum RI zI)))))) (@nln _ IvTNum (@ndiv _ IvNum P1I PjI)))
                           (- (1) * (k * t / (m * (GM / ((R0 + z) * (R0 + z))))) * ln (P1 / Pj))%R).
    { apply encl_mul; [apply encl_mul; [apply encl_opp, (I.fromZ_correct prec 1)|exact HH]|].
      apply encl_ln; [apply encl_div; assumption|exact Hd4]. }
    assert (Hzn : encloses zIn zRn) by (subst zIn zRn; apply encl_add; [exact Hz|exact Hdz]).
    specialize (IH TsI TsR HT msI msR Hm zIn zRn P1I P1 Hzn HP1 Hrest).
    destruct (@layers _ IvTNum GMI RI kI zIn P1I PnI TsI msI) as [rowsI zfI].
    destruct (@layers R RTNum GM R0 k zRn P1 PnR TsR msR) as [rowsR zfR].
    cbn [fst snd] in *. destruct IH as [IHr IHz]. split; [|exact IHz].
    constructor; [|exact IHr]. unfold encl_row. cbn [fst snd]. repeat split; assumption. Qed.
