(* Model_C10.v — atmospheric composition
   (taurex/data/profiles/chemistry/taurexchemistry.py : initialize_chemistry, fill_atmosphere ;
    autochemistry.py : determine_active_inactive, compute_mu_profile ;
    gas/constantgas.py, twopointgas.py, arraygas.py, powergas.py, twolayergas.py). *)
From Coq Require Import ZArith List Bool Arith.
From TV Require Import Num ListNum Model_C12.
Import ListNotations.

Section Mixture.
  Context {T : Type} {N : Num T}.
  Local Open Scope num_scope.

  (* per-layer sum of the trace profiles (each trace: one value per layer) *)
  Definition total_trace (nl : nat) (traces : list (list T)) : list T :=
    fold_left vadd traces (repeat n0 nl).

  (* fill_atmosphere: one fill gas takes the whole remainder; otherwise
     main = rem / (1 + sum ratios), other_j = ratio_j * main *)
  Definition fill_rows (nfill : nat) (ratios : list T) (rem : list T) : list (list T) :=
    match nfill with
    | 1%nat => [rem]
    | _ => let main := map (fun r => r * (n1 / (n1 + nsum ratios))) rem in
           main :: map (fun ratio => map (fun m => ratio * m) main) ratios
    end.

  (* initialize_chemistry: None = InvalidChemistryException (some layer has traces > 1) *)
  Definition mixture (nl nfill : nat) (ratios : list T) (traces : list (list T)) : option (list (list T)) :=
    let tot := total_trace nl traces in
    if existsb (fun x => n1 <? x) tot then None
    else Some (fill_rows nfill ratios (map (fun x => n1 - x) tot) ++ traces).

  (* mean molecular weight: sum_i mix_i[l] * mass_i *)
  Definition mu_profile (nl : nat) (rows : list (list T)) (masses : list T) : list T :=
    fold_left vadd (map2 (fun row m => map (fun x => x * m) row) rows masses) (repeat n0 nl).

  (* active / inactive split by availability of opacity data (one flag per gas, in gas order) *)
  Definition split_rows {A} (flags : list bool) (rows : list A) : list A * list A :=
    (map snd (filter (fun p => fst p) (combine flags rows)),
     map snd (filter (fun p => negb (fst p)) (combine flags rows))).

  (* ---- profiles that need only field operations ---- *)
  Definition constant_gas (nl : nat) (v : T) : list T := repeat v nl.

  (* ArrayGas: np.interp(linspace(0,1,nl), linspace(0,1,len(arr)), arr) *)
  Definition linspace01 (n : nat) : list T :=
    match n with
    | 0%nat => []
    | 1%nat => [n0]
    | _ => map (fun i => nofnat i / nofnat (n - 1)) (seq 0 n)
    end.
  Definition array_gas (nl : nat) (arr : list T) : list T :=
    map (np_interp (linspace01 (length arr)) arr) (linspace01 nl).
End Mixture.

Section LogProfiles.
  Context {T : Type} {N : TNum T}.
  Local Open Scope num_scope.

  (* TwoPointGas: a = (lg surf - lg top)/(lg Psurf - lg Ptop); b = lg surf - a lg Psurf;
     interior 10^(a lg P + b), ends pinned *)
  Definition twopoint_gas (P : list T) (surf top : T) : list T :=
    let n := length P in
    let ps := nth_d P 0 in
    let pt := nth_d P (n - 1) in
    let a := (nlog10 surf - nlog10 top) / (nlog10 ps - nlog10 pt) in
    let b := nlog10 surf - a * nlog10 ps in
    map (fun i => if (i =? 0)%nat then surf
                  else if (i =? n - 1)%nat then top
                  else npow10 (a * nlog10 (nth_d P i) + b))
        (seq 0 n).

  (* PowerGas: Ad = 10^-gamma * Pbar^alpha * 10^(beta/T);  mix = (1/(1/sqrt(ms) + 1/sqrt(Ad)))^2 *)
  Definition npowr (x y : T) : T := nexp (y * nln x).
  Definition power_gas (P Ts : list T) (ms alpha beta gamma : T) : list T :=
    map2 (fun p t =>
            let pbar := p * (n1 / nofZ 100000) in
            let Ad := npow10 (gamma * (- n1)) * npowr pbar alpha * npow10 (beta / t) in
            let m := n1 / nsqrt ms + n1 / nsqrt Ad in
            (n1 / m) * (n1 / m))
         P Ts.

End LogProfiles.

Section TwoLayer.
  Context {T : Type} {N : Num T}.
  Local Open Scope num_scope.
  (* TwoLayerGas.initialize_profile, in log10 of the mixing ratio: nodes at ln P of the surface, the two ends of the
     transition and the top, with values surface, surface, top, top; interpolated over ln P, smoothed with a moving
     average of odd width and spliced (the same routine as the N-point temperature profile) *)
  Definition twolayer_log (lnP : list T) (start_l end_l : nat) (ls lt : T) (wsize0 : nat) : list T :=
    smooth_profile lnP [nth_d lnP 0; nth_d lnP start_l; nth_d lnP end_l; nth_d lnP (length lnP - 1)]
                   [ls; ls; lt; lt] wsize0.
End TwoLayer.
