(* SortR.v — the insertion sort of ListNum at the real instance: it sorts, it permutes,
   and with pairwise distinct keys the result does not depend on the input order. *)
From Coq Require Import ZArith Reals List Bool Arith Lia Lra Permutation Sorting.Sorted.
From TV Require Import Num ListNum.
Import ListNotations.
Local Open Scope R_scope.

Section SortR.
  Context {A : Type} (key : A -> R).
  Notation ins := (@insert_by R RNum A key).
  Notation srt := (@isort_by R RNum A key).

  Definition klt (x y : A) : Prop := key x < key y.
  Definition kle (x y : A) : Prop := key x <= key y.

  Lemma insert_perm a l : Permutation (a :: l) (ins a l).
  Proof. induction l as [|b l IH]; simpl; [reflexivity|]. rnum.
    destruct (Rltb (key a) (key b)); [reflexivity|].
    rewrite perm_swap. apply perm_skip. exact IH. Qed.

  Lemma insert_In a l x : In x (ins a l) -> x = a \/ In x l.
  Proof. intros H. apply (Permutation_in _ (Permutation_sym (insert_perm a l))) in H.
    destruct H; [left; symmetry; assumption|right; assumption]. Qed.

  Lemma insert_sorted a l : StronglySorted kle l -> StronglySorted kle (ins a l).
  Proof. induction 1 as [|b l Hs IH Hb]; simpl; [repeat constructor|]. rnum.
    destruct (Rltb (key a) (key b)) eqn:E.
    - apply Rltb_true in E. constructor; [constructor; assumption|].
      constructor; [unfold kle; lra|]. rewrite Forall_forall in *. intros x Hx.
      specialize (Hb x Hx). unfold kle in *. lra.
    - apply Rltb_false in E. constructor; [exact IH|].
      apply Forall_forall. intros x Hx. apply insert_In in Hx. destruct Hx as [->|Hx]; [exact E|].
      rewrite Forall_forall in Hb. apply Hb. exact Hx. Qed.

  Lemma fold_insert_perm l acc : Permutation (l ++ acc) (fold_left (fun ac a => ins a ac) l acc).
  Proof. revert acc. induction l as [|a l IH]; intros acc; simpl; [reflexivity|].
    rewrite <- IH. rewrite <- insert_perm. apply Permutation_middle. Qed.

  Lemma fold_insert_sorted l acc : StronglySorted kle acc ->
    StronglySorted kle (fold_left (fun ac a => ins a ac) l acc).
  Proof. revert acc. induction l as [|a l IH]; intros acc H; simpl; [exact H|].
    apply IH. apply insert_sorted. exact H. Qed.

  Lemma isort_perm l : Permutation l (srt l).
  Proof. unfold isort_by. rewrite <- fold_insert_perm. rewrite app_nil_r. reflexivity. Qed.

  Lemma isort_sorted l : StronglySorted kle (srt l).
  Proof. unfold isort_by. apply fold_insert_sorted. constructor. Qed.

  Lemma isort_length l : length (srt l) = length l.
  Proof. symmetry. apply Permutation_length. apply isort_perm. Qed.

  (* two sorted lists with pairwise distinct keys that are permutations of each other are equal *)
  Lemma sorted_perm_unique l l' :
    StronglySorted kle l -> StronglySorted kle l' -> NoDup (map key l) -> Permutation l l' -> l = l'.
  Proof. revert l'. induction l as [|x r IH]; intros l' Hs Hs' Hnd Hp.
    - apply Permutation_nil in Hp. subst. reflexivity.
    - destruct l' as [|y r']; [apply Permutation_sym, Permutation_nil in Hp; discriminate|].
      inversion Hs as [|? ? Hsr Hx]; subst. inversion Hs' as [|? ? Hsr' Hy]; subst.
      inversion Hnd as [|? ? Hnin Hnd']; subst.
      rewrite Forall_forall in Hx, Hy.
      assert (Hxy : x = y).
      { assert (Hin : In x (y :: r')) by (apply (Permutation_in _ Hp); left; reflexivity).
        destruct Hin as [->|Hin]; [reflexivity|].
        assert (Hin' : In y (x :: r)) by (apply (Permutation_in _ (Permutation_sym Hp)); left; reflexivity).
        destruct Hin' as [->|Hin']; [reflexivity|].
        specialize (Hx y Hin'). specialize (Hy x Hin). unfold kle in *.
        exfalso. apply Hnin. replace (key x) with (key y) by lra. apply in_map. exact Hin'. }
      subst y. f_equal. apply IH; try assumption. apply Permutation_cons_inv with x. exact Hp.
  Qed.

  Theorem isort_order_independent l l' :
    NoDup (map key l) -> Permutation l l' -> srt l = srt l'.
  Proof. intros Hnd Hp. apply sorted_perm_unique.
    - apply isort_sorted.
    - apply isort_sorted.
    - apply (Permutation_NoDup (l := map key l)); [|exact Hnd]. apply Permutation_map. apply isort_perm.
    - rewrite <- (isort_perm l), <- (isort_perm l'). exact Hp.
  Qed.
End SortR.
