(* Exec_C14.v — executable wrappers (exact rationals) for the C14 correspondence check. *)
From Coq Require Import ZArith QArith List Bool String Ascii.
From TV Require Import Num ListNum Model_C14.
Import ListNotations.

Definition out_table (t : @table Q) : list (list (list Z)) :=
  [map Qout (tb_T t); map Qout (tb_P t); map Qout (tb_wn t); map Qout (List.concat (List.concat (tb_x t)))].

Definition run_pickle (t p w : list Q) (x : list (list (list Q))) := out_table (@load_pickle Q QNum t p w x).
Definition run_hdf5 (u : Q) (t p w : list Q) (x : list (list (list Q))) := out_table (@load_hdf5 Q QNum u t p w x).
Definition run_exo (t p : list Q) (blocks : list (Q * list (list Q))) :=
  out_table (@load_exo Q QNum t p (map (fun b => {| eb_lambda := fst b; eb_rows := snd b |}) blocks)).

(* HITRAN: records (start, end, T, wn, sigma) -> [temperatures; wavenumbers; cross-sections, one row per temperature] *)
Definition run_hitran (recs : list (Q * Q * Q * list Q * list Q)) : list (list (list Z)) :=
  let rs := map (fun r => let '(s, e, t, w, x) := r in
                          {| h_start := s; h_end := e; h_T := t; h_wn := w; h_sigma := x |}) recs in
  let '(temps, wn, xs) := @load_hitran Q QNum rs in
  [map Qout temps; map Qout wn; map Qout (List.concat xs)].

Fixpoint codes (s : string) : list Z :=
  match s with EmptyString => [] | String c r => Z.of_nat (nat_of_ascii c) :: codes r end.
Definition run_sanitize (s : string) : list Z := codes (sanitize s).

(* cache history: one entry per operation: [kind; object id; molecule; file; mode] *)
Definition enc_out (o : cout) : list Z :=
  match o with
  | Served ob => [1; Z.of_nat (o_id ob); Z.of_nat (o_mol ob); Z.of_nat (o_file ob);
                  match o_mode ob with Linear => 0 | Exp => 1 end]%Z
  | NotFound => [2%Z]
  | Done => [0%Z]
  end.
Definition empty_cache : cstate := {| c_dict := []; c_mode := Linear; c_files := []; c_next := 0 |}.
Definition run_cache (ops : list cop) : list (list Z) := map enc_out (snd (crun empty_cache ops)).

(* CIA cache histories: [1; object id; pair; file] served, [2] not found, [0] done, [3] raised *)
Definition enc_cia_out (o : cia_out) : list Z :=
  match o with
  | CServed ob => [1%Z; Z.of_nat (co_id ob); Z.of_nat (co_pair ob); Z.of_nat (co_file ob)]
  | CNotFound => [2%Z]
  | CDone => [0%Z]
  | CRaised => [3%Z]
  end.
Definition run_ciacache (ops : list cia_op) : list (list Z) :=
  map enc_cia_out (snd (cia_run {| ci_dict := []; ci_files := []; ci_next := 0 |} ops)).
