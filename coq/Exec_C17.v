(* Exec_C17.v — executable wrappers (exact rationals) for the C17 correspondence check. *)
From Coq Require Import ZArith QArith List.
From TV Require Import Num ListNum Model_C05 Model_C17.
Import ListNotations.

Definition mk_rows (rows : list (list Q)) : list (@orow Q) :=
  map (fun r => {| o_wl := nth 0 r 0%Q; o_v := nth 1 r 0%Q; o_e := nth 2 r 0%Q; o_bw := nth 3 r 0%Q |}) rows.

Definition out_obs (o : @obs Q) : list (list (list Z)) :=
  let t := @binner_targets Q QNum o in
  [map Qout (ob_wn o); map Qout (ob_spec o); map Qout (ob_err o); map Qout (ob_wnw o); map Qout (ob_edges o);
   map (fun x => Qout (t_wn x)) t; map (fun x => Qout (t_w x)) t].

(* [wavenumberGrid; spectrum; errorBar; binWidths; binEdges; binner grid; binner widths] *)
Definition run_load (four : bool) (rows : list (list Q)) : list (list (list Z)) :=
  out_obs (@load Q QNum four (mk_rows rows)).
Definition run_load_taurex (rows : list (list Q)) : list (list (list Z)) :=
  out_obs (@load_taurex Q QNum (mk_rows rows)).
