(* Props_C20.v — C20: correlated-k reduces to cross-sections when the k-distribution is degenerate. *)
From Coq Require Import Reals List Lra.
From TV Require Import Num ListNum ListNumR Model_C01 Proofs_C01 Model_C20 Proofs_C20 Model_C02 Proofs_C02k.
From TV Require Import NumIv Reflect.
Import ListNotations.
Local Open Scope R_scope.

(* (a) identical coefficients across quadrature points, weights summing to one:
   the optical depth added by contribute_ktau IS the cross-section optical depth of C01 *)
Theorem C20_degenerate : forall (sigma : list (list (list R))) (xsec : list (list R)) (ws rho path : list R) (l w : nat),
  Rsum ws = 1 ->
  (forall l' g, (g < length ws)%nat -> @ksig_at R RTNum sigma l' w g = @sig_at R RNum xsec l' w) ->
  @ktau R RTNum sigma ws rho path l w = @tau_loop R RNum false xsec rho path l w.
Proof. exact degenerate_ktau. Qed.
Print Assumptions C20_degenerate.

Theorem C20_degenerate_scalar : forall (ws : list R) (t : R), Rsum ws = 1 ->
  - ln (@ktrans R RTNum ws (map (fun _ => t) ws)) = t.
Proof. exact degenerate_ktrans. Qed.
Print Assumptions C20_degenerate_scalar.

(* (b) in general the path transmittance is the weight-averaged exponential: it lies in (0,1] *)
Theorem C20_unit_interval : forall (ws taus : list R),
  Forall (fun x => 0 <= x) ws -> Rsum ws = 1 -> length taus = length ws ->
  Forall (fun t => 0 <= t) taus -> 0 < @ktrans R RTNum ws taus <= 1.
Proof. exact ktrans_unit_interval. Qed.
Print Assumptions C20_unit_interval.

(* (c) and is at least the transmittance obtained from the weight-averaged coefficient (Jensen) *)
Theorem C20_jensen : forall (ws taus : list R),
  Forall (fun x => 0 <= x) ws -> Rsum ws = 1 -> length taus = length ws ->
  exp (- Rsum (map (fun p : R * R => fst p * snd p) (combine taus ws))) <= @ktrans R RTNum ws taus.
Proof. exact ktrans_jensen. Qed.
Print Assumptions C20_jensen.

(* the transmittance the model finally uses, exp(-ktau), is that weight-averaged exponential *)
Theorem C20_trans_is_weighted_exponential : forall sigma ws rho path l w,
  0 < @ktrans R RTNum ws (map (@ktau_g R RTNum sigma rho path l w) (seq 0 (length ws))) ->
  exp (- @ktau R RTNum sigma ws rho path l w)
  = @ktrans R RTNum ws (map (@ktau_g R RTNum sigma rho path l w) (seq 0 (length ws))).
Proof. exact exp_neg_ktau. Qed.
Print Assumptions C20_trans_is_weighted_exponential.

(* (d) emission: with the same depth xs_l at every quadrature point of layer l, the correlated-k intensity is the
   cross-section intensity (un-clamped) of the summed vertical depths *)
Theorem C20_degenerate_emission : forall (B d xs : list R) (kd : list (list R)) (ws : list R) (m : R),
  (0 < length d)%nat -> length kd = length d -> length xs = length d ->
  Forall (fun x => 0 <= x) ws -> Rsum ws = 1 ->
  (forall g, (g < length ws)%nat -> @kcol R RTNum kd g = xs) ->
  @kintensity R RTNum B d kd ws m = @intensity R RTNum B (map2 Rplus d xs) [] [] m.
Proof. exact k_degenerate_intensity. Qed.
Print Assumptions C20_degenerate_emission.

(* the executed (interval) instance of the correlated-k optical depth encloses the real-number instance
   (Reflect.v: by induction over the lists from the Interval library's correctness lemmas) *)
Theorem C20_ktau_enclosed : forall sI sR wI wR rI rR pI pR l w,
  Forall2 (Forall2 encl_list) sI sR -> encl_list wI wR -> encl_list rI rR -> encl_list pI pR ->
  0 < @ktrans R RTNum wR (map (@ktau_g R RTNum sR rR pR l w) (seq 0 (length wR))) ->
  encloses (@ktau _ IvTNum sI wI rI pI l w) (@ktau R RTNum sR wR rR pR l w).
Proof. exact ktau_transfer. Qed.
Print Assumptions C20_ktau_enclosed.
