(* Proofs_C10.v — atmospheric composition is a valid mixture. *)
From Coq Require Import ZArith Reals List Bool Arith Lia Lra.
From TV Require Import Num ListNum ListAux ListNumR Proofs_C01 Proofs_C03 Proofs_C13 Model_C12 Proofs_C12 Model_C10.
Import ListNotations.
Local Open Scope R_scope.

Definition col (l : nat) (rows : list (list R)) : list R := map (fun row => nth l row 0) rows.

Lemma col_app l a b : col l (a ++ b) = col l a ++ col l b.
Proof. unfold col. apply map_app. Qed.

Lemma nth_repeat0 (nl l : nat) : nth l (repeat (@n0 R RNum) nl) 0 = 0.
Proof. destruct (le_lt_dec nl l).
  - apply nth_overflow. rewrite repeat_length. lia.
  - rewrite nth_repeat by lia. reflexivity. Qed.

Lemma fold_vadd_len (rows : list (list R)) (t0 : list R) (nl : nat) :
  length t0 = nl -> Forall (fun r => length r = nl) rows ->
  length (fold_left (@vadd R RNum) rows t0) = nl.
Proof. revert t0. induction rows as [|r rows IH]; intros t0 H0 Hr; cbn [fold_left]; [exact H0|].
  inversion Hr as [|? ? H2 H3]; subst. apply IH; [rewrite vadd_length, H2; apply Nat.min_id|assumption]. Qed.

Lemma nth_fold_vadd_rows (rows : list (list R)) (t0 : list R) (nl l : nat) :
  length t0 = nl -> Forall (fun r => length r = nl) rows -> (l < nl)%nat ->
  nth l (fold_left (@vadd R RNum) rows t0) 0 = nth l t0 0 + Rsum (col l rows).
Proof. revert t0. induction rows as [|r rows IH]; intros t0 H0 Hr Hl; cbn [fold_left col map].
  - rewrite Rsum_nil. lra.
  - inversion Hr as [|? ? H2 H3]; subst.
    rewrite IH; [|rewrite vadd_length, H2; apply Nat.min_id|assumption|assumption].
    rewrite nth_vadd by (rewrite ?H2; exact Hl). unfold col. rewrite Rsum_cons. lra. Qed.

Lemma total_trace_nth (nl : nat) (traces : list (list R)) (l : nat) :
  Forall (fun r => length r = nl) traces -> (l < nl)%nat ->
  nth l (@total_trace R RNum nl traces) 0 = Rsum (col l traces).
Proof. intros Hr Hl. unfold total_trace.
  rewrite (nth_fold_vadd_rows traces _ nl l) by (try apply repeat_length; assumption).
  rewrite nth_repeat0. lra. Qed.

Lemma total_trace_length nl traces : Forall (fun r => length r = nl) traces ->
  length (@total_trace R RNum nl traces) = nl.
Proof. intros H. unfold total_trace. apply fold_vadd_len; [apply repeat_length|exact H]. Qed.

(* ---- the fill gases ---- *)
Lemma col_fill_rows (ratios rem : list R) (l : nat) : (l < length rem)%nat -> ratios <> [] ->
  col l (@fill_rows R RNum (S (length ratios)) ratios rem)
  = let main := nth l rem 0 * (1 / (1 + Rsum ratios)) in main :: map (fun r => r * main) ratios.
Proof. intros Hl Hne. destruct ratios as [|r0 rs]; [congruence|]. cbn [length].
  remember (r0 :: rs) as rts eqn:Er. unfold fill_rows. unfold col. cbn [map]. rnum. change (@nsum R RNum) with Rsum.
  set (k := 1 / (1 + Rsum rts)).
  rewrite (map_nth_lt _ rem 0 0) by exact Hl. f_equal. rewrite map_map.
  apply map_ext. intros r. rewrite (map_nth_lt _ _ 0 0) by (rewrite map_length; exact Hl).
  rewrite (map_nth_lt _ rem 0 0) by exact Hl. reflexivity. Qed.

Lemma Rsum_fill (ratios : list R) (x : R) : Forall (fun r => 0 <= r) ratios ->
  let main := x * (1 / (1 + Rsum ratios)) in
  Rsum (main :: map (fun r => r * main) ratios) = x.
Proof. intros Hr main. rewrite Rsum_cons.
  rewrite (Rsum_map_ext (fun r => r * main) (fun r => main * r)) by (intros; ring).
  rewrite Rsum_scale. unfold main.
  pose proof (Rsum_nonneg ratios Hr). field. lra. Qed.

Lemma col_fill_single (rem : list R) (l : nat) :
  col l (@fill_rows R RNum 1 [] rem) = [nth l rem 0].
Proof. reflexivity. Qed.

Lemma mixture_some (nl nfill : nat) (ratios : list R) (traces rows : list (list R)) :
  @mixture R RNum nl nfill ratios traces = Some rows ->
  existsb (fun x => @nltb R RNum (@n1 R RNum) x) (@total_trace R RNum nl traces) = false /\
  rows = @fill_rows R RNum nfill ratios (map (fun x => @nsub R RNum (@n1 R RNum) x) (@total_trace R RNum nl traces)) ++ traces.
Proof. unfold mixture. destruct (existsb _ _); [discriminate|]. intros H. injection H as <-. split; reflexivity. Qed.

Section Valid.
  Context (nl : nat) (ratios : list R) (traces : list (list R)).
  Context (Hlen : Forall (fun r => length r = nl) traces).
  Context (Hpos : Forall (Forall (fun x => 0 <= x)) traces).
  Context (Hr : Forall (fun r => 0 <= r) ratios).
  Let nfill := S (length ratios).

  Lemma col_nonneg l : Forall (fun x => 0 <= x) (col l traces).
  Proof. unfold col. apply Forall_forall. intros x Hx. apply in_map_iff in Hx. destruct Hx as [row [<- Hrow]].
    rewrite Forall_forall in Hpos. specialize (Hpos row Hrow).
    destruct (nth_in_or_default l row 0) as [Hin|Hd]; [rewrite Forall_forall in Hpos; apply Hpos; exact Hin|rewrite Hd; lra]. Qed.

  (* (d) traces above one anywhere: rejected, no profile is produced *)
  Theorem over_unity_rejected l : (l < nl)%nat -> 1 < Rsum (col l traces) ->
    @mixture R RNum nl nfill ratios traces = None.
  Proof. intros Hl Hgt. unfold mixture.
    assert (E : existsb (fun x => @nltb R RNum (@n1 R RNum) x) (@total_trace R RNum nl traces) = true).
    { apply existsb_exists. exists (nth l (@total_trace R RNum nl traces) 0). split.
      - apply nth_In. rewrite total_trace_length by exact Hlen. exact Hl.
      - rnum. apply Rltb_true. rewrite total_trace_nth by assumption. exact Hgt. }
    rewrite E. reflexivity. Qed.

  (* (a)(b) otherwise: non-negative, sums to one in every layer, fill gases in the requested ratios *)
  Theorem valid_mixture rows l :
    @mixture R RNum nl nfill ratios traces = Some rows -> (l < nl)%nat ->
    Forall (fun x => 0 <= x) (col l rows) /\ Rsum (col l rows) = 1 /\
    (forall j, (j < length ratios)%nat ->
       nth (S j) (col l rows) 0 = nth j ratios 0 * nth 0 (col l rows) 0).
  Proof. intros Hm Hl. destruct (mixture_some _ _ _ _ _ Hm) as [E ->].
    assert (Htot : Rsum (col l traces) <= 1).
    { destruct (Rle_dec (Rsum (col l traces)) 1) as [H|H]; [exact H|exfalso].
      apply Rnot_le_lt in H. assert (Hex : existsb (fun x => @nltb R RNum (@n1 R RNum) x) (@total_trace R RNum nl traces) = true).
      { apply existsb_exists. exists (nth l (@total_trace R RNum nl traces) 0). split.
        - apply nth_In. rewrite total_trace_length by exact Hlen. exact Hl.
        - rnum. apply Rltb_true. rewrite total_trace_nth by assumption. exact H. }
      congruence. }
    set (rem := map (fun x => @nsub R RNum (@n1 R RNum) x) (@total_trace R RNum nl traces)).
    assert (Hreml : length rem = nl) by (unfold rem; rewrite map_length; apply total_trace_length; exact Hlen).
    assert (Hrem : nth l rem 0 = 1 - Rsum (col l traces)).
    { unfold rem. rewrite (map_nth_lt _ _ 0 0) by (rewrite total_trace_length by exact Hlen; exact Hl).
      rewrite total_trace_nth by assumption. rnum. reflexivity. }
    pose proof (col_nonneg l) as Hcn. pose proof (Rsum_nonneg _ Hcn) as Hs0.
    rewrite col_app.
    destruct (list_eq_dec Req_EM_T ratios []) as [Enil|Hne].
    - (* a single fill gas takes the whole remainder *)
      unfold nfill. rewrite Enil. cbn [length]. rewrite col_fill_single, Hrem. cbn [app].
      split; [constructor; [lra|exact Hcn]|]. split; [rewrite Rsum_cons; lra|]. intros j Hj. simpl in Hj. lia.
    - unfold nfill. rewrite col_fill_rows by (try rewrite Hreml; assumption). cbv zeta. rewrite Hrem.
      set (main := (1 - Rsum (col l traces)) * (1 / (1 + Rsum ratios))).
      pose proof (Rsum_nonneg ratios Hr) as Hsr.
      assert (Hmain : 0 <= main).
      { unfold main. apply Rmult_le_pos; [lra|]. unfold Rdiv. rewrite Rmult_1_l. left. apply Rinv_0_lt_compat. lra. }
      split; [|split].
      + apply Forall_app. split; [|exact Hcn]. constructor; [exact Hmain|].
        apply Forall_forall. intros x Hx. apply in_map_iff in Hx. destruct Hx as [r [<- Hrin]].
        pose proof Hr as Hr'. rewrite Forall_forall in Hr'. specialize (Hr' r Hrin). nra.
      + rewrite Rsum_app. pose proof (Rsum_fill ratios (1 - Rsum (col l traces)) Hr) as Hf. cbv zeta in Hf.
        fold main in Hf. rewrite Hf. lra.
      + intros j Hj. cbn [app nth]. rewrite app_nth1 by (rewrite map_length; exact Hj).
        rewrite (map_nth_lt _ ratios 0 0) by exact Hj. reflexivity. Qed.
End Valid.

(* (c) mean molecular weight is the ratio-weighted sum of molecular masses *)
Theorem mu_is_weighted_sum (nl : nat) (rows : list (list R)) (masses : list R) (l : nat) :
  Forall (fun r => length r = nl) rows -> length masses = length rows -> (l < nl)%nat ->
  nth l (@mu_profile R RNum nl rows masses) 0
  = Rsum (map2 (fun row m => nth l row 0 * m) rows masses).
Proof. intros Hlen Hm Hl. unfold mu_profile.
  rewrite (nth_fold_vadd_rows _ _ nl l).
  - rewrite nth_repeat0, Rplus_0_l. f_equal. unfold col.
    clear Hl. revert masses Hm Hlen. induction rows as [|r rows IH]; intros [|m ms] Hm Hlen; simpl in Hm; try discriminate; [reflexivity|].
    cbn [map2 map]. inversion Hlen; subst. f_equal; [|apply IH; [lia|assumption]].
    destruct (le_lt_dec (length r) l) as [Hge|Hlt].
    + rewrite !nth_overflow by (rewrite ?map_length; exact Hge). rnum. ring.
    + rewrite (map_nth_lt _ r 0 0) by exact Hlt. reflexivity.
  - apply repeat_length.
  - clear Hl. revert masses Hm. induction Hlen as [|r rows Hr0 _ IH]; intros [|m ms] Hm; simpl in Hm; try discriminate; cbn [map2]; constructor.
    + rewrite map_length. exact Hr0.
    + apply IH. lia.
  - exact Hl. Qed.

(* (e) active and inactive gases partition the gas list, decided by the availability flags *)
Theorem split_partition {A} (flags : list bool) (rows : list A) : length flags = length rows ->
  let '(act, inact) := split_rows flags rows in
  (length act + length inact = length rows)%nat /\
  (forall x, In x rows <-> In x act \/ In x inact).
Proof. intros Hl. unfold split_rows. split.
  - rewrite !map_length. revert rows Hl. induction flags as [|f flags IH]; intros [|r rows] Hl; simpl in Hl; try discriminate; [reflexivity|].
    cbn [combine filter fst negb]. destruct f; cbn [negb length]; specialize (IH rows ltac:(lia)); lia.
  - intros x. revert rows Hl. induction flags as [|f flags IH]; intros [|r rows] Hl; simpl in Hl; try discriminate.
    + cbn. tauto.
    + cbn [combine filter fst]. specialize (IH rows ltac:(lia)). destruct f; cbn [negb map snd In] in *; tauto. Qed.

(* (f) built-in profiles stay within the range of their control values *)
Theorem constant_gas_spec (nl : nat) (v : R) : length (@constant_gas R nl v) = nl /\ Forall (fun x => x = v) (@constant_gas R nl v).
Proof. unfold constant_gas. split; [apply repeat_length|]. apply Forall_forall. intros x Hx. apply repeat_spec in Hx. exact Hx. Qed.

Theorem array_gas_bounded (nl : nat) (arr : list R) (m M : R) : arr <> [] ->
  Forall (fun f => m <= f <= M) arr ->
  Forall (fun x => m <= x <= M) (@array_gas R RNum nl arr).
Proof. intros Hne Hf. unfold array_gas. apply Forall_forall. intros x Hx. apply in_map_iff in Hx.
  destruct Hx as [u [<- _]]. apply np_interp_between; try assumption.
  unfold linspace01. destruct (length arr) as [|[|k]] eqn:E; [destruct arr; [congruence|discriminate]| |];
    rewrite ?map_length, ?seq_length; cbn [length]; lia. Qed.

Theorem array_gas_length (nl : nat) (arr : list R) : (2 <= nl)%nat -> length (@array_gas R RNum nl arr) = nl.
Proof. intros H. unfold array_gas, linspace01. destruct nl as [|[|k]]; try lia. rewrite !map_length, seq_length. reflexivity. Qed.

(* power law: never above its deep-atmosphere (surface) value *)
Theorem power_gas_le_surface (ms Ad : R) : 0 < ms -> 0 < Ad ->
  let m := 1 / sqrt ms + 1 / sqrt Ad in 0 < (1 / m) * (1 / m) <= ms.
Proof. intros Hms HAd m.
  assert (Hs1 : 0 < sqrt ms) by (apply sqrt_lt_R0; exact Hms).
  assert (Hs2 : 0 < sqrt Ad) by (apply sqrt_lt_R0; exact HAd).
  assert (Hm1 : 1 / sqrt ms <= m).
  { unfold m. assert (0 < 1 / sqrt Ad) by (apply Rdiv_lt_0_compat; lra). lra. }
  assert (Hmp : 0 < 1 / sqrt ms) by (apply Rdiv_lt_0_compat; lra).
  assert (Hm0 : 0 < m) by lra.
  assert (Hinv : 1 / m <= sqrt ms).
  { replace (sqrt ms) with (/ (1 / sqrt ms)) by (field; lra).
    unfold Rdiv at 1. rewrite Rmult_1_l. apply Rinv_le_contravar; assumption. }
  assert (Hip : 0 < 1 / m) by (apply Rdiv_lt_0_compat; lra).
  split; [nra|]. rewrite <- (sqrt_sqrt ms) at 1 by lra. nra. Qed.

(* two-point profile: log-linear between its end values, hence between them *)
Theorem twopoint_between (vs vt lps lpt lp : R) : lpt < lps -> lpt <= lp <= lps ->
  let a := (vs - vt) / (lps - lpt) in let b := vs - a * lps in
  Rmin vs vt <= a * lp + b <= Rmax vs vt.
Proof. intros Hp Hlp a b.
  set (u := (lp - lpt) / (lps - lpt)).
  assert (Hu : 0 <= u <= 1).
  { unfold u. split.
    - apply Rmult_le_pos; [lra|left; apply Rinv_0_lt_compat; lra].
    - apply Rmult_le_reg_r with (lps - lpt); [lra|]. unfold Rdiv. rewrite Rmult_assoc, Rinv_l by lra. lra. }
  assert (Heq : a * lp + b = (1 - u) * vt + u * vs) by (unfold b, a, u; field; lra).
  rewrite Heq. unfold Rmin, Rmax. destruct (Rle_dec vs vt); nra. Qed.

(* ---- two-layer gas: log10 of the mixing ratio stays between log10 of the surface and of the top value in every
   layer, smoothing included ---- *)
Theorem twolayer_between (lnP : list R) (start_l end_l : nat) (ls lt : R) (wsize0 : nat) :
  Forall (fun x => Rmin ls lt <= x <= Rmax ls lt) (@twolayer_log R RNum lnP start_l end_l ls lt wsize0).
Proof. unfold twolayer_log. apply (smooth_profile_bounded lnP _ [ls; ls; lt; lt] wsize0 (Rmin ls lt) (Rmax ls lt)).
  - reflexivity.
  - discriminate.
  - unfold within. pose proof (Rmin_l ls lt). pose proof (Rmin_r ls lt). pose proof (Rmax_l ls lt). pose proof (Rmax_r ls lt).
    repeat (apply Forall_cons; [split; lra|]). apply Forall_nil. Qed.
