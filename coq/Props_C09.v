(* Props_C09.v — C09: posterior summaries are the weighted statistics of the stored samples. *)
From Coq Require Import Reals List Permutation Lra.
From TV Require Import Num ListNum ListNumR Model_C09 Proofs_C09.
Import ListNotations.
Local Open Scope R_scope.

(* (b) weighted quantiles are non-decreasing in q, so q16 <= q50 <= q84 and both errors are >= 0 *)
Theorem C09_quantiles_ordered : forall (xs ws : list R) (q1 q2 : R),
  length ws = length xs -> xs <> [] -> Forall (fun w => 0 <= w) ws -> 0 < Rsum ws -> q1 <= q2 ->
  @quantile R RNum xs ws q1 <= @quantile R RNum xs ws q2.
Proof. intros. apply quantiles_ordered; assumption. Qed.
Print Assumptions C09_quantiles_ordered.

Theorem C09_errors_nonneg : forall (xs ws : list R), length ws = length xs -> xs <> [] ->
  Forall (fun w => 0 <= w) ws -> 0 < Rsum ws ->
  let '(v, sm, sp) := @summary R RNum xs ws in 0 <= sm /\ 0 <= sp.
Proof. exact summary_errors_nonneg. Qed.
Print Assumptions C09_errors_nonneg.

(* every quantile stays within the range of the samples; a constant trace gives that constant (m = M) *)
Theorem C09_quantile_in_range : forall (xs ws : list R) (q m M : R),
  length ws = length xs -> xs <> [] -> Forall (fun x => m <= x <= M) xs ->
  m <= @quantile R RNum xs ws q <= M.
Proof. intros. apply quantile_in_range; assumption. Qed.
Print Assumptions C09_quantile_in_range.

(* invariant under permuting the samples together with their weights *)
Theorem C09_quantile_order_independent : forall (ps ps' : list (R * R)) (q : R),
  NoDup (map fst ps) -> Permutation ps ps' ->
  @quantile R RNum (map fst ps) (map snd ps) q = @quantile R RNum (map fst ps') (map snd ps') q.
Proof. exact quantile_order_independent. Qed.
Print Assumptions C09_quantile_order_independent.

(* (c) the MAP of a parameter is its value at a sample of greatest weight *)
Theorem C09_map_is_heaviest : forall (trace ws : list R), ws <> [] ->
  let k := @argmax R RNum ws in
  (k < length ws)%nat /\ Forall (fun w => w <= nth k ws 0) ws /\ @map_of R RNum trace ws = nth k trace 0.
Proof. exact map_is_heaviest. Qed.
Print Assumptions C09_map_is_heaviest.

(* (d) the mean is the weighted mean *)
Theorem C09_mean_is_weighted : forall (trace ws : list R),
  @wmean_of R RNum trace ws = Rsum (map2 (@nmul R RNum) ws trace) / Rsum ws.
Proof. exact mean_is_weighted. Qed.
Print Assumptions C09_mean_is_weighted.

(* (e) summaries are placed at the index of the parameter's name; nothing else moves *)
Theorem C09_placement_by_name : forall (names : list nat) (init : list R) (k : nat) (v : R) (i : nat),
  length init = length names -> @index_of names k = Some i ->
  nth i (@place R names init [(k, v)]) 0 = v /\
  forall j, j <> i -> nth j (@place R names init [(k, v)]) 0 = nth j init 0.
Proof. exact place_single. Qed.
Print Assumptions C09_placement_by_name.
