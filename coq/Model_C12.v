(* Model_C12.v — temperature profiles
   (taurex/data/profiles/temperature/isothermal.py, npoint.py, rodgers.py, temparray.py, guillot.py). *)
From Coq Require Import ZArith List Bool Arith.
From TV Require Import Num ListNum.
Import ListNotations.

Section Profiles.
  Context {T : Type} {N : Num T}.
  Local Open Scope num_scope.

  Definition isothermal (nl : nat) (t : T) : list T := repeat t nl.

  (* ---- NPoint ----
     lp  : log10 of the layer pressures (surface first, i.e. descending),
     lpn : log10 of the pressure nodes (surface node first), tn : node temperatures,
     wsize0 : int(nlayers * smoothing_window / 100) as computed by the code,
     limit : the slope limit.  None = InvalidTemperatureException *)
  Fixpoint strictly_decreasing (l : list T) : bool :=
    match l with
    | x :: ((y :: _) as r) => (y <? x) && strictly_decreasing r
    | _ => true
    end.
  Fixpoint slopes_ok (lpn tn : list T) (limit : T) : bool :=
    match lpn, tn with
    | p0 :: ((p1 :: _) as pr), t0 :: ((t1 :: _) as tr) =>
        (nabs ((t1 - t0) / (p1 - p0)) <? limit) && slopes_ok pr tr limit
    | _, _ => true
    end.
  Definition all_equal (l : list T) : bool :=
    match l with [] => true | x :: r => forallb (fun y => neqb y x) r end.

  (* foo[border:-border] = smooth[::-1] on foo = TP[::-1] *)
  Definition splice (foo sm : list T) (border : nat) : list T :=
    firstn border foo ++ sm ++ skipn (length foo - border) foo.

  (* interpolate the node values over ascending log-pressure, smooth with a moving average of odd width, splice the
     smoothed middle back between the unsmoothed borders, return in layer order (also TwoLayerGas, in log10 space) *)
  Definition smooth_profile (lp lpn tn : list T) (wsize0 : nat) : list T :=
    let TP := map (np_interp (rev lpn) (rev tn)) (rev lp) in        (* ascending log-pressure *)
    let wsize := if Nat.even wsize0 then S wsize0 else wsize0 in
    let sm := movavg TP wsize in
    let border := ((length TP - length sm) / 2)%nat in
    let foo := rev TP in
    if (length sm =? length foo)%nat then rev sm else splice foo (rev sm) border.

  Definition npoint (nl : nat) (lp lpn tn : list T) (wsize0 : nat) (limit : T) : option (list T) :=
    if negb (strictly_decreasing lpn) then None
    else if negb (slopes_ok lpn tn limit) then None
    else
      (* the code's `np.all(Tnodes == Tnodes[0])` shortcut compares a Python list with a float and is
         never taken; equal nodes go through the general path, which returns the same constant *)
      Some (smooth_profile lp lpn tn wsize0).

  (* ---- Rodgers (layer-by-layer with correlation) ----
     weights = cov[i][j] / colsum[i],  colsum[i] = sum_k cov[k][i];  T = weights . T_layers *)
  Definition colsum (cov : list (list T)) (i : nat) : T := nsum (map (fun row => nth_d row i) cov).
  Definition rodgers (cov : list (list T)) (tl : list T) : list T :=
    map (fun i => let row := nth i cov [] in
                  nsum (map2 (fun c t => c / colsum cov i * t) row tl))
        (seq 0 (length cov)).

  (* ---- TemperatureArray without pressure points: interpolate on unit intervals when the
     array length differs from the number of layers ---- *)
  Definition linspace10 (n : nat) : list T :=             (* np.linspace(1.0, 0.0, n) *)
    match n with
    | 0%nat => []
    | 1%nat => [n1]
    | _ => map (fun i => n1 + nofnat i * ((n0 - n1) / nofnat (n - 1))) (seq 0 n)
    end.
  Definition temp_array (nl : nat) (arr : list T) : list T :=
    if (length arr =? nl)%nat then arr
    else map (np_interp (rev (linspace10 (length arr))) (rev arr)) (rev (linspace10 nl)).
End Profiles.

Section Guillot.
  Context {T : Type} {N : TNum T}.
  Local Open Scope num_scope.

  (* eta(gamma, tau) with E2(gamma tau) supplied *)
  Definition eta (gamma tau e2 : T) : T :=
    let three := nofZ 3 in
    (n2 / three + n2 / (three * gamma) * (n1 + (gamma * tau / n2 - n1) * nexp (- n1 * gamma * tau)))
    + n2 * gamma / three * (n1 - tau * tau / n2) * e2.

  (* T^4 of one layer; None when the parameters are rejected *)
  Definition guillot_T4 (kir kv1 kv2 alpha Tirr Tint grav P e21 e22 : T) : T :=
    let three := nofZ 3 in let four := nofZ 4 in
    let g1 := kv1 / kir in let g2 := kv2 / kir in
    let tau := kir * P / grav in
    let i4 := Tint * Tint * Tint * Tint in let r4 := Tirr * Tirr * Tirr * Tirr in
    three * i4 / four * (n2 / three + tau)
    + three * r4 / four * (n1 - alpha) * eta g1 tau e21
    + three * r4 / four * alpha * eta g2 tau e22.
  Definition guillot_valid (kir kv1 kv2 Tirr Tint : T) : bool :=
    negb (neqb kir n0) && negb (neqb (kv1 / kir) n0) && negb (neqb (kv2 / kir) n0)
    && negb (Tirr <? n0) && negb (Tint <? n0).
  Definition guillot_T (kir kv1 kv2 alpha Tirr Tint grav P e21 e22 : T) : T :=
    nsqrt (nsqrt (guillot_T4 kir kv1 kv2 alpha Tirr Tint grav P e21 e22)).
End Guillot.
