(* Exec_C11a.v — executable wrapper (exact rationals) for the array pressure profile of C11. *)
From Coq Require Import ZArith QArith List.
From TV Require Import Num ListNum Model_C11a.
Import ListNotations.

(* log10 of the n+1 levels, each as [num; den] *)
Definition run_array_levels (logp : list Q) : list (list Z) := map Qout (@array_loglevels Q QNum logp).
