(* Exec_C16.v — executable wrappers for the C16 correspondence check. *)
From Coq Require Import String List Bool Ascii ZArith QArith.
From TV Require Import Num ListNum Model_C16.
Import ListNotations.
Local Open Scope string_scope.
Local Open Scope list_scope.

Fixpoint codes (s : string) : list Z :=
  match s with EmptyString => [] | String c r => Z.of_nat (nat_of_ascii c) :: codes r end.

(* the file as a flat list of (path, kind, shape, numbers, strings), depth first in creation order *)
Definition enc_dset (d : dset) : list (list (list Z)) :=
  match d with
  | DScalar q => [[[0%Z]]; [[]]; [Qout q]; []]
  | DArray dims data => [[[1%Z]]; [map Z.of_nat dims]; map Qout data; []]
  | DString s => [[[2%Z]]; [[]]; []; [codes s]]
  | DStrArray l => [[[3%Z]]; [[Z.of_nat (length l)]]; []; map codes l]
  end.
Fixpoint flatten (prefix : list string) (n : node) : list (list (list (list Z))) :=
  match n with
  | NData d => [[map codes prefix] ++ enc_dset d]
  | NGroup l => [[map codes prefix] ++ [[[4%Z]]; [[]]; []; []]] ++
                flat_map (fun kv => flatten (prefix ++ [fst kv]) (snd kv)) l
  end.
Definition run_store (i : item) : list (list (list (list Z))) := flatten [] (store i).

(* spectrum dictionary: names present *)
Definition run_keys (b : bkind) (sz : Z) : list (list Z) := map codes (spectrum_keys b sz).
(* grids: [wn; wl; wnwidth; wlwidth] *)
Definition run_binned_grids (wn w : list Q) : list (list (list Z)) := map (map Qout) (@binned_grids Q QNum wn w).
Definition run_native_grids (wn : list Q) : list (list (list Z)) := map (map Qout) (@native_grids Q QNum wn).

(* which constructor keywords of a class are not written under their own name *)
Definition run_incomplete (kwargs written : list string) : list (list Z) :=
  map codes (filter (fun k => negb (mem k written)) kwargs).
