(* ListAux.v — list lemmas missing from the 8.16 standard library. *)
From Coq Require Import List Arith Lia.
Import ListNotations.

Lemma nth_skipn_add {A} (l : list A) (s k : nat) (d : A) : nth k (skipn s l) d = nth (s + k) l d.
Proof. revert l. induction s as [|s IH]; intros l; [reflexivity|].
  destruct l as [|x l]; [destruct k; reflexivity|]. simpl. apply IH. Qed.

Lemma nth_firstn_lt {A} (l : list A) (m k : nat) (d : A) : k < m -> nth k (firstn m l) d = nth k l d.
Proof. revert l k. induction m as [|m IH]; intros l k Hk; [lia|].
  destruct l as [|x l]; [reflexivity|]. destruct k as [|k]; [reflexivity|]. simpl. apply IH. lia. Qed.

Lemma seq_split3 (s e n : nat) : s <= e + 1 -> e + 1 <= n ->
  seq 0 n = seq 0 s ++ seq s (e + 1 - s) ++ seq (e + 1) (n - (e + 1)).
Proof. intros H1 H2.
  replace n with (s + ((e + 1 - s) + (n - (e + 1)))) at 1 by lia.
  rewrite seq_app. f_equal. rewrite seq_app. f_equal. f_equal. lia. Qed.

Lemma map_nth_seq {A} (l : list A) (d : A) : l = map (fun i => nth i l d) (seq 0 (length l)).
Proof. induction l as [|x l IH]; [reflexivity|]. simpl. f_equal.
  rewrite <- seq_shift, map_map. exact IH. Qed.

Lemma firstn_skipn_seq {A} (l : list A) (d : A) (s k : nat) : s + k <= length l ->
  firstn k (skipn s l) = map (fun i => nth i l d) (seq s k).
Proof. intros H. apply (nth_ext _ _ d d).
  - rewrite firstn_length, skipn_length, map_length, seq_length. lia.
  - intros j Hj. rewrite firstn_length, skipn_length in Hj.
    rewrite nth_firstn_lt by lia. rewrite nth_skipn_add.
    rewrite (nth_indep (map (fun i => nth i l d) (seq s k)) d (nth 0 l d)) by (rewrite map_length, seq_length; lia).
    rewrite (map_nth (fun i => nth i l d) (seq s k) 0 j). rewrite seq_nth by lia. reflexivity. Qed.

Lemma map_nth_lt {A B} (f : A -> B) (l : list A) (d : A) (d' : B) (i : nat) :
  i < length l -> nth i (map f l) d' = f (nth i l d).
Proof. intros Hi. rewrite (nth_indep _ d' (f d)) by (rewrite map_length; exact Hi). apply map_nth. Qed.

Lemma In_skipn {A} (x : A) (l : list A) (n : nat) : In x (skipn n l) -> In x l.
Proof. revert l. induction n as [|n IH]; intros l H; [exact H|]. destruct l as [|y l]; [destruct H|].
  right. apply IH. exact H. Qed.

Lemma In_firstn {A} (x : A) (l : list A) (n : nat) : In x (firstn n l) -> In x l.
Proof. revert l. induction n as [|n IH]; intros l H; [destruct H|]. destruct l as [|y l]; [destruct H|].
  destruct H as [->|H]; [left; reflexivity|right; apply IH; exact H]. Qed.

Lemma In_skipn_firstn {A} (x : A) (l : list A) (a k : nat) : In x (firstn k (skipn a l)) -> In x l.
Proof. intros H. apply (In_skipn x l a). apply (In_firstn x _ k). exact H. Qed.
