(* Proofs_C01.v — the transmission model at the real-number instance. *)
From Coq Require Import ZArith Reals List Bool Arith Lia Lra Sorting.Sorted.
From TV Require Import Num ListNum ListAux ListNumR Model_C01.
Import ListNotations.
Local Open Scope R_scope.

Notation ndR := (@nth_d R RNum).
Notation contribR := (@contrib R).

(* ---------------- generic: accumulation loops are sums ---------------- *)
Lemma fold_add_sum {A} (f : A -> R) (l : list A) (acc : R) :
  fold_left (fun a k => a + f k) l acc = acc + Rsum (map f l).
Proof. revert acc. induction l as [|x l IH]; intros acc; cbn [fold_left map].
  - rewrite Rsum_nil. lra.
  - rewrite IH, Rsum_cons. lra. Qed.

(* (a) the kernel IS the documented sum  sum_k sigma[k+l] * path[k] * rho[k+l]^p *)
Definition dens (sq : bool) (rho : list R) (i : nat) : R :=
  if sq then ndR rho i * ndR rho i else ndR rho i.

Lemma tau_loop_is_sum sq sigma rho path l w :
  @tau_loop R RNum sq sigma rho path l w
  = Rsum (map (fun k => @sig_at R RNum sigma (k + l) w * ndR path k * dens sq rho (k + l))
              (seq 0 (length path))).
Proof. unfold tau_loop. rnum.
  rewrite (fold_add_sum (fun k => @sig_at R RNum sigma (k + l) w * ndR path k * dens sq rho (k + l))).
  unfold dens. destruct sq; lra. Qed.

Definition nonneg_list (l : list R) : Prop := Forall (fun x => 0 <= x) l.
Definition nonneg_sigma (s : list (list R)) : Prop := Forall nonneg_list s.

Lemma nth_d_nonneg l i : nonneg_list l -> 0 <= ndR l i.
Proof. intros H. unfold nth_d. destruct (nth_in_or_default i l 0) as [Hin|Hd].
  - unfold nonneg_list in H. rewrite Forall_forall in H. apply H. exact Hin.
  - rnum. rewrite Hd. lra. Qed.

Lemma sig_at_nonneg s l w : nonneg_sigma s -> 0 <= @sig_at R RNum s l w.
Proof. intros H. unfold sig_at. apply nth_d_nonneg.
  destruct (nth_in_or_default l s []) as [Hin|Hd].
  - unfold nonneg_sigma in H. rewrite Forall_forall in H. apply H. exact Hin.
  - rewrite Hd. constructor. Qed.

Lemma tau_loop_nonneg sq sigma rho path l w :
  nonneg_sigma sigma -> nonneg_list rho -> nonneg_list path ->
  0 <= @tau_loop R RNum sq sigma rho path l w.
Proof. intros Hs Hr Hp. rewrite tau_loop_is_sum. apply Rsum_map_nonneg. intros k _.
  pose proof (sig_at_nonneg sigma (k + l) w Hs). pose proof (nth_d_nonneg path k Hp).
  pose proof (nth_d_nonneg rho (k + l) Hr). unfold dens. destruct sq; repeat apply Rmult_le_pos; assumption. Qed.

Definition wf_contrib (c : contribR) : Prop :=
  match c with Sig _ s => nonneg_sigma s | Cloud _ => True end.

Lemma tau_of_nonneg c rho path m l :
  wf_contrib c -> nonneg_list rho -> nonneg_list path -> nonneg_list (@tau_of R RNum c rho path m l).
Proof. intros Hc Hr Hp. destruct c as [sq s|fl]; cbn [tau_of]; apply Forall_forall; intros x Hx;
  apply in_map_iff in Hx; destruct Hx as [w [<- _]].
  - apply tau_loop_nonneg; assumption.
  - rnum. lra. Qed.

Lemma tau_of_length c rho path m l : length (@tau_of R RNum c rho path m l) = m.
Proof. destruct c; cbn [tau_of]; rewrite map_length, seq_length; reflexivity. Qed.

Lemma zeros_length m : length (@zeros R RNum m) = m.
Proof. unfold zeros. rewrite map_length, seq_length. reflexivity. Qed.

(* ---------------- the saturation cut-off ------------------------------- *)
Lemma fold_min_both (r : list R) (x : R) :
  fold_left (@nmin R RNum) r x <= x /\ forall y, In y r -> fold_left (@nmin R RNum) r x <= y.
Proof. revert x. induction r as [|z r IH]; intros x; cbn [fold_left].
  - split; [lra|intros y []].
  - destruct (IH (@nmin R RNum x z)) as [H1 H2].
    assert (Hm : @nmin R RNum x z <= x /\ @nmin R RNum x z <= z).
    { rewrite nmin_R. split; [apply Rmin_l|apply Rmin_r]. }
    split; [lra|]. intros y [->|Hy]; [lra|apply H2; exact Hy]. Qed.

Lemma fold_min_le (r : list R) (x y : R) : In y (x :: r) -> fold_left (@nmin R RNum) r x <= y.
Proof. destruct (fold_min_both r x) as [H1 H2]. intros [->|Hy]; [exact H1|apply H2; exact Hy]. Qed.

Lemma saturated_spec (opq : bool) (t : list R) :
  @saturated R RNum opq t = true -> opq = true \/ Forall (fun y => 10 < y) t.
Proof. unfold saturated. intros H. apply orb_true_iff in H. destruct H as [H|H]; [left; exact H|right].
  destruct t as [|x r]; [discriminate|]. rnum. apply Rltb_true in H. unfold lmin in H.
  apply Forall_forall. intros y Hy. pose proof (fold_min_le r x y Hy). lra. Qed.

Lemma trans_both_opaque (a b : list R) : Forall2 Rle a b ->
  Forall2 (fun u v => 0 <= u - v <= exp (-10))
    (map (fun x : R => if true then @n0 R RNum else @nexp R RTNum (@nopp R RNum x)) a)
    (map (fun x : R => if true then @n0 R RNum else @nexp R RTNum (@nopp R RNum x)) b).
Proof. induction 1; cbn [map]; constructor; [|assumption]. rnum. pose proof (exp_pos (-10)). lra. Qed.

Lemma trans_saturated (oc ofl : bool) (a b : list R) :
  Forall2 Rle a b -> Forall (fun y => 10 < y) a -> (oc = true -> ofl = true) ->
  Forall2 (fun u v => 0 <= u - v <= exp (-10))
    (map (fun x : R => if oc then @n0 R RNum else @nexp R RTNum (@nopp R RNum x)) a)
    (map (fun x : R => if ofl then @n0 R RNum else @nexp R RTNum (@nopp R RNum x)) b).
Proof. intros H. induction H as [|x y a b Hxy Hab IH]; intros Hbig Himp; cbn [map]; constructor.
  - inversion Hbig; subst. rnum.
    assert (exp (- x) < exp (-10)) by (apply exp_increasing; lra).
    pose proof (exp_pos (- x)). pose proof (exp_pos (- y)). pose proof (exp_pos (-10)).
    assert (exp (- y) <= exp (- x)).
    { destruct Hxy as [Hlt|Heq]; [left; apply exp_increasing; lra|rewrite Heq; lra]. }
    destruct oc, ofl; try lra; specialize (Himp eq_refl); discriminate.
  - apply IH; [inversion Hbig; assumption|exact Himp]. Qed.

Lemma trans_same (o : bool) (a : list R) :
  Forall2 (fun u v => 0 <= u - v <= exp (-10))
    (map (fun x : R => if o then @n0 R RNum else @nexp R RTNum (@nopp R RNum x)) a)
    (map (fun x : R => if o then @n0 R RNum else @nexp R RTNum (@nopp R RNum x)) a).
Proof. induction a; cbn [map]; constructor; [|assumption].
  pose proof (exp_pos (-10)). destruct o; rnum; lra. Qed.

Section Cut.
  Context (rho path : list R) (m l : nat).
  Context (Hrho : nonneg_list rho) (Hpath : nonneg_list path).

  Notation tf := (fun c => @tau_of R RNum c rho path m l).

  Definition full_step (st : bool * list R) (c : contribR) : bool * list R :=
    (fst st || @opaque_of R c l, @vadd R RNum (snd st) (tf c)).
  Definition cut_step (st : bool * list R) (c : contribR) : bool * list R :=
    let '(opq, t) := st in
    if @saturated R RNum opq t then st else (opq || @opaque_of R c l, @vadd R RNum t (tf c)).

  Lemma cut_state_fold cs st : fold_left cut_step cs st
    = fold_left (fun (st : bool * list R) c =>
                 let '(opq, t) := st in
                 if @saturated R RNum opq t then st
                 else (opq || @opaque_of R c l, @vadd R RNum t (tf c))) cs st.
  Proof. reflexivity. Qed.

  Lemma full_state_snd cs st :
    snd (fold_left full_step cs st) = fold_left (fun t c => @vadd R RNum t (tf c)) cs (snd st).
  Proof. revert st. induction cs as [|c cs IH]; intros st; cbn [fold_left]; [reflexivity|].
    rewrite IH. reflexivity. Qed.

  Lemma full_state_fst cs st :
    fst (fold_left full_step cs st) = fst st || existsb (fun c => @opaque_of R c l) cs.
  Proof. revert st. induction cs as [|c cs IH]; intros st; cbn [fold_left existsb].
    - rewrite orb_false_r. reflexivity.
    - rewrite IH. cbn [full_step fst]. rewrite orb_assoc. reflexivity. Qed.

  (* element-wise: cut optical depth never exceeds the full one *)
  Definition le_vec (a b : list R) : Prop := Forall2 Rle a b.

  Lemma le_vec_refl a : le_vec a a.
  Proof. induction a; constructor; [lra|assumption]. Qed.

  Lemma le_vec_add a b c : le_vec a b -> nonneg_list c -> length c = length b ->
    le_vec a (@vadd R RNum b c).
  Proof. intros H. revert c. induction H as [|x y a b Hxy Hab IH]; intros c Hc Hl.
    - constructor.
    - destruct c as [|z c]; [discriminate|]. cbn [vadd map2]. inversion Hc; subst.
      constructor; [rnum; lra|]. apply IH; [assumption|simpl in Hl; lia]. Qed.

  Definition inv (cut full : bool * list R) : Prop :=
    (@saturated R RNum (fst cut) (snd cut) = false -> cut = full) /\
    le_vec (snd cut) (snd full) /\ (fst cut = true -> fst full = true) /\
    length (snd full) = m.

  Lemma inv_step cut full c : wf_contrib c -> inv cut full -> inv (cut_step cut c) (full_step full c).
  Proof. intros Hc [H1 [H2 [H3 H4]]]. destruct cut as [opq t]. cbn [fst snd] in *.
    unfold cut_step. destruct (@saturated R RNum opq t) eqn:Es.
    - unfold inv, full_step. cbn [fst snd]. repeat split.
      + intros Hs. rewrite Es in Hs. discriminate.
      + apply le_vec_add; [exact H2|apply tau_of_nonneg; assumption|rewrite tau_of_length; lia].
      + intros Ho. rewrite (H3 Ho). reflexivity.
      + unfold vadd. rewrite map2_length, tau_of_length. lia.
    - specialize (H1 eq_refl). subst full. unfold inv, full_step. cbn [fst snd] in *. repeat split.
      + apply le_vec_refl.
      + auto.
      + unfold vadd. rewrite map2_length, tau_of_length. lia. Qed.

  Lemma inv_fold cs cut full : Forall wf_contrib cs -> inv cut full ->
    inv (fold_left cut_step cs cut) (fold_left full_step cs full).
  Proof. intros Hw. revert cut full. induction Hw as [|c cs Hc _ IH]; intros cut full Hi; cbn [fold_left].
    - exact Hi.
    - apply IH. apply inv_step; assumption. Qed.

  Lemma inv_init : inv (false, @zeros R RNum m) (false, @zeros R RNum m).
  Proof. unfold inv. cbn [fst snd]. repeat split; auto using le_vec_refl, zeros_length. Qed.

  (* the licensed deviation: per layer and wavenumber, 0 <= T_cut - T_full <= exp(-10) *)
  Theorem cutoff_error (cs : list contribR) : Forall wf_contrib cs ->
    Forall2 (fun a b => 0 <= a - b <= exp (-10))
      (@trans R RTNum (@opaque_cut R RNum cs rho path m l) (@tau_cut R RNum cs rho path m l))
      (@trans R RTNum (@opaque_full R cs l) (@tau_full R RNum cs rho path m l)).
  Proof. intros Hw.
    pose proof (inv_fold cs _ _ Hw inv_init) as [H1 [H2 [H3 H4]]].
    unfold opaque_cut, tau_cut, tau_cut_state. rewrite <- cut_state_fold.
    set (cut := fold_left cut_step cs (false, @zeros R RNum m)) in *.
    set (full := fold_left full_step cs (false, @zeros R RNum m)) in *.
    assert (Ef : @tau_full R RNum cs rho path m l = snd full).
    { unfold full. rewrite full_state_snd. reflexivity. }
    assert (Eo : @opaque_full R cs l = fst full).
    { unfold full. rewrite full_state_fst. reflexivity. }
    rewrite Ef, Eo. unfold trans.
    destruct (@saturated R RNum (fst cut) (snd cut)) eqn:Es.
    - apply saturated_spec in Es. destruct Es as [Eo1|Ebig].
      + rewrite Eo1, (H3 Eo1). apply trans_both_opaque. exact H2.
      + apply trans_saturated; assumption.
    - rewrite (H1 eq_refl). apply trans_same. Qed.
End Cut.

(* ---------------- transit depth ---------------------------------------- *)
Definition unit_interval (x : R) : Prop := 0 <= x <= 1.

Section DepthFacts.
  Context (Rp Rs : R) (z dz : list R).
  Context (HRs : 0 < Rs) (HRp : 0 <= Rp) (Hz : nonneg_list z) (Hdz : nonneg_list dz).

  Definition term (tr : list (list R)) (w l : nat) : R :=
    (Rp + ndR z l) * (1 - ndR (nth l tr []) w) * ndR dz l * 2.

  Lemma depth_unfold tr w :
    @depth_at R RTNum Rp Rs z dz tr w = (Rp * Rp + Rsum (map (term tr w) (seq 0 (length z)))) / (Rs * Rs).
  Proof. unfold depth_at, term. rnum. reflexivity. Qed.

  (* every transmittance in [0,1] *)
  Definition trans_ok (tr : list (list R)) (w : nat) : Prop :=
    forall l, (l < length z)%nat -> unit_interval (ndR (nth l tr []) w).

  (* (b)  (Rp/Rs)^2 <= depth <= depth of an atmosphere opaque to its top *)
  Theorem depth_bounds tr w : trans_ok tr w ->
    (Rp / Rs) ^ 2 <= @depth_at R RTNum Rp Rs z dz tr w
    <= (Rp * Rp + Rsum (map (fun l => (Rp + ndR z l) * ndR dz l * 2) (seq 0 (length z)))) / (Rs * Rs).
  Proof. intros Hok. rewrite depth_unfold.
    assert (Hden : 0 < Rs * Rs) by nra.
    assert (Hlo : 0 <= Rsum (map (term tr w) (seq 0 (length z)))).
    { apply Rsum_map_nonneg. intros l Hl. apply in_seq in Hl. unfold term.
      pose proof (nth_d_nonneg z l Hz). pose proof (nth_d_nonneg dz l Hdz).
      destruct (Hok l ltac:(lia)) as [Ht0 Ht1].
      apply Rmult_le_pos; [|lra]. apply Rmult_le_pos; [|assumption]. apply Rmult_le_pos; lra. }
    assert (Hhi : Rsum (map (term tr w) (seq 0 (length z)))
                  <= Rsum (map (fun l => (Rp + ndR z l) * ndR dz l * 2) (seq 0 (length z)))).
    { apply Rsum_map_le. intros l Hl. apply in_seq in Hl. unfold term.
      pose proof (nth_d_nonneg z l Hz). pose proof (nth_d_nonneg dz l Hdz).
      destruct (Hok l ltac:(lia)) as [Ht0 Ht1].
      assert (0 <= (Rp + ndR z l) * ndR dz l) by (apply Rmult_le_pos; lra). nra. }
    split.
    - replace ((Rp / Rs) ^ 2) with ((Rp * Rp) / (Rs * Rs)) by (field; lra).
      apply Rmult_le_compat_r; [left; apply Rinv_0_lt_compat; exact Hden|lra].
    - apply Rmult_le_compat_r; [left; apply Rinv_0_lt_compat; exact Hden|lra]. Qed.

  (* (c) nothing absorbs: every transmittance is 1 *)
  Theorem depth_transparent tr w :
    (forall l, (l < length z)%nat -> ndR (nth l tr []) w = 1) ->
    @depth_at R RTNum Rp Rs z dz tr w = (Rp / Rs) ^ 2.
  Proof. intros H1. rewrite depth_unfold. rewrite Rsum_map_zero.
    - field. lra.
    - intros l Hl. apply in_seq in Hl. unfold term. rewrite H1 by lia. ring. Qed.

  (* depth is monotone: lower transmittance everywhere gives a larger depth *)
  Theorem depth_monotone tr tr' w :
    (forall l, (l < length z)%nat -> ndR (nth l tr' []) w <= ndR (nth l tr []) w) ->
    @depth_at R RTNum Rp Rs z dz tr w <= @depth_at R RTNum Rp Rs z dz tr' w.
  Proof. intros H. rewrite !depth_unfold.
    assert (Hden : 0 < Rs * Rs) by nra.
    apply Rmult_le_compat_r; [left; apply Rinv_0_lt_compat; exact Hden|].
    apply Rplus_le_compat_l. apply Rsum_map_le. intros l Hl. apply in_seq in Hl. unfold term.
    pose proof (nth_d_nonneg z l Hz). pose proof (nth_d_nonneg dz l Hdz).
    specialize (H l ltac:(lia)).
    assert (0 <= (Rp + ndR z l) * ndR dz l) by (apply Rmult_le_pos; lra). nra. Qed.
End DepthFacts.

(* ---------------- nothing absorbs -------------------------------------- *)
Definition zero_sigma (s : list (list R)) : Prop := Forall (Forall (fun x => x = 0)) s.
Definition transparent (c : contribR) : Prop :=
  match c with Sig _ s => zero_sigma s | Cloud fl => Forall (fun b => b = false) fl end.

Lemma nth_d_zero l i : Forall (fun x => x = 0) l -> ndR l i = 0.
Proof. intros H. unfold nth_d. destruct (nth_in_or_default i l 0) as [Hin|Hd].
  - rewrite Forall_forall in H. apply H. exact Hin.
  - rnum. exact Hd. Qed.

Lemma sig_at_zero s l w : zero_sigma s -> @sig_at R RNum s l w = 0.
Proof. intros H. unfold sig_at. apply nth_d_zero.
  destruct (nth_in_or_default l s []) as [Hin|Hd].
  - unfold zero_sigma in H. rewrite Forall_forall in H. apply H. exact Hin.
  - rewrite Hd. constructor. Qed.

Lemma tau_of_transparent c rho path m l : transparent c -> @tau_of R RNum c rho path m l = @zeros R RNum m.
Proof. intros H. destruct c as [sq s|fl]; cbn [tau_of]; unfold zeros; [|reflexivity].
  apply map_ext. intros w. rewrite tau_loop_is_sum. apply Rsum_map_zero. intros k _.
  rewrite sig_at_zero by exact H. rnum. ring. Qed.

Lemma opaque_of_transparent c l : transparent c -> @opaque_of R c l = false.
Proof. destruct c as [sq s|fl]; cbn [opaque_of transparent]; [reflexivity|]. intros H.
  destruct (nth_in_or_default l fl false) as [Hin|Hd]; [|exact Hd].
  rewrite Forall_forall in H. apply H. exact Hin. Qed.

Lemma vadd_zeros m : @vadd R RNum (@zeros R RNum m) (@zeros R RNum m) = @zeros R RNum m.
Proof. unfold zeros, vadd. induction (seq 0 m) as [|x s IH]; cbn [map map2]; [reflexivity|].
  rewrite IH. f_equal. rnum. lra. Qed.

Lemma zeros_not_saturated m : @saturated R RNum false (@zeros R RNum m) = false.
Proof. unfold saturated, zeros. cbn [orb]. destruct (seq 0 m) as [|x s]; cbn [map]; [reflexivity|].
  rnum. apply Rltb_false. unfold lmin.
  destruct (fold_min_both (map (fun _ => 0) s) 0) as [H _]. rnum. lra. Qed.

Theorem transparent_state (cs : list contribR) rho path m l : Forall transparent cs ->
  @tau_cut_state R RNum cs rho path m l = (false, @zeros R RNum m).
Proof. unfold tau_cut_state. induction 1 as [|c cs Hc _ IH]; cbn [fold_left]; [reflexivity|].
  rewrite zeros_not_saturated. rewrite tau_of_transparent, opaque_of_transparent by exact Hc.
  cbn [orb]. rewrite vadd_zeros. exact IH. Qed.

Theorem transparent_depth (newm : bool) Rp Rs z dz zb rho (cs : list contribR) m w :
  0 < Rs -> Forall transparent cs -> (w < m)%nat -> length rho = length z ->
  nth w (snd (@transit R RTNum newm Rp Rs z dz zb rho cs m)) 0 = (Rp / Rs) ^ 2.
Proof. intros HRs Ht Hw Hlen. unfold transit. cbn [snd].
  rewrite (map_nth_lt _ _ 0%nat) by (rewrite seq_length; exact Hw). rewrite seq_nth by exact Hw. cbn [plus].
  apply depth_transparent; [exact HRs|]. intros l Hl. unfold transmittances.
  rewrite (map_nth_lt _ _ 0%nat) by (rewrite seq_length; lia). rewrite seq_nth by lia. cbn [plus].
  unfold opaque_cut, tau_cut. rewrite transparent_state by exact Ht. cbn [fst snd].
  unfold trans, zeros. rewrite map_map. unfold nth_d.
  rewrite (map_nth_lt _ _ 0%nat) by (rewrite seq_length; exact Hw). rnum. rewrite Ropp_0. apply exp_0. Qed.

(* ---------------- scaling every cross-section up ------------------------ *)
Definition scale_contrib (c : R) (k : contribR) : contribR :=
  match k with Sig sq s => Sig sq (map (map (fun x => c * x)) s) | Cloud fl => Cloud fl end.

Lemma sig_at_scale c s l w : @sig_at R RNum (map (map (fun x => c * x)) s) l w = c * @sig_at R RNum s l w.
Proof. unfold sig_at, nth_d. rnum.
  destruct (le_lt_dec (length s) l) as [Hge|Hlt].
  - rewrite (nth_overflow (map (map (fun x => c * x)) s) []) by (rewrite map_length; exact Hge).
    rewrite (nth_overflow s []) by exact Hge. destruct w; cbn [nth]; ring.
  - rewrite (map_nth_lt _ s [] []) by exact Hlt.
    destruct (le_lt_dec (length (nth l s [])) w) as [Hge|Hlt2].
    + rewrite (nth_overflow (map (fun x => c * x) (nth l s [])) 0) by (rewrite map_length; exact Hge).
      rewrite (nth_overflow (nth l s []) 0) by exact Hge. ring.
    + rewrite (map_nth_lt _ _ 0 0) by exact Hlt2. reflexivity. Qed.

Lemma tau_loop_scale c sq s rho path l w :
  @tau_loop R RNum sq (map (map (fun x => c * x)) s) rho path l w = c * @tau_loop R RNum sq s rho path l w.
Proof. rewrite !tau_loop_is_sum. rewrite <- Rsum_map_scale. apply Rsum_map_ext. intros k _.
  rewrite sig_at_scale. ring. Qed.

(* un-cut optical depth of one source is linear in its cross-section, hence monotone for c >= 1 *)
Theorem tau_scale_monotone c k rho path m l : 1 <= c -> wf_contrib k ->
  nonneg_list rho -> nonneg_list path ->
  Forall2 Rle (@tau_of R RNum k rho path m l) (@tau_of R RNum (scale_contrib c k) rho path m l).
Proof. intros Hc Hk Hr Hp. destruct k as [sq s|fl]; cbn [tau_of scale_contrib].
  - induction (seq 0 m) as [|w ws IH]; cbn [map]; constructor; [|exact IH].
    rewrite tau_loop_scale. pose proof (tau_loop_nonneg sq s rho path l w Hk Hr Hp). nra.
  - induction (seq 0 m) as [|w ws IH]; cbn [map]; constructor; [rnum; lra|exact IH]. Qed.

(* ---------------- geometry: segments are non-negative and telescope ------- *)
Definition seg (h : nat -> R) (l j : nat) : R :=
  match j with O => 2 * h l | S j' => 2 * (h (l + j)%nat - h (l + j')%nat) end.

Lemma seg_telescope (h : nat -> R) (l k : nat) :
  Rsum (map (seg h l) (seq 0 (S k))) = 2 * h (l + k)%nat.
Proof. induction k as [|k IH].
  - cbn [seq map]. rewrite Rsum_cons, Rsum_nil. unfold seg. rewrite Nat.add_0_r. lra.
  - rewrite seq_S, map_app, Rsum_app, IH. cbn [plus map]. rewrite Rsum_cons, Rsum_nil.
    unfold seg. lra. Qed.

Lemma seg_nonneg (h : nat -> R) (l j : nat) :
  0 <= h l -> (forall i, h (l + i)%nat <= h (l + S i)%nat) -> 0 <= seg h l j.
Proof. intros H0 Hm. destruct j as [|j]; unfold seg; [lra|]. specialize (Hm j). lra. Qed.

Lemma path_old_as_seg Rp z dz l :
  @path_old R RTNum Rp z dz l
  = map (seg (fun j => @half_chord R RTNum (@shell_old R RTNum Rp z dz j) (@tangent_old R RTNum Rp z dz l)) l)
        (seq 0 (length z - l)).
Proof. unfold path_old. apply map_ext. intros [|j]; unfold seg; rnum; [reflexivity|reflexivity]. Qed.

Lemma path_new_as_seg Rp z dz zb l :
  @path_new R RTNum Rp z dz zb l
  = map (seg (fun j => @half_chord R RTNum (Rp + ndR zb (j + 1)) (Rp + (ndR z l + ndR dz l / 2))) l)
        (seq 0 (length z - l)).
Proof. unfold path_new. apply map_ext. intros [|j]; unfold seg; rnum; [reflexivity|ring]. Qed.

Lemma half_chord_mono (r r' p : R) : 0 <= p -> p <= r -> r <= r' ->
  0 <= @half_chord R RTNum r p <= @half_chord R RTNum r' p.
Proof. intros Hp Hr Hrr. unfold half_chord. rnum. split; [apply sqrt_pos|]. apply sqrt_le_1_alt. nra. Qed.

(* both path-length methods: every segment of every ray is >= 0 and the segments of the ray of
   layer l add up to the full chord inside the outermost shell *)
Theorem path_old_sound Rp z dz l :
  (l < length z)%nat -> 0 <= @tangent_old R RTNum Rp z dz l ->
  @tangent_old R RTNum Rp z dz l <= @shell_old R RTNum Rp z dz l ->
  (forall j, @shell_old R RTNum Rp z dz j <= @shell_old R RTNum Rp z dz (S j)) ->
  Forall (fun s => 0 <= s) (@path_old R RTNum Rp z dz l) /\
  Rsum (@path_old R RTNum Rp z dz l)
  = 2 * @half_chord R RTNum (@shell_old R RTNum Rp z dz (length z - 1)) (@tangent_old R RTNum Rp z dz l).
Proof. intros Hl Hp0 Hps Hmono. rewrite path_old_as_seg.
  set (p := @tangent_old R RTNum Rp z dz l) in *.
  set (h := fun j => @half_chord R RTNum (@shell_old R RTNum Rp z dz j) p).
  assert (Hsh : forall i, p <= @shell_old R RTNum Rp z dz (l + i)).
  { induction i as [|i IH]; [rewrite Nat.add_0_r; exact Hps|].
    replace (l + S i)%nat with (S (l + i)) by lia. specialize (Hmono (l + i)%nat). lra. }
  split.
  - apply Forall_forall. intros s Hs. apply in_map_iff in Hs. destruct Hs as [j [<- _]].
    apply seg_nonneg.
    + apply (half_chord_mono _ _ p Hp0 Hps (Rle_refl _)).
    + intros i. unfold h. replace (l + S i)%nat with (S (l + i)) by lia.
      apply (half_chord_mono _ _ p Hp0 (Hsh i) (Hmono _)).
  - replace (length z - l)%nat with (S (length z - l - 1)) by lia.
    rewrite (seg_telescope h). unfold h. f_equal. f_equal. f_equal. lia. Qed.

Theorem path_new_sound Rp z dz zb l :
  (l < length z)%nat -> 0 <= Rp + (ndR z l + ndR dz l / 2) ->
  Rp + (ndR z l + ndR dz l / 2) <= Rp + ndR zb (l + 1) ->
  (forall j, ndR zb j <= ndR zb (S j)) ->
  Forall (fun s => 0 <= s) (@path_new R RTNum Rp z dz zb l) /\
  Rsum (@path_new R RTNum Rp z dz zb l)
  = 2 * @half_chord R RTNum (Rp + ndR zb (length z)) (Rp + (ndR z l + ndR dz l / 2)).
Proof. intros Hl Hp0 Hps Hmono. rewrite path_new_as_seg.
  set (p := Rp + (ndR z l + ndR dz l / 2)) in *.
  set (h := fun j => @half_chord R RTNum (Rp + ndR zb (j + 1)) p).
  assert (Hsh : forall i, p <= Rp + ndR zb (l + i + 1)).
  { induction i as [|i IH]; [rewrite Nat.add_0_r; exact Hps|].
    replace (l + S i + 1)%nat with (S (l + i + 1)) by lia. specialize (Hmono (l + i + 1)%nat). lra. }
  split.
  - apply Forall_forall. intros s Hs. apply in_map_iff in Hs. destruct Hs as [j [<- _]].
    apply seg_nonneg.
    + apply (half_chord_mono _ _ p Hp0 Hps (Rle_refl _)).
    + intros i. unfold h. replace (l + S i + 1)%nat with (S (l + i + 1)) by lia.
      apply (half_chord_mono _ _ p Hp0 (Hsh i)). specialize (Hmono (l + i + 1)%nat). lra.
  - replace (length z - l)%nat with (S (length z - l - 1)) by lia.
    rewrite (seg_telescope h). unfold h. f_equal. f_equal. f_equal. f_equal. lia. Qed.
