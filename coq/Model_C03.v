(* Model_C03.v — how opacity sources are assembled from their components
   (Contribution.prepare / AbsorptionContribution.prepare_each / CIAContribution.prepare_each /
    RayleighContribution.prepare_each).  The optical-depth machinery is Model_C01. *)
From Coq Require Import ZArith List Bool Arith.
From TV Require Import Num ListNum Model_C01.
Import ListNotations.

Section Prepare.
  Context {T : Type} {N : Num T}.
  Local Open Scope num_scope.

  (* one component: per-layer cross-section rows (already interpolated to each layer's T,P)
     weighted by a per-layer factor: the species' mixing ratio, or the product of both partners'
     ratios for a collision pair *)
  Definition weighted (factor : list T) (xsec : list (list T)) : list (list T) :=
    map2 (fun f row => map (fun x => x * f) row) factor xsec.

  Definition cia_factor (mix1 mix2 : list T) : list T := map2 nmul mix1 mix2.

  (* Contribution.prepare: sigma_xsec = sum of the yielded components (nl layers, m wavenumbers) *)
  Definition zero_sigma_tab (nl m : nat) : list (list T) := repeat (repeat n0 m) nl.
  Definition add_sigma (a b : list (list T)) : list (list T) := map2 vadd a b.
  Definition prepare_sum (nl m : nat) (comps : list (list (list T))) : list (list T) :=
    fold_left add_sigma comps (zero_sigma_tab nl m).
End Prepare.
