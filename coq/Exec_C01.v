(* Exec_C01.v — executable wrappers (interval arithmetic) for the transmission checks. *)
From Coq Require Import ZArith List.
From TV Require Import Num NumIv ListNum Model_C01.
Import ListNotations.

Definition run_transit (newm : bool) (Rp Rs : I.type) (z dz zb rho : list I.type)
  (cs : list (@contrib I.type)) (m : nat) : list (list (list (list Z))) :=
  let '(paths, tr, depth) := @transit I.type IvTNum newm Rp Rs z dz zb rho cs m in
  [ map (map Iout) paths; map (map Iout) tr; [map Iout depth] ].

(* un-cut transmittance of a set of sources along given paths (used by C03) *)
Definition run_full (rho : list I.type) (paths : list (list I.type))
  (cs : list (@contrib I.type)) (m : nat) : list (list (list Z)) :=
  map (fun l => map Iout (@trans I.type IvTNum (@opaque_full I.type cs l)
                            (@tau_full I.type IvNum cs rho (nth l paths []) m l)))
      (seq 0 (length rho)).
