(* Props_C07.v — C07: retrieval set-up depends only on current settings; updates touch only fitted. *)
From Coq Require Import ZArith QArith List.
From TV Require Import Model_C07 Proofs_C07.
Import ListNotations.

(* (a) after (re)compiling, names, order, values, boundaries, priors and derived names are a function of
   the current settings alone, whatever sequence of operations produced them *)
Theorem C07_settings_only : forall s1 s2 : state,
  settings s1 = settings s2 -> views (compile s1) = views (compile s2).
Proof. exact compile_settings_only. Qed.
Print Assumptions C07_settings_only.

Theorem C07_history_independent : forall (ops1 ops2 : list op) (s0 : state),
  settings (run ops1 s0) = settings (run ops2 s0) ->
  views (compile (run ops1 s0)) = views (compile (run ops2 s0)).
Proof. exact history_independent. Qed.
Print Assumptions C07_history_independent.

(* what "implied by the current settings" means: the fitted parameters in table order, each with the
   user's prior or the default for its current mode and bounds *)
Theorem C07_compile_lists_fitted : forall s : state,
  map c_name (compiled (compile s)) = map p_name (filter p_fit (params s)) /\
  derived_names (compile s) = map d_name (filter d_compute (derived s)).
Proof. exact compile_lists_fitted. Qed.
Print Assumptions C07_compile_lists_fitted.

Theorem C07_compile_prior_choice : forall (s : state) (c : centry), In c (compiled (compile s)) ->
  exists p, In p (params s) /\ p_fit p = true /\ c_name c = p_name p /\
            c_log c = p_log p /\ c_lo c = p_lo p /\ c_hi c = p_hi p /\
            c_prior c = match lookup_prior (user_priors s) (p_name p) with
                        | Some pr => pr | None => default_prior p end.
Proof. exact compile_prior_choice. Qed.
Print Assumptions C07_compile_prior_choice.

(* (b) mutual consistency: name prefix, reported value and boundaries all live in the prior's space ... *)
Theorem C07_views_same_space : forall (s : state) (i : nat) (c : centry), nth_error (compiled s) i = Some c ->
  nth_error (fit_names s) i = Some (c_name c, negb (space_eqb (pr_space (c_prior c)) Linear)) /\
  nth_error (fit_values s) i = Some (view_val (pr_space (c_prior c)) (value_of s (c_name c))) /\
  nth_error (fit_boundaries s) i = Some (pr_space (c_prior c), c_lo c, c_hi c).
Proof. exact views_same_space. Qed.
Print Assumptions C07_views_same_space.

(* ... so writing the reported values back changes nothing *)
Theorem C07_writeback_identity : forall s : state, names_distinct s ->
  step (compile s) (UpdateModel (fit_values (compile s))) = (compile s, Ok).
Proof. exact writeback_identity. Qed.
Print Assumptions C07_writeback_identity.

(* (c) writing a parameter vector leaves every parameter that is not fitted untouched *)
Theorem C07_update_touches_only_fitted : forall (s : state) (vs : list vv) (k : nat),
  ~ In k (map c_name (compiled s)) -> value_of (fst (step s (UpdateModel vs))) k = value_of s k.
Proof. exact update_touches_only_fitted. Qed.
Print Assumptions C07_update_touches_only_fitted.

(* (d) naming an unknown parameter is an error and changes nothing *)
Theorem C07_unknown_name_is_error : forall (s : state) (n : nat) (b : bool) (lo hi : Q) (pr : prior),
  find_param s n = None -> find_dparam s n = None ->
  step s (EnableFit n) = (s, KeyErr) /\ step s (DisableFit n) = (s, KeyErr) /\
  step s (SetMode n b) = (s, KeyErr) /\ step s (SetBoundary n lo hi) = (s, KeyErr) /\
  step s (SetFactorBoundary n lo hi) = (s, KeyErr) /\ step s (SetPrior n pr) = (s, ValueErr) /\
  step s (EnableDerived n) = (s, KeyErr) /\ step s (DisableDerived n) = (s, KeyErr).
Proof. exact unknown_name_is_error. Qed.
Print Assumptions C07_unknown_name_is_error.
