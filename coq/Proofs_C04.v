(* Proofs_C04.v — soundness of opacity interpolation at the real-number instance. *)
From Coq Require Import ZArith Reals List Bool Arith Lia Lra Sorting.Sorted.
From TV Require Import Num ListNum ListAux ListNumR Model_C04.
Import ListNotations.
Local Open Scope R_scope.

Notation ssl := (@ss_left R RNum).
Notation fcp := (@find_closest_pair R RNum).
Notation nd := (@nth_d R RNum).

(* ---------------- searchsorted (left) -------------------------------- *)
Lemma ssl_le_length (a : list R) v : (ssl a v <= length a)%nat.
Proof. induction a as [|x a IH]; simpl; [lia|]. rnum. destruct (Rltb x v); simpl; lia. Qed.

Lemma ssl_before (a : list R) v i : (i < ssl a v)%nat -> nth i a 0 < v.
Proof. revert i. induction a as [|x a IH]; intros i Hi; simpl in Hi; [lia|]. rnum.
  destruct (Rltb x v) eqn:E; [|lia]. apply Rltb_true in E.
  destruct i as [|i]; simpl; [exact E|]. apply IH. lia. Qed.

Lemma ssl_at (a : list R) v : (ssl a v < length a)%nat -> v <= nth (ssl a v) a 0.
Proof. induction a as [|x a IH]; simpl; [lia|]. rnum. destruct (Rltb x v) eqn:E.
  - intros H. simpl. apply IH. lia.
  - intros _. apply Rltb_false in E. simpl. exact E. Qed.

Lemma ssl_ge (a : list R) v k :
  (k <= length a)%nat -> (forall i, (i < k)%nat -> nth i a 0 < v) -> (k <= ssl a v)%nat.
Proof. revert k. induction a as [|x a IH]; intros k Hk H; simpl in *; [lia|]. rnum.
  destruct k as [|k]; [lia|]. assert (Hx : x < v) by (apply (H 0%nat); lia).
  apply Rltb_true in Hx. rewrite Hx. apply le_n_S. apply IH; [lia|].
  intros i Hi. apply (H (S i)). lia. Qed.

(* strictly increasing grids *)
Definition incr (a : list R) : Prop := forall i j, (i < j < length a)%nat -> nth i a 0 < nth j a 0.

Lemma incr_le (a : list R) i j : incr a -> (i <= j < length a)%nat -> nth i a 0 <= nth j a 0.
Proof. intros H Hij. destruct (Nat.eq_dec i j) as [->|Hne]; [lra|]. left. apply H. lia. Qed.

(* ---------------- find_closest_pair ---------------------------------- *)
Section FCP.
  Context (a : list R) (v : R).
  Context (Hn : (2 <= length a)%nat) (Hs : incr a).
  Let n := length a.

  Lemma fcp_shape : exists r, fcp a v = ((r - 1)%nat, r) /\ (1 <= r <= n - 1)%nat.
  Proof. unfold find_closest_pair. eexists. split; [reflexivity|]. fold n. lia. Qed.

  Lemma fcp_inside : nth 0 a 0 <= v <= nth (n - 1) a 0 ->
    let '(l, r) := fcp a v in nth l a 0 <= v <= nth r a 0.
  Proof. intros [Hlo Hhi]. unfold find_closest_pair. fold n.
    set (k := ssl a v).
    assert (Hk : (k <= n - 1)%nat).
    { destruct (le_lt_dec k (n - 1)); [assumption|]. exfalso.
      assert (nth (n - 1) a 0 < v) by (apply ssl_before; fold k; lia). lra. }
    rewrite Nat.min_r by exact Hk.
    destruct (Nat.eq_dec k 0) as [Hk0|Hk0].
    - rewrite Hk0. simpl. split; [exact Hlo|].
      assert (v <= nth k a 0) by (apply ssl_at; fold k; fold n; lia). rewrite Hk0 in H.
      assert (nth 0 a 0 < nth 1 a 0) by (apply Hs; fold n; lia). lra.
    - rewrite Nat.max_l by lia. split.
      + left. apply ssl_before. fold k. lia.
      + apply ssl_at. fold k. fold n. lia. Qed.

  Lemma fcp_above : nth (n - 1) a 0 <= v -> fcp a v = ((n - 2)%nat, (n - 1)%nat).
  Proof. intros Hv. unfold find_closest_pair. fold n.
    assert (Hk : (n - 1 <= ssl a v)%nat).
    { apply ssl_ge; [fold n; lia|]. intros i Hi.
      assert (nth i a 0 < nth (n - 1) a 0) by (apply Hs; fold n; lia). lra. }
    rewrite Nat.min_l by exact Hk. rewrite Nat.max_l by lia. f_equal. lia. Qed.

  Lemma fcp_below : v <= nth 0 a 0 -> fcp a v = (0%nat, 1%nat).
  Proof. intros Hv. unfold find_closest_pair. fold n.
    assert (Hk : ssl a v = 0%nat).
    { destruct a as [|x a']; [reflexivity|]. simpl in *. rnum.
      destruct (Rltb x v) eqn:E; [apply Rltb_true in E; lra|reflexivity]. }
    rewrite Hk. rewrite Nat.min_r by lia. reflexivity. Qed.

  (* at a node the bracket has the node as an end point *)
  Lemma fcp_node i : (i < n)%nat -> v = nth i a 0 ->
    let '(l, r) := fcp a v in (i = l \/ i = r).
  Proof. intros Hi Hv. unfold find_closest_pair. fold n.
    assert (Hk : ssl a v = i).
    { apply Nat.le_antisymm.
      - destruct (le_lt_dec (ssl a v) i); [assumption|]. exfalso.
        assert (nth i a 0 < v) by (apply ssl_before; assumption). lra.
      - apply ssl_ge; [fold n; lia|]. intros j Hj. rewrite Hv. apply Hs. fold n. lia. }
    rewrite Hk. destruct (Nat.eq_dec i 0) as [->|Hi0].
    - rewrite Nat.min_r by lia. simpl. left. reflexivity.
    - rewrite Nat.min_r by lia. rewrite Nat.max_l by lia. right. reflexivity. Qed.
End FCP.

(* ---------------- kernels ------------------------------------------- *)
Lemma k_lin_between (x y P Pmin Pmax m M : R) :
  Pmin < Pmax -> Pmin <= P <= Pmax -> m <= x <= M -> m <= y <= M ->
  m <= @k_lin R RNum x y P Pmin Pmax <= M.
Proof. intros Hlt HP Hx Hy. unfold k_lin. rnum.
  set (s := (P - Pmin) / (Pmax - Pmin)).
  assert (Hs : 0 <= s <= 1).
  { unfold s. split.
    - apply Rmult_le_pos; [lra|]. left. apply Rinv_0_lt_compat. lra.
    - apply Rmult_le_reg_r with (Pmax - Pmin); [lra|]. unfold Rdiv. rewrite Rmult_assoc, Rinv_l by lra. lra. }
  replace (x - s * (x - y)) with ((1 - s) * x + s * y) by ring. nra. Qed.

Lemma k_lin_left (x y Pmin Pmax : R) : Pmin < Pmax -> @k_lin R RNum x y Pmin Pmin Pmax = x.
Proof. intros H. unfold k_lin. rnum. unfold Rdiv. replace (Pmin - Pmin) with 0 by ring. ring. Qed.
Lemma k_lin_right (x y Pmin Pmax : R) : Pmin < Pmax -> @k_lin R RNum x y Pmax Pmin Pmax = y.
Proof. intros H. unfold k_lin. rnum. field. lra. Qed.

Lemma k_bilin_between (x11 x12 x21 x22 Tv Tmin Tmax P Pmin Pmax m M : R) :
  Tmin < Tmax -> Tmin <= Tv <= Tmax -> Pmin < Pmax -> Pmin <= P <= Pmax ->
  m <= x11 <= M -> m <= x12 <= M -> m <= x21 <= M -> m <= x22 <= M ->
  m <= @k_bilin R RNum x11 x12 x21 x22 Tv Tmin Tmax P Pmin Pmax <= M.
Proof. intros HT HTv HP HPv H11 H12 H21 H22. unfold k_bilin. rnum.
  set (p := (P - Pmin) / (Pmax - Pmin)). set (t := (Tv - Tmin) / (Tmax - Tmin)).
  assert (Hp : 0 <= p <= 1).
  { unfold p. split.
    - apply Rmult_le_pos; [lra|]. left. apply Rinv_0_lt_compat. lra.
    - apply Rmult_le_reg_r with (Pmax - Pmin); [lra|]. unfold Rdiv. rewrite Rmult_assoc, Rinv_l by lra. lra. }
  assert (Ht : 0 <= t <= 1).
  { unfold t. split.
    - apply Rmult_le_pos; [lra|]. left. apply Rinv_0_lt_compat. lra.
    - apply Rmult_le_reg_r with (Tmax - Tmin); [lra|]. unfold Rdiv. rewrite Rmult_assoc, Rinv_l by lra. lra. }
  replace (x11 - p * (x11 - x21) - p * t * (x21 - x11 + x12 - x22) - t * (x11 - x12))
    with ((1 - p) * ((1 - t) * x11 + t * x12) + p * ((1 - t) * x21 + t * x22)) by ring.
  assert (m <= (1 - t) * x11 + t * x12 <= M) by nra.
  assert (m <= (1 - t) * x21 + t * x22 <= M) by nra. nra. Qed.

Lemma k_bilin_is_bilinear (x11 x12 x21 x22 Tv Tmin Tmax P Pmin Pmax : R) :
  let p := (P - Pmin) / (Pmax - Pmin) in let t := (Tv - Tmin) / (Tmax - Tmin) in
  @k_bilin R RNum x11 x12 x21 x22 Tv Tmin Tmax P Pmin Pmax
  = (1 - p) * (1 - t) * x11 + (1 - p) * t * x12 + p * (1 - t) * x21 + p * t * x22.
Proof. intros p t. unfold k_bilin. rnum. fold p t. ring. Qed.

(* the exponential kernel is geometric interpolation: a^(1-w) * b^w with w in [0,1] *)
Lemma geo_between (a b w m M : R) :
  0 < m -> m <= a <= M -> m <= b <= M -> 0 <= w <= 1 ->
  m <= a * exp (- w * ln (a / b)) <= M.
Proof. intros Hm Ha Hb Hw.
  assert (Hapos : 0 < a) by lra. assert (Hbpos : 0 < b) by lra.
  assert (Heq : a * exp (- w * ln (a / b)) = exp ((1 - w) * ln a + w * ln b)).
  { unfold Rdiv. rewrite ln_mult by (try apply Rinv_0_lt_compat; lra). rewrite ln_Rinv by lra.
    rewrite <- (exp_ln a) at 1 by lra. rewrite <- exp_plus. f_equal. ring. }
  rewrite Heq.
  assert (Hlm : ln m <= ln a) by (destruct (proj1 Ha) as [H|H]; [left; apply ln_increasing; lra|rewrite H; lra]).
  assert (HlM : ln a <= ln M) by (destruct (proj2 Ha) as [H|H]; [left; apply ln_increasing; lra|rewrite H; lra]).
  assert (Hlm' : ln m <= ln b) by (destruct (proj1 Hb) as [H|H]; [left; apply ln_increasing; lra|rewrite H; lra]).
  assert (HlM' : ln b <= ln M) by (destruct (proj2 Hb) as [H|H]; [left; apply ln_increasing; lra|rewrite H; lra]).
  assert (HMpos : 0 < M) by lra.
  split.
  - rewrite <- (exp_ln m) at 1 by lra.
    assert (ln m <= (1 - w) * ln a + w * ln b) by nra.
    destruct H as [H|H]; [left; apply exp_increasing; exact H|rewrite H; lra].
  - rewrite <- (exp_ln M) at 1 by lra.
    assert ((1 - w) * ln a + w * ln b <= ln M) by nra.
    destruct H as [H|H]; [left; apply exp_increasing; exact H|rewrite H; lra]. Qed.

Lemma exp_weight (Tv Tmin Tmax : R) :
  0 < Tmin -> Tmin < Tmax -> Tmin <= Tv <= Tmax ->
  let w := - (Tmax * (- Tv + Tmin) / (Tv * (Tmax - Tmin))) in 0 <= w <= 1.
Proof. intros H0 Hlt HT w. unfold w.
  assert (Hd : 0 < Tv * (Tmax - Tmin)) by nra.
  replace (- (Tmax * (- Tv + Tmin) / (Tv * (Tmax - Tmin))))
    with ((Tmax * (Tv - Tmin)) / (Tv * (Tmax - Tmin))) by (field; lra).
  split.
  - apply Rmult_le_pos; [nra|]. left. apply Rinv_0_lt_compat. exact Hd.
  - apply Rmult_le_reg_r with (Tv * (Tmax - Tmin)); [exact Hd|].
    unfold Rdiv. rewrite Rmult_assoc, Rinv_l by lra. nra. Qed.

Lemma k_exp_between (x y Tv Tmin Tmax m M : R) :
  0 < m -> 0 < Tmin -> Tmin < Tmax -> Tmin <= Tv <= Tmax -> m <= x <= M -> m <= y <= M ->
  m <= @k_exp R RTNum x y Tv Tmin Tmax <= M.
Proof. intros Hm H0 Hlt HT Hx Hy. unfold k_exp. rnum.
  pose proof (exp_weight Tv Tmin Tmax H0 Hlt HT) as Hw. cbv zeta in Hw.
  set (w := - (Tmax * (- Tv + Tmin) / (Tv * (Tmax - Tmin)))) in *.
  replace (Tmax * (- Tv + Tmin) * ln (x / y) / (Tv * (Tmax - Tmin))) with (- w * ln (x / y)).
  - apply geo_between; assumption.
  - unfold w. field. nra. Qed.

Lemma k_exp_left (x y Tmin Tmax : R) : 0 < Tmin -> Tmin < Tmax -> @k_exp R RTNum x y Tmin Tmin Tmax = x.
Proof. intros H0 H. unfold k_exp. rnum. replace (- Tmin + Tmin) with 0 by ring.
  unfold Rdiv. rewrite Rmult_0_r, !Rmult_0_l, exp_0. ring. Qed.

Lemma k_exp_right (x y Tmin Tmax : R) : 0 < x -> 0 < y -> 0 < Tmin -> Tmin < Tmax ->
  @k_exp R RTNum x y Tmax Tmin Tmax = y.
Proof. intros Hx Hy H0 H. unfold k_exp. rnum.
  replace (Tmax * (- Tmax + Tmin) * ln (x / y) / (Tmax * (Tmax - Tmin))) with (- ln (x / y)) by (field; lra).
  rewrite exp_Ropp, exp_ln by (apply Rdiv_lt_0_compat; lra). field. lra. Qed.

Lemma k_explin_as_exp (x11 x12 x21 x22 Tv Tmin Tmax P Pmin Pmax : R) :
  Pmin < Pmax ->
  @k_explin R RTNum x11 x12 x21 x22 Tv Tmin Tmax P Pmin Pmax
  = @k_exp R RTNum (@k_lin R RNum x11 x21 P Pmin Pmax) (@k_lin R RNum x12 x22 P Pmin Pmax) Tv Tmin Tmax.
Proof. intros HP. unfold k_explin, k_exp, k_lin. rnum.
  set (d := Pmax - Pmin). assert (Hd : d <> 0) by (unfold d; lra).
  set (A := x11 * d - (P - Pmin) * (x11 - x21)). set (B := x12 * d - (P - Pmin) * (x12 - x22)).
  replace (x11 - (P - Pmin) / d * (x11 - x21)) with (A / d) by (unfold A; field; exact Hd).
  replace (x12 - (P - Pmin) / d * (x12 - x22)) with (B / d) by (unfold B; field; exact Hd).
  assert (Hq : A / d / (B / d) = A / B).
  { destruct (Req_dec B 0) as [HB|HB].
    - rewrite HB. unfold Rdiv. rewrite Rmult_0_l, Rinv_0. ring.
    - field. split; assumption. }
  rewrite Hq. unfold Rdiv. ring. Qed.

Lemma k_explin_between (x11 x12 x21 x22 Tv Tmin Tmax P Pmin Pmax m M : R) :
  0 < m -> 0 < Tmin -> Tmin < Tmax -> Tmin <= Tv <= Tmax -> Pmin < Pmax -> Pmin <= P <= Pmax ->
  m <= x11 <= M -> m <= x12 <= M -> m <= x21 <= M -> m <= x22 <= M ->
  m <= @k_explin R RTNum x11 x12 x21 x22 Tv Tmin Tmax P Pmin Pmax <= M.
Proof. intros. rewrite k_explin_as_exp by assumption.
  apply k_exp_between; try assumption; apply k_lin_between; assumption. Qed.

(* ---------------- the region dispatch -------------------------------- *)
Section Sound.
  (* abstract kernels with a "stays between its arguments" specification;
     good m  : side condition on the lower bound  (exp mode: 0 < m)
     okT t   : side condition on the lower temperature node (exp mode: 0 < t) *)
  Context (kT : R -> R -> R -> R -> R -> R).
  Context (k2 : R -> R -> R -> R -> R -> R -> R -> R -> R -> R -> R).
  Context (good : R -> Prop) (okT : R -> Prop).
  Context (HkT : forall x y Tv Tmin Tmax m M, good m -> okT Tmin -> Tmin < Tmax -> Tmin <= Tv <= Tmax ->
                 m <= x <= M -> m <= y <= M -> m <= kT x y Tv Tmin Tmax <= M).
  Context (Hk2 : forall x11 x12 x21 x22 Tv Tmin Tmax P Pmin Pmax m M, good m -> okT Tmin ->
                 Tmin < Tmax -> Tmin <= Tv <= Tmax -> Pmin < Pmax -> Pmin <= P <= Pmax ->
                 m <= x11 <= M -> m <= x12 <= M -> m <= x21 <= M -> m <= x22 <= M ->
                 m <= k2 x11 x12 x21 x22 Tv Tmin Tmax P Pmin Pmax <= M).

  Context (Tg Pg : list R) (tab : nat -> nat -> R) (Tv P : R).
  Context (HnT : (2 <= length Tg)%nat) (HnP : (2 <= length Pg)%nat).
  Context (HsT : incr Tg) (HsP : incr Pg).
  Context (HokT : forall i, (i < length Tg)%nat -> okT (nth i Tg 0)).

  Let nT := length Tg.
  Let nP := length Pg.

  Definition below_both : Prop := P < nth 0 Pg 0 /\ Tv < nth 0 Tg 0.

  Theorem interp_zero_corner : below_both -> @interp R RNum kT k2 Tg Pg tab Tv P = 0.
  Proof. intros [HP HT]. unfold interp.
    destruct (fcp Tg Tv) as [tl tr]. destruct (fcp Pg P) as [pl pr]. unfold nth_d. rnum. fold nT nP.
    assert (E1 : Rleb (nth (nP - 1) Pg 0) P = false).
    { apply Rleb_false. assert (nth 0 Pg 0 <= nth (nP - 1) Pg 0) by (apply incr_le; [exact HsP|fold nP; lia]). lra. }
    assert (E2 : Rltb P (nth 0 Pg 0) = true) by (apply Rltb_true; exact HP).
    assert (E3 : Rltb Tv (nth 0 Tg 0) = true) by (apply Rltb_true; exact HT).
    rewrite E1, E2, E3. reflexivity. Qed.

  Theorem interp_sound (m M : R) :
    ~ below_both -> good m ->
    (forall p t, (p = fst (fcp Pg P) \/ p = snd (fcp Pg P)) ->
                 (t = fst (fcp Tg Tv) \/ t = snd (fcp Tg Tv)) -> m <= tab p t <= M) ->
    m <= @interp R RNum kT k2 Tg Pg tab Tv P <= M.
  Proof. intros Hnb Hg Htab. unfold interp.
    destruct (fcp_shape Tg Tv HnT) as [tr [EfT HtR]].
    destruct (fcp_shape Pg P HnP) as [pr [EfP HpR]].
    pose proof (fcp_inside Tg Tv HnT HsT) as HinT. pose proof (fcp_inside Pg P HnP HsP) as HinP.
    pose proof (fcp_above Tg Tv HnT HsT) as HabT. pose proof (fcp_above Pg P HnP HsP) as HabP.
    pose proof (fcp_below Tg Tv HnT HsT) as HbeT. pose proof (fcp_below Pg P HnP HsP) as HbeP.
    rewrite EfT, EfP in *. cbn [fst snd] in Htab. fold nT nP in HtR, HpR, HinT, HinP, HabT, HabP.
    unfold nth_d. rnum. fold nT nP.
    assert (HTrange : nth 0 Tg 0 <= nth (nT - 1) Tg 0) by (apply incr_le; [exact HsT|fold nT; lia]).
    assert (HPrange : nth 0 Pg 0 <= nth (nP - 1) Pg 0) by (apply incr_le; [exact HsP|fold nP; lia]).
    assert (HTlt : nth (tr - 1) Tg 0 < nth tr Tg 0) by (apply HsT; fold nT; lia).
    assert (HPlt : nth (pr - 1) Pg 0 < nth pr Pg 0) by (apply HsP; fold nP; lia).
    assert (Hokl : okT (nth (tr - 1) Tg 0)) by (apply HokT; fold nT; lia).
    assert (H00 : m <= tab (pr - 1)%nat (tr - 1)%nat <= M) by (apply Htab; auto).
    assert (H01 : m <= tab (pr - 1)%nat tr <= M) by (apply Htab; auto).
    assert (H10 : m <= tab pr (tr - 1)%nat <= M) by (apply Htab; auto).
    assert (H11 : m <= tab pr tr <= M) by (apply Htab; auto).
    destruct (Rleb (nth (nP - 1) Pg 0) P) eqn:Epmax;
      [apply Rleb_true in Epmax|apply Rleb_false in Epmax];
    (destruct (Rleb (nth (nT - 1) Tg 0) Tv) eqn:Etmax;
      [apply Rleb_true in Etmax|apply Rleb_false in Etmax]);
    (destruct (Rltb P (nth 0 Pg 0)) eqn:Epmin;
      [apply Rltb_true in Epmin|apply Rltb_false in Epmin]);
    (destruct (Rltb Tv (nth 0 Tg 0)) eqn:Etmin;
      [apply Rltb_true in Etmin|apply Rltb_false in Etmin]); cbn [andb].
    all: try (exfalso; apply Hnb; split; assumption).
    all: try (exfalso; lra).
    all: repeat match goal with
      | |- context [if Rleb ?x ?y then _ else _] =>
          let E := fresh "Ec" in destruct (Rleb x y) eqn:E; [apply Rleb_true in E|apply Rleb_false in E]
      end.
    all: try (exfalso; lra).
    (* pin the brackets at the edges *)
    all: try (assert (HprE : pr = (nP - 1)%nat) by (specialize (HabP Epmax); congruence)).
    all: try (assert (HtrE : tr = (nT - 1)%nat) by (specialize (HabT Etmax); congruence)).
    all: try (assert (Hpr1 : pr = 1%nat) by (assert (HE : ((pr - 1)%nat, pr) = (0%nat, 1%nat)) by (apply HbeP; lra); congruence)).
    all: try (assert (Htr1 : tr = 1%nat) by (assert (HE : ((tr - 1)%nat, tr) = (0%nat, 1%nat)) by (apply HbeT; lra); congruence)).
    all: try (rewrite Hpr1 in *; cbn [Nat.sub] in * ).
    all: try (rewrite Htr1 in *; cbn [Nat.sub] in * ).
    all: try (rewrite <- HprE).
    all: try (rewrite <- HtrE).
    all: try exact H11.
    all: try (apply HkT; try assumption).
    all: try (apply k_lin_between; try assumption).
    all: try (apply Hk2; try assumption).
    all: try (apply HinT; lra).
    all: try (apply HinP; lra).
    all: try lra.
  Qed.
End Sound.

(* ---------------- grid nodes are reproduced --------------------------- *)
Section Node.
  Context (kT : R -> R -> R -> R -> R -> R).
  Context (k2 : R -> R -> R -> R -> R -> R -> R -> R -> R -> R -> R).
  Context (okT : R -> Prop) (pos : R -> Prop).
  Context (HkTl : forall x y Tmin Tmax, okT Tmin -> pos x -> pos y -> Tmin < Tmax -> kT x y Tmin Tmin Tmax = x).
  Context (HkTr : forall x y Tmin Tmax, okT Tmin -> pos x -> pos y -> Tmin < Tmax -> kT x y Tmax Tmin Tmax = y).
  Context (Hk2 : forall x11 x12 x21 x22 Tv Tmin Tmax P Pmin Pmax, okT Tmin ->
     pos x11 -> pos x12 -> pos x21 -> pos x22 -> Tmin < Tmax -> Pmin < Pmax ->
     (Tv = Tmin \/ Tv = Tmax) -> (P = Pmin \/ P = Pmax) ->
     k2 x11 x12 x21 x22 Tv Tmin Tmax P Pmin Pmax
     = if Req_EM_T P Pmin then (if Req_EM_T Tv Tmin then x11 else x12)
       else (if Req_EM_T Tv Tmin then x21 else x22)).

  Context (Tg Pg : list R) (tab : nat -> nat -> R).
  Context (HnT : (2 <= length Tg)%nat) (HnP : (2 <= length Pg)%nat).
  Context (HsT : incr Tg) (HsP : incr Pg).
  Context (HokT : forall i, (i < length Tg)%nat -> okT (nth i Tg 0)).
  Context (Hpos : forall p t, pos (tab p t)).
  Let nT := length Tg.
  Let nP := length Pg.

  Theorem interp_node (i j : nat) : (i < nT)%nat -> (j < nP)%nat ->
    @interp R RNum kT k2 Tg Pg tab (nth i Tg 0) (nth j Pg 0) = tab j i.
  Proof. intros Hi Hj. set (Tv := nth i Tg 0). set (P := nth j Pg 0). unfold interp.
    destruct (fcp_shape Tg Tv HnT) as [tr [EfT HtR]].
    destruct (fcp_shape Pg P HnP) as [pr [EfP HpR]].
    pose proof (fcp_node Tg Tv HnT HsT i Hi eq_refl) as HndT.
    pose proof (fcp_node Pg P HnP HsP j Hj eq_refl) as HndP.
    pose proof (fcp_above Tg Tv HnT HsT) as HabT. pose proof (fcp_above Pg P HnP HsP) as HabP.
    rewrite EfT, EfP in *. fold nT nP in HtR, HpR, HabT, HabP.
    unfold nth_d. rnum. fold nT nP.
    assert (HTlt : nth (tr - 1) Tg 0 < nth tr Tg 0) by (apply HsT; fold nT; lia).
    assert (HPlt : nth (pr - 1) Pg 0 < nth pr Pg 0) by (apply HsP; fold nP; lia).
    assert (Hokl : okT (nth (tr - 1) Tg 0)) by (apply HokT; fold nT; lia).
    assert (HT0 : nth 0 Tg 0 <= Tv) by (apply incr_le; [exact HsT|fold nT; lia]).
    assert (HP0 : nth 0 Pg 0 <= P) by (apply incr_le; [exact HsP|fold nP; lia]).
    assert (HTi : i = (nT - 1)%nat \/ Tv < nth (nT - 1) Tg 0).
    { destruct (Nat.eq_dec i (nT - 1)); [left; assumption|right; apply HsT; fold nT; lia]. }
    assert (HPj : j = (nP - 1)%nat \/ P < nth (nP - 1) Pg 0).
    { destruct (Nat.eq_dec j (nP - 1)); [left; assumption|right; apply HsP; fold nP; lia]. }
    assert (Epmin : Rltb P (nth 0 Pg 0) = false) by (apply Rltb_false; exact HP0).
    assert (Etmin : Rltb Tv (nth 0 Tg 0) = false) by (apply Rltb_false; exact HT0).
    rewrite Epmin, Etmin. rewrite !andb_false_r.
    assert (HTc : (if Rleb Tv (nth 0 Tg 0) then nth 0 Tg 0 else Tv) = Tv).
    { destruct (Rleb Tv (nth 0 Tg 0)) eqn:E; [apply Rleb_true in E; lra|reflexivity]. }
    assert (HPc : (if Rleb P (nth 0 Pg 0) then nth 0 Pg 0 else P) = P).
    { destruct (Rleb P (nth 0 Pg 0)) eqn:E; [apply Rleb_true in E; lra|reflexivity]. }
    rewrite HTc, HPc.
    destruct HPj as [HjE|HjL]; destruct HTi as [HiE|HiL].
    - (* both at the last node *)
      assert (E1 : Rleb (nth (nP - 1) Pg 0) P = true) by (apply Rleb_true; unfold P; rewrite HjE; lra).
      assert (E2 : Rleb (nth (nT - 1) Tg 0) Tv = true) by (apply Rleb_true; unfold Tv; rewrite HiE; lra).
      rewrite E1, E2. cbn [andb]. rewrite HjE, HiE. reflexivity.
    - (* last pressure node, inner temperature node *)
      assert (E1 : Rleb (nth (nP - 1) Pg 0) P = true) by (apply Rleb_true; unfold P; rewrite HjE; lra).
      assert (E2 : Rleb (nth (nT - 1) Tg 0) Tv = false) by (apply Rleb_false; exact HiL).
      rewrite E1, E2. cbn [andb]. rewrite <- HjE.
      destruct HndT as [HiT|HiT]; unfold Tv; rewrite HiT.
      + rewrite HkTl; auto.
      + rewrite HkTr; auto.
    - (* inner pressure node, last temperature node *)
      assert (E1 : Rleb (nth (nP - 1) Pg 0) P = false) by (apply Rleb_false; exact HjL).
      assert (E2 : Rleb (nth (nT - 1) Tg 0) Tv = true) by (apply Rleb_true; unfold Tv; rewrite HiE; lra).
      rewrite E1, E2. cbn [andb]. rewrite <- HiE.
      destruct HndP as [HjP|HjP]; unfold P; rewrite HjP.
      + rewrite k_lin_left; auto.
      + rewrite k_lin_right; auto.
    - (* interior node *)
      assert (E1 : Rleb (nth (nP - 1) Pg 0) P = false) by (apply Rleb_false; exact HjL).
      assert (E2 : Rleb (nth (nT - 1) Tg 0) Tv = false) by (apply Rleb_false; exact HiL).
      rewrite E1, E2. cbn [andb].
      rewrite Hk2; auto.
      + destruct HndP as [HjP|HjP]; destruct HndT as [HiT|HiT]; unfold P, Tv; rewrite HjP, HiT;
          repeat match goal with |- context [Req_EM_T ?x ?y] => destruct (Req_EM_T x y) end;
          try reflexivity; try lra.
      + destruct HndT as [HiT|HiT]; unfold Tv; rewrite HiT; auto.
      + destruct HndP as [HjP|HjP]; unfold P; rewrite HjP; auto.
  Qed.
End Node.

(* ---------------- instances: linear and exp mode ---------------------- *)
Lemma k_bilin_corner x11 x12 x21 x22 Tv Tmin Tmax P Pmin Pmax :
  Tmin < Tmax -> Pmin < Pmax -> (Tv = Tmin \/ Tv = Tmax) -> (P = Pmin \/ P = Pmax) ->
  @k_bilin R RNum x11 x12 x21 x22 Tv Tmin Tmax P Pmin Pmax
  = if Req_EM_T P Pmin then (if Req_EM_T Tv Tmin then x11 else x12)
    else (if Req_EM_T Tv Tmin then x21 else x22).
Proof. intros HT HP [HTv|HTv] [HPv|HPv]; subst; unfold k_bilin; rnum;
  repeat match goal with |- context [Req_EM_T ?x ?y] => destruct (Req_EM_T x y) end; try lra; field; lra. Qed.

Lemma k_explin_corner x11 x12 x21 x22 Tv Tmin Tmax P Pmin Pmax :
  0 < Tmin -> 0 < x11 -> 0 < x12 -> 0 < x21 -> 0 < x22 ->
  Tmin < Tmax -> Pmin < Pmax -> (Tv = Tmin \/ Tv = Tmax) -> (P = Pmin \/ P = Pmax) ->
  @k_explin R RTNum x11 x12 x21 x22 Tv Tmin Tmax P Pmin Pmax
  = if Req_EM_T P Pmin then (if Req_EM_T Tv Tmin then x11 else x12)
    else (if Req_EM_T Tv Tmin then x21 else x22).
Proof. intros H0 H11 H12 H21 H22 HT HP HTv HPv. rewrite k_explin_as_exp by assumption.
  destruct HPv as [HPv|HPv]; subst P; rewrite ?k_lin_left, ?k_lin_right by assumption;
  destruct HTv as [HTv|HTv]; subst Tv; rewrite ?k_exp_left, ?k_exp_right by assumption;
  repeat match goal with |- context [Req_EM_T ?x ?y] => destruct (Req_EM_T x y) end; try reflexivity; lra. Qed.

Definition wf_grid (a : list R) : Prop := (2 <= length a)%nat /\ incr a.

Theorem linear_sound Tg Pg tab Tv P m M :
  wf_grid Tg -> wf_grid Pg -> ~ below_both Tg Pg Tv P ->
  (forall p t, (p = fst (fcp Pg P) \/ p = snd (fcp Pg P)) ->
               (t = fst (fcp Tg Tv) \/ t = snd (fcp Tg Tv)) -> m <= tab p t <= M) ->
  m <= @interp_linear R RNum Tg Pg tab Tv P <= M.
Proof. intros [HnT HsT] [HnP HsP] Hnb Htab. unfold interp_linear.
  apply (interp_sound (@k_lin R RNum) (@k_bilin R RNum) (fun _ => True) (fun _ => True)); auto.
  - intros. apply k_lin_between; assumption.
  - intros. apply k_bilin_between; assumption. Qed.

Theorem exp_sound Tg Pg tab Tv P m M :
  wf_grid Tg -> wf_grid Pg -> 0 < nth 0 Tg 0 -> ~ below_both Tg Pg Tv P -> 0 < m ->
  (forall p t, (p = fst (fcp Pg P) \/ p = snd (fcp Pg P)) ->
               (t = fst (fcp Tg Tv) \/ t = snd (fcp Tg Tv)) -> m <= tab p t <= M) ->
  m <= @interp_exp R RTNum Tg Pg tab Tv P <= M.
Proof. intros [HnT HsT] [HnP HsP] HT0 Hnb Hm Htab. unfold interp_exp.
  apply (interp_sound (@k_exp R RTNum) (@k_explin R RTNum) (fun m => 0 < m) (fun t => 0 < t)); auto.
  - intros. apply k_exp_between; assumption.
  - intros. apply k_explin_between; assumption.
  - intros i Hi. assert (nth 0 Tg 0 <= nth i Tg 0) by (apply incr_le; [exact HsT|lia]). lra. Qed.

Theorem linear_zero Tg Pg tab Tv P :
  wf_grid Tg -> wf_grid Pg -> below_both Tg Pg Tv P -> @interp_linear R RNum Tg Pg tab Tv P = 0.
Proof. intros [HnT HsT] [HnP HsP] H. apply interp_zero_corner; assumption. Qed.

Theorem exp_zero Tg Pg tab Tv P :
  wf_grid Tg -> wf_grid Pg -> below_both Tg Pg Tv P -> @interp_exp R RTNum Tg Pg tab Tv P = 0.
Proof. intros [HnT HsT] [HnP HsP] H. apply interp_zero_corner; assumption. Qed.

Theorem linear_node Tg Pg tab i j :
  wf_grid Tg -> wf_grid Pg -> (i < length Tg)%nat -> (j < length Pg)%nat ->
  @interp_linear R RNum Tg Pg tab (nth i Tg 0) (nth j Pg 0) = tab j i.
Proof. intros [HnT HsT] [HnP HsP] Hi Hj. unfold interp_linear.
  apply (interp_node (@k_lin R RNum) (@k_bilin R RNum) (fun _ => True) (fun _ => True)); auto.
  - intros. apply k_lin_left; assumption.
  - intros. apply k_lin_right; assumption.
  - intros. apply k_bilin_corner; assumption. Qed.

Theorem exp_node Tg Pg tab i j :
  wf_grid Tg -> wf_grid Pg -> 0 < nth 0 Tg 0 -> (forall p t, 0 < tab p t) ->
  (i < length Tg)%nat -> (j < length Pg)%nat ->
  @interp_exp R RTNum Tg Pg tab (nth i Tg 0) (nth j Pg 0) = tab j i.
Proof. intros [HnT HsT] [HnP HsP] HT0 Hpos Hi Hj. unfold interp_exp.
  apply (interp_node (@k_exp R RTNum) (@k_explin R RTNum) (fun t => 0 < t) (fun x => 0 < x)); auto.
  - intros. apply k_exp_left; assumption.
  - intros. apply k_exp_right; assumption.
  - intros. apply k_explin_corner; assumption.
  - intros k Hk. assert (nth 0 Tg 0 <= nth k Tg 0) by (apply incr_le; [exact HsT|lia]). lra. Qed.

Lemma ex_c04 : wf_grid [100; 200] /\ wf_grid [2; 4] /\ ~ below_both [100;200] [2;4] 50 5.
Proof. repeat split; simpl; try lia.
  - intros i j Hij. simpl in Hij. assert (i = 0 /\ j = 1)%nat as [-> ->] by lia. simpl. lra.
  - intros i j Hij. simpl in Hij. assert (i = 0 /\ j = 1)%nat as [-> ->] by lia. simpl. lra.
  - unfold below_both. simpl. lra.
Qed.
