(* Model_C18.v — parallel post-processing
   (taurex/util/math.py : OnlineVariance.update, variance, combine_variance, parallelVariance ;
    taurex/optimizer/optimizer.py : the round-robin split samples[rank::size] of generate_profiles and
    compute_derived_trace, and the restoration of sample order after the gather). *)
From Coq Require Import ZArith List Bool Arith.
From TV Require Import Num ListNum.
Import ListNotations.

Section Online.
  Context {T : Type} {N : Num T}.
  Local Open Scope num_scope.

  (* OnlineVariance state: number of samples, sum of weights, running mean, M2 *)
  Record ov := { cnt : nat; wc : T; mean : T; m2 : T }.
  Definition ov_init : ov := {| cnt := 0; wc := n0; mean := n0; m2 := n0 |}.

  (* update(value, weight) — West's weighted incremental algorithm *)
  Definition ov_update (s : ov) (xw : T * T) : ov :=
    let '(x, w) := xw in
    let wc' := wc s + w in
    let mean' := mean s + (w / wc') * (x - mean s) in
    {| cnt := S (cnt s); wc := wc'; mean := mean'; m2 := m2 s + w * (x - mean s) * (x - mean') |}.
  Definition ov_run (samples : list (T * T)) : ov := fold_left ov_update samples ov_init.

  (* variance: None stands for NaN (fewer than two samples) *)
  Definition ov_variance (s : ov) : option T := if (cnt s <? 2)%nat then None else Some (m2 s / wc s).

  (* what every rank contributes to the gather: (weight sum, mean, variance) ; serialisation keeps
     values, not object identity, so NaN-ness is a property of the value *)
  Definition rank_summary (s : ov) : T * T * option T := (wc s, mean s, ov_variance s).

  (* combine_variance(averages, variance, counts) *)
  Definition combine (ranks : list (T * T * option T)) : T * T :=
    let size := nsum (map (fun r => fst (fst r)) ranks) in
    let used := filter (fun r => negb (neqb (fst (fst r)) n0)) ranks in
    let average := nsum (map (fun r => snd (fst r) * fst (fst r)) used) / size in
    let squares := nsum (map (fun r => let '(c, a, v) := r in
                                      c * ((average - a) * (average - a))
                                      + match v with Some var => c * var | None => n0 end) used) in
    (average, squares / size).

  (* parallelVariance on every rank: None (NaN) when fewer than two samples exist in total *)
  Definition parallel_variance (states : list ov) : option T :=
    if (fold_left Nat.add (map cnt states) 0 <? 2)%nat then None
    else Some (snd (combine (map rank_summary states))).

  (* the two-pass definitions *)
  Definition S0 (l : list (T * T)) : T := nsum (map snd l).
  Definition S1 (l : list (T * T)) : T := nsum (map (fun p => snd p * fst p) l).
  Definition S2 (l : list (T * T)) : T := nsum (map (fun p => snd p * (fst p * fst p)) l).
  Definition twopass_mean (l : list (T * T)) : T := S1 l / S0 l.
  Definition twopass_m2 (l : list (T * T)) : T :=
    let mu := twopass_mean l in nsum (map (fun p => snd p * ((fst p - mu) * (fst p - mu))) l).
End Online.

Section Split.
  (* the samples with index r, r+size, r+2 size, ... *)
  Definition stride_idx (r size n : nat) : list nat := filter (fun i => Nat.eqb (i mod size) r) (seq 0 n).
  Definition stride {A} (d : A) (r size : nat) (l : list A) : list A :=
    map (fun i => nth i l d) (stride_idx r size (length l)).
  (* the gathered (concatenated in rank order) index pattern and values *)
  Definition gather_order (size n : nat) : list nat := concat (map (fun r => stride_idx r size n) (seq 0 size)).
  Definition gathered {A} (d : A) (size : nat) (l : list A) : list A :=
    concat (map (fun r => stride d r size l) (seq 0 size)).

  (* all_trace[gather_order] = all_trace.copy() : position order[k] receives vals[k] *)
  Fixpoint index_in (j : nat) (order : list nat) : nat :=
    match order with [] => 0 | o :: r => if Nat.eqb o j then 0 else S (index_in j r) end.
  Definition scatter {A} (d : A) (order : list nat) (vals : list A) : list A :=
    map (fun j => nth (index_in j order) vals d) (seq 0 (length vals)).
End Split.
