(* Props_C15.v — C15: an input file builds exactly the documented object graph (decision logic; the registries are
   data exported from the live class factory on every run, and checked there for disjoint keywords). *)
From Coq Require Import String List Bool Permutation.
From TV Require Import Model_C15 Proofs_C15.
Import ListNotations.
Local Open Scope string_scope.

(* (a) a selector claimed by a class of a registry with pairwise disjoint keywords resolves to that class, to no
   other, and independently of the (set) iteration order; an unclaimed selector resolves to nothing *)
Theorem C15_resolves_claimant : forall (reg : list klass) (kw : string) (k : klass),
  disjoint reg = true -> In k reg -> claims kw k = true -> resolve reg kw = Some k.
Proof. exact disjoint_resolves_claimant. Qed.
Print Assumptions C15_resolves_claimant.

Theorem C15_exactly_one : forall (reg : list klass) (kw : string) (k k' : klass),
  disjoint reg = true -> In k reg -> In k' reg -> claims kw k = true -> claims kw k' = true -> k = k'.
Proof. exact disjoint_unique. Qed.
Print Assumptions C15_exactly_one.

Theorem C15_order_independent : forall (reg reg' : list klass) (kw : string),
  disjoint reg = true -> Permutation reg reg' -> resolve reg kw = resolve reg' kw.
Proof. exact resolve_order_independent. Qed.
Print Assumptions C15_order_independent.

Theorem C15_unclaimed_is_none : forall (reg : list klass) (kw : string),
  resolve reg kw = None <-> (forall k, In k reg -> claims kw k = false).
Proof. exact resolve_none. Qed.
Print Assumptions C15_unclaimed_is_none.

(* (b) typing of values *)
Theorem C15_transform_list : forall (l : list (string * bool)),
  (forallb snd l = true -> transform (SList l) = TListNum (map fst l)) /\
  (forallb snd l = false -> transform (SList l) = TListStr (map fst l)).
Proof. exact transform_list. Qed.
Print Assumptions C15_transform_list.

Theorem C15_transform_bool : forall (s : string) (isnum : bool),
  (mem (lower s) truthy = true -> transform (SStr s isnum) = TBool true) /\
  (mem (lower s) truthy = false -> mem (lower s) falsy = true -> transform (SStr s isnum) = TBool false).
Proof. exact transform_bool. Qed.
Print Assumptions C15_transform_bool.

Theorem C15_transform_other : forall (s : string) (isnum : bool),
  mem (lower s) truthy = false -> mem (lower s) falsy = false ->
  transform (SStr s isnum) = if isnum then TNum s else TStr s.
Proof. exact transform_other. Qed.
Print Assumptions C15_transform_other.

(* (c) strict creation: the constructor gets exactly its keyword parameters, given values where given, defaults
   otherwise; an unknown key is an error *)
Theorem C15_create_strict_ok : forall (c : choice) (cfg : list (string * tval)) names args,
  create_strict c cfg = Ok (names, args) ->
  names = names_of c /\ map fst args = map fst (kwargs_of c) /\
  (forall k v, lookup k cfg = Some v -> lookup k args = Some v) /\
  (forall k dv, lookup k cfg = None -> lookup k (kwargs_of c) = Some dv -> lookup k args = Some (TDef dv)).
Proof. exact create_strict_ok. Qed.
Print Assumptions C15_create_strict_ok.

Theorem C15_create_strict_unknown_key : forall (c : choice) (cfg : list (string * tval)),
  (exists k, In k (map fst cfg) /\ ~ In k (map fst (kwargs_of c))) <-> create_strict c cfg = Err EKey.
Proof. exact create_strict_unknown_key. Qed.
Print Assumptions C15_create_strict_unknown_key.

Theorem C15_create_loose_ok : forall (k : klass) (cfg : list (string * tval)) names args,
  create_loose (Plain k) cfg = Ok (names, args) ->
  names = [k_name k] /\
  (forall key v, lookup key cfg = Some v -> lookup key args = Some v) /\
  (forall key dv, lookup key cfg = None -> lookup key (k_defaults k) = Some dv -> lookup key args = Some (TDef dv)) /\
  (k_varkw k = false -> forall key, In key (map fst cfg) -> In key (k_params k)).
Proof. exact create_loose_ok. Qed.
Print Assumptions C15_create_loose_ok.

Theorem C15_create_loose_unknown_key : forall (k : klass) (cfg : list (string * tval)),
  k_varkw k = false -> (exists key, In key (map fst cfg) /\ ~ In key (k_params k)) ->
  create_loose (Plain k) cfg = Err EType.
Proof. exact create_loose_unknown_key. Qed.
Print Assumptions C15_create_loose_unknown_key.

(* (d) selectors *)
Theorem C15_unknown_selector_is_error : forall reg mixreg custom field cfg sel,
  lookup field cfg = Some (TStr sel) -> lower sel <> "custom" -> split_plus (lower sel) = [lower sel] ->
  resolve reg (lower sel) = None -> determine reg mixreg custom field cfg = Err ENotImpl.
Proof. exact determine_unknown_selector. Qed.
Print Assumptions C15_unknown_selector_is_error.

Theorem C15_plain_selector : forall reg mixreg custom field cfg sel k,
  lookup field cfg = Some (TStr sel) -> lower sel <> "custom" -> split_plus (lower sel) = [lower sel] ->
  resolve reg (lower sel) = Some k ->
  determine reg mixreg custom field cfg = Ok (remove_key field cfg, Plain k).
Proof. exact determine_plain. Qed.
Print Assumptions C15_plain_selector.

Theorem C15_profile_values_reach : forall reg mixreg custom field cfg names args,
  create_profile reg mixreg custom field cfg = Ok (names, args) ->
  forall k v, lookup k cfg = Some v -> k <> field -> k <> "python_file" -> lookup k args = Some v.
Proof. exact profile_values_reach. Qed.
Print Assumptions C15_profile_values_reach.

(* (e) contributions *)
Theorem C15_contributions_one_per_subsection : forall creg c l,
  contributions creg c = Ok l -> length l = length (subsections c).
Proof. exact contributions_one_per_subsection. Qed.
Print Assumptions C15_contributions_one_per_subsection.

Theorem C15_contributions_unknown_header : forall creg c name body,
  In (name, body) (subsections c) -> resolve creg name = None -> exists e, contributions creg c = Err e.
Proof. exact contributions_unknown_header. Qed.
Print Assumptions C15_contributions_unknown_header.

(* (f) the sections the parser builds itself refuse unknown keys too *)
Theorem C15_instrument_snr_unknown_key : forall reg mix custom cfg s key,
  lookup "instrument" (remove_key "num_observations" cfg) = Some (TStr s) ->
  mem (lower s) ["snr"; "signalnoise"] = true ->
  In key (map fst (remove_key "num_observations" cfg)) -> key <> "instrument" -> key <> "SNR" ->
  parser_instrument reg mix custom cfg = Err EKey.
Proof. exact instrument_snr_unknown_key. Qed.
Print Assumptions C15_instrument_snr_unknown_key.

Theorem C15_observation_extra_key : forall reg mix custom cfg key cls other,
  find (fun kc : string * string => match lookup (fst kc) cfg with Some _ => true | None => false end) obs_keys
    = Some (key, cls) ->
  In other (map fst cfg) -> other <> key -> parser_observation reg mix custom cfg = Err EKey.
Proof. exact observation_extra_key. Qed.
Print Assumptions C15_observation_extra_key.

(* non-vacuity: a two-class registry with disjoint keywords; `Guillot` resolves by either of its keywords *)
Example C15_premises_hold :
  let iso := {| k_name := "Isothermal"; k_kws := Some ["isothermal"]; k_params := ["T"]; k_defaults := [("T", "1500")];
                k_varkw := false; k_mixin_args := [] |} in
  let gui := {| k_name := "Guillot2010"; k_kws := Some ["guillot"; "guillot2010"]; k_params := ["T_irr"];
                k_defaults := [("T_irr", "1500")]; k_varkw := false; k_mixin_args := [] |} in
  disjoint [iso; gui] = true /\ resolve [iso; gui] "guillot2010" = Some gui /\
  create_profile [iso; gui] [] None "profile_type" [("profile_type", TStr "Isothermal"); ("T", TNum "900")]
    = Ok (["Isothermal"], [("T", TNum "900")]).
Proof. cbv zeta. repeat split; reflexivity. Qed.
