(* Proofs_C08.v — prior transforms are monotone inverse-CDF maps in the declared space. *)
From Coq Require Import ZArith Reals List Bool Arith Lia Lra.
From TV Require Import Num ListNum ListNumR Model_C08 Proofs_C11.
Import ListNotations.
Local Open Scope R_scope.

Notation smp := (@sample R RNum).

(* ---- uniform ---- *)
Theorem uniform_endpoints (sp : space) (a b : R) :
  smp (@mk_uniform R RNum sp a b) 0 0 = Rmin a b /\ smp (@mk_uniform R RNum sp a b) 1 0 = Rmax a b.
Proof. unfold mk_uniform, sample. rewrite nmin_R, nmax_R. rnum. split; ring. Qed.

Theorem uniform_order_independent (sp : space) (a b : R) :
  @mk_uniform R RNum sp a b = @mk_uniform R RNum sp b a.
Proof. unfold mk_uniform. rewrite !nmin_R, !nmax_R, (Rmin_comm a b), (Rmax_comm a b). reflexivity. Qed.

Theorem uniform_monotone (sp : space) (a b u v : R) : u <= v ->
  smp (@mk_uniform R RNum sp a b) u 0 <= smp (@mk_uniform R RNum sp a b) v 0.
Proof. intros H. unfold mk_uniform, sample. rewrite nmin_R, nmax_R. rnum.
  pose proof (Rmin_l a b). pose proof (Rmax_l a b). pose proof (Rmin_r a b). pose proof (Rmax_r a b).
  assert (0 <= Rmax a b - Rmin a b) by (unfold Rmin, Rmax in *; destruct (Rle_dec a b); lra). nra. Qed.

Theorem uniform_onto (sp : space) (a b u : R) : 0 <= u <= 1 ->
  Rmin a b <= smp (@mk_uniform R RNum sp a b) u 0 <= Rmax a b.
Proof. intros H. unfold mk_uniform, sample. rewrite nmin_R, nmax_R. rnum.
  assert (0 <= Rmax a b - Rmin a b) by (unfold Rmin, Rmax; destruct (Rle_dec a b); lra). nra. Qed.

(* inverse of the uniform CDF F(x) = (x - lo)/(hi - lo) on a non-degenerate support *)
Theorem uniform_inverse_cdf (sp : space) (a b u : R) : a <> b ->
  let lo := Rmin a b in let hi := Rmax a b in
  (smp (@mk_uniform R RNum sp a b) u 0 - lo) / (hi - lo) = u.
Proof. intros Hne lo hi. unfold mk_uniform, sample. rewrite nmin_R, nmax_R. rnum. fold lo hi.
  assert (hi - lo <> 0) by (unfold lo, hi, Rmin, Rmax; destruct (Rle_dec a b); lra). field. exact H. Qed.

(* ---- normal: affine image of the standard normal quantile ---- *)
Theorem gaussian_monotone (sp : space) (loc scale q1 q2 : R) : 0 < scale -> q1 < q2 ->
  smp (PGauss sp loc scale) 0 q1 < smp (PGauss sp loc scale) 0 q2.
Proof. intros Hs Hq. unfold sample. rnum. nra. Qed.

Theorem gaussian_median (sp : space) (loc scale : R) : smp (PGauss sp loc scale) (1 / 2) 0 = loc.
Proof. unfold sample. rnum. ring. Qed.

(* the CDF of N(loc, scale) at the sample is Phi of the base quantile: with Phi(ndtri u) = u
   this is the inverse-CDF property *)
Theorem gaussian_standardises (sp : space) (loc scale q : R) : scale <> 0 ->
  (smp (PGauss sp loc scale) 0 q - loc) / scale = q.
Proof. intros Hs. unfold sample. rnum. field. exact Hs. Qed.

(* ---- log-space variants ---- *)
Theorem to_model_log_positive (v : R) : 0 < @to_model R RTNum Log v.
Proof. unfold to_model. apply pow10_pos. Qed.

Theorem to_model_monotone (sp : space) (v w : R) : v < w -> @to_model R RTNum sp v < @to_model R RTNum sp w.
Proof. intros H. destruct sp; unfold to_model; [exact H|apply pow10_increasing; exact H]. Qed.

Theorem to_model_linear (v : R) : @to_model R RTNum Linear v = v.
Proof. reflexivity. Qed.

(* arguments given in linear space are equivalent to giving their log10 *)
Theorem lin_bounds_equiv (a b : R) :
  @mk_loguniform_lin R RTNum a b = @mk_uniform R RNum Log (@nlog10 R RTNum a) (@nlog10 R RTNum b).
Proof. reflexivity. Qed.

Theorem lin_mean_equiv (lm ls : R) :
  @mk_loggauss_lin R RTNum lm ls = PGauss Log (@nlog10 R RTNum lm) (@nlog10 R RTNum ls).
Proof. reflexivity. Qed.

Lemma pow10_log10 (x : R) : 0 < x -> @npow10 R RTNum (@nlog10 R RTNum x) = x.
Proof. intros Hx. unfold npow10, nlog10. rnum.
  assert (Hl : ln 10 <> 0) by (assert (0 < ln 10) by (rewrite <- ln_1; apply ln_increasing; lra); lra).
  replace (ln x / ln 10 * ln 10) with (ln x) by (field; exact Hl). apply exp_ln. exact Hx. Qed.

Lemma log10_le (x y : R) : 0 < x -> 0 < y -> x <= y -> @nlog10 R RTNum x <= @nlog10 R RTNum y.
Proof. intros Hx Hy Hxy. unfold nlog10. rnum.
  assert (0 < ln 10) by (rewrite <- ln_1; apply ln_increasing; lra).
  apply Rmult_le_compat_r; [left; apply Rinv_0_lt_compat; assumption|].
  destruct Hxy as [Hlt|Heq]; [left; apply ln_increasing; assumption|rewrite Heq; lra]. Qed.

Lemma pow10_le (x y : R) : x <= y -> @npow10 R RTNum x <= @npow10 R RTNum y.
Proof. intros [Hlt|Heq]; [left; apply pow10_increasing; exact Hlt|rewrite Heq; lra]. Qed.

Lemma pow10_min_log (a b : R) : 0 < a -> 0 < b ->
  @npow10 R RTNum (Rmin (@nlog10 R RTNum a) (@nlog10 R RTNum b)) = Rmin a b /\
  @npow10 R RTNum (Rmax (@nlog10 R RTNum a) (@nlog10 R RTNum b)) = Rmax a b.
Proof. intros Ha Hb. destruct (Rle_dec a b) as [Hab|Hab].
  - pose proof (log10_le a b Ha Hb Hab). rewrite (Rmin_left _ _ H), (Rmax_right _ _ H), (Rmin_left _ _ Hab), (Rmax_right _ _ Hab).
    split; apply pow10_log10; assumption.
  - assert (Hba : b <= a) by lra. pose proof (log10_le b a Hb Ha Hba).
    rewrite (Rmin_right _ _ H), (Rmax_left _ _ H), (Rmin_right _ _ Hba), (Rmax_left _ _ Hba).
    split; apply pow10_log10; assumption. Qed.

(* a log-uniform prior given by linear bounds maps the unit interval onto [min, max] of those bounds *)
Theorem loguniform_support (a b u : R) : 0 < a -> 0 < b -> 0 <= u <= 1 ->
  Rmin a b <= @to_model R RTNum Log (smp (@mk_loguniform_lin R RTNum a b) u 0) <= Rmax a b.
Proof. intros Ha Hb Hu. unfold mk_loguniform_lin, to_model.
  pose proof (uniform_onto Log (@nlog10 R RTNum a) (@nlog10 R RTNum b) u Hu) as [H1 H2].
  destruct (pow10_min_log a b Ha Hb) as [Emin Emax]. rewrite <- Emin, <- Emax.
  split; apply pow10_le; assumption. Qed.

(* default priors derive from the parameter's mode and bounds *)
Theorem default_prior_space (log_mode : bool) (a b : R) :
  @prior_space R (@default_prior R RTNum log_mode a b) = if log_mode then Log else Linear.
Proof. destruct log_mode; reflexivity. Qed.

Theorem default_prior_linear_bounds (a b : R) :
  @boundaries_uniform R (@default_prior R RTNum false a b) = (Rmin a b, Rmax a b).
Proof. unfold default_prior, mk_uniform, boundaries_uniform. rewrite nmin_R, nmax_R. reflexivity. Qed.
