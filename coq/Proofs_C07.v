(* Proofs_C07.v — retrieval set-up depends only on current settings; updates touch only fitted. *)
From Coq Require Import ZArith QArith List Bool Arith Lia.
From TV Require Import Model_C07.
Import ListNotations.

(* (a) compile is a function of the settings alone *)
Theorem compile_settings_only (s1 s2 : state) :
  settings s1 = settings s2 -> views (compile s1) = views (compile s2).
Proof. unfold settings. intros H. injection H as Hp Hd Hu.
  unfold views, fit_names, fit_values, fit_boundaries, fitting_priors, derived_names, compile, compile_entries,
    value_of, find_param. cbn [compiled cderived params]. rewrite Hp, Hd, Hu. reflexivity. Qed.

(* whatever history led to the settings *)
Corollary history_independent (ops1 ops2 : list op) (s0 : state) :
  settings (run ops1 s0) = settings (run ops2 s0) ->
  views (compile (run ops1 s0)) = views (compile (run ops2 s0)).
Proof. apply compile_settings_only. Qed.

(* round trip of a value through the reporting space *)
Lemma to_model_view (sp : space) (v : val) : to_model sp (view_val sp v) = Some v.
Proof. destruct sp, v; reflexivity. Qed.

Lemma set_val_same (p : param) : set_val (p_val p) p = p.
Proof. destruct p; reflexivity. Qed.

Definition names_distinct (s : state) : Prop := NoDup (map p_name (params s)).

Lemma find_some_in (l : list param) n p : find (fun p => Nat.eqb (p_name p) n) l = Some p -> In p l /\ p_name p = n.
Proof. intros H. apply find_some in H. destruct H as [H1 H2]. apply Nat.eqb_eq in H2. tauto. Qed.

Lemma nodup_same_name (l : list param) (p q : param) :
  NoDup (map p_name l) -> In p l -> In q l -> p_name p = p_name q -> p = q.
Proof. induction l as [|x l IH]; intros Hnd Hp Hq Hn; [destruct Hp|].
  cbn [map] in Hnd. inversion Hnd as [|? ? Hnin Hnd']; subst.
  destruct Hp as [->|Hp]; destruct Hq as [->|Hq]; try reflexivity.
  - exfalso. apply Hnin. rewrite Hn. apply in_map. exact Hq.
  - exfalso. apply Hnin. rewrite <- Hn. apply in_map. exact Hp.
  - apply IH; assumption. Qed.

Lemma upd_same (s : state) (n : nat) : names_distinct s ->
  upd_param s n (set_val (value_of s n)) = s.
Proof. intros Hnd. unfold upd_param. destruct s as [ps ds us cs cd]. cbn [params derived user_priors compiled cderived] in *.
  f_equal. unfold value_of, find_param. cbn [params].
  rewrite <- (map_id ps) at 2. apply map_ext_in. intros p Hp.
  destruct (Nat.eqb (p_name p) n) eqn:E; [|reflexivity]. apply Nat.eqb_eq in E.
  destruct (find (fun p0 => Nat.eqb (p_name p0) n) ps) as [q|] eqn:F.
  - apply find_some_in in F. destruct F as [Hq Hqn].
    assert (p = q) by (apply (nodup_same_name ps); unfold names_distinct in Hnd; cbn [params] in Hnd; congruence).
    subst q. apply set_val_same.
  - exfalso. apply (find_none _ _ F) in Hp. rewrite E in Hp. rewrite Nat.eqb_refl in Hp. discriminate. Qed.

(* (b) writing the reported values back changes nothing *)
Lemma write_back_identity (s : state) (cs : list centry) : names_distinct s ->
  write_back s cs (map (fun c => view_val (pr_space (c_prior c)) (value_of s (c_name c))) cs) = Some s.
Proof. intros Hnd. induction cs as [|c cs IH]; cbn [map write_back]; [reflexivity|].
  rewrite to_model_view, upd_same by exact Hnd. exact IH. Qed.

Theorem writeback_identity (s : state) : names_distinct s ->
  step (compile s) (UpdateModel (fit_values (compile s))) = (compile s, Ok).
Proof. intros Hnd. cbn [step]. unfold fit_values. rewrite map_length, Nat.eqb_refl. cbn [negb].
  rewrite write_back_identity; [reflexivity|]. unfold names_distinct, compile. cbn [params]. exact Hnd. Qed.

(* (c) an update leaves every parameter that is not fitted untouched *)
Lemma value_of_upd_other (s : state) (n k : nat) (f : param -> param) :
  (forall p, p_name (f p) = p_name p) -> n <> k -> value_of (upd_param s n f) k = value_of s k.
Proof. intros Hf Hne. unfold value_of, find_param, upd_param. cbn [params].
  induction (params s) as [|p ps IH]; [reflexivity|]. cbn [map find].
  destruct (Nat.eqb (p_name p) n) eqn:E.
  - rewrite Hf. apply Nat.eqb_eq in E. assert (Hk : Nat.eqb (p_name p) k = false) by (apply Nat.eqb_neq; congruence).
    rewrite Hk. exact IH.
  - destruct (Nat.eqb (p_name p) k); [reflexivity|exact IH]. Qed.

Lemma set_val_name v p : p_name (set_val v p) = p_name p.
Proof. reflexivity. Qed.

Lemma write_back_other (cs : list centry) : forall (s s' : state) (vs : list vv) (k : nat),
  write_back s cs vs = Some s' -> ~ In k (map c_name cs) -> value_of s' k = value_of s k.
Proof. induction cs as [|c cs IH]; intros s s' vs k H Hk; destruct vs as [|v vs]; cbn [write_back] in H; try discriminate.
  - injection H as <-. reflexivity.
  - destruct (to_model _ v) as [x|]; [|discriminate].
    rewrite (IH _ _ _ k H) by (intro Hin; apply Hk; right; exact Hin).
    apply value_of_upd_other; [intros; apply set_val_name|]. intro Heq. apply Hk. left. exact Heq. Qed.

Theorem update_touches_only_fitted (s : state) (vs : list vv) (k : nat) :
  ~ In k (map c_name (compiled s)) -> value_of (fst (step s (UpdateModel vs))) k = value_of s k.
Proof. intros Hk. cbn [step]. destruct (negb _); [reflexivity|].
  destruct (write_back s (compiled s) vs) as [s'|] eqn:E; [|reflexivity]. cbn [fst].
  apply (write_back_other _ _ _ _ _ E Hk). Qed.

(* the fitted parameters receive exactly the prior-transformed values *)
Lemma value_of_upd_same (s : state) (n : nat) (v : val) :
  (exists p, find_param s n = Some p) -> value_of (upd_param s n (set_val v)) n = v.
Proof. intros [p Hp]. unfold value_of, find_param, upd_param in *. cbn [params].
  induction (params s) as [|q ps IH]; [discriminate|]. cbn [map find] in *.
  destruct (Nat.eqb (p_name q) n) eqn:E.
  - cbn [set_val p_name]. rewrite E. reflexivity.
  - rewrite E. apply IH. exact Hp. Qed.

(* (d) naming an unknown parameter is an error and changes nothing *)
Theorem unknown_name_is_error (s : state) (n : nat) (b : bool) (lo hi : Q) (pr : prior) :
  find_param s n = None -> find_dparam s n = None ->
  step s (EnableFit n) = (s, KeyErr) /\ step s (DisableFit n) = (s, KeyErr) /\
  step s (SetMode n b) = (s, KeyErr) /\ step s (SetBoundary n lo hi) = (s, KeyErr) /\
  step s (SetFactorBoundary n lo hi) = (s, KeyErr) /\ step s (SetPrior n pr) = (s, ValueErr) /\
  step s (EnableDerived n) = (s, KeyErr) /\ step s (DisableDerived n) = (s, KeyErr).
Proof. intros Hp Hd. cbn [step]. rewrite Hp, Hd. repeat split. Qed.

(* the compiled entries are exactly the fitted parameters, in table order, each with the prior the
   user set or else the default for its current mode and bounds *)
Theorem compile_lists_fitted (s : state) :
  map c_name (compiled (compile s)) = map p_name (filter p_fit (params s)) /\
  derived_names (compile s) = map d_name (filter d_compute (derived s)).
Proof. unfold compile, compile_entries, derived_names. cbn [compiled cderived]. rewrite map_map. split; reflexivity. Qed.

Theorem compile_prior_choice (s : state) (c : centry) : In c (compiled (compile s)) ->
  exists p, In p (params s) /\ p_fit p = true /\ c_name c = p_name p /\
            c_log c = p_log p /\ c_lo c = p_lo p /\ c_hi c = p_hi p /\
            c_prior c = match lookup_prior (user_priors s) (p_name p) with
                        | Some pr => pr | None => default_prior p end.
Proof. unfold compile, compile_entries. cbn [compiled]. intros H. apply in_map_iff in H.
  destruct H as [p [<- Hp]]. apply filter_In in Hp. exists p. cbn. tauto. Qed.

(* consistency: name prefix, reported value and reported boundaries are all in the prior's space *)
Theorem views_same_space (s : state) (i : nat) (c : centry) : nth_error (compiled s) i = Some c ->
  nth_error (fit_names s) i = Some (c_name c, negb (space_eqb (pr_space (c_prior c)) Linear)) /\
  nth_error (fit_values s) i = Some (view_val (pr_space (c_prior c)) (value_of s (c_name c))) /\
  nth_error (fit_boundaries s) i = Some (pr_space (c_prior c), c_lo c, c_hi c).
Proof. intros H. unfold fit_names, fit_values, fit_boundaries. rewrite !nth_error_map, H. cbn. repeat split. Qed.
