(* Proofs_C11.v — vertical structure is hydrostatic, ordered and one value per layer. *)
From Coq Require Import ZArith Reals List Bool Arith Lia Lra Sorting.Sorted.
From TV Require Import Num ListNum ListAux ListNumR Model_C11.
Import ListNotations.
Local Open Scope R_scope.

(* ---------------- pressure grid ----------------------------------------- *)
Lemma pow10_increasing (x y : R) : x < y -> @npow10 R RTNum x < @npow10 R RTNum y.
Proof. intros H. unfold npow10. rnum. apply exp_increasing.
  assert (0 < ln 10) by (rewrite <- ln_1; apply ln_increasing; lra). nra. Qed.

Lemma pow10_pos (x : R) : 0 < @npow10 R RTNum x.
Proof. unfold npow10. rnum. apply exp_pos. Qed.

(* levels before reversal increase strictly with the index when lmin < lmax *)
Theorem level_asc_increasing (lmin lmax : R) (n i j : nat) : lmin < lmax -> (0 < n)%nat -> (i < j)%nat ->
  @level_asc R RTNum lmin lmax n i < @level_asc R RTNum lmin lmax n j.
Proof. intros Hl Hn Hij. unfold level_asc. apply pow10_increasing. unfold nofnat. rnum.
  assert (0 < (lmax - lmin) / IZR (Z.of_nat n)).
  { apply Rdiv_lt_0_compat; [lra|]. apply IZR_lt. lia. }
  assert (IZR (Z.of_nat i) < IZR (Z.of_nat j)) by (apply IZR_lt; lia). nra. Qed.

Theorem level_ends (lmin lmax : R) (n : nat) : (0 < n)%nat ->
  @level_asc R RTNum lmin lmax n 0 = @npow10 R RTNum lmin /\
  @level_asc R RTNum lmin lmax n n = @npow10 R RTNum lmax.
Proof. intros Hn. unfold level_asc, nofnat. rnum. split; f_equal.
  - simpl. lra.
  - field. apply not_0_IZR. lia. Qed.

Lemma levels_length lmin lmax n : length (@levels R RTNum lmin lmax n) = S n.
Proof. unfold levels. rewrite rev_length, map_length, seq_length. reflexivity. Qed.

(* the levels as exposed (surface first) decrease strictly *)
Theorem levels_decreasing (lmin lmax : R) (n i j : nat) : lmin < lmax -> (0 < n)%nat -> (i < j <= n)%nat ->
  nth j (@levels R RTNum lmin lmax n) 0 < nth i (@levels R RTNum lmin lmax n) 0.
Proof. intros Hl Hn Hij. unfold levels.
  assert (Hi : (S n - S i < S n)%nat) by (clear Hl; lia).
  assert (Hj : (S n - S j < S n)%nat) by (clear Hl; lia).
  assert (Hlt : (S n - S j < S n - S i)%nat) by (clear Hl; lia).
  assert (Hi' : (i < S n)%nat) by (clear Hl; lia). assert (Hj' : (j < S n)%nat) by (clear Hl; lia).
  rewrite !rev_nth by (rewrite map_length, seq_length; assumption). rewrite !map_length, !seq_length.
  rewrite !(map_nth_lt _ _ 0%nat) by (rewrite seq_length; assumption). rewrite !seq_nth by assumption. cbn [plus].
  apply level_asc_increasing; assumption. Qed.

(* each layer pressure is the geometric mean of its two levels and lies strictly between them *)
Theorem layer_pressure_geometric (p q : R) : 0 < q < p ->
  p * sqrt (q / p) = sqrt (p * q) /\ q < p * sqrt (q / p) < p.
Proof. intros [Hq Hqp]. assert (Hp : 0 < p) by lra.
  assert (Heq : p * sqrt (q / p) = sqrt (p * q)).
  { assert (Hqp0 : 0 <= q / p) by (left; apply Rdiv_lt_0_compat; lra).
    assert (Hpp0 : 0 <= p * p) by nra.
    rewrite <- (sqrt_square p) at 1 by lra. rewrite <- sqrt_mult by assumption.
    f_equal. field. lra. }
  split; [exact Heq|]. rewrite Heq. split.
  - rewrite <- (sqrt_square q) at 1 by lra. apply sqrt_lt_1_alt. nra.
  - rewrite <- (sqrt_square p) at 2 by lra. apply sqrt_lt_1_alt. nra. Qed.

(* ---------------- hydrostatic recursion ---------------------------------- *)
Section Hydro.
  Context (GM Rp k : R) (HGM : 0 < GM) (HR : 0 < Rp) (Hk : 0 < k).

  Notation row := (@hrow R).

  (* the statement of hydrostatic structure for the rows produced from boundary altitude z upwards *)
  Fixpoint hydro_ok (z Pj : R) (Pnext Ts ms : list R) (rows : list row) (zf : R) : Prop :=
    match Pnext, Ts, ms, rows with
    | P1 :: Prest, t :: Ts', m :: ms', (zr, H, g, dz) :: rows' =>
        zr = z /\ g = GM / ((Rp + z) * (Rp + z)) /\ H = k * t / (m * g) /\ dz = H * ln (Pj / P1) /\
        0 < dz /\ 0 < H /\ 0 < g /\ hydro_ok (z + dz) P1 Prest Ts' ms' rows' zf
    | [], _, _, [] => zf = z
    | _, _, _, _ => False
    end.

  Definition decreasing_pos (P0 : R) (Ps : list R) : Prop :=
    StronglySorted (fun a b => b < a) (P0 :: Ps) /\ Forall (fun p => 0 < p) (P0 :: Ps).

  Lemma layers_ok : forall (Pnext Ts ms : list R) (z Pj : R),
    0 <= z -> decreasing_pos Pj Pnext -> length Ts = length Pnext -> length ms = length Pnext ->
    Forall (fun t => 0 < t) Ts -> Forall (fun m => 0 < m) ms ->
    hydro_ok z Pj Pnext Ts ms (fst (@layers R RTNum GM Rp k z Pj Pnext Ts ms))
                              (snd (@layers R RTNum GM Rp k z Pj Pnext Ts ms)).
  Proof. induction Pnext as [|P1 Prest IH]; intros Ts ms z Pj Hz [Hs Hp] HlT Hlm HT Hm.
    - destruct Ts; [|discriminate]. destruct ms; [|discriminate]. cbn. reflexivity.
    - destruct Ts as [|t Ts]; [discriminate|]. destruct ms as [|m ms]; [discriminate|].
      cbn [layers]. rnum.
      set (g := GM / ((Rp + z) * (Rp + z))). set (H := k * t / (m * g)).
      set (dz := - (1) * H * ln (P1 / Pj)).
      destruct (@layers R RTNum GM Rp k (z + dz) P1 Prest Ts ms) as [rows zf] eqn:El.
      cbn [fst snd hydro_ok].
      inversion HT as [|? ? Ht HT']; subst. inversion Hm as [|? ? Hm0 Hm']; subst.
      inversion Hs as [|? ? Hs' Hlt]; subst. inversion Hp as [|? ? Hpj Hp']; subst.
      inversion Hp' as [|? ? Hp1 _]; subst. inversion Hlt as [|? ? HP1lt _]; subst.
      assert (Hg : 0 < g) by (unfold g; apply Rdiv_lt_0_compat; [lra|nra]).
      assert (HH : 0 < H) by (unfold H; apply Rdiv_lt_0_compat; [nra|nra]).
      assert (Hln : ln (P1 / Pj) < 0).
      { rewrite <- ln_1. apply ln_increasing; [apply Rdiv_lt_0_compat; lra|].
        apply Rmult_lt_reg_r with Pj; [lra|]. unfold Rdiv. rewrite Rmult_assoc, Rinv_l by lra. lra. }
      assert (Hdz : 0 < dz) by (unfold dz; nra).
      assert (Hdzeq : dz = H * ln (Pj / P1)).
      { unfold dz. replace (Pj / P1) with (/ (P1 / Pj)) by (field; lra).
        rewrite ln_Rinv by (apply Rdiv_lt_0_compat; lra). ring. }
      repeat split; try assumption; try reflexivity.
      specialize (IH Ts ms (z + dz) P1). rewrite El in IH. cbn [fst snd] in IH.
      apply IH; try assumption; try lra; try (simpl in *; lia).
      split; assumption. Qed.

  Theorem scale_properties_hydrostatic (Ts ms : list R) (P0 : R) (Prest : list R) :
    decreasing_pos P0 Prest -> length Ts = length Prest -> length ms = length Prest ->
    Forall (fun t => 0 < t) Ts -> Forall (fun m => 0 < m) ms ->
    let o := @scale_properties R RTNum GM Rp k Ts ms (P0 :: Prest) in
    hydro_ok 0 P0 Prest Ts ms (fst o) (snd o).
  Proof. intros. unfold o, scale_properties. rnum. apply layers_ok; try assumption. lra. Qed.

  (* consequences of the structure: one row per layer, altitude starts at the given base and
     increases strictly, every thickness and scale height positive, gravity decreasing *)
  Lemma hydro_ok_length : forall Pnext Ts ms z Pj rows zf,
    hydro_ok z Pj Pnext Ts ms rows zf -> length rows = length Pnext.
  Proof. induction Pnext as [|P1 Prest IH]; intros Ts ms z Pj rows zf H.
    - destruct rows; [reflexivity|destruct Ts, ms; cbn in H; contradiction].
    - destruct Ts as [|t Ts], ms as [|m ms], rows as [|[[[zr Hh] g] dz] rows]; cbn in H; try contradiction.
      destruct H as [_ [_ [_ [_ [_ [_ [_ H]]]]]]]. cbn [length]. f_equal. eapply IH. exact H. Qed.

  Lemma hydro_ok_altitudes : forall Pnext Ts ms z Pj rows zf,
    hydro_ok z Pj Pnext Ts ms rows zf ->
    StronglySorted Rlt (@altitude_boundaries R (rows, zf)) /\
    hd 0 (@altitude_boundaries R (rows, zf)) = z /\
    Forall (fun a => z <= a) (@altitude_boundaries R (rows, zf)).
  Proof. induction Pnext as [|P1 Prest IH]; intros Ts ms z Pj rows zf H.
    - destruct rows; [|destruct Ts, ms; cbn in H; contradiction].
      destruct Ts, ms; cbn in H; subst; unfold altitude_boundaries, altitude_profile; cbn;
        (split; [repeat constructor|split; [reflexivity|repeat constructor; lra]]).
    - destruct Ts as [|t Ts], ms as [|m ms], rows as [|[[[zr Hh] g] dz] rows]; cbn in H; try contradiction.
      destruct H as [-> [_ [_ [_ [Hdz [_ [_ H]]]]]]].
      destruct (IH _ _ _ _ _ _ H) as [Hs [Hhd Hall]].
      unfold altitude_boundaries, altitude_profile in *. cbn [fst snd map app] in *.
      split; [|split; [reflexivity|]].
      + constructor; [exact Hs|]. rewrite Forall_forall in *. intros a Ha. specialize (Hall a Ha). lra.
      + constructor; [lra|]. rewrite Forall_forall in *. intros a Ha. specialize (Hall a Ha). lra. Qed.
End Hydro.

(* number density *)
Theorem density_formula (k : R) (P Ts : list R) (i : nat) : (i < length P)%nat -> (i < length Ts)%nat ->
  nth i (@density R RTNum k P Ts) 0 = nth i P 0 / (k * nth i Ts 0).
Proof. intros HP HT. unfold density.
  revert i Ts HP HT. induction P as [|p P IH]; intros i [|t Ts] HP HT; simpl in *; try lia.
  destruct i as [|i]; [rnum; reflexivity|]. apply IH; lia. Qed.

Theorem density_length (k : R) (P Ts : list R) : length Ts = length P ->
  length (@density R RTNum k P Ts) = length P.
Proof. intros H. unfold density. rewrite map2_length, H. lia. Qed.
