(* Proofs_C05.v — lemmas about Model_C05 at the real-number instance. *)
From Coq Require Import ZArith Reals List Bool Arith Lia Lra Permutation Sorting.Sorted.
From TV Require Import Num ListNum ListAux ListNumR SortR Model_C05.
Import ListNotations.
Local Open Scope R_scope.

Notation row := (@nrow R).
Notation lo := (@r_lo R RNum).
Notation hi := (@r_hi R RNum).
Notation fl := (@r_f R).
Notation wt := (@weight R RNum).
Notation ovl := (@ov R RNum).
Notation dm := (@dummy R RNum).
Notation los l := (@map row R lo l).
Notation his l := (@map row R hi l).

(* ---------------- searchsorted facts (prefix scans) ------------------ *)
Lemma ss_right_le_length (a : list R) (v : R) : (@ss_right R RNum a v <= length a)%nat.
Proof. induction a as [|x a IH]; simpl; [lia|]. rnum. destruct (Rleb x v); simpl; lia. Qed.

Lemma ss_right_before (a : list R) (v : R) (i : nat) :
  (i < @ss_right R RNum a v)%nat -> nth i a 0 <= v.
Proof. revert i. induction a as [|x a IH]; intros i Hi; simpl in Hi; [lia|]. rnum.
  destruct (Rleb x v) eqn:E; [|lia]. apply Rleb_true in E.
  destruct i as [|i]; simpl; [exact E|]. apply IH. lia. Qed.

Lemma sorted_nth_le (a : list R) (i j : nat) :
  StronglySorted Rle a -> (i <= j < length a)%nat -> nth i a 0 <= nth j a 0.
Proof. intros Hs. revert i j. induction Hs as [|x a Hs IH Hx]; intros i j Hij; simpl in Hij; [lia|].
  destruct i as [|i], j as [|j]; simpl; try lra; try lia.
  - rewrite Forall_forall in Hx. apply Hx. apply nth_In. lia.
  - apply IH. lia. Qed.

Lemma ss_right_after (a : list R) (v : R) (i : nat) :
  StronglySorted Rle a -> (@ss_right R RNum a v <= i < length a)%nat -> v < nth i a 0.
Proof. intros Hs. revert i. induction Hs as [|x a Hs IH Hx]; intros i Hi; simpl in Hi; [lia|]. rnum.
  destruct (Rleb x v) eqn:E.
  - destruct i as [|i]; [lia|]. simpl. apply IH. lia.
  - apply Rleb_false in E. destruct i as [|i]; simpl; [exact E|].
    rewrite Forall_forall in Hx. assert (x <= nth i a 0) by (apply Hx; apply nth_In; lia). lra. Qed.

(* ---------------- slices -------------------------------------------- *)
Lemma In_slice {A} (l : list A) (s e : nat) (d x : A) :
  In x (slice l s e) -> exists i, (s <= i <= e)%nat /\ (i < length l)%nat /\ nth i l d = x.
Proof. unfold slice. intros H. apply (In_nth _ _ d) in H. destruct H as [k [Hk Hn]].
  rewrite firstn_length, skipn_length in Hk.
  rewrite nth_firstn_lt in Hn by lia.
  rewrite nth_skipn_add in Hn. exists (s + k)%nat. repeat split; try lia. exact Hn. Qed.

(* ---------------- well-formed native grids -------------------------- *)
(* ordered, non-overlapping bins of non-negative width *)
Definition wf_native (l : list row) : Prop :=
  Forall (fun r => lo r <= hi r) l /\
  forall i, (S i < length l)%nat -> hi (nth i l dm) <= lo (nth (S i) l dm).

Lemma wf_lo_le_hi l i : wf_native l -> (i < length l)%nat -> lo (nth i l dm) <= hi (nth i l dm).
Proof. intros [H _] Hi. rewrite Forall_forall in H. apply H. apply nth_In. exact Hi. Qed.

Lemma wf_hi_mono l i j : wf_native l -> (i <= j < length l)%nat -> hi (nth i l dm) <= hi (nth j l dm).
Proof. intros Hw Hij. induction j as [|j IH]; [replace i with 0%nat by lia; lra|].
  destruct (Nat.eq_dec i (S j)) as [->|Hne]; [lra|].
  assert (hi (nth i l dm) <= hi (nth j l dm)) by (apply IH; lia).
  assert (hi (nth j l dm) <= lo (nth (S j) l dm)) by (apply (proj2 Hw); lia).
  assert (lo (nth (S j) l dm) <= hi (nth (S j) l dm)) by (apply wf_lo_le_hi; [exact Hw|lia]). lra. Qed.

Lemma wf_lo_mono l i j : wf_native l -> (i <= j < length l)%nat -> lo (nth i l dm) <= lo (nth j l dm).
Proof. intros Hw Hij. induction j as [|j IH]; [replace i with 0%nat by lia; lra|].
  destruct (Nat.eq_dec i (S j)) as [->|Hne]; [lra|].
  assert (lo (nth i l dm) <= lo (nth j l dm)) by (apply IH; lia).
  assert (hi (nth j l dm) <= lo (nth (S j) l dm)) by (apply (proj2 Hw); lia).
  assert (lo (nth j l dm) <= hi (nth j l dm)) by (apply wf_lo_le_hi; [exact Hw|lia]). lra. Qed.

Lemma map_nth_d {A} (f : A -> R) (l : list A) (d : A) (i : nat) :
  (i < length l)%nat -> nth i (map f l) 0 = f (nth i l d).
Proof. intros Hi. rewrite (nth_indep _ 0 (f d)) by (rewrite map_length; exact Hi). apply map_nth. Qed.

Lemma sorted_of_mono (a : list R) :
  (forall i j, (i <= j < length a)%nat -> nth i a 0 <= nth j a 0) -> StronglySorted Rle a.
Proof. induction a as [|x a IH]; intros H; constructor.
  - apply IH. intros i j Hij. apply (H (S i) (S j)). simpl. lia.
  - apply Forall_forall. intros y Hy. apply (In_nth _ _ 0) in Hy. destruct Hy as [k [Hk <-]].
    apply (H 0%nat (S k)). simpl. lia. Qed.

Lemma wf_his_sorted l : wf_native l -> StronglySorted Rle (his l).
Proof. intros Hw. apply sorted_of_mono. intros i j Hij. rewrite map_length in Hij.
  rewrite !(map_nth_d hi l dm) by lia. apply wf_hi_mono; assumption. Qed.

Lemma wf_los_sorted l : wf_native l -> StronglySorted Rle (los l).
Proof. intros Hw. apply sorted_of_mono. intros i j Hij. rewrite map_length in Hij.
  rewrite !(map_nth_d lo l dm) by lia. apply wf_lo_mono; assumption. Qed.

(* ---------------- the window --------------------------------------- *)
Section Window.
  Context (l : list row) (a b : R).
  Context (Hw : wf_native l) (Hab : a < b).
  Let n := length l.
  Let s := @win_start R RNum l a.
  Let e := @win_stop R RNum l b.

  Context (Hns : @skipped R RNum l a b = false).

  Lemma ns_start : a <= hi (nth s l dm).
  Proof. unfold skipped in Hns. apply orb_false_elim in Hns. destruct Hns as [H1 _].
    apply negb_false_iff in H1. rnum. apply Rleb_true in H1. exact H1. Qed.
  Lemma ns_stop : lo (nth e l dm) <= b.
  Proof. unfold skipped in Hns. apply orb_false_elim in Hns. destruct Hns as [_ H2].
    apply negb_false_iff in H2. rnum. apply Rleb_true in H2. exact H2. Qed.

  (* inside the window: the bin reaches past a and starts no later than b *)
  Lemma win_hi i : (s <= i < n)%nat -> a <= hi (nth i l dm).
  Proof. intros Hi. pose proof ns_start. assert (hi (nth s l dm) <= hi (nth i l dm)) by (apply wf_hi_mono; [exact Hw|exact Hi]). lra. Qed.
  Lemma win_lo i : (i <= e)%nat -> (i < n)%nat -> lo (nth i l dm) <= b.
  Proof. intros Hi Hn. pose proof ns_stop.
    assert (e < n)%nat by (unfold e, win_stop; fold n; lia).
    assert (lo (nth i l dm) <= lo (nth e l dm)) by (apply wf_lo_mono; [exact Hw|fold n; lia]). lra. Qed.

  Lemma window_weights_nonneg : Forall (fun r => 0 <= wt a b r) (slice l s e).
  Proof. apply Forall_forall. intros r Hr. apply (In_slice l s e dm) in Hr.
    destruct Hr as [i [Hse [Hi <-]]]. fold n in Hi.
    assert (H1 : a <= hi (nth i l dm)) by (apply win_hi; lia).
    assert (H2 : lo (nth i l dm) <= b) by (apply win_lo; lia).
    assert (H3 : lo (nth i l dm) <= hi (nth i l dm)) by (apply wf_lo_le_hi; assumption).
    unfold weight. rewrite nmin_R, nmax_R. rnum.
    apply Rmult_le_pos; [|left; apply Rinv_0_lt_compat; lra].
    unfold Rmin, Rmax. destruct (Rle_dec b (hi (nth i l dm))), (Rle_dec (lo (nth i l dm)) a); lra. Qed.

  (* outside the window the clipped overlap vanishes *)
  Lemma before_window_zero i : (i < s)%nat -> ovl a b (nth i l dm) = 0.
  Proof. intros Hi.
    assert (Hin : (i < n)%nat) by (unfold s, win_start in Hi; fold n in Hi; lia).
    assert (H1 : hi (nth i l dm) <= a).
    { rewrite <- (map_nth_d hi l dm) by exact Hin. apply ss_right_before.
      eapply Nat.lt_le_trans; [exact Hi|]. unfold s, win_start. apply Nat.le_min_l. }
    unfold ov. rewrite nmin_R, !nmax_R. rnum. unfold Rmin, Rmax.
    destruct (Rle_dec b (hi (nth i l dm))), (Rle_dec (lo (nth i l dm)) a);
      match goal with |- context [Rle_dec 0 ?x] => destruct (Rle_dec 0 x) end; lra. Qed.

  Lemma tl_los_length : length (tl (los l)) = (n - 1)%nat.
  Proof. unfold n. destruct l; simpl; rewrite ?map_length; lia. Qed.

  Lemma tl_los_sorted : StronglySorted Rle (tl (los l)).
  Proof. pose proof (wf_los_sorted l Hw) as Hs. destruct (los l); simpl; [constructor|].
    inversion Hs; assumption. Qed.

  Lemma nth_tl (m : list R) (i : nat) : nth i (tl m) 0 = nth (S i) m 0.
  Proof. destruct m; [destruct i; reflexivity|reflexivity]. Qed.

  Lemma after_window_zero i : (e < i < n)%nat -> ovl a b (nth i l dm) = 0.
  Proof. intros Hi.
    assert (He : (@ss_right R RNum (tl (los l)) b <= e)%nat).
    { assert (Hee : e = Nat.min (@ss_right R RNum (tl (los l)) b) (n - 1)) by reflexivity.
      destruct (Nat.min_spec (@ss_right R RNum (tl (los l)) b) (n - 1)) as [[_ Hm]|[_ Hm]];
        rewrite Hm in Hee; lia. }
    assert (H1 : b < lo (nth i l dm)).
    { destruct i as [|i]; [lia|].
      rewrite <- (map_nth_d lo l dm) by (fold n; lia).
      rewrite <- nth_tl. apply ss_right_after; [exact tl_los_sorted|].
      rewrite tl_los_length. split; [|lia]. eapply Nat.le_trans; [exact He|]. lia. }
    assert (H3 : lo (nth i l dm) <= hi (nth i l dm)) by (apply wf_lo_le_hi; [assumption|fold n; lia]).
    unfold ov. rewrite nmin_R, !nmax_R. rnum. unfold Rmin, Rmax.
    destruct (Rle_dec b (hi (nth i l dm))), (Rle_dec (lo (nth i l dm)) a);
      match goal with |- context [Rle_dec 0 ?x] => destruct (Rle_dec 0 x) end; lra. Qed.

  (* inside the window raw overlap = clipped overlap *)
  Lemma in_window_ov i : (s <= i <= e)%nat -> (i < n)%nat ->
    ovl a b (nth i l dm) = wt a b (nth i l dm) * (b - a).
  Proof. intros Hi Hn.
    assert (H1 : a <= hi (nth i l dm)) by (apply win_hi; lia).
    assert (H2 : lo (nth i l dm) <= b) by (apply win_lo; lia).
    assert (H3 : lo (nth i l dm) <= hi (nth i l dm)) by (apply wf_lo_le_hi; assumption).
    unfold ov, weight. rewrite !nmin_R, !nmax_R. rnum.
    replace ((Rmin b (hi (nth i l dm)) - Rmax (lo (nth i l dm)) a) / (b - a) * (b - a))
      with (Rmin b (hi (nth i l dm)) - Rmax (lo (nth i l dm)) a) by (field; lra).
    unfold Rmin, Rmax.
    destruct (Rle_dec b (hi (nth i l dm))), (Rle_dec (lo (nth i l dm)) a);
      match goal with |- context [Rle_dec 0 ?x] => destruct (Rle_dec 0 x) end; lra. Qed.
End Window.

(* ---------------- sums over the window ------------------------------ *)
Lemma Rsum_map_seq_zero (F : nat -> R) (s k : nat) :
  (forall i, (s <= i < s + k)%nat -> F i = 0) -> Rsum (map F (seq s k)) = 0.
Proof. intros H. apply Rsum_map_zero. intros i Hi. apply in_seq in Hi. apply H. lia. Qed.

Section WindowSum.
  Context (l : list row) (a b : R).
  Context (Hw : wf_native l) (Hab : a < b).
  Context (Hns : @skipped R RNum l a b = false).
  Let n := length l.
  Let s := @win_start R RNum l a.
  Let e := @win_stop R RNum l b.

  (* a sum over all native bins weighted by the clipped overlap only sees the window *)
  Lemma sum_all_eq_window (g : row -> R) :
    Rsum (map (fun r => ovl a b r * g r) l)
    = Rsum (map (fun r => wt a b r * (b - a) * g r) (slice l s e)).
  Proof.
    destruct (Nat.eq_dec n 0) as [Hn0|Hn0].
    { rewrite !Rsum_map_zero; [reflexivity| |].
      - intros r Hr. apply (In_slice l s e dm) in Hr. destruct Hr as [i [_ [Hi _]]]. fold n in Hi. lia.
      - intros r Hr. apply (In_nth _ _ dm) in Hr. destruct Hr as [i [Hi _]]. fold n in Hi. lia. }
    assert (He : (e < n)%nat) by (unfold e, win_stop; fold n; lia).
    destruct (le_lt_dec s e) as [Hse|Hes].
    - rewrite (map_nth_seq l dm) at 1. rewrite map_map. fold n.
      rewrite (seq_split3 s e n) by lia. rewrite !map_app, !Rsum_app.
      rewrite (Rsum_map_seq_zero _ 0 s).
      2:{ intros i Hi. rewrite (before_window_zero l a b Hab i) by (fold s; lia). lra. }
      rewrite (Rsum_map_seq_zero _ (e + 1) (n - (e + 1))).
      2:{ intros i Hi. rewrite (after_window_zero l a b Hw Hab Hns i) by (fold e; fold n; lia). lra. }
      unfold slice. rewrite (firstn_skipn_seq l dm) by (fold n; lia). rewrite map_map.
      rewrite (Rsum_map_ext _ (fun i => wt a b (nth i l dm) * (b - a) * g (nth i l dm)) (seq s (e + 1 - s))).
      + lra.
      + intros i Hi. apply in_seq in Hi.
        rewrite (in_window_ov l a b Hw Hab Hns i) by (fold s; fold e; fold n; lia). reflexivity.
    - (* empty window: every bin is before the start or after the stop *)
      unfold slice. replace (e + 1 - s)%nat with 0%nat by lia. cbn [firstn map]. change (Rsum (@nil R)) with 0.
      apply Rsum_map_zero. intros r Hr. apply (In_nth _ _ dm) in Hr. destruct Hr as [i [Hi <-]].
      destruct (le_lt_dec s i).
      + rewrite (after_window_zero l a b Hw Hab Hns i) by (fold e; fold n; lia). lra.
      + rewrite (before_window_zero l a b Hab i) by (fold s; lia). lra.
  Qed.
End WindowSum.

(* ---------------- the skip test only drops bins without overlap ---------- *)
Lemma skipped_no_overlap (l : list row) (a b : R) :
  wf_native l -> a < b -> @skipped R RNum l a b = true -> forall r, In r l -> ovl a b r = 0.
Proof. intros Hw Hab Hsk r Hr. apply (In_nth _ _ dm) in Hr. destruct Hr as [i [Hi <-]].
  set (n := length l) in *.
  assert (H3 : lo (nth i l dm) <= hi (nth i l dm)) by (apply wf_lo_le_hi; assumption).
  unfold skipped in Hsk. apply orb_true_iff in Hsk. destruct Hsk as [H|H]; apply negb_true_iff in H; rnum; apply Rleb_false in H.
  - (* hi[start] < a : then start was clamped, every bin ends before a *)
    assert (Hall : hi (nth i l dm) <= a).
    { set (ss := @ss_right R RNum (his l) a) in *.
      assert (Hst : @win_start R RNum l a = Nat.min ss (n - 1)) by reflexivity.
      destruct (le_lt_dec ss (n - 1)) as [Hle|Hgt].
      - exfalso. rewrite Hst, Nat.min_l in H by exact Hle.
        assert (a < nth ss (his l) 0).
        { apply ss_right_after; [apply wf_his_sorted; exact Hw|]. rewrite map_length. fold n. fold ss. lia. }
        rewrite (map_nth_d hi l dm) in H0 by (fold n; lia). lra.
      - rewrite <- (map_nth_d hi l dm) by exact Hi. apply ss_right_before. fold ss. lia. }
    unfold ov. rewrite nmin_R, !nmax_R. rnum. unfold Rmin, Rmax.
    destruct (Rle_dec b (hi (nth i l dm))), (Rle_dec (lo (nth i l dm)) a);
      match goal with |- context [Rle_dec 0 ?x] => destruct (Rle_dec 0 x) end; lra.
  - (* b < lo[stop] : then stop = 0 and every bin starts after b *)
    assert (Hall : b < lo (nth i l dm)).
    { set (ss := @ss_right R RNum (tl (los l)) b) in *.
      assert (Hst : @win_stop R RNum l b = Nat.min ss (n - 1)) by reflexivity.
      destruct (Nat.eq_dec (Nat.min ss (n - 1)) 0) as [Hz|Hnz].
      - rewrite Hst, Hz in H.
        assert (lo (nth 0 l dm) <= lo (nth i l dm)) by (apply wf_lo_mono; [exact Hw|fold n; lia]). lra.
      - exfalso. rewrite Hst in H. set (k := Nat.min ss (n - 1)) in *.
        assert (nth (k - 1) (tl (los l)) 0 <= b) by (apply ss_right_before; fold ss; lia).
        rewrite nth_tl in H0. replace (S (k - 1)) with k in H0 by lia.
        rewrite (map_nth_d lo l dm) in H0 by (fold n; lia). lra. }
    unfold ov. rewrite nmin_R, !nmax_R. rnum. unfold Rmin, Rmax.
    destruct (Rle_dec b (hi (nth i l dm))), (Rle_dec (lo (nth i l dm)) a);
      match goal with |- context [Rle_dec 0 ?x] => destruct (Rle_dec 0 x) end; lra.
Qed.

(* ---------------- main results -------------------------------------- *)
Definition pos_overlap (l : list row) (a b : R) : Prop := 0 < Rsum (map (ovl a b) l).

Lemma pos_overlap_not_skipped l a b :
  wf_native l -> a < b -> pos_overlap l a b -> @skipped R RNum l a b = false.
Proof. intros Hw Hab Hp. destruct (@skipped R RNum l a b) eqn:E; [|reflexivity]. exfalso.
  unfold pos_overlap in Hp. rewrite Rsum_map_zero in Hp; [lra|].
  intros r Hr. apply (skipped_no_overlap l a b Hw Hab E r Hr). Qed.

Definition window l a b := slice l (@win_start R RNum l a) (@win_stop R RNum l b).
Definition wpairs l a b : list (R * R) := map (fun r => (wt a b r, fl r)) (window l a b).

Lemma flux_bin_wmean l a b :
  @skipped R RNum l a b = false -> @flux_bin R RNum l a b = wmean (wpairs l a b).
Proof. intros Hns. unfold flux_bin. rewrite Hns. unfold wmean, wpairs, window.
  set (s := slice l _ _). rewrite map2_map_r. rewrite !map_map. cbn [fst snd]. rnum. reflexivity. Qed.

Lemma sum_weights_window l a b :
  wf_native l -> a < b -> @skipped R RNum l a b = false ->
  Rsum (map (ovl a b) l) = (b - a) * Rsum (map (wt a b) (window l a b)).
Proof. intros Hw Hab Hns.
  rewrite (Rsum_map_ext (ovl a b) (fun r => ovl a b r * 1)) by (intros; lra).
  rewrite (sum_all_eq_window l a b Hw Hab Hns (fun _ => 1)).
  rewrite <- Rsum_map_scale. apply Rsum_map_ext. intros; lra. Qed.

Theorem flux_bin_is_overlap_mean l a b :
  wf_native l -> a < b -> pos_overlap l a b ->
  @flux_bin R RNum l a b = @overlap_mean R RNum l a b.
Proof. intros Hw Hab Hp. pose proof (pos_overlap_not_skipped l a b Hw Hab Hp) as Hns.
  rewrite (flux_bin_wmean l a b Hns), wmean_alt. unfold overlap_mean. rnum.
  change (@nsum R RNum) with Rsum.
  rewrite (sum_all_eq_window l a b Hw Hab Hns fl).
  rewrite (sum_weights_window l a b Hw Hab Hns).
  unfold pos_overlap in Hp. rewrite (sum_weights_window l a b Hw Hab Hns) in Hp.
  unfold wpairs. rewrite !map_map. cbn [fst snd]. fold (window l a b).
  set (W := Rsum (map (wt a b) (window l a b))) in *.
  assert (W <> 0) by (intro Hz; rewrite Hz in Hp; lra).
  rewrite (Rsum_map_ext (fun r => wt a b r * (b - a) * fl r) (fun r => (b - a) * (wt a b r * fl r)))
    by (intros; lra).
  rewrite Rsum_map_scale. field. split; [exact H|lra]. Qed.

(* consequences, stated on the code's own windowed form *)
Lemma wpairs_nonneg l a b :
  wf_native l -> a < b -> @skipped R RNum l a b = false ->
  Forall (fun p => 0 <= fst p) (wpairs l a b).
Proof. intros Hw Hab Hns. unfold wpairs. apply Forall_forall. intros p Hp.
  apply in_map_iff in Hp. destruct Hp as [r [<- Hr]]. cbn [fst].
  pose proof (window_weights_nonneg l a b Hw Hab Hns) as Hf. rewrite Forall_forall in Hf. apply Hf. exact Hr. Qed.

Lemma wpairs_sum l a b : Rsum (map fst (wpairs l a b)) = Rsum (map (wt a b) (window l a b)).
Proof. unfold wpairs. rewrite map_map. reflexivity. Qed.

Theorem flux_bin_bounded l a b m M :
  wf_native l -> a < b -> pos_overlap l a b ->
  (forall r, In r l -> 0 < ovl a b r -> m <= fl r <= M) ->
  m <= @flux_bin R RNum l a b <= M.
Proof. intros Hw Hab Hp Hb. pose proof (pos_overlap_not_skipped l a b Hw Hab Hp) as Hns.
  rewrite (flux_bin_wmean l a b Hns). apply wmean_bounds.
  - apply wpairs_nonneg; assumption.
  - rewrite wpairs_sum. unfold pos_overlap in Hp. rewrite (sum_weights_window l a b Hw Hab Hns) in Hp.
    assert (0 < b - a) by lra. nra.
  - unfold wpairs, window. apply Forall_forall. intros p Hpin. apply in_map_iff in Hpin.
    destruct Hpin as [r [<- Hr]]. cbn [fst snd]. intros Hpos.
    apply (In_slice l _ _ dm) in Hr. destruct Hr as [i [Hse [Hi <-]]].
    apply Hb; [apply nth_In; exact Hi|].
    rewrite (in_window_ov l a b Hw Hab Hns i) by lia. assert (0 < b - a) by lra. nra.
Qed.

Theorem flux_bin_constant l a b c :
  wf_native l -> a < b -> pos_overlap l a b ->
  (forall r, In r l -> fl r = c) -> @flux_bin R RNum l a b = c.
Proof. intros Hw Hab Hp Hc. pose proof (pos_overlap_not_skipped l a b Hw Hab Hp) as Hns.
  rewrite (flux_bin_wmean l a b Hns). apply wmean_const.
  - rewrite wpairs_sum. unfold pos_overlap in Hp. rewrite (sum_weights_window l a b Hw Hab Hns) in Hp.
    intro Hz. rewrite Hz in Hp. lra.
  - unfold wpairs, window. apply Forall_forall. intros p Hpin. apply in_map_iff in Hpin.
    destruct Hpin as [r [<- Hr]]. cbn [snd]. apply Hc.
    apply (In_slice l _ _ dm) in Hr. destruct Hr as [i [_ [Hi <-]]]. apply nth_In. exact Hi.
Qed.

(* ---------------- linearity (on the specification, transported by the main theorem) ---- *)
Definition with_f (g : row -> R) (l : list row) : list row :=
  map (fun r => {| r_wn := r_wn r; r_w := r_w r; r_f := g r; r_e := r_e r |}) l.

Lemma ov_with_f g l a b : map (ovl a b) (with_f g l) = map (ovl a b) l.
Proof. unfold with_f. rewrite map_map. apply map_ext. intros r. reflexivity. Qed.

Lemma wf_with_f g l : wf_native l -> wf_native (with_f g l).
Proof. intros [H1 H2]. split.
  - unfold with_f. apply Forall_forall. intros r Hr. apply in_map_iff in Hr. destruct Hr as [r' [<- Hr']].
    rewrite Forall_forall in H1. apply (H1 r' Hr').
  - intros i Hi. unfold with_f in *. rewrite map_length in Hi.
    rewrite !(map_nth_lt _ l dm dm) by lia. apply (H2 i Hi). Qed.

Lemma overlap_mean_linear (g1 g2 : row -> R) (al be : R) l a b :
  @overlap_mean R RNum (with_f (fun r => al * g1 r + be * g2 r) l) a b
  = al * @overlap_mean R RNum (with_f g1 l) a b + be * @overlap_mean R RNum (with_f g2 l) a b.
Proof. unfold overlap_mean. rnum. change (@nsum R RNum) with Rsum.
  rewrite !ov_with_f. unfold with_f. rewrite !map_map. cbn [r_f].
  change (fun x : row => ovl a b {| r_wn := r_wn x; r_w := r_w x; r_f := al * g1 x + be * g2 x; r_e := r_e x |} * (al * g1 x + be * g2 x))
    with (fun x : row => ovl a b x * (al * g1 x + be * g2 x)).
  change (fun x : row => ovl a b {| r_wn := r_wn x; r_w := r_w x; r_f := g1 x; r_e := r_e x |} * g1 x)
    with (fun x : row => ovl a b x * g1 x).
  change (fun x : row => ovl a b {| r_wn := r_wn x; r_w := r_w x; r_f := g2 x; r_e := r_e x |} * g2 x)
    with (fun x : row => ovl a b x * g2 x).
  rewrite (Rsum_map_ext (fun x => ovl a b x * (al * g1 x + be * g2 x))
                        (fun x => al * (ovl a b x * g1 x) + be * (ovl a b x * g2 x))) by (intros; lra).
  rewrite Rsum_map_add, !Rsum_map_scale. unfold Rdiv. lra. Qed.

Theorem flux_bin_linear (g1 g2 : row -> R) (al be : R) l a b :
  wf_native l -> a < b -> pos_overlap l a b ->
  @flux_bin R RNum (with_f (fun r => al * g1 r + be * g2 r) l) a b
  = al * @flux_bin R RNum (with_f g1 l) a b + be * @flux_bin R RNum (with_f g2 l) a b.
Proof. intros Hw Hab Hp.
  assert (Hp' : forall g, pos_overlap (with_f g l) a b) by (intros g; unfold pos_overlap; rewrite ov_with_f; exact Hp).
  rewrite !flux_bin_is_overlap_mean by (auto using wf_with_f).
  apply overlap_mean_linear. Qed.

(* ---------------- order independence ------------------------------- *)
Theorem prepare_order_independent (auto : bool) (rows rows' : list row) :
  NoDup (map (@r_wn R) rows) -> Permutation rows rows' ->
  @prepare R RNum auto rows = @prepare R RNum auto rows'.
Proof. intros Hnd Hp. unfold prepare, sort_rows.
  rewrite (SortR.isort_order_independent (@r_wn R) rows rows' Hnd Hp). reflexivity. Qed.

Theorem target_order_independent (auto : bool) (tg tg' : list (@tbin R)) :
  NoDup (map (@t_wn R) tg) -> Permutation tg tg' ->
  @target_grid R RNum auto tg = @target_grid R RNum auto tg'.
Proof. intros Hnd Hp. unfold target_grid.
  rewrite (SortR.isort_order_independent (@t_wn R) tg tg' Hnd Hp). reflexivity. Qed.

Theorem flux_binner_order_independent auto_t auto_n tg tg' rows rows' :
  NoDup (map (@r_wn R) rows) -> Permutation rows rows' ->
  NoDup (map (@t_wn R) tg) -> Permutation tg tg' ->
  @flux_binner R RNum auto_t auto_n tg rows = @flux_binner R RNum auto_t auto_n tg' rows'.
Proof. intros H1 H2 H3 H4. unfold flux_binner.
  rewrite (prepare_order_independent auto_n rows rows' H1 H2).
  rewrite (target_order_independent auto_t tg tg' H3 H4). reflexivity. Qed.

(* ---------------- binned errors follow the same weights in quadrature -------- *)
Theorem err2_bin_quadrature l a b :
  @skipped R RNum l a b = false ->
  @err2_bin R RNum l a b
  = Rsum (map (fun r => (wt a b r) ^ 2 * (@r_e R r) ^ 2) (window l a b))
    / (Rsum (map (wt a b) (window l a b))) ^ 2.
Proof. intros Hns. unfold err2_bin. rewrite Hns. fold (window l a b).
  rewrite map2_map_r. rnum. change (@nsum R RNum) with Rsum.
  rewrite (Rsum_map_ext (fun b0 : row => wt a b b0 * wt a b b0 * (r_e b0 * r_e b0))
                        (fun r => wt a b r ^ 2 * r_e r ^ 2)) by (intros; ring).
  unfold Rdiv. simpl pow. rewrite Rmult_1_r. rewrite Rinv_mult. ring. Qed.

(* ---------------- histogram binner: constant in, constant out; native binner = identity ---- *)
Lemma hist_const (edges : list R) (pts : list (R * R)) (c : R) :
  Forall (fun p => snd p = c) pts ->
  Forall (fun sc => fst sc = INR (snd sc) * c) (@hist_bins R RNum edges pts).
Proof. intros Hc. induction edges as [|e0 er IH]; [constructor|].
  destruct er as [|e1 rest]; [constructor|]. cbn [hist_bins]. constructor; [|exact IH].
  cbn [fst snd]. set (inb := filter _ pts).
  assert (Hf : Forall (fun p => snd p = c) inb).
  { apply Forall_forall. intros p Hp. apply filter_In in Hp. rewrite Forall_forall in Hc. apply Hc. tauto. }
  clearbody inb. change (@nsum R RNum) with Rsum. induction Hf as [|p q Hp _ IHq]; [simpl; rnum; lra|].
  cbn [map length]. rewrite Rsum_cons, IHq, Hp, S_INR. lra. Qed.

Theorem native_binner_identity (wn f : list R) : @native_binner R wn f = (wn, f).
Proof. reflexivity. Qed.

Definition ex_l0 : list row :=
  [ {| r_wn := 1; r_w := 1; r_f := 3; r_e := 0 |}; {| r_wn := 2; r_w := 1; r_f := 5; r_e := 0 |} ].
Lemma ex_nonvacuous : wf_native ex_l0 /\ 1 < 2 /\ pos_overlap ex_l0 1 2.
Proof. split; [|split; [lra|]].
  - split.
    + apply Forall_cons; [|apply Forall_cons; [|apply Forall_nil]]; unfold r_lo, r_hi; rnum; cbn [r_wn r_w]; lra.
    + intros i Hi. simpl in Hi. assert (i = 0)%nat by lia. subst. unfold ex_l0. cbn [nth]. unfold r_lo, r_hi; rnum; cbn [r_wn r_w]; lra.
  - unfold pos_overlap, ex_l0. cbn [map]. rewrite !Rsum_cons, Rsum_nil.
    unfold ov. rewrite !nmin_R, !nmax_R. unfold r_lo, r_hi. rnum. cbn [r_wn r_w].
    unfold Rmin, Rmax.
    repeat match goal with |- context [Rle_dec ?x ?y] =>
      lazymatch x with context [Rle_dec _ _] => fail | _ =>
        lazymatch y with context [Rle_dec _ _] => fail | _ => destruct (Rle_dec x y) end end end;
    lra.
Qed.
