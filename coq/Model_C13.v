(* Model_C13.v — restricting the spectral grid
   (taurex/util/util.py : clip_native_to_wngrid ; taurex/opacity/opacity.py : Opacity.opacity grid
    selection, with the bracketing repair ; taurex/model/simplemodel.py : nativeWavenumberGrid). *)
From Coq Require Import ZArith List Bool Arith.
From TV Require Import Num ListNum.
Import ListNotations.

Section Grid.
  Context {T : Type} {N : Num T}.
  Local Open Scope num_scope.

  (* clip_native_to_wngrid: keep the native points within one maximum bin width of the requested range *)
  Definition clip (native obs : list T) : list T :=
    let w := lmax n0 (bin_widths obs) in
    let lo := lmin n0 obs - w in
    let hi := lmax n0 obs + w in
    filter (fun x => (lo <=? x) && (x <=? hi)) native.

  Fixpoint list_eqb (a b : list T) : bool :=
    match a, b with
    | [], [] => true
    | x :: a', y :: b' => neqb x y && list_eqb a' b'
    | _, _ => false
    end.

  Definition sub {A} (l : list A) (a b : nat) : list A := firstn (b - a) (skipn a l).   (* l[a:b] *)

  (* Opacity.opacity(T, P, wngrid) after the (T,P) interpolation (which is pointwise per wavenumber):
     native : the molecule's own ascending grid, vals : its opacity on that grid, req : requested grid *)
  Definition opacity_on (native vals req : list T) : list T :=
    let n := length native in
    let rmin := lmin n0 req in
    let rmax := lmax n0 req in
    let a := ss_left native rmin in          (* indices with rmin <= native_i <= rmax are a .. b-1 *)
    let b := ss_right native rmax in
    if list_eqb (sub native a b) req then sub vals a b
    else
      let '(lo, hi) := if (a <? b)%nat then ((a - 1)%nat, Nat.min b (n - 1))
                       else ((a - 1)%nat, Nat.min a (n - 1)) in
      map (np_interp (sub native lo (S hi)) (sub vals lo (S hi))) req.

  (* SimpleForwardModel.nativeWavenumberGrid: the longest grid, the first one on ties *)
  Fixpoint longest_from (cur : list T) (gs : list (list T)) : list T :=
    match gs with
    | [] => cur
    | g :: r => if (length cur <? length g)%nat then longest_from g r else longest_from cur r
    end.
  Definition native_grid (gs : list (list T)) : list T :=
    match gs with [] => [] | g :: r => longest_from g r end.

  (* taking a sub-grid of a spectrum computed per wavenumber: columns sel of every row *)
  Definition restrict_cols (sel : list nat) (sigma : list (list T)) : list (list T) :=
    map (fun row => map (fun j => nth_d row j) sel) sigma.
End Grid.
