(* Model_C17.v — loading an observation
   (taurex/data/spectrum/array.py : ArraySpectrum.__init__, _sort_spectrum, _process_spectrum, manual_binning,
    wavenumberGrid, spectrum, errorBar, binWidths, binEdges ; observed.py (text rows -> the same array) ;
    taurex.py : TaurexSpectrum._load_from_hdf5 ; util.py : wnwidth_to_wlwidth, compute_bin_edges ;
    spectrum.py : create_binner -> FluxBinner.__init__ (Model_C05.target_grid)). *)
From Coq Require Import ZArith List Bool Arith.
From TV Require Import Num ListNum Model_C05.
Import ListNotations.

Section Model.
  Context {T : Type} {N : Num T}.
  Local Open Scope num_scope.

  (* one input row: wavelength, value, error, bin width in wavelength (ignored for three-column input) *)
  Record orow := { o_wl : T; o_v : T; o_e : T; o_bw : T }.

  Definition c10000 : T := nofZ 10000.

  (* _sort_spectrum: rows[argsort(wavelength)[::-1]] — wavelength descending *)
  Definition sort_desc (rows : list orow) : list orow := rev (isort_by o_wl rows).

  (* wnwidth_to_wlwidth(grid, width) = 10000 width / grid^2 (used in both directions) *)
  Definition conv_width (g w : T) : T := c10000 * w / (g * g).

  (* the bin widths in wavelength: column four, or compute_bin_edges(wavelengthGrid)[1] *)
  Definition wl_widths (four : bool) (s : list orow) : list T :=
    if four then map o_bw s else bin_widths (map o_wl s).

  (* the bin edges in wavelength, in the order the code stores them (descending wavelength):
     four columns: per bin [wl + bw/2 ; wl - bw/2]   (the reversed interleaving of lower / upper edges)
     three columns: compute_bin_edges(wavelengthGrid)[0] *)
  Definition wl_edges (four : bool) (s : list orow) : list T :=
    if four then
      rev (concat (map (fun r => [o_wl r - o_bw r / n2; o_wl r + o_bw r / n2]) (rev s)))
    else bin_edges (map o_wl s).

  Record obs := {
    ob_rows : list orow;       (* rawData, sorted *)
    ob_wn : list T;            (* wavenumberGrid *)
    ob_spec : list T;          (* spectrum *)
    ob_err : list T;           (* errorBar *)
    ob_wnw : list T;           (* binWidths (wavenumber) *)
    ob_edges : list T }.       (* binEdges (wavenumber) *)

  Definition load (four : bool) (rows : list orow) : obs :=
    let s := sort_desc rows in
    {| ob_rows := s;
       ob_wn := map (fun r => c10000 / o_wl r) s;
       ob_spec := map o_v s;
       ob_err := map o_e s;
       ob_wnw := map2 conv_width (map o_wl s) (wl_widths four s);
       ob_edges := map (fun e => c10000 / e) (wl_edges four s) |}.

  (* TaurexSpectrum: rows (wavenumber, spectrum, noise, wavenumber width) read from the HDF5 output *)
  Definition taurex_rows (rows : list orow) : list orow :=
    map (fun r => {| o_wl := c10000 / o_wl r; o_v := o_v r; o_e := o_e r; o_bw := conv_width (o_wl r) (o_bw r) |}) rows.
  Definition load_taurex (rows : list orow) : obs := load true (taurex_rows rows).

  (* create_binner: FluxBinner(wngrid = wavenumberGrid, wngrid_width = binWidths) *)
  Definition binner_targets (o : obs) : list (@tbin T) :=
    target_grid false (map2 (fun c w => {| t_wn := c; t_w := w |}) (ob_wn o) (ob_wnw o)).
End Model.
