(* Model_C11.v — vertical structure
   (taurex/data/profiles/pressure/pressureprofile.py : SimplePressureProfile.compute_pressure_profile ;
    arraypressure.py ; taurex/data/planet.py : calculate_scale_properties, gravity_at_height ;
    taurex/model/simplemodel.py : densityProfile and the slicing into per-layer profiles). *)
From Coq Require Import ZArith List Bool Arith.
From TV Require Import Num ListNum.
Import ListNotations.

Section Pressure.
  Context {T : Type} {N : TNum T}.
  Local Open Scope num_scope.

  (* np.logspace(lmin, lmax, n+1)[::-1] : levels from the surface (lmax) to the top (lmin);
     lmin, lmax are log10 of the pressure bounds *)
  Definition level_asc (lmin lmax : T) (n i : nat) : T :=
    npow10 (lmin + nofnat i * ((lmax - lmin) / nofnat n)).
  Definition levels (lmin lmax : T) (n : nat) : list T :=
    rev (map (level_asc lmin lmax n) (seq 0 (S n))).

  (* layer pressure: P_i * sqrt(P_{i+1} / P_i) *)
  Definition layer_pressures (lv : list T) : list T :=
    map2 (fun p q => p * nsqrt (q / p)) (removelast lv) (tl lv).
End Pressure.

Section Hydro.
  Context {T : Type} {N : TNum T}.
  Local Open Scope num_scope.

  (* one row per layer: altitude of its lower boundary, scale height, gravity, thickness *)
  Definition hrow : Type := (T * T * T * T)%type.

  (* calculate_scale_properties, bottom-up.  GM = G * mass, R = radius, k = Boltzmann constant.
     z  : altitude of the lower boundary of the current layer, Pj : its pressure,
     Pnext : the remaining level pressures, Ts / ms : temperature and mean molecular mass of the
     current and higher layers. Returns the rows and the altitude of the top boundary. *)
  Fixpoint layers (GM R k : T) (z Pj : T) (Pnext Ts ms : list T) : list hrow * T :=
    match Pnext, Ts, ms with
    | P1 :: Prest, t :: Ts', m :: ms' =>
        let g := GM / ((R + z) * (R + z)) in
        let H := k * t / (m * g) in
        let dz := - n1 * H * nln (P1 / Pj) in
        let '(rows, zf) := layers GM R k (z + dz) P1 Prest Ts' ms' in
        ((z, H, g, dz) :: rows, zf)
    | _, _, _ => ([], z)
    end.

  Definition scale_properties (GM R k : T) (Ts ms Pl : list T) : list hrow * T :=
    match Pl with
    | P0 :: Prest => layers GM R k n0 P0 Prest Ts ms
    | [] => ([], n0)
    end.

  (* what SimpleForwardModel exposes *)
  Definition altitude_profile (o : list hrow * T) : list T := map (fun r => fst (fst (fst r))) (fst o).
  Definition altitude_boundaries (o : list hrow * T) : list T := altitude_profile o ++ [snd o].
  Definition scaleheight_profile (o : list hrow * T) : list T := map (fun r => snd (fst (fst r))) (fst o).
  Definition gravity_profile (o : list hrow * T) : list T := map (fun r => snd (fst r)) (fst o).
  Definition deltaz (o : list hrow * T) : list T := map (fun r => snd r) (fst o).

  (* number density P / (k T) *)
  Definition density (k : T) (P Ts : list T) : list T := map2 (fun p t => p / (k * t)) P Ts.
End Hydro.
