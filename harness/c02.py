"""C02 — emission / direct-image spectra equal the documented layered thermal integral."""
import math

import numpy as np

import common as C
import tmodel
import c01

META = dict(
    rule='random planets/stars, 1..9 layers, isothermal / monotone / non-monotone temperature profiles, opacities '
         'from transparent to saturated, {Absorption, CIA, Rayleigh, FlatMie} subsets, 1..6 Gauss points, eclipse '
         'and direct-image models; non-trivial = non-isothermal with some layer weight in (1e-6, 1-1e-6); '
         'distinct by spec',
    trusted=['per-source weighted cross-sections, density, deltaz, temperatures, the Gauss-Legendre nodes/weights '
             '(numpy leggauss, validated here: sum w = 1, sum w mu = 1/2) and the physical constants of '
             'taurex.constants are observed on the real model and handed to the Gallina model, which recomputes '
             'Planck functions, vertical optical depths, the clamp flags, intensities per angle, flux and the '
             'final scaling in 80-bit interval arithmetic',
             'direct imaging: the code scales by Rp^2 * 2pi / (4pi d^2); the wavelength-independent constant 1/2 '
             'is carried as coded (DESIGN note N1)'],
    modelled=['EmissionModel.evaluate_emission, evaluate_emission_ktables (correlated-k mode, non-degenerate '
              'k-distributions), path_integral, compute_final_flux, DirectImageModel.compute_final_flux, '
              'taurex.util.emission.black_body (wavenumber form)'],
    assumptions=['optical depths >= 0; SimpleClouds is excluded from emission models (its contribute ignores the '
                 'layer range: DESIGN note N5)',
                 'tolerance 1e-8 relative to the largest layer black body for intensities, 1e-8 relative for spectra'],
)

HEADER = C.HEADER_IV + 'From TV Require Import Model_C01 Model_C02 Exec_C02.\n'


def observe(model, direct):
    from taurex.contributions import CIAContribution
    from taurex import constants as K
    with np.errstate(all='ignore'):
        wn, spec, tau, _ = model.model()
        I, _mu, _w, tau2 = model.partial_model()
    cs = []
    ksig = kw = None
    for c in model.contribution_list:
        s = np.array(c.sigma_xsec, float)
        if s.ndim == 3:          # correlated-k mode: [layer, wn, g] and the quadrature weights of the k-distribution
            ksig, kw = s, np.array(c.weights, float)
            continue
        cs.append(('sig2' if isinstance(c, CIAContribution) else 'sig', s, type(c).__name__))
    return dict(ksig=ksig, kw=kw, wn=np.array(wn), spec=np.array(spec), I=np.array(I), mus=np.array(model._mu_quads, float),
                wts=np.array(model._wi_quads, float), T=np.array(model.temperatureProfile, float),
                rho=np.array(model.densityProfile, float), dz=np.array(model.deltaz, float), cs=cs,
                Rp=float(model.planet.fullRadius), Rs=float(model.star.radius),
                Tstar=float(model.star.temperature), dist=float(model.star.distance) * 3.08567758e16,
                h=float(K.PLANCK), c=float(K.SPDLIGT), k=float(K.KBOLTZ), direct=direct)


def planck_py(o, wn, T):
    wl = 10000 * 1e-6 / wn
    return math.pi * 2 * o['h'] * o['c'] ** 2 / wl ** 5 / np.expm1(o['h'] * o['c'] / (wl * o['k'] * T)) * 1e-6


def model_expr(o):
    return 'run_emission %s %s %s %s %s %s %s %s %s %s %s %s %s %s %s' % (
        C.boollit(o['direct']), C.iv(o['h']), C.iv(o['c']), C.iv(o['k']), C.ivlist(o['wn']), C.ivlist(o['T']),
        C.clist([c01.contrib_lit(c) for c in o['cs']]), C.ivlist(o['rho']), C.ivlist(o['dz']),
        C.ivlist(o['mus']), C.ivlist(o['wts']), C.iv(o['Tstar']), C.iv(o['Rp']), C.iv(o['Rs']), C.iv(o['dist']))


def oracle(ctx, o, spec):
    rp = dict(spec=spec, direct=o['direct'])
    wn = o['wn']
    if not (abs(o['wts'].sum() - 1) < 1e-12 and abs((o['wts'] * o['mus']).sum() - 0.5) < 1e-12):
        ctx.violation('quadrature', 'Gauss-Legendre nodes/weights do not satisfy sum w = 1, sum w mu = 1/2', replay=rp)
    Bl = np.array([planck_py(o, wn, t) for t in o['T']])           # [layer, wn]
    scale = (o['Rp'] / o['Rs']) ** 2 / planck_py(o, wn, o['Tstar']) if not o['direct'] else \
        o['Rp'] ** 2 / (2 * o['dist'] ** 2)
    lo = Bl.min(axis=0) * scale
    hi = Bl.max(axis=0) * scale
    s = o['spec']
    if np.any(~np.isfinite(s)):
        ctx.violation('nonfinite', 'spectrum not finite: %r' % s, replay=rp)
        return
    if np.any(s < lo * (1 - 1e-9)) or np.any(s > hi * (1 + math.exp(-10) + 1e-9)):
        ctx.violation('hot-cold-bounds', 'spectrum %r outside the black-body ratios of the coldest %r and hottest '
                      '%r layers' % (s, lo, hi), replay=rp)
    if len(set(o['T'].tolist())) == 1 and not np.allclose(s, hi, rtol=math.exp(-10) + 1e-9):
        ctx.violation('isothermal', 'isothermal atmosphere gives %r instead of the black-body ratio %r' % (s, hi),
                      replay=rp)
    # the documented integral, un-clamped, recomputed independently in floating point
    d = np.zeros((len(o['T']), len(wn)))
    for kind, data, _ in o['cs']:
        d += np.asarray(data) * (o['dz'] * o['rho'] ** (2 if kind == 'sig2' else 1))[:, None]
    above = np.concatenate([np.cumsum(d[::-1], axis=0)[::-1][1:], np.zeros((1, len(wn)))])
    upto = above + d
    Idoc = []
    for mu in o['mus']:
        with np.errstate(all='ignore'):
            Ii = Bl[0] / math.pi * np.exp(-upto[0] / mu) + np.sum(
                Bl / math.pi * (np.exp(-above / mu) - np.exp(-upto / mu)), axis=0)
        Idoc.append(Ii)
    Idoc = np.array(Idoc)
    tol = Bl.max(axis=0) / math.pi * (math.exp(-10) + 1e-8)
    if np.any(np.abs(Idoc - o['I']) > tol):
        i, w = np.unravel_index(np.argmax(np.abs(Idoc - o['I']) / tol), Idoc.shape)
        ctx.violation('integral', 'intensity %r at angle %d differs from the documented layered integral %r'
                      % (o['I'][i, w], i, Idoc[i, w]), replay=rp)


def compare(o, res):
    Is, spec = res
    Bmax = max(float(planck_py(o, w, o['T'].max())) for w in o['wn']) / math.pi
    for i in range(len(Is)):
        for w in range(len(Is[i])):
            x = float(o['I'][i, w])
            if not C.in_enclosure(x, Is[i][w], rel=1e-8, abs_=1e-8 * Bmax):
                return 'intensity angle %d wn %d: impl %r model %r' % (i, w, x, C.iv_mid(Is[i][w]))
    # every term of the layer sum is rounded relative to ITS black body: where a thin hot layer outshines the rest
    # (Wien tail) the 1 - exp(-tiny) of that layer carries an error of 1e-16 relative to one, i.e. up to 1e-16 of the
    # hottest layer's black-body ratio in absolute terms, however small the spectrum is
    scale = (o['Rp'] / o['Rs']) ** 2 / planck_py(o, o['wn'], o['Tstar']) if not o['direct'] else \
        o['Rp'] ** 2 / (2 * o['dist'] ** 2) * np.ones(len(o['wn']))
    hot = planck_py(o, o['wn'], float(np.max(o['T']))) * scale
    for w, v in enumerate(spec[0]):
        x = float(o['spec'][w])
        if not C.in_enclosure(x, v, rel=1e-8, abs_=1e-13 * float(hot[w])):
            return 'spectrum wn %d: impl %r model %r' % (w, x, C.iv_mid(v))
    return None


def kmodel_expr(o):
    sig = o['ksig']
    sl = C.clist([C.clist([C.ivlist(sig[l, w]) for w in range(sig.shape[1])]) for l in range(sig.shape[0])])
    return 'run_kemission %s %s %s %s %s %s %s %s %s %s %s %s %s %s %s %s %s' % (
        C.boollit(o['direct']), C.iv(o['h']), C.iv(o['c']), C.iv(o['k']), C.ivlist(o['wn']), C.ivlist(o['T']),
        C.clist([c01.contrib_lit(c) for c in o['cs']]), sl, C.ivlist(o['kw']), C.ivlist(o['rho']), C.ivlist(o['dz']),
        C.ivlist(o['mus']), C.ivlist(o['wts']), C.iv(o['Tstar']), C.iv(o['Rp']), C.iv(o['Rs']), C.iv(o['dist']))


def koracle(ctx, o, rp):
    """correlated-k mode: the statement of the property evaluated directly on the implementation's output.
    No saturation cut-off exists on this path, so the isothermal identity and the bounds hold without the exp(-10) slack"""
    wn = o['wn']
    Bl = np.array([planck_py(o, wn, t) for t in o['T']])
    scale = (o['Rp'] / o['Rs']) ** 2 / planck_py(o, wn, o['Tstar']) if not o['direct'] else \
        o['Rp'] ** 2 / (2 * o['dist'] ** 2)
    lo, hi = Bl.min(axis=0) * scale, Bl.max(axis=0) * scale
    s = o['spec']
    if np.any(~np.isfinite(s)):
        ctx.violation('k:nonfinite', 'correlated-k spectrum not finite: %r' % s, replay=rp)
        return
    if abs(o['kw'].sum() - 1) > 1e-9 or np.any(o['kw'] < 0):
        ctx.violation('k:weights', 'k-distribution weights %r are not a partition of unity' % o['kw'], replay=rp)
    if np.any(s < lo * (1 - 1e-8)) or np.any(s > hi * (1 + 1e-8)):
        ctx.violation('k:hot-cold-bounds', 'correlated-k spectrum %r outside the black-body ratios of the coldest %r '
                      'and hottest %r layers' % (s, lo, hi), replay=rp)
    if len(set(o['T'].tolist())) == 1 and not np.allclose(s, hi, rtol=1e-8):
        ctx.violation('k:isothermal', 'isothermal atmosphere (correlated-k) gives %r instead of the black-body ratio %r'
                      % (s, hi), replay=rp)
    # the documented layered integral with the weight-averaged exponential as transmittance
    d = np.zeros((len(o['T']), len(wn)))
    for kind, data, _ in o['cs']:
        d += np.asarray(data) * (o['dz'] * o['rho'] ** (2 if kind == 'sig2' else 1))[:, None]
    kd = o['ksig'] * (o['dz'] * o['rho'])[:, None, None]                      # [layer, wn, g]
    tail = lambda a: np.concatenate([np.cumsum(a[::-1], axis=0)[::-1], np.zeros((1,) + a.shape[1:])])
    td, tk = tail(d), tail(kd)                                              # depth from level j to the top
    Idoc = []
    for mu in o['mus']:
        with np.errstate(all='ignore'):
            G = np.exp(-td / mu) * np.sum(np.exp(-tk / mu) * o['kw'], axis=-1)   # [level, wn]
            Idoc.append(Bl[0] / math.pi * G[0] + np.sum(Bl / math.pi * (G[1:] - G[:-1]), axis=0))
    Idoc = np.array(Idoc)
    tol = Bl.max(axis=0) / math.pi * 1e-8
    if np.any(np.abs(Idoc - o['I']) > tol):
        i, w = np.unravel_index(np.argmax(np.abs(Idoc - o['I']) / tol), Idoc.shape)
        ctx.violation('k:integral', 'correlated-k intensity %r at angle %d differs from the documented layered '
                      'integral %r' % (o['I'][i, w], i, Idoc[i, w]), replay=rp)


def kcases(ctx, rng, n=(24, 200), tag='C02_k'):
    """correlated-k opacity mode (evaluate_emission_ktables): non-degenerate k-distributions"""
    import os
    import shutil
    kdir = os.path.join(C.CACHE, 'ktables_c02_%d' % os.getpid())
    obs, exprs, rps = [], [], []
    try:
        for i in range(ctx.n(*n)):
            contribs = ['Absorption'] + [c for c in ['CIA', 'Rayleigh', 'FlatMie'] if rng.random() < 0.3]
            if len(contribs) > 1 and rng.random() < 0.15:
                contribs.remove('Absorption')      # correlated-k mode without a molecular absorber in the list
            spec = tmodel.gen_spec(rng, contribs=contribs, nlayers=rng.choice([1, 2, 3, 4, 5, 7]),
                                   nwn=rng.choice([1, 2, 3, 4]), ngas=rng.choice([1, 2]))
            n = spec['nlayers']
            kind = rng.choice(['iso', 'mono', 'random', 'random'])
            spec['T'] = [rng.uniform(300, 2500)] if kind == 'iso' else \
                sorted([rng.uniform(300, 2500) for _ in range(n)], reverse=True) if kind == 'mono' else \
                [rng.uniform(300, 2500) for _ in range(n)]
            ng = rng.choice([1, 2, 3, 5])
            w = np.array([rng.uniform(0.05, 1) for _ in range(ng)])
            w = w / w.sum()
            w[-1] = 1.0 - w[:-1].sum()
            kc = {}
            for g in spec['gases']:
                tab = np.array(spec['opac'][g]['tab'])
                kc[g] = tab[..., None] * 10 ** np.array(
                    [rng.uniform(-1.5, 1.5) for _ in range(tab.size * ng)]).reshape(tab.shape + (ng,))
            direct = rng.random() < 0.3
            rp = dict(kind='ktable', spec=spec, weights=w, kcoeff={g: kc[g] for g in kc}, direct=direct)
            tmodel.write_ktables(spec, kdir, w, kc)
            try:
                model = tmodel.build(spec, emission=not direct, direct=direct, kdir=kdir)
                o = observe(model, direct)
            except Exception as e:
                import traceback
                ctx.violation('impl-raises:ktable:' + C.err_kind(e), 'correlated-k emission model raised %r %s'
                              % (e, traceback.format_exc()[-600:]), replay=rp)
                continue
            if o['ksig'] is None and 'Absorption' in contribs:
                ctx.violation('k:mode', 'opacity_method=ktables did not select the correlated-k path', replay=rp)
                continue
            if o['ksig'] is None:
                # no molecular absorber: the mixture is the trivial one (one point of weight one, zero depth)
                o['ksig'], o['kw'] = np.zeros((len(o['T']), len(o['wn']), 1)), np.array([1.0])
            koracle(ctx, o, rp)
            obs.append(o); rps.append((rp, kind)); exprs.append(kmodel_expr(o))
            if rng.random() < 0.4:
                # the same object after a retrieval-style update
                upd = {}
                with np.errstate(all='ignore'):
                    g = rng.choice(spec['gases'])
                    upd[g] = float(model[g]) * 10 ** rng.uniform(-1, 1)
                    model[g] = upd[g]
                    if 'T' in model.fittingParameters:
                        upd['T'] = rng.uniform(300, 2500)
                        model['T'] = upd['T']
                    o2 = observe(model, direct)
                if o2['ksig'] is None:
                    o2['ksig'], o2['kw'] = np.zeros((len(o2['T']), len(o2['wn']), 1)), np.array([1.0])
                rp2 = dict(rp, updated=upd)
                koracle(ctx, o2, rp2)
                obs.append(o2); rps.append((rp2, kind)); exprs.append(kmodel_expr(o2))
            ctx.count('ktable:ng=%d' % ng)
            ctx.count('ktable:T:' + kind)
    finally:
        shutil.rmtree(kdir, ignore_errors=True)
        tmodel.reset_caches()
    for o, (rp, kind), res in zip(obs, rps, C.run_cases(tag, HEADER, exprs, shard=4)):
        bad = compare(o, res)
        spec = rp['spec']
        ctx.case(repr(('ktable', spec['nlayers'], spec['contribs'], spec['level'], kind, len(o['kw']), float(o['spec'][0]))),
                 nontrivial=(kind != 'iso' and len(o['kw']) > 1),
                 sample=dict(mode='ktable', nlayers=spec['nlayers'], ng=len(o['kw']), contribs=spec['contribs'],
                             direct=o['direct'], spectrum=o['spec'][:2]))
        if bad is None:
            ctx.validated()
        else:
            ctx.violation('correspondence:kemission', 'correlated-k model/implementation disagree: ' + bad, replay=rp,
                          no_input=not any(v['signature'].startswith('k:') for v in ctx.violations))


def gen(rng):
    contribs = ['Absorption'] + [c for c in ['CIA', 'Rayleigh', 'FlatMie'] if rng.random() < 0.35]
    spec = tmodel.gen_spec(rng, contribs=contribs, nlayers=rng.choice([1, 2, 3, 4, 5, 7, 9]))
    n = spec['nlayers']
    kind = rng.choice(['iso', 'mono', 'random', 'random'])
    if kind == 'iso':
        spec['T'] = [rng.uniform(300, 2500)]
    elif kind == 'mono':
        spec['T'] = sorted([rng.uniform(300, 2500) for _ in range(n)], reverse=rng.random() < 0.7)
    else:
        spec['T'] = [rng.uniform(300, 2500) for _ in range(n)]
    return spec, kind


def planck_grid_types(ctx, rng):
    """the Planck function the models and the star use, on wavenumber grids of every numeric type an opacity file may
    carry (float64, float32, integers): the value is that of the real-number formula in each case"""
    from taurex.util.emission import black_body
    from taurex.constants import PLANCK, SPDLIGT, KBOLTZ
    for k in range(6):
        lo, step, n = rng.randint(200, 900), rng.randint(40, 400), rng.randint(5, 60)
        grid = np.arange(lo, lo + step * n, step)              # integer dtype, up to ~25000 cm-1
        T = rng.uniform(300, 3000) if k else 2500.0
        wl = 10000.0 / grid.astype(float)
        lam = wl * 1e-6
        want = (np.pi * 2.0 * PLANCK * SPDLIGT ** 2 / lam ** 5) / (np.exp(PLANCK * SPDLIGT / (lam * KBOLTZ * T)) - 1) * 1e-6
        for name, g in (('int64', grid.astype(np.int64)), ('int32', grid.astype(np.int32)), ('float32', grid.astype(np.float32)),
                        ('float64', grid.astype(np.float64))):
            ctx.case(('planck-dtype', name, int(lo), int(step), int(n)))
            try:
                with np.errstate(all='ignore'):
                    got = np.array(black_body(g, T), float)
            except Exception as e:
                ctx.violation('planck-dtype-raises:' + name, 'black_body raised %r on a %s grid' % (e, name),
                              replay=dict(kind='planck-dtype', dtype=name, grid=grid, T=T))
                continue
            rtol = 1e-5 if name == 'float32' else 1e-10
            if got.shape != want.shape or not np.allclose(got, want, rtol=rtol, atol=0):
                j = int(np.argmax(np.abs(got - want) / want)) if got.shape == want.shape else 0
                ctx.violation('planck-dtype:' + name, 'Planck function on a %s wavenumber grid: %r at %r cm-1, T=%r; the formula '
                              'gives %r' % (name, got.reshape(-1)[j], grid[j], T, want[j]),
                              replay=dict(kind='planck-dtype', dtype=name, grid=grid, T=T))
            else:
                ctx.validated()
            ctx.count('planck grid dtype: ' + name)


def run(ctx):
    planck_grid_types(ctx, rng=ctx.rng)
    C.source_tie(ctx, 'C02', [('taurex/util/emission.py', 'black_body', 'gen_black_body', ('PI', 'PLANCK', 'SPDLIGT', 'KBOLTZ'))])
    rng = ctx.rng
    obs, exprs, specs = [], [], []
    for i in range(ctx.n(60, 500)):
        spec, kind = gen(rng)
        direct = rng.random() < 0.3
        try:
            model = tmodel.build(spec, emission=not direct, direct=direct)
            o = observe(model, direct)
        except Exception as e:
            import traceback
            ctx.violation('impl-raises:' + C.err_kind(e), 'emission model raised %r %s' % (e, traceback.format_exc()[-600:]),
                          replay=dict(spec=spec, direct=direct))
            continue
        oracle(ctx, o, spec)
        obs.append(o)
        specs.append((spec, kind))
        exprs.append(model_expr(o))
        if rng.random() < 0.5:
            # the same model object, re-configured (what a retrieval does between likelihood calls) and evaluated again:
            # the spectrum must be the integral for the NEW star, planet and composition
            upd = {}
            try:
                with np.errstate(all='ignore'):
                    if rng.random() < 0.7:
                        upd['star.temperature'] = float(model.star.temperature) * rng.uniform(0.6, 1.5)
                        model.star.temperature = upd['star.temperature']
                    if rng.random() < 0.5:
                        upd['planet_radius'] = float(model['planet_radius']) * rng.uniform(0.8, 1.2)
                        model['planet_radius'] = upd['planet_radius']
                    g = rng.choice(spec['gases'])
                    if rng.random() < 0.5 and float(model[g]) > 0:
                        upd[g] = float(model[g]) * 10 ** rng.uniform(-1, 1)
                        model[g] = upd[g]
                    if 'T' in model.fittingParameters and rng.random() < 0.5:
                        upd['T'] = rng.uniform(300, 2500)
                        model['T'] = upd['T']
                    o2 = observe(model, direct)
                spec2 = dict(spec, updated=upd)
                oracle(ctx, o2, spec2)
                obs.append(o2)
                specs.append((spec2, 'iso' if len(set(o2['T'].tolist())) == 1 else kind))
                exprs.append(model_expr(o2))
                ctx.count('re-evaluated after update')
            except Exception as e:
                import traceback
                ctx.violation('impl-raises:update', 'emission model raised %r after parameter updates %r %s'
                              % (e, upd, traceback.format_exc()[-500:]), replay=dict(spec=spec, direct=direct, updated=upd))
        ctx.count('T:' + kind)
        ctx.count('model:' + ('direct' if direct else 'eclipse'))
        ctx.count('level:' + spec['level'])
        ctx.count('ngauss:%d' % spec['ngauss'])
    results = C.run_cases('C02', HEADER, exprs, shard=4)
    for o, (spec, kind), res in zip(obs, specs, results):
        bad = compare(o, res)
        ctx.case(repr((spec['nlayers'], spec['contribs'], spec['level'], kind, float(o['spec'][0]))),
                 nontrivial=(kind != 'iso' and spec['level'] not in ('transparent',)),
                 sample=dict(nlayers=spec['nlayers'], T=spec['T'][:4], contribs=spec['contribs'],
                             ngauss=spec['ngauss'], direct=o['direct'], spectrum=o['spec'][:2]))
        if bad is None:
            ctx.validated()
        else:
            ctx.violation('correspondence:emission', 'model/implementation disagree: ' + bad,
                          replay=dict(spec=spec, direct=o['direct']),
                          no_input=not any(v['signature'] in ('integral', 'hot-cold-bounds', 'isothermal')
                                           for v in ctx.violations))
    kcases(ctx, rng)


def replay(ctx, obj):
    r = obj['replay']
    if r.get('kind') == 'ktable':
        return kreplay(ctx, r)
    spec = r['spec']
    spec['wn'] = np.array(spec['wn'])
    for g in spec['opac']:
        for k in ('Tg', 'Pg', 'tab', 'wn'):
            spec['opac'][g][k] = np.array(spec['opac'][g][k])
    spec['cia']['xsec'] = np.array(spec['cia']['xsec'])
    direct = bool(r.get('direct'))
    o = observe(tmodel.build(spec, emission=not direct, direct=direct), direct)
    oracle(ctx, o, spec)
    res = C.run_cases('C02_replay', HEADER, [model_expr(o)])
    bad = compare(o, res[0])
    ctx.case('replay')
    if bad:
        ctx.violation('correspondence:emission', bad, replay=r, no_input=True)
    else:
        ctx.validated()


def kreplay(ctx, r):
    import os
    import shutil
    spec = r['spec']
    spec['wn'] = np.array(spec['wn'])
    for g in spec['opac']:
        for k in ('Tg', 'Pg', 'tab', 'wn'):
            spec['opac'][g][k] = np.array(spec['opac'][g][k])
    spec['cia']['xsec'] = np.array(spec['cia']['xsec'])
    kdir = os.path.join(C.CACHE, 'ktables_c02_%d' % os.getpid())
    direct = bool(r.get('direct'))
    try:
        tmodel.write_ktables(spec, kdir, np.array(r['weights']), {g: np.array(v) for g, v in r['kcoeff'].items()})
        model = tmodel.build(spec, emission=not direct, direct=direct, kdir=kdir)
        for name, v in (r.get('updated') or {}).items():
            model[name] = v
        o = observe(model, direct)
    finally:
        shutil.rmtree(kdir, ignore_errors=True)
        tmodel.reset_caches()
    if o['ksig'] is None:
        o['ksig'], o['kw'] = np.zeros((len(o['T']), len(o['wn']), 1)), np.array([1.0])
    koracle(ctx, o, r)
    res = C.run_cases('C02_kreplay', HEADER, [kmodel_expr(o)])
    bad = compare(o, res[0])
    ctx.case('replay-ktable')
    if bad:
        ctx.violation('correspondence:kemission', bad, replay=r, no_input=True)
    else:
        ctx.validated()
