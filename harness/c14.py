"""C14 — opacity / CIA files of every supported format load to the same physical table."""
import os
import pickle
import re
from fractions import Fraction

import numpy as np

import common as C

META = dict(
    rule='(1) random cross-section tables (2..4 temperatures, 2..5 pressures, 3..8 wavenumbers) written as pickle '
         '(bar), HDF5 (bar, Pa, kPa, hPa, MPa, mPa, mbar, Mbar, kbar, atm, torr, dbar as the declared unit, each at least once per run) and Exo-Transmit text (blocks in random order), under '
         'file names with isotopologue prefixes and resolution suffixes; (2) k-tables as pickle and HDF5; (3) CIA '
         'tables as pickle and as HITRAN text with one or two wavenumber ranges covering different temperatures; (4) '
         'random strings through sanitize_molecule_string; (5) histories of 4..14 cache operations (get, set '
         'interpolation, set memory mode, clear, switch path, add) on directories holding up to three molecules in '
         'up to two formats; the same histories against KTableCache (pickle / HDF5 k-tables, mode changed through '
         'OpacityCache.set_interpolation); (6) histories of 4..12 operations (get, switch path, add) on CIACache with '
         'directories holding each pair as .db, .cia, both or neither; non-trivial = every case; distinct by content',
    trusted=['astropy for the value of the declared pressure unit in Pa; h5py / pickle as containers; Python re for the '
             'comparison of the name sanitiser'],
    modelled=['PickleOpacity._load_pickle_file, HDF5Opacity._load_hdf_file, ExoTransmitOpacity._load_exo_transmit, '
              'HitranCIA.load_hitran_file / fill_gaps / compute_final_grid, sanitize_molecule_string, '
              'OpacityCache.__getitem__ / add_opacity / load_opacity_from_path / set_interpolation / set_memory_mode / '
              'clear_cache; KTableCache.__getitem__ / add_opacity / load_opacity_from_path / clear_cache (same state '
              'machine); CIACache.__getitem__ / add_cia / load_cia_from_path / set_cia_path; the k-table readers and '
              'PickleCIA are compared with each other and with the written table only'],
    assumptions=['wavenumbers of a file are pairwise distinct; HITRAN records of one range share one grid; a CIA file holds at least two temperatures',
                 'Exo-Transmit: the reader adds 1e-60 m2 to every value by design; tolerance 1e-55 cm2 absolute',
                 'a molecule is held by at most one reader class of equal priority (pickle and Exo-Transmit readers have '
                 'the same priority and are kept in a Python set, so which wins is not defined by the code)',
                 'at most one .db and one .cia file per pair and directory (glob order among several is not defined)',
                 'HDF5 cross-section files carry the plain molecule name in mol_name (see known finding)',
                 'tolerance 1e-12 relative against the exact rational model'],
)

HEADER = C.HEADER_Q + 'From TV Require Import Model_C14 Exec_C14.\nOpen Scope string_scope.\n'
UNITS = {'bar': 1e5, 'Pa': 1.0, 'kPa': 1000.0, 'mbar': 100.0, 'atm': 101325.0, 'torr': 101325.0 / 760.0, 'dbar': 1e4,
         # SI prefixes are case-sensitive: megabar / millibar, megapascal / millipascal
         'Mbar': 1e11, 'MPa': 1e6, 'mPa': 1e-3, 'hPa': 100.0, 'kbar': 1e8}
_unit_turn = [0]


def pick_unit(rng):
    """every declared unit is used at least once per run (in turn), then at random"""
    names = list(UNITS)
    _unit_turn[0] += 1
    return names[_unit_turn[0] - 1] if _unit_turn[0] <= len(names) else rng.choice(names)


def coq_str(s):
    assert all(32 <= ord(ch) < 127 for ch in s), s
    return '"' + s.replace('"', '""') + '"'


def q3(x):
    return C.clist([C.clist([C.qlist(list(r)) for r in pl]) for pl in x])


def fr(col):
    return np.array([float(Fraction(a[0], a[1])) for a in col])


def gen_table(rng):
    nt, npz, nw = rng.randint(2, 4), rng.randint(2, 5), rng.randint(3, 8)
    T = np.sort(np.array(rng.sample([200., 300., 500., 800., 1000., 1500., 2000., 2500.], nt)))
    P = np.sort(np.array([10 ** rng.uniform(-2, 7) for _ in range(npz)]))
    wn = np.sort(np.array(rng.sample(list(np.linspace(300, 9000, 60)), nw)))
    x = np.array([[[10 ** rng.uniform(-27, -18) for _ in wn] for _ in T] for _ in P])
    return T, P, wn, x


def same_tables(a, b, offset=0.0):
    return (np.allclose(a.temperatureGrid, b.temperatureGrid, rtol=1e-14) and
            np.allclose(a.pressureGrid, b.pressureGrid, rtol=1e-13) and
            np.allclose(a.wavenumberGrid, b.wavenumberGrid, rtol=1e-13) and
            np.asarray(a.xsecGrid).shape == np.asarray(b.xsecGrid).shape and
            bool(np.all(np.abs(np.asarray(a.xsecGrid) - np.asarray(b.xsecGrid)) <= 1e-12 * np.abs(np.asarray(b.xsecGrid)) + offset)))


def write_pickle(path, mol, T, P, wn, x):
    with open(path, 'wb') as f:
        pickle.dump(dict(name=mol, t=T, p=P / 1e5, wno=wn, xsecarr=x), f)


def write_hdf5(path, mol, unit, T, P, wn, x):
    import h5py
    with h5py.File(path, 'w') as f:
        f['bin_edges'] = wn
        f['t'] = T
        f['p'] = P / UNITS[unit]
        f['p'].attrs['units'] = unit
        f['xsecarr'] = x
        f['mol_name'] = mol


def write_exo(path, rng, T, P, wn, x):
    lam = 0.01 / wn
    order = list(range(len(wn)))
    rng.shuffle(order)
    blocks = []
    with open(path, 'w') as f:
        f.write(' '.join(repr(float(t)) for t in T) + '\n')
        f.write(' '.join(repr(float(p / 1e5)) for p in P) + '\n')
        for j in order:
            f.write(repr(float(lam[j])) + '\n')
            rows = []
            for i, p in enumerate(P):
                row = [float(x[i, k, j] / 1e4) for k in range(len(T))]
                rows.append(row)
                f.write(repr(float(p / 1e5)) + ' ' + ' '.join(repr(v) for v in row) + '\n')
            blocks.append((float(lam[j]), rows))
    return blocks


# ---------------------------------------------------------------------------------- (1) cross-section formats
def part_formats(ctx, tmp):
    from taurex.opacity.pickleopacity import PickleOpacity
    from taurex.opacity.hdf5opacity import HDF5Opacity
    from taurex.opacity.exotransmit import ExoTransmitOpacity
    from taurex.cache import OpacityCache
    rng = ctx.rng
    exprs, metas = [], []
    for n in range(ctx.n(24, 240)):
        T, P, wn, x = gen_table(rng)
        mol, prefix = rng.choice([('H2O', '1H2-16O'), ('CO2', '12C-16O2'), ('CH4', 'CH4'), ('TiO', '48Ti-16O'), ('Na', 'Na'),
                                  ('NH3', '14N-1H3')])
        suffix = rng.choice(['', '.R15000', '.R100.TauREx', '.something'])
        d = os.path.join(tmp, 'f%d' % n)
        for sub in ('pk', 'h5', 'exo'):
            os.makedirs(os.path.join(d, sub))
        unit = pick_unit(rng)
        pk = os.path.join(d, 'pk', prefix + suffix + '.pickle')
        h5 = os.path.join(d, 'h5', prefix + '_x.h5')
        ex = os.path.join(d, 'exo', 'opac' + mol + '.dat')
        write_pickle(pk, mol, T, P, wn, x)
        write_hdf5(h5, mol, unit, T, P, wn, x)
        blocks = write_exo(ex, rng, T, P, wn, x)
        if n % 4 == 0 and prefix != mol:      # an HDF5 file that names its molecule the ExoMol way
            h5iso = os.path.join(d, 'iso.h5')
            write_hdf5(h5iso, prefix, unit, T, P, wn, x)
            try:
                nm = HDF5Opacity(h5iso, interpolation_mode='linear', in_memory=True).moleculeName
            except Exception as e:
                nm = repr(e)
            if nm != mol:
                ctx.violation('hdf5-name-not-sanitised', 'an HDF5 cross-section file whose mol_name is %r is served as %r, not '
                              'under the sanitised name %r (pickle and Exo-Transmit files are)' % (prefix, nm, mol),
                              replay=dict(part='HDF5 molecule name', mol_name=prefix, expected=mol))
            os.remove(h5iso)
        rp = dict(part='cross-section formats', molecule=mol, file_prefix=prefix, suffix=suffix, unit=unit, T=T, P=P, wn=wn, x=x)
        try:
            a = PickleOpacity(pk)
            b = HDF5Opacity(h5, interpolation_mode='linear', in_memory=True)
            c = ExoTransmitOpacity(ex)
        except Exception as e:
            import traceback
            ctx.violation('reader-raises', 'a reader raised %r\n%s' % (e, traceback.format_exc()[-600:]), replay=rp)
            continue
        bad = None
        if not same_tables(a, b):
            bad = 'pickle and HDF5 (%s) readers give different tables: P %r vs %r' % (unit, a.pressureGrid, b.pressureGrid)
        elif not same_tables(c, a, offset=1e-55):
            bad = 'Exo-Transmit and pickle readers give different tables: wn %r vs %r' % (c.wavenumberGrid, a.wavenumberGrid)
        elif not (np.allclose(a.pressureGrid, P, rtol=1e-13) and np.allclose(a.wavenumberGrid, wn, rtol=1e-13) and
                  np.allclose(a.xsecGrid, x, rtol=1e-13) and np.array_equal(a.temperatureGrid, T)):
            bad = 'the pickle reader does not return the written table in Pa / cm-1 / cm2'
        elif a.moleculeName != mol or c.moleculeName != mol or b.moleculeName != mol:
            bad = 'molecule names: pickle %r, HDF5 %r, Exo-Transmit %r, expected %r' % (a.moleculeName, b.moleculeName, c.moleculeName, mol)
        else:
            for _ in range(3):
                t, p = rng.uniform(T[0], T[-1]), 10 ** rng.uniform(np.log10(P[0]), np.log10(P[-1]))
                oa, ob, oc = a.opacity(t, p), b.opacity(t, p), c.opacity(t, p)
                if not (np.allclose(oa, ob, rtol=1e-11) and np.all(np.abs(oc - oa) <= 1e-11 * np.abs(oa) + 1e-58)):
                    bad = 'opacity(%g, %g) differs between formats: %r %r %r' % (t, p, oa[:2], ob[:2], oc[:2])
        # through the cache: loaded once from the configured path, sanitised name
        for sub in ('pk', 'h5', 'exo'):
            OpacityCache().clear_cache()
            OpacityCache().set_opacity_path(os.path.join(d, sub))
            try:
                o1 = OpacityCache()[mol]
                o2 = OpacityCache()[mol]
                if o1 is not o2:
                    bad = 'the cache served two different objects for %s (%s)' % (mol, sub)
                elif not same_tables(o1, a, offset=1e-55):
                    bad = 'the cache (%s) served a different table' % sub
            except Exception as e:
                bad = 'the cache cannot serve %s from a directory holding %s: %r' % (mol, os.listdir(os.path.join(d, sub)), e)
        OpacityCache().clear_cache()
        if bad:
            ctx.violation('formats:' + bad.split(':')[0].split(' ')[0], 'cross-section formats: ' + bad, replay=rp)
        exprs.append('[run_pickle %s %s %s %s; run_hdf5 %s %s %s %s %s; run_exo %s %s %s]' % (
            C.qlist(T.tolist()), C.qlist((P / 1e5).tolist()), C.qlist(wn.tolist()), q3(x),
            C.q(UNITS[unit]), C.qlist(T.tolist()), C.qlist((P / UNITS[unit]).tolist()), C.qlist(wn.tolist()), q3(x),
            C.qlist(T.tolist()), C.qlist((P / 1e5).tolist()),
            C.clist(['(%s, %s)' % (C.q(l), C.clist([C.qlist(r) for r in rows])) for l, rows in blocks])))
        metas.append(dict(objs=[(o.temperatureGrid.copy(), o.pressureGrid.copy(), o.wavenumberGrid.copy(), np.array(o.xsecGrid)) for o in (a, b, c)],
                          rp=rp, mol=mol, unit=unit, shape=x.shape))
        ctx.count('unit:' + unit)
        ctx.count('name:' + prefix + suffix)
    for mt, out in zip(metas, C.run_cases('C14f', HEADER, exprs, shard=6)):
        bad = None
        for fmt, o, (Ti, Pi, wi, xi) in zip(('pickle', 'HDF5', 'Exo-Transmit'), out, mt['objs']):
            mT, mP, mw, mx = [fr(col) for col in o]
            tol = 1e-55 if fmt == 'Exo-Transmit' else 0.0
            if not (np.allclose(Ti, mT, rtol=1e-12) and np.allclose(Pi, mP, rtol=1e-12) and np.allclose(wi, mw, rtol=1e-12)):
                bad = '%s reader: grids %r %r %r, model %r %r %r' % (fmt, Ti, Pi, wi, mT, mP, mw)
            elif xi.size != mx.size or not np.all(np.abs(xi.ravel() - mx) <= 1e-12 * np.abs(mx) + tol):
                bad = '%s reader: cross-sections differ from the model (axes / units / order)' % fmt
        ctx.case(('F', mt['mol'], mt['unit'], float(mt['objs'][0][3].ravel()[0])), nontrivial=True,
                 sample=dict(part='formats', molecule=mt['mol'], hdf5_unit=mt['unit'], shape=list(mt['shape'])))
        if bad:
            ctx.violation('formats-model', 'loaded table differs from the model: ' + bad, replay=mt['rp'])
        else:
            ctx.validated()


# ---------------------------------------------------------------------------------- (2) k-tables
def part_ktables(ctx, tmp):
    import h5py
    from taurex.opacity.ktables.picklektable import PickleKTable
    from taurex.opacity.ktables.hdfktable import HDF5KTable
    rng = ctx.rng
    for n in range(ctx.n(8, 60)):
        T, P, wn, _ = gen_table(rng)
        ng = rng.randint(2, 4)
        k = np.array([[[[10 ** rng.uniform(-26, -19) for _ in range(ng)] for _ in wn] for _ in T] for _ in P])
        w = np.array([rng.uniform(0.1, 1) for _ in range(ng)])
        w /= w.sum()
        mol = rng.choice(['H2O', 'CH4', 'CO'])
        unit = pick_unit(rng)
        d = os.path.join(tmp, 'k%d' % n)
        os.makedirs(d)
        pk = os.path.join(d, mol + '.R100.ktable.pickle')
        h5 = os.path.join(d, mol + '_R100.h5')
        with open(pk, 'wb') as f:
            pickle.dump(dict(name=mol, t=T, p=P / 1e5, bin_centers=wn, bin_edges=wn, kcoeff=k, weights=w, ngauss=ng), f)
        with h5py.File(h5, 'w') as f:
            f['bin_centers'] = wn
            f['bin_edges'] = wn
            f['t'] = T
            f['p'] = P / UNITS[unit]
            f['p'].attrs['units'] = unit
            f['kcoeff'] = k
            f['weights'] = w
            f['ngauss'] = ng
            f['mol_name'] = mol
        rp = dict(part='k-tables', molecule=mol, unit=unit, T=T, P=P, wn=wn)
        try:
            a, b = PickleKTable(pk), HDF5KTable(h5)
        except Exception as e:
            import traceback
            ctx.violation('ktable-reader-raises', 'a k-table reader raised %r\n%s' % (e, traceback.format_exc()[-600:]), replay=rp)
            continue
        ctx.case(('K', mol, unit, float(k.ravel()[0])), nontrivial=True, sample=dict(part='k-tables', molecule=mol, unit=unit))
        bad = None
        if not (same_tables(a, b) and np.allclose(a.weights, b.weights) and np.allclose(a.pressureGrid, P, rtol=1e-13)
                and np.allclose(np.asarray(a.xsecGrid), k, rtol=1e-14)):
            bad = 'pickle and HDF5 k-tables differ or are not the written table: P %r vs %r vs %r' % (a.pressureGrid, b.pressureGrid, P)
        elif a.moleculeName != mol or b.moleculeName != mol:
            bad = 'k-table molecule names %r %r, expected %r' % (a.moleculeName, b.moleculeName, mol)
        else:
            t, p = rng.uniform(T[0], T[-1]), 10 ** rng.uniform(np.log10(P[0]), np.log10(P[-1]))
            if not np.allclose(a.opacity(t, p), b.opacity(t, p), rtol=1e-11):
                bad = 'k-table opacity(%g, %g) differs between formats' % (t, p)
        if bad:
            ctx.violation('ktables', 'k-table formats: ' + bad, replay=rp)
        else:
            ctx.validated()


# ---------------------------------------------------------------------------------- (3) CIA
def part_cia(ctx, tmp):
    from taurex.cia.picklecia import PickleCIA
    from taurex.cia.hitrancia import HitranCIA
    rng = ctx.rng
    exprs, metas = [], []
    for n in range(ctx.n(20, 200)):
        nranges = rng.choice([1, 1, 2])
        alltemps = sorted(rng.sample([100., 150., 200., 300., 400., 600., 1000., 2000., 3000.], rng.randint(2, 6)))
        # every run (cases 0, 7, 14, ...): two ranges, the first with a hole inside its temperature coverage whose
        # neighbouring record holds only negative values (measurement noise around zero, clipped by the reader)
        forced_hole = (n % 7 == 0)
        if forced_hole:
            nranges = 2
            alltemps = sorted(rng.sample([100., 150., 200., 300., 400., 600., 1000., 2000., 3000.], rng.randint(4, 6)))
        recs = []
        lo = 20.0
        groups = []
        for r in range(nranges):
            nw = rng.randint(2, 5)
            wn = np.sort(np.array(rng.sample(list(np.linspace(lo, lo + 900, 40)), nw)))
            lo += 1000
            if nranges == 1:
                temps = alltemps
            else:
                k = rng.randint(1, len(alltemps))
                start = rng.randint(0, len(alltemps) - k)
                temps = alltemps[start:start + k]
                if rng.random() < 0.3 and len(temps) >= 3:      # a hole inside the range's coverage
                    temps = [temps[0]] + temps[2:]
                if forced_hole:
                    temps = ([alltemps[0]] + alltemps[2:]) if r == 0 else list(alltemps)
            groups.append((wn, temps))
            for ti, t in enumerate(temps):
                sig = np.array([10 ** rng.uniform(-48, -43) * rng.choice([1, 1, 1, -1]) for _ in wn])
                if forced_hole and r == 0 and ti == 0:
                    sig = -np.abs(sig)
                recs.append((float(wn[0]), float(wn[-1]), t, wn, sig))
        if len({t for _, _, t, _, _ in recs}) < 2:
            continue               # interpolation in temperature needs two temperatures (stated assumption)
        rng.shuffle(recs) if rng.random() < 0.3 else None
        pair = rng.choice(['H2-He', 'H2-H2', 'N2-N2'])
        d = os.path.join(tmp, 'c%d' % n)
        os.makedirs(d)
        hit = os.path.join(d, pair + '_2011.cia')
        with open(hit, 'w') as f:
            for s, e, t, wn, sig in recs:
                f.write('%20s%10.3f%10.3f%7d%7.1f%10.3e\n' % (pair, s, e, len(wn), t, float(np.max(np.abs(sig)))))
                for w, v in zip(wn, sig):
                    f.write('%r %r\n' % (float(w), float(v)))
        rp = dict(part='CIA', pair=pair, records=[(s, e, t, wn.tolist(), sig.tolist()) for s, e, t, wn, sig in recs])
        try:
            h = HitranCIA(hit)
        except Exception as e:
            import traceback
            ctx.violation('hitran-raises', 'the HITRAN reader raised %r\n%s' % (e, traceback.format_exc()[-600:]), replay=rp)
            continue
        # what the file means: every range holds its own values at its own temperatures, zero outside its coverage,
        # linear in temperature inside
        temps = sorted({t for _, _, t, _, _ in recs})
        allwn = np.concatenate([g[0] for g in groups])
        order = np.argsort(allwn)
        want = np.zeros((len(temps), len(allwn)))
        off = 0
        for wn, gt in groups:
            own = {t: np.clip(sig * 1e-10, 0, None) for s, e, t, w, sig in recs if w is wn or (len(w) == len(wn) and np.array_equal(w, wn))}
            gts = sorted(own)
            for i, t in enumerate(temps):
                if t in own:
                    v = own[t]
                elif t < gts[0] or t > gts[-1]:
                    v = np.zeros(len(wn))
                else:
                    j = max(k for k in range(len(gts)) if gts[k] <= t)
                    v = own[gts[j]] + (own[gts[j + 1]] - own[gts[j]]) * ((t - gts[j]) / (gts[j + 1] - gts[j]))
                want[i, off:off + len(wn)] = v
            off += len(wn)
        want = want[:, order]
        pk = os.path.join(d, pair + '.db')
        with open(pk, 'wb') as f:
            pickle.dump(dict(t=np.array(temps), wno=allwn[order], xsecarr=want), f)
        p = PickleCIA(pk)
        ctx.count('cia-ranges:%d' % nranges)
        bad = None
        if not (np.allclose(h.temperatureGrid, temps) and np.allclose(h.wavenumberGrid, allwn[order], rtol=1e-14)):
            bad = 'HITRAN grids %r %r, written %r %r' % (h.temperatureGrid, h.wavenumberGrid, temps, allwn[order])
        elif h._xsec_grid.shape != want.shape or not np.allclose(h._xsec_grid, want, rtol=1e-11, atol=0):
            i, j = np.unravel_index(np.argmax(np.abs(h._xsec_grid - want)), want.shape)
            bad = 'HITRAN reader holds %r at T=%g, wn=%g where the file means %r (own value / zero outside the range\'s ' \
                  'temperatures / linear inside)' % (h._xsec_grid[i, j], temps[i], allwn[order][j], want[i, j])
        else:
            grid = np.sort(np.array(rng.sample(list(allwn), min(3, len(allwn)))))
            for t in [rng.choice(temps), rng.uniform(temps[0], temps[-1]), temps[0] - rng.uniform(1, 50),
                      temps[-1] + rng.uniform(1, 500)]:
                try:
                    ch, cp = h.cia(t, grid), p.cia(t, grid)
                except Exception as e:
                    bad = 'cia(%g) raised %r' % (t, e)
                    break
                if not np.allclose(ch, cp, rtol=1e-10, atol=0):
                    bad = 'cia(%g) differs between the HITRAN and the pickle reader: %r vs %r' % (t, ch, cp)
                elif t < temps[0] or t > temps[-1]:
                    # outside the tabulated temperatures both readers hold the nearest tabulated temperature
                    edge = p.cia(temps[0] if t < temps[0] else temps[-1], grid)
                    if not np.allclose(cp, edge, rtol=1e-12, atol=1e-12 * float(np.max(np.abs(want)))):
                        bad = 'cia(%g), outside the tabulated temperatures %r, is %r, not the edge values %r' % (t, temps, cp, edge)
        if h.pairName != pair:
            bad = 'HITRAN pair name %r, expected %r' % (h.pairName, pair)
        if bad:
            ctx.violation('cia:' + ('fill' if 'file means' in bad else 'other'), 'CIA formats: ' + bad, replay=rp)
        exprs.append('run_hitran %s' % C.clist(['(%s, %s, %s, %s, %s)' % (C.q(s), C.q(e), C.q(t), C.qlist(wn.tolist()), C.qlist(sig.tolist()))
                                                 for s, e, t, wn, sig in recs]))
        metas.append(dict(h=(np.array(h.temperatureGrid), np.array(h.wavenumberGrid), np.array(h._xsec_grid)), rp=rp, n=nranges,
                          first=float(recs[0][4][0])))
    for mt, out in zip(metas, C.run_cases('C14h', HEADER, exprs, shard=10)):
        mT, mw, mx = [fr(col) for col in out]
        hT, hw, hx = mt['h']
        ctx.case(('H', mt['n'], mt['first']), nontrivial=True, sample=dict(part='HITRAN CIA', ranges=mt['n'], temperatures=hT.tolist()))
        if not (np.allclose(hT, mT) and np.allclose(hw, mw, rtol=1e-13) and hx.size == mx.size and
                np.allclose(hx.ravel(), mx, rtol=1e-11, atol=0)):
            ctx.violation('hitran-model', 'HITRAN reader differs from the model: T %r / %r, first rows %r / %r'
                          % (hT, mT, hx.ravel()[:4], mx[:4]), replay=mt['rp'])
        else:
            ctx.validated()


# ---------------------------------------------------------------------------------- (4) names
def part_names(ctx):
    from taurex.util.util import sanitize_molecule_string
    rng = ctx.rng
    alphabet = 'HOCNaTiVKFe0123456789-_. +xyz()'
    cases = ['H2O', '1H2-16O', '12C-16O2', 'TiO', 'Na', 'H2-He', '', '16O3', 'e-', 'h2o', 'Fe56', 'C2H2__aCeTY', 'NaCl10']
    while len(cases) < ctx.n(120, 1200):
        cases.append(''.join(rng.choice(alphabet) for _ in range(rng.randint(0, 12))))
    outs = C.run_cases('C14n', HEADER, ['run_sanitize %s' % coq_str(s) for s in cases], shard=400)
    for s, o in zip(cases, outs):
        m = ''.join(chr(c) for c in o)
        i = sanitize_molecule_string(s)
        ctx.case(('N', s), nontrivial=len(s) >= 2)
        if i != m:
            ctx.violation('sanitize-model', 'sanitize_molecule_string(%r) = %r, model %r' % (s, i, m), replay=dict(part='names', name=s))
        elif sanitize_molecule_string(i) != i:
            ctx.violation('sanitize-idempotent', 'sanitising %r twice gives %r then %r' % (s, i, sanitize_molecule_string(i)),
                          replay=dict(part='names', name=s))
        else:
            ctx.validated()


# ---------------------------------------------------------------------------------- (5) cache histories
def write_ktable(path, mol, T, P, wn, x, h5=False):
    """a two-point k-table whose first coefficient is x[0,0,0] (the signature the histories recognise files by)"""
    k = np.stack([x, x * 2.0], axis=-1)
    w = np.array([0.25, 0.75])
    if not h5:
        with open(path, 'wb') as f:
            pickle.dump(dict(name=mol, t=T, p=P / 1e5, bin_centers=wn, bin_edges=wn, kcoeff=k, weights=w, ngauss=2), f)
        return
    import h5py
    with h5py.File(path, 'w') as f:
        f['bin_centers'] = wn
        f['bin_edges'] = wn
        f['t'] = T
        f['p'] = P / 1e5
        f['p'].attrs['units'] = 'bar'
        f['kcoeff'] = k
        f['weights'] = w
        f['ngauss'] = 2
        f['mol_name'] = mol


def part_cache(ctx, tmp, kt=False):
    """kt: the same histories against KTableCache (k-table files; the mode is changed through
    OpacityCache().set_interpolation, the one entry point the input file uses)"""
    from taurex.cache import OpacityCache, GlobalCache
    from taurex.cache.ktablecache import KTableCache
    from taurex.opacity.pickleopacity import PickleOpacity
    from taurex.opacity.ktables.picklektable import PickleKTable
    rng = ctx.rng
    mols = ['H2O', 'CH4', 'CO2']
    exprs, metas = [], []
    for n in range(ctx.n(8, 80) if kt else ctx.n(16, 160)):
        # two directories; each molecule in at most one of {pickle, exo}, possibly also as HDF5 (which wins)
        dirs = []
        fid = 0
        for dn in range(2):
            d = os.path.join(tmp, '%s%d_%d' % ('kh' if kt else 'h', n, dn))
            os.makedirs(d)
            files = []
            for mi, mol in enumerate(mols):
                T, P, wn, x = gen_table(rng)
                if kt:
                    # both k-table readers have the same priority: one file per molecule and directory
                    kind = rng.choice(['none', 'kpickle', 'kh5'])
                    if kind != 'none':
                        write_ktable(os.path.join(d, mol + ('.R1.pickle' if kind == 'kpickle' else '_R1.h5')), mol,
                                     T, P, wn, x, h5=(kind == 'kh5'))
                        files.append((mi, 100, fid, float(x.ravel()[0])))
                        fid += 1
                    continue
                kind = rng.choice(['none', 'pickle', 'exo', 'pickle+h5', 'h5'])
                if 'pickle' in kind:
                    write_pickle(os.path.join(d, mol + '.R1.pickle'), mol, T, P, wn, x)
                    files.append((mi, 100, fid, float(x.ravel()[0])))
                    fid += 1
                if kind == 'exo':
                    write_exo(os.path.join(d, 'opac' + mol + '.dat'), rng, T, P, wn, x)
                    files.append((mi, 100, fid, float(x.ravel()[0] + 1e-56)))
                    fid += 1
                if 'h5' in kind:
                    x2 = x * 1.5
                    write_hdf5(os.path.join(d, mol + '.h5'), mol, 'bar', T, P, wn, x2)
                    files.append((mi, 5, fid, float(x2.ravel()[0])))
                    fid += 1
            dirs.append((d, files))
        added = {}
        ops, lits = [], []
        cur = None
        pending, last_mol, last_mode = [], 0, 'linear'
        for k in range(rng.randint(4, 14)):
            o = rng.choice(['get', 'get', 'get', 'interp', 'clear' if kt else 'memory', 'clear', 'path', 'add']) if cur is not None else 'path'
            if pending:
                o = pending.pop(0)
            elif cur is not None and o == 'get' and rng.random() < 0.5:
                # the pattern that matters for "takes effect for every opacity served afterwards":
                # serve a molecule, change the mode, serve the same molecule again
                pending = ['interp-flip', 'get-same']
            if o in ('get', 'get-same'):
                mi = last_mol if o == 'get-same' else rng.randrange(3)
                last_mol = mi
                ops.append(('get', mi))
                lits.append('Get %d' % mi)
            elif o in ('interp', 'interp-flip'):
                m = rng.choice(['linear', 'exp']) if o == 'interp' else ('exp' if last_mode == 'linear' else 'linear')
                last_mode = m
                ops.append(('interp', m))
                lits.append('SetInterp %s' % ('Linear' if m == 'linear' else 'Exp'))
            elif o == 'memory':
                ops.append(('memory', rng.random() < 0.5))
                lits.append('SetMemory')
            elif o == 'clear':
                ops.append(('clear',))
                lits.append('Clear')
            elif o == 'path':
                cur = rng.randrange(2)
                ops.append(('path', cur))
                lits.append('SetPath %s' % C.clist(['{| f_mol := %d; f_prio := %d; f_id := %d |}' % (m_, p_, f_) for m_, p_, f_, _ in dirs[cur][1]]))
            else:
                mi = rng.randrange(3)
                T, P, wn, x = gen_table(rng)
                pth = os.path.join(tmp, 'add%d_%d.pickle' % (n, k))
                os.makedirs(os.path.join(tmp, 'adds'), exist_ok=True)
                pth = os.path.join(tmp, 'adds', '%s.%d_%d%s.pickle' % (mols[mi], n, k, 'k' if kt else ''))
                (write_ktable if kt else write_pickle)(pth, mols[mi], T, P, wn, x)
                m = rng.choice(['linear', 'exp'])
                ops.append(('add', mi, pth, m, fid, float(x.ravel()[0])))
                lits.append('Add %d %d %s' % (mi, fid, 'Linear' if m == 'linear' else 'Exp'))
                added[fid] = float(x.ravel()[0])
                fid += 1
        sig = {f_: s_ for d_, fl in dirs for _, _, f_, s_ in fl}
        sig.update(added)
        # run on the implementation
        oc = KTableCache() if kt else OpacityCache()
        GlobalCache()['xsec_interpolation'] = 'linear'
        GlobalCache()['xsec_path'] = None
        GlobalCache()['ktable_path'] = None
        oc.clear_cache()
        ids = {}
        outs = []
        try:
            for op in ops:
                if op[0] == 'get':
                    try:
                        ob = oc[mols[op[1]]]
                        first = float(np.asarray(ob.xsecGrid).ravel()[0])
                        fidx = [f_ for f_, s_ in sig.items() if abs(s_ - first) <= 1e-12 * abs(first)]
                        outs.append([1, ids.setdefault(id(ob), len(ids)), op[1], fidx[0] if len(fidx) == 1 else -1,
                                     0 if ob._interp_mode == 'linear' else 1, ob])
                    except Exception as e:
                        outs.append([2] if 'could not be loaded' in str(e) else [3, repr(e)])
                elif op[0] == 'interp':
                    OpacityCache().set_interpolation(op[1])
                    outs.append([0])
                elif op[0] == 'memory':
                    oc.set_memory_mode(op[1])
                    outs.append([0])
                elif op[0] == 'clear':
                    oc.clear_cache()
                    outs.append([0])
                elif op[0] == 'path':
                    (oc.set_ktable_path if kt else oc.set_opacity_path)(dirs[op[1]][0])
                    outs.append([0])
                else:
                    oc.add_opacity((PickleKTable if kt else PickleOpacity)(op[2], interpolation_mode=op[3]))
                    outs.append([0])
        finally:
            GlobalCache()['xsec_interpolation'] = None
            GlobalCache()['ktable_path'] = None
            oc.clear_cache()
        exprs.append('run_cache %s' % C.clist(lits))
        metas.append(dict(outs=outs, rp=dict(part='k-table cache history' if kt else 'cache history', operations=[o[:2] for o in ops],
                                             directories=[[(m_, p_, f_) for m_, p_, f_, _ in fl] for _, fl in dirs]), nops=len(ops)))
    for mt, out in zip(metas, C.run_cases('C14k' if kt else 'C14c', HEADER, exprs, shard=40)):
        # object ids: the model numbers every object ever created, the harness numbers objects in order of first service
        bad = None
        remap = {}
        for k, (i, m) in enumerate(zip(mt['outs'], out)):
            if i[0] != m[0]:
                bad = 'operation %d: implementation %r, model %r' % (k, i[:5], m)
                break
            if i[0] == 1:
                if i[2:5] != m[2:5]:
                    bad = 'operation %d serves (molecule, file, mode) %r, model %r' % (k, i[2:5], m[2:5])
                    break
                if remap.setdefault(m[1], i[1]) != i[1] or list(remap.values()).count(i[1]) > 1:
                    bad = 'operation %d: object identity differs from the model (loaded twice, or a stale object served)' % k
                    break
        ctx.case(('K' if kt else 'C', repr(mt['rp']['operations'])), nontrivial=True,
                 sample=dict(part=mt['rp']['part'], operations=mt['nops'], served=sum(1 for o in mt['outs'] if o[0] == 1)))
        if bad:
            ctx.violation('ktable-cache-history' if kt else 'cache-history',
                          ('k-table cache: ' if kt else 'opacity cache: ') + bad, replay=mt['rp'])
        else:
            ctx.validated()


def part_ciacache(ctx, tmp):
    """operation histories against CIACache: directories holding a pair as pickle (.db), HITRAN (.cia), both or not at
    all; requests, path changes, objects added by hand"""
    from taurex.cache import CIACache
    from taurex.cia.picklecia import PickleCIA
    rng = ctx.rng
    pairs = ['H2-H2', 'H2-He', 'N2-N2']
    exprs, metas = [], []

    def write_db(path, v):
        with open(path, 'wb') as f:
            pickle.dump(dict(t=np.array([100.0, 1000.0]), wno=np.array([10.0, 20.0, 30.0]), xsecarr=np.full((2, 3), v)), f)

    def write_hitran(path, pair, v):
        with open(path, 'w') as f:
            for t in (100.0, 1000.0):
                f.write('%20s%10.3f%10.3f%7d%7.1f%10.3e\n' % (pair, 10.0, 30.0, 3, t, v * 1e10))
                for w in (10.0, 20.0, 30.0):
                    f.write('%r %r\n' % (w, v * 1e10))

    for n in range(ctx.n(10, 100)):
        dirs, fid, sig = [], 0, {}
        for dn in range(2):
            d = os.path.join(tmp, 'cia%d_%d' % (n, dn))
            os.makedirs(d)
            files = []
            for pi, pair in enumerate(pairs):
                kind = rng.choice(['none', 'db', 'cia', 'both', 'both'])
                if kind in ('db', 'both'):
                    v = 10 ** rng.uniform(-50, -40)
                    write_db(os.path.join(d, pair + '.db'), v)
                    files.append((pi, False, fid)); sig[fid] = v; fid += 1
                if kind in ('cia', 'both'):
                    v = 10 ** rng.uniform(-50, -40)
                    write_hitran(os.path.join(d, pair + '_2011.cia'), pair, v)
                    files.append((pi, True, fid)); sig[fid] = v; fid += 1
            dirs.append((d, files))
        ops, lits, cur = [], [], None
        for k in range(rng.randint(4, 12)):
            o = rng.choice(['get', 'get', 'get', 'path', 'add']) if cur is not None else 'path'
            if o == 'get':
                pi = rng.randrange(3)
                ops.append(('get', pi)); lits.append('CGet %d' % pi)
            elif o == 'path':
                cur = rng.randrange(2)
                ops.append(('path', cur))
                lits.append('CSetPath %s' % C.clist(['{| cf_pair := %d; cf_hitran := %s; cf_id := %d |}'
                                                    % (p_, C.boollit(h_), f_) for p_, h_, f_ in dirs[cur][1]]))
            else:
                pi = rng.randrange(3)
                v = 10 ** rng.uniform(-50, -40)
                os.makedirs(os.path.join(tmp, 'cia_adds'), exist_ok=True)
                pth = os.path.join(tmp, 'cia_adds', '%s_%d_%d.db' % (pairs[pi], n, k))
                write_db(pth, v)
                ops.append(('add', pi, pth)); lits.append('CAdd %d %d' % (pi, fid)); sig[fid] = v; fid += 1
        cc = CIACache()
        cc.cia_dict = {}
        cc.set_cia_path(None)
        ids, outs = {}, []
        try:
            for op in ops:
                if op[0] == 'get':
                    try:
                        ob = cc[pairs[op[1]]]
                        first = float(np.asarray(ob._xsec_grid).ravel()[0])
                        fidx = [f_ for f_, s_ in sig.items() if abs(s_ - first) <= 1e-9 * abs(first)]
                        outs.append([1, ids.setdefault(id(ob), len(ids)), pairs.index(ob.pairName) if ob.pairName in pairs else -1,
                                     fidx[0] if len(fidx) == 1 else -1, ob])
                    except Exception as e:
                        outs.append([2] if 'could notn be loaded' in str(e) else [4, repr(e)])
                elif op[0] == 'path':
                    cc.set_cia_path(dirs[op[1]][0])
                    outs.append([0])
                else:
                    try:
                        cc.add_cia(PickleCIA(op[2], pairs[op[1]]))
                        outs.append([0])
                    except Exception as e:
                        outs.append([3] if 'already exists' in str(e) else [4, repr(e)])
        finally:
            cc.cia_dict = {}
            cc.set_cia_path(None)
        exprs.append('run_ciacache %s' % C.clist(lits))
        metas.append(dict(outs=outs, nops=len(ops),
                          rp=dict(part='CIA cache history', operations=[o[:2] for o in ops],
                                  directories=[[(pairs[p_], 'cia' if h_ else 'db', f_) for p_, h_, f_ in fl] for _, fl in dirs])))
    for mt, out in zip(metas, C.run_cases('C14i', HEADER, exprs, shard=40)):
        bad, remap = None, {}
        for k, (i, m) in enumerate(zip(mt['outs'], out)):
            if i[0] != m[0]:
                bad = 'operation %d: implementation %r, model %r' % (k, i[:4], m)
                break
            if i[0] == 1:
                if i[2:4] != m[2:4]:
                    bad = 'operation %d serves (pair, file) %r, model %r' % (k, i[2:4], m[2:4])
                    break
                if remap.setdefault(m[1], i[1]) != i[1] or list(remap.values()).count(i[1]) > 1:
                    bad = 'operation %d: object identity differs from the model (loaded twice, or another object served)' % k
                    break
        ctx.case(('I', repr(mt['rp']['operations']), repr(mt['rp']['directories'])), nontrivial=True,
                 sample=dict(part='CIA cache history', operations=mt['nops'], served=sum(1 for o in mt['outs'] if o[0] == 1)))
        if bad:
            ctx.violation('cia-cache-history', 'CIA cache: ' + bad, replay=mt['rp'])
        else:
            ctx.validated()


def run(ctx):
    tmp = os.path.join(C.CACHE, 'c14_%d' % os.getpid())
    os.makedirs(tmp, exist_ok=True)
    try:
        part_formats(ctx, tmp)
        part_ktables(ctx, tmp)
        part_cia(ctx, tmp)
        part_names(ctx)
        part_cache(ctx, tmp)
        part_cache(ctx, tmp, kt=True)
        part_ciacache(ctx, tmp)
    finally:
        import shutil
        shutil.rmtree(tmp, ignore_errors=True)


def replay(ctx, obj):
    ctx.notes.append('replay re-runs the whole deterministic check with the stored seed')
    run(ctx)
