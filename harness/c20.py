"""C20 — correlated-k reduces to cross-sections when the k-distribution is degenerate."""
import os

import math

import numpy as np

import common as C
import tmodel
import c01

META = dict(
    rule='random atmospheres (2..9 layers, non-isothermal), 1..3 gases; the same numbers served as in-memory '
         'cross-sections and as k-table pickle files written by the harness (1..5 quadrature points, random weights '
         'summing to one), degenerate and non-degenerate tables, transmission and emission; non-trivial = some '
         'transmittance in (1e-6, 1-1e-6)',
    trusted=['k-table pickle files are written by the harness in the layout PickleKTable reads',
             'for non-degenerate tables the prepared k-coefficients (sigma_xsec after prepare), densities and '
             'chord lengths are observed and the Gallina contribute_ktau model recomputes the transmittance'],
    modelled=['contribute_ktau; evaluate_emission_ktables (Model_C02.kintensity: the layered integral whose '
              'transmittance is the weight-averaged exponential) on non-degenerate tables, and against the '
              'cross-section path on degenerate tables'],
    assumptions=['weights >= 0 summing to one; coefficients >= 0',
                 'tolerance 1e-9 relative on spectra, 1e-9 absolute on transmittances'],
)

HEADER = C.HEADER_IV + 'From TV Require Import Model_C20 Exec_C20.\n'


def run(ctx):
    rng = ctx.rng
    kdir = os.path.join(C.CACHE, 'ktables_%d' % os.getpid())
    exprs, metas = [], []
    try:
        for i in range(ctx.n(40, 300)):
            spec = tmodel.gen_spec(rng, contribs=['Absorption'] + (['Rayleigh'] if rng.random() < 0.3 else []),
                                   nlayers=rng.choice([2, 3, 4, 5, 7, 9]), nwn=rng.choice([1, 2, 3, 4, 5, 6]),
                                   ngas=rng.choice([1, 2, 2, 3]))
            spec['T'] = [rng.uniform(400, 2500) for _ in range(spec['nlayers'])]
            if len(spec['gases']) >= 2 and len(spec['wn']) >= 3 and rng.random() < 0.6:
                # a second gas tabulated on a coarser grid of its own, reaching past the ends of the native grid, so
                # that its values are regridded (interpolated) in both opacity modes
                g2 = spec['gases'][1]
                wn_ = np.array(spec['wn'], float)
                m2 = rng.randint(2, len(wn_) - 1)
                inner = sorted(rng.sample([float((wn_[j] + wn_[j + 1]) / 2) for j in range(len(wn_) - 1)], m2 - 2))
                coarse = np.array([wn_[0] - rng.uniform(1, 50)] + inner + [wn_[-1] + rng.uniform(1, 300)])
                t0 = np.array(spec['opac'][g2]['tab'], float)
                fac = np.array([10 ** rng.uniform(-1, 1) for _ in range(len(coarse))])
                spec['opac'][g2] = dict(spec['opac'][g2], wn=coarse, tab=t0[..., [0] * len(coarse)] * fac)
                ctx.count('second gas on its own coarser grid')
            ng = rng.choice([1, 2, 3, 5])
            w = np.array([rng.uniform(0.05, 1) for _ in range(ng)])
            w = w / w.sum()
            w[-1] = 1.0 - w[:-1].sum()
            rp = dict(spec=spec, weights=w)
            # ---- degenerate tables: k-mode == cross-section mode, both model families
            tmodel.write_ktables(spec, kdir, w)
            # the same files are loaded again after the interpolation setting is changed through the public setter
            # (OpacityCache().set_interpolation): both opacity modes then follow the NEW setting
            from taurex.cache import OpacityCache
            modes_ = ['linear'] + (['exp'] if (i < 2 or rng.random() < 0.35) else [])
            for mode_ in modes_:
                spec_m = spec if mode_ == 'linear' else dict(spec, opac={g_: dict(o_, mode='exp') for g_, o_ in spec['opac'].items()})
                if mode_ != 'linear':
                    OpacityCache().set_interpolation(mode_)
                    ctx.count('interpolation switched to exp, same k-table files loaded again')
                for em in (False, True):
                    with np.errstate(all='ignore'):
                        ma = tmodel.build(spec_m, emission=em)
                        a = ma.model()
                        b = tmodel.build(spec_m, emission=em, kdir=kdir).model()
                    atol_em = 0.0
                    if em:
                        # the cross-section path replaces exp(-tau) by 0 where tau >= 10 over the whole grid (each such term is
                        # at most exp(-10)); by summation by parts the layer sum  sum_l B_l (g_{l+1} - g_l)  then moves by at
                        # most exp(-10) (B_top + B_bottom + total variation of B over the layers)
                        from taurex.util.emission import black_body
                        Bl = np.array([black_body(np.array(a[0]), float(t_)) for t_ in ma.temperatureProfile])
                        bound = Bl[0] + Bl[-1] + np.sum(np.abs(np.diff(Bl, axis=0)), axis=0)
                        atol_em = math.exp(-10) * bound / np.array(ma.star.spectralEmissionDensity) * \
                            (ma.planet.fullRadius / ma.star.radius) ** 2
                    ctx.case(('degenerate', em, i, float(a[1][0])),
                             nontrivial=bool(np.any((a[2] > 1e-6) & (a[2] < 1 - 1e-6))) or em)
                    # (exp interpolation of a table holding exact zeros is NaN on both paths: equal, and not this property's matter)
                    both_nan = np.isnan(a[1]) & np.isnan(b[1]) & (mode_ == 'exp')
                    ok = bool(np.all(both_nan | (np.abs(a[1] - b[1]) <= atol_em + (1e-7 if em else 1e-9) * np.abs(a[1])))) and np.array_equal(a[0], b[0])
                    if not em:
                        ok = ok and np.allclose(a[2], b[2], rtol=0, atol=1e-9, equal_nan=(mode_ == 'exp'))
                    if ok:
                        ctx.validated()
                    else:
                        ctx.violation('degenerate:' + ('emission' if em else 'transmission'),
                                      'degenerate k-tables give %r, cross-sections give %r (%s, weights %r, interpolation %s)'
                                      % (b[1], a[1], 'emission' if em else 'transmission', w.tolist(), mode_),
                                      replay=dict(rp, interpolation=mode_))
                    ctx.count('degenerate:' + ('emission' if em else 'transmission'))
            if len(modes_) > 1:
                OpacityCache().set_interpolation('linear')
            # ---- general tables: weight-averaged exponential, bounded below by the averaged coefficient
            kc = {}
            avg = dict(spec)
            avg['opac'] = {}
            for g in spec['gases']:
                o = spec['opac'][g]
                k = np.array(o['tab'])[..., None] * 10 ** np.array(
                    [rng.uniform(-1.5, 1.5) for _ in range(o['tab'].size * ng)]).reshape(o['tab'].shape + (ng,))
                kc[g] = k
                avg['opac'][g] = dict(o, tab=(k * w).sum(axis=-1))
            tmodel.write_ktables(spec, kdir, w, kc)
            with np.errstate(all='ignore'):
                mk = tmodel.build(spec, kdir=kdir)
                ok_ = c01.observe(mk)
                wts = np.array(mk.contribution_list[0].weights) if spec['contribs'][0] == 'Absorption' else w
                ox = c01.observe(tmodel.build(avg))
            t = ok_['trans']
            if np.any(t < 0) or np.any(t > 1 + 1e-12) or np.any(~np.isfinite(t)):
                ctx.violation('unit-interval', 'k-table transmittance outside [0,1]: %r' % t, replay=rp)
            if np.any(t < ox['trans'] - 1e-9):
                ctx.violation('jensen', 'k-table transmittance below the transmittance of the weight-averaged '
                              'coefficient', replay=rp)
            ctx.count('general:ng=%d' % ng)
            if spec['contribs'] == ['Absorption']:
                sig = np.array(mk.contribution_list[0].sigma_xsec)    # (n, m, ng)
                sl = C.clist([C.clist([C.ivlist(sig[l, wv]) for wv in range(sig.shape[1])])
                              for l in range(sig.shape[0])])
                exprs.append('run_ktrans %s %s %s %s %s' % (
                    sl, C.ivlist(wts), C.ivlist(ok_['rho']), C.clist([C.ivlist(p) for p in ok_['path']]),
                    C.natlit(sig.shape[1])))
                metas.append(dict(trans=t, rp=rp, key=('general', i, ng, float(ok_['depth'][0])),
                                  nontriv=bool(np.any((t > 1e-6) & (t < 1 - 1e-6)))))
    finally:
        import shutil
        shutil.rmtree(kdir, ignore_errors=True)
        tmodel.reset_caches()
    for mt, r in zip(metas, C.run_cases('C20', HEADER, exprs, shard=6)):
        bad = None
        for l in range(len(r)):
            for wv in range(len(r[l])):
                if not C.in_enclosure(float(mt['trans'][l, wv]), r[l][wv], rel=1e-9, abs_=1e-9):
                    bad = 'layer %d wn %d: impl %r model %r' % (l, wv, mt['trans'][l, wv], C.iv_mid(r[l][wv]))
        ctx.case(mt['key'], nontrivial=mt['nontriv'],
                 sample=dict(weights=mt['rp']['weights'], nlayers=mt['rp']['spec']['nlayers'],
                             trans=mt['trans'][:2, :2]))
        if bad:
            ctx.violation('correspondence:ktau', 'contribute_ktau model/implementation disagree: ' + bad,
                          replay=mt['rp'], no_input=True)
        else:
            ctx.validated()

    # emission with general (non-degenerate) k-distributions: the intensity is the layered integral whose transmittance
    # is the weight-averaged exponential (Model_C02.kintensity; C20_degenerate_emission is its degenerate case)
    import c02
    c02.kcases(ctx, rng, n=(10, 80), tag='C20_kem')

def replay(ctx, obj):
    if obj['replay'].get('kind') == 'ktable':
        import c02
        return c02.kreplay(ctx, obj['replay'])
    ctx.notes.append('replay re-runs the whole deterministic check with the stored seed')
    run(ctx)
