"""C17 — observations load independent of row order with aligned columns and units."""
import math
import os

import numpy as np

import common as C

META = dict(
    rule='2..40 rows with pairwise distinct wavelengths (uniform, log-spaced with jitter, clustered pairs), 3 or 4 '
         'columns, non-uniform values / errors / widths, row orders random / ascending / descending / one swap; '
         'sources: ArraySpectrum (array), ObservedSpectrum (text file), TaurexSpectrum (HDF5 written by the harness); '
         'every case is loaded twice (the generated order and an independent shuffle) and compared with the model; '
         'non-trivial = >= 3 rows in a non-monotone order; distinct by (source, columns, first row)',
    trusted=['h5py / numpy.savetxt / numpy.loadtxt for the files the harness writes (text at 17 significant digits)'],
    modelled=['ArraySpectrum.__init__, _sort_spectrum, _process_spectrum, manual_binning, wavenumberGrid, spectrum, '
              'errorBar, binWidths, binEdges; TaurexSpectrum._load_from_hdf5; wnwidth_to_wlwidth, compute_bin_edges; '
              'BaseSpectrum.create_binner -> FluxBinner.__init__'],
    assumptions=['wavelengths pairwise distinct and positive (relative spacing >= 1e-9), so the sort has one answer',
                 'four columns: 0 < width/2 < wavelength; three columns: the outermost short-wavelength edge is '
                 'positive (otherwise 10000/edge changes sign and the bracket claim has no meaning)',
                 'tolerance 1e-12 relative (exact rational model vs double precision)'],
)

HEADER = C.HEADER_Q + 'From TV Require Import Model_C05 Model_C17 Exec_C17.\n'


def gen_rows(rng, n, four):
    kind = rng.choice(['uniform', 'log', 'pairs', 'integers'])
    if kind == 'uniform':
        wl = set()
        while len(wl) < n:
            wl.add(rng.uniform(0.3, 20.0))
        wl = sorted(wl)
    elif kind == 'log':
        wl = [0.4 * (1.07 ** k) * (1 + rng.uniform(-0.01, 0.01)) for k in range(n)]
    elif kind == 'pairs':
        wl = []
        x = 0.5
        while len(wl) < n:
            x += rng.uniform(0.05, 1.0)
            wl.append(x)
            if len(wl) < n and rng.random() < 0.5:
                wl.append(x * (1 + rng.choice([1e-8, 1e-6, 1e-3])))
                x = wl[-1]
    else:
        wl = [float(k) for k in rng.sample(range(1, 60), n)]
        wl.sort()
    while not four and wl[0] - (wl[1] - wl[0]) / 2 <= 1e-3:     # premise: the outermost edge stays positive
        wl = [w + 1.0 for w in wl]
    rows = []
    for k, w in enumerate(wl):
        if four:
            lo = w - (wl[k - 1] if k > 0 else 0.0)
            bw = rng.uniform(0.05, 1.5) * min(lo, w)
            bw = min(bw, 1.9 * w)
            rows.append([w, rng.uniform(0.005, 0.02), rng.uniform(1e-5, 1e-3), bw])
        else:
            rows.append([w, rng.uniform(0.005, 0.02), rng.uniform(1e-5, 1e-3)])
    order = rng.choice(['random', 'ascending', 'descending', 'swap'])
    if order == 'random':
        rng.shuffle(rows)
    elif order == 'descending':
        rows.reverse()
    elif order == 'swap' and n >= 3:
        i = rng.randrange(n - 1)
        rows[i], rows[i + 1] = rows[i + 1], rows[i]
    return kind, order, rows


def to_taurex_file_rows(rows):
    """what a TauREx output holds for the same bins: wavenumber grid, spectrum, noise, wavenumber width"""
    out = []
    for w, v, e, bw in rows:
        wn = 10000 / w
        out.append([wn, v, e, 10000 * bw / w ** 2])
    return out


def load_impl(source, rows, tmpdir, tag):
    from taurex.data.spectrum.array import ArraySpectrum
    from taurex.data.spectrum.observed import ObservedSpectrum
    from taurex.data.spectrum.taurex import TaurexSpectrum
    arr = np.array(rows, dtype=float)
    if source == 'array':
        return ArraySpectrum(arr.copy())
    if source == 'text':
        p = os.path.join(tmpdir, 'obs_%s.dat' % tag)
        np.savetxt(p, arr, fmt='%.17e')
        return ObservedSpectrum(p)
    import h5py
    p = os.path.join(tmpdir, 'obs_%s.h5' % tag)
    with h5py.File(p, 'w') as f:
        g = f.create_group('Output').create_group('Spectra')
        g['instrument_wngrid'] = arr[:, 0]
        g['instrument_spectrum'] = arr[:, 1]
        g['instrument_noise'] = arr[:, 2]
        g['instrument_wnwidth'] = arr[:, 3]
    return TaurexSpectrum(p)


def observe(o):
    b = o.create_binner()
    return dict(wn=np.array(o.wavenumberGrid, dtype=float), spec=np.array(o.spectrum, dtype=float),
                err=np.array(o.errorBar, dtype=float), wnw=np.array(o.binWidths, dtype=float),
                edges=np.array(o.binEdges, dtype=float), raw=np.array(o.rawData, dtype=float),
                bgrid=np.array(b._wngrid, dtype=float), bwidth=np.array(b._wngrid_width, dtype=float), binner=b)


def oracles(source, four, rows, ob):
    """the property, stated directly on the implementation"""
    n = len(rows)
    arr = np.array(rows, dtype=float)
    if source == 'hdf5':
        wl_in = 10000 / arr[:, 0]
    else:
        wl_in = arr[:, 0]
    wn = ob['wn']
    if not (len(wn) == n and len(ob['spec']) == n and len(ob['err']) == n and len(ob['wnw']) == n):
        return 'lengths: %d rows gave %d/%d/%d/%d entries' % (n, len(wn), len(ob['spec']), len(ob['err']), len(ob['wnw']))
    if not np.all(np.diff(wn) > 0):
        return 'wavenumbers are not ascending: %r' % (wn,)
    # each output entry belongs to one input row
    idx = np.argsort(wl_in)[::-1]
    if not np.allclose(wn, 10000 / wl_in[idx], rtol=1e-14, atol=0):
        return 'wavenumbers are not 10000/wavelength of the rows'
    if not np.array_equal(ob['spec'], arr[idx, 1]):
        return 'value detached from its wavelength: spectrum %r, rows sorted %r' % (ob['spec'], arr[idx, 1])
    if not np.array_equal(ob['err'], arr[idx, 2]):
        return 'error bar detached from its wavelength: errorBar %r, rows sorted %r' % (ob['err'], arr[idx, 2])
    wl = wl_in[idx]
    if four:
        if source == 'hdf5':
            bw_wn = arr[idx, 3]
            bw_wl = 10000 * bw_wn / arr[idx, 0] ** 2
        else:
            bw_wl = arr[idx, 3]
            bw_wn = 10000 * bw_wl / wl ** 2
        if not np.allclose(ob['wnw'], bw_wn, rtol=1e-12, atol=0):
            return 'width detached / not converted: binWidths %r, expected %r' % (ob['wnw'], bw_wn)
        e = ob['edges']
        if len(e) != 2 * n:
            return 'four columns: %d edges for %d bins' % (len(e), n)
        lo, hi = 10000 / (wl + bw_wl / 2), 10000 / (wl - bw_wl / 2)
        if not (np.allclose(e[0::2], lo, rtol=1e-12) and np.allclose(e[1::2], hi, rtol=1e-12)):
            return 'four columns: edges are not 10000/(wl +- bw/2) of the bin\'s own row: %r vs %r %r' % (e, lo, hi)
        if not (np.all(e[0::2] < wn) and np.all(wn < e[1::2])):
            return 'four columns: edges do not bracket the centres'
    else:
        e = ob['edges']
        if len(e) != n + 1:
            return 'three columns: %d edges for %d bins' % (len(e), n)
        ewl = np.concatenate([[wl[0] + (wl[0] - wl[1]) / 2], (wl[:-1] + wl[1:]) / 2, [wl[-1] - (wl[-2] - wl[-1]) / 2]])
        if not np.allclose(e, 10000 / ewl, rtol=1e-12):
            return 'three columns: edges are not the mid-points: %r vs %r' % (e, 10000 / ewl)
        if ewl[-1] > 0 and not (np.all(e[:-1] < wn) and np.all(wn < e[1:])):
            return 'three columns: edges do not bracket the centres'
        want = 10000 * (ewl[:-1] - ewl[1:]) / wl ** 2
        if not np.allclose(ob['wnw'], want, rtol=1e-12):
            return 'three columns: widths are not the neighbouring mid-point differences: %r vs %r' % (ob['wnw'], want)
    if not (np.array_equal(ob['bgrid'], wn) and np.array_equal(ob['bwidth'], ob['wnw'])):
        return 'binner grid / widths differ from the observation: %r %r vs %r %r' % (ob['bgrid'], ob['bwidth'], wn, ob['wnw'])
    # a model binned to the observation is aligned with it: f(wn) = wn binned over bin k lies inside bin k
    lo_all, hi_all = float(np.min(wn - ob['wnw'] / 2)), float(np.max(wn + ob['wnw'] / 2))
    native = np.linspace(max(lo_all - 5, 1e-3), hi_all + 5, 4000)
    with np.errstate(all='ignore'):
        res = ob['binner'].bindown(native, native.copy())
    if not np.array_equal(np.asarray(res[0], dtype=float), wn) or len(res[1]) != n:
        return 'bindown returns a grid that is not the observation\'s'
    step = native[1] - native[0]
    for k in range(n):
        a, b = wn[k] - ob['wnw'][k] / 2, wn[k] + ob['wnw'][k] / 2
        if b - a > 3 * step and not (a - step <= res[1][k] <= b + step):
            return 'binned model entry %d (%r) lies outside bin %d = [%r, %r] of the observation' % (k, res[1][k], k, a, b)
        # the mean of f(x) = x over the whole of bin k is its centre (a bin averaged over only part of its range is not
        # aligned with the observed value it is compared with)
        if b - a > 3 * step and a >= native[0] and b <= native[-1] and abs(res[1][k] - wn[k]) > step:
            return 'binned model entry %d is %r: the model f(x)=x averaged over bin %d = [%r, %r] is its centre %r' % (
                k, res[1][k], k, a, b, wn[k])
    # every entry is the overlap-weighted mean of the model over the observation's own bin (computed independently)
    f2 = native ** 2
    with np.errstate(all='ignore'):
        res2 = np.asarray(ob['binner'].bindown(native, f2)[1], dtype=float)
    nlo, nhi = native - step / 2, native + step / 2
    for k in range(n):
        a, b = wn[k] - ob['wnw'][k] / 2, wn[k] + ob['wnw'][k] / 2
        ov = np.clip(np.minimum(nhi, b) - np.maximum(nlo, a), 0, None)
        if ov.sum() > 0 and b - a > 3 * step:
            want = float((ov * f2).sum() / ov.sum())
            if not math.isclose(res2[k], want, rel_tol=1e-9):
                return 'binned model entry %d is %r, the overlap-weighted mean of the model over bin %d = [%r, %r] is %r' % (
                    k, res2[k], k, a, b, want)
    return None


def run(ctx):
    C.source_tie(ctx, 'C17', [('taurex/util/util.py', 'wnwidth_to_wlwidth', 'gen_wnwidth_to_wlwidth')])
    rng = ctx.rng
    tmpdir = os.path.join(C.CACHE, 'c17_%d' % os.getpid())
    os.makedirs(tmpdir, exist_ok=True)
    exprs, metas = [], []
    try:
        for i in range(ctx.n(150, 1500)):
            source = ['array', 'text', 'hdf5'][i % 3]
            four = True if source == 'hdf5' else (rng.random() < 0.5)
            n = rng.choice([2, 3, 4, 5, 8, 13, rng.randint(2, 40)]) if i >= 6 else [2, 2, 3, 3, 5, 5][i]
            kind, order, rows = gen_rows(rng, n, four)
            file_rows = to_taurex_file_rows(rows) if source == 'hdf5' else rows
            rp = dict(source=source, columns=4 if four else 3, rows=file_rows, order=order)
            ctx.count('source:' + source)
            ctx.count('columns:%d' % (4 if four else 3))
            ctx.count('order:' + order)
            ctx.count('wavelengths:' + kind)
            try:
                ob = observe(load_impl(source, file_rows, tmpdir, 'a'))
                shuffled = list(file_rows)
                rng.shuffle(shuffled)
                ob2 = observe(load_impl(source, shuffled, tmpdir, 'b'))
            except Exception as e:
                import traceback
                ctx.violation('load-raises:' + source, 'loading raised %r\n%s' % (e, traceback.format_exc()[-800:]), replay=rp)
                continue
            bad = None
            for k in ('wn', 'spec', 'err', 'wnw', 'edges', 'raw', 'bgrid', 'bwidth'):
                if ob[k].shape != ob2[k].shape or not np.array_equal(ob[k], ob2[k]):
                    bad = '%s differs between two row orders of the same spectrum: %r vs %r' % (k, ob[k], ob2[k])
            if bad:
                ctx.violation('row-order:' + source, bad, replay=dict(rp, other_order=shuffled))
            bad = oracles(source, four, file_rows, ob)
            if bad:
                ctx.violation('aligned:' + source, 'observation (%s, %d columns): %s' % (source, 4 if four else 3, bad), replay=rp)
            # another reduction of the same channels, loaded in the same process: identical wavelengths, other bin widths
            # (half as wide; for a 3-column table, a 4-column one). Its binner must be ITS binner.
            if i < 6 or rng.random() < 0.3:
                if four:
                    alt = [list(r[:3]) + [r[3] * 0.5] for r in file_rows]
                else:
                    alt = [list(r[:3]) + [0.1 * r[0]] for r in file_rows]      # a tenth of the wavelength: always brackets
                ctx.count('second_reduction_same_channels')
                try:
                    ob3 = observe(load_impl(source, alt, tmpdir, 'c'))
                    bad = oracles(source, True, alt, ob3)
                except Exception as e:
                    bad = 'loading raised %r' % (e,)
                if bad:
                    ctx.violation('aligned-second:' + source, 'a second observation with the same wavelengths and other bin '
                                  'widths, loaded after the first (%s): %s' % (source, bad), replay=dict(rp, second=alt))
            lit = C.clist([C.qlist(r + ([0.0] if not four else [])) for r in file_rows])
            if source == 'hdf5':
                exprs.append('run_load_taurex %s' % lit)
            else:
                exprs.append('run_load %s %s' % (C.boollit(four), lit))
            mono = all(rows[j][0] < rows[j + 1][0] for j in range(n - 1)) or all(rows[j][0] > rows[j + 1][0] for j in range(n - 1))
            metas.append(dict(ob={k: v for k, v in ob.items() if k != 'binner'}, rp=rp, source=source, four=four, n=n,
                              nontriv=(n >= 3 and not mono), first=tuple(file_rows[0])))
        for mt, out in zip(metas, C.run_cases('C17', HEADER, exprs, shard=12)):
            bad = None
            for name, col in zip(('wn', 'spec', 'err', 'wnw', 'edges', 'bgrid', 'bwidth'), out):
                mv = np.array([float(C.q_out(x)) for x in col])
                iv = mt['ob'][name]
                if mv.shape != iv.shape:
                    bad = '%s: implementation has %d entries, model %d' % (name, len(iv), len(mv))
                    break
                # widths derived from mid-points are differences of nearly equal wavelengths when two bins are
                # close: the rounding error is relative to the centre, not to the width
                atol = 1e-13 * np.abs(mt['ob']['wn']) if (name in ('wnw', 'bwidth') and not mt['four']) else 0.0
                if not np.all(np.abs(iv - mv) <= 1e-12 * np.abs(mv) + atol):
                    j = int(np.argmax(np.abs(iv - mv) / np.maximum(np.abs(mv), 1e-300)))
                    bad = '%s[%d]: implementation %r, model %r' % (name, j, iv[j], mv[j])
                    break
            ctx.case((mt['source'], mt['four'], mt['first']), nontrivial=mt['nontriv'],
                     sample=dict(source=mt['source'], columns=4 if mt['four'] else 3, rows=mt['n'],
                                 wavenumbers=mt['ob']['wn'][:4].tolist()))
            if bad:
                ctx.violation('load-model:' + mt['source'], 'loaded observation differs from the model: ' + bad, replay=mt['rp'])
            else:
                ctx.validated()
    finally:
        import shutil
        shutil.rmtree(tmpdir, ignore_errors=True)


def replay(ctx, obj):
    ctx.notes.append('replay re-runs the whole deterministic check with the stored seed')
    run(ctx)
