"""C05 — spectral binning is an overlap-weighted mean of the native spectrum."""
import math
from fractions import Fraction as Fr

import numpy as np

import common as C

META = dict(
    rule='random native grids (linear / log / constant-R / explicit non-overlapping widths with gaps) x '
         'target grids (inside, partly or wholly outside, gaps, overlaps, wider or narrower than native, '
         'auto or explicit widths), sorted or shuffled, 1-D and 2-D; a case is non-trivial when at least one '
         'target bin has positive overlap with >= 2 native bins; distinct by (native n, target m, kind, flags, '
         'first values)',
    trusted=['numpy argsort / searchsorted / histogram / digitize are modelled by their documented '
             'semantics on ascending arrays (validated by this correspondence run)'],
    modelled=['FluxBinner.__init__/bindown, SimpleBinner.bindown via util.bindown (1-D histogram and 2-D '
              'digitize branches), NativeBinner.bindown, compute_bin_edges: modelled in Gallina and compared '
              'on every run; square root of the binned error is taken outside the model'],
    assumptions=['native bins are ordered and non-overlapping (the property quantifies over such grids)',
                 'floating-point rounding is outside the model: tolerance 1e-9 relative'],
)

HEADER = C.HEADER_Q + 'From TV Require Import Model_C05 Exec_C05.\n'


# ---------------------------------------------------------------- generators
def gen_native(rng):
    kind = rng.choice(['linear', 'log', 'constR', 'explicit', 'explicit_gaps'])
    n = rng.choice([2, 3, 3, 4, 5, 6, 7, 9, 12, 17, 25, 40])
    lo = 10 ** rng.uniform(1, 3.5)
    if kind == 'linear':
        wn = np.linspace(lo, lo * rng.uniform(1.2, 5), n)
        w = None
    elif kind == 'log':
        wn = np.logspace(math.log10(lo), math.log10(lo * rng.uniform(1.2, 8)), n)
        w = None
    elif kind == 'constR':
        R = rng.uniform(5, 200)
        wn = lo * np.exp(np.arange(n) / R)
        w = None
    else:
        edges = [lo]
        wn, w = [], []
        for _ in range(n):
            if kind == 'explicit_gaps' and rng.random() < 0.4:
                edges[-1] += rng.uniform(0.1, 30)
            width = rng.uniform(0.5, 40)
            a = edges[-1]
            wn.append(a + width / 2)
            w.append(width)
            edges.append(a + width)
        wn, w = np.array(wn), np.array(w)
    return kind, np.array(wn, float), (None if w is None else np.array(w, float))


def native_edges(wn, w):
    if w is None:
        e = edges_of(wn)
        w = np.abs(np.diff(e))
    return wn - w / 2, wn + w / 2


def edges_of(g):
    d = np.diff(g) / 2
    return np.concatenate([[g[0] - (g[1] - g[0]) / 2], g[:-1] + d, [(g[-1] - g[-2]) / 2 + g[-1]]])


def gen_target(rng, wn, w):
    lo, hi = native_edges(wn, w)
    a, b = float(lo.min()), float(hi.max())
    span = b - a
    m = rng.choice([1, 2, 2, 3, 4, 5, 8])
    style = rng.choice(['inside', 'mixed', 'outside', 'onedge', 'wide'])
    cs, ws = [], []
    for _ in range(m):
        if style == 'inside':
            c = rng.uniform(a + 0.1 * span, b - 0.1 * span)
            width = rng.uniform(0.01, 0.3) * span
        elif style == 'mixed':
            c = rng.uniform(a - 0.3 * span, b + 0.3 * span)
            width = rng.uniform(0.01, 0.6) * span
        elif style == 'outside':
            c = rng.choice([a - rng.uniform(0.2, 1) * span, b + rng.uniform(0.2, 1) * span])
            width = rng.uniform(0.01, 0.15) * span
        elif style == 'onedge':
            i = rng.randrange(len(wn))
            j = rng.randrange(len(wn))
            e1, e2 = float(lo[min(i, j)]), float(hi[max(i, j)])
            c = (e1 + e2) / 2
            width = (e2 - e1)
        else:
            c = rng.uniform(a, b)
            width = rng.uniform(0.8, 2.5) * span
        cs.append(c)
        ws.append(width)
    auto = (m >= 2) and rng.random() < 0.35
    # keep target centres apart: auto-derived widths of (nearly) coincident centres are differences of nearly
    # equal floats, which no tolerance can compare meaningfully
    srt = sorted(cs)
    if any(b_ - a_ < 1e-6 * span for a_, b_ in zip(srt, srt[1:])):
        cs = [a + 0.05 * span + 0.9 * span * (k + 0.5) / m for k in range(m)]
    return style, np.array(cs, float), (None if auto else np.array(ws, float))


# ---------------------------------------------------------------- oracle (exact, independent of the model)
def overlap_mean(wn, w, f, a, b):
    """exact overlap-weighted mean over all native bins; None when no overlap"""
    num = Fr(0)
    den = Fr(0)
    touched = []
    for x, ww, v in zip(wn, w, f):
        lo = Fr(float(x)) - Fr(float(ww)) / 2
        hi = Fr(float(x)) + Fr(float(ww)) / 2
        o = min(b, hi) - max(lo, a)
        if o > 0:
            num += o * Fr(float(v))
            den += o
            touched.append(float(v))
    if den == 0:
        return None, touched
    return num / den, touched


def run(ctx):
    from taurex.binning import FluxBinner, SimpleBinner, NativeBinner
    rng = ctx.rng
    ncases = ctx.n(160, 1500)
    exprs, metas = [], []
    # a binner is built once per observation and then called for every sample of a retrieval: a quarter of the
    # cases call the SAME binner object again, on a different native grid with the same number of points and the same
    # end points (what a cache keyed on a summary of the grid would confuse)
    specs = []
    for k in range(ncases):
        kind, wn, w = gen_native(rng)
        style, tc, tw = gen_target(rng, wn, w)
        # one width for every target bin, given as a single number (the constructor accepts that)
        scalar_w = tw is not None and rng.random() < 0.12
        if scalar_w:
            tw = np.full(len(tc), float(tw[0]))
        specs.append((kind, wn, w, style, tc, tw, scalar_w, False))
        if w is None and len(wn) >= 4 and (k < 4 or rng.random() < 0.25):
            # (smoothly spaced like every generated native grid: linear <-> logarithmic between the same end points)
            wn2 = np.linspace(wn[0], wn[-1], len(wn)) if kind != 'linear' else np.geomspace(wn[0], wn[-1], len(wn))
            wn2[0], wn2[-1] = wn[0], wn[-1]
            specs.append((kind + '+again', wn2, None, style, tc, tw, scalar_w, True))
    last = None
    for (kind, wn, w, style, tc, tw, scalar_w, again) in specs:
        n = len(wn)
        f = np.array([rng.uniform(-1, 1) * 10 ** rng.uniform(-6, 2) for _ in range(n)])
        if rng.random() < 0.1:
            f = np.ones(n) * f[0]
        err = np.array([10 ** rng.uniform(-6, 0) for _ in range(n)])
        shuffled = rng.random() < 0.5
        perm = list(range(n))
        tperm = list(range(len(tc)))
        if again and last is not None:
            shuffled, tperm = False, last[1]
        elif shuffled:
            rng.shuffle(perm)
            rng.shuffle(tperm)
        twod = rng.random() < 0.2
        wn_in = wn[perm]
        f_in = f[perm]
        e_in = err[perm]
        w_in = None if w is None else w[perm]
        tc_in = tc[tperm]
        tw_in = None if tw is None else tw[tperm]
        # ---- implementation
        try:
            if again and last is not None:
                binner = last[0]
                ctx.count('binner_called_again')
            else:
                binner = FluxBinner(tc_in, float(tw_in[0]) if scalar_w else tw_in)
            last = (binner, tperm)
            spec = np.vstack([f_in, 2 * f_in + 1]) if twod else f_in
            with np.errstate(all='ignore'):
                if twod:
                    out = binner.bindown(wn_in, spec, grid_width=w_in)
                else:
                    out = binner.bindown(wn_in, spec, grid_width=w_in, error=e_in)
                bm = binner.bin_model((wn_in, f_in, None, None)) if w is None else None
            impl = dict(wn=np.array(out[0]), flux=np.array(out[1]),
                        err=None if out[2] is None else np.array(out[2]), width=np.array(out[3]))
        except Exception as e:  # the public call itself failed
            ctx.violation('impl-raises:' + C.err_kind(e), 'FluxBinner raised %r on a valid grid' % (e,),
                          replay=dict(kind=kind, wn=wn_in, w=w_in, f=f_in, tc=tc_in, tw=tw_in))
            last = None
            continue
        if bm is not None and not np.allclose(bm[1], impl['flux'][0] if twod else impl['flux'], rtol=1e-12, atol=0,
                                              equal_nan=True):
            ctx.violation('bin_model-differs', 'bin_model(model.model()) differs from bindown(wn, flux)',
                          replay=dict(wn=wn_in, f=f_in, tc=tc_in, tw=tw_in))
        # ---- model expression
        rows = C.clist(['(%s, %s, %s, %s)' % (C.q(wn_in[i]), C.q(0.0 if w_in is None else w_in[i]),
                                              C.q(f_in[i]), C.q(e_in[i])) for i in range(n)])
        tg = C.clist(['(%s, %s)' % (C.q(tc_in[i]), C.q(0.0 if tw_in is None else tw_in[i]))
                      for i in range(len(tc_in))])
        exprs.append('run_flux %s %s %s %s' % (C.boollit(tw_in is None), C.boollit(w_in is None), tg, rows))
        metas.append(dict(kind=kind, style=style, n=n, m=len(tc), shuffled=shuffled, twod=twod,
                          wn=wn_in, w=w_in, f=f_in, e=e_in, tc=tc_in, tw=tw_in, impl=impl))
        ctx.count('native:' + kind)
        ctx.count('target:' + style)
        ctx.count('shuffled' if shuffled else 'sorted')
        ctx.count('2d' if twod else '1d')
        ctx.count('auto_native_width' if w is None else 'explicit_native_width')
        ctx.count('auto_target_width' if tw is None else ('scalar_target_width' if scalar_w else 'explicit_target_width'))

    results = C.run_cases('C05_flux', HEADER, exprs, shard=40)
    for mt, res in zip(metas, results):
        check_flux_case(ctx, mt, res)

    # ---- histogram binner and native binner
    run_simple(ctx, SimpleBinner, NativeBinner)


def check_flux_case(ctx, mt, res):
    impl = mt['impl']
    scale = float(np.max(np.abs(mt['f']))) or 1.0
    flux = impl['flux'][0] if mt['twod'] else impl['flux']
    # native widths the property speaks about
    srt = np.argsort(mt['wn'])
    wn_s = mt['wn'][srt]
    f_s = mt['f'][srt]
    w_s = np.abs(np.diff(edges_of(wn_s))) if mt['w'] is None else mt['w'][srt]
    nontrivial = False
    bad = None
    if len(res) != len(flux):
        bad = 'number of target bins %d vs model %d' % (len(flux), len(res))
    for j, r in enumerate(res):
        if bad:
            break
        m_wn, m_f, m_e2, m_w = [C.q_out(x) for x in r]
        a = m_wn - m_w / 2
        b = m_wn + m_w / 2
        spec, touched = overlap_mean(wn_s, w_s, f_s, a, b)
        if len(touched) >= 2:
            nontrivial = True
        iv = float(flux[j])
        if not C.close(impl['wn'][j], float(m_wn), rel=1e-12):
            bad = 'target centre %d: impl %r model %r' % (j, impl['wn'][j], float(m_wn))
        elif not C.close(impl['width'][j], float(m_w), rel=1e-9, abs_=1e-12 * abs(float(m_wn))):
            bad = 'target width %d: impl %r model %r' % (j, impl['width'][j], float(m_w))
        elif spec is None:
            # no overlap: the property says nothing; model and impl must still agree unless 0/0
            if not (math.isnan(iv) or abs(iv - float(m_f)) <= 1e-9 * scale):
                bad = 'no-overlap bin %d: impl %r model %r' % (j, iv, float(m_f))
        else:
            if not abs(iv - float(m_f)) <= 1e-9 * scale:
                bad = 'bin %d: impl %r model %r' % (j, iv, float(m_f))
            # property oracle, independent of the Coq model
            if not abs(iv - float(spec)) <= 1e-9 * scale:
                ctx.violation('overlap-mean', 'binned value %r is not the overlap-weighted mean %r '
                              '(target bin [%r,%r])' % (iv, float(spec), float(a), float(b)),
                              replay=replay_of(mt))
            if touched and not (min(touched) - 1e-9 * scale <= iv <= max(touched) + 1e-9 * scale):
                ctx.violation('bounds', 'binned value %r outside overlapping native values [%r,%r]'
                              % (iv, min(touched), max(touched)), replay=replay_of(mt))
            if impl['err'] is not None and not mt['twod']:
                ie = float(impl['err'][j])
                me = math.sqrt(float(m_e2)) if m_e2 >= 0 else float('nan')
                # overlaps are differences of edges: a sliver's weight carries an absolute error of 1e-16 of the edge
                # values, which reaches the result when that sliver has by far the largest error bar
                if not C.close(ie, me, rel=1e-9, abs_=1e-300 + 1e-10 * float(np.max(mt['e']))):
                    bad = 'error bar %d: impl %r model %r' % (j, ie, me)
    if mt['twod'] and bad is None:
        row2 = impl['flux'][1]
        for j, r in enumerate(res):
            m_wn, m_f, m_e2, m_w = [C.q_out(x) for x in r]
            spec, touched = overlap_mean(wn_s, w_s, f_s, m_wn - m_w / 2, m_wn + m_w / 2)
            if spec is not None and not abs(float(row2[j]) - (2 * float(spec) + 1)) <= 1e-9 * (2 * scale + 1):
                ctx.violation('2d-rowwise', '2-D input is not binned row-wise / linearly', replay=replay_of(mt))
    key = (mt['kind'], mt['style'], mt['n'], mt['m'], mt['shuffled'], mt['twod'], float(mt['f'][0]))
    ctx.case(key, sample=dict(native=mt['kind'], target=mt['style'], n=mt['n'], m=mt['m'],
                              shuffled=mt['shuffled'], wn=mt['wn'][:4], target_centres=mt['tc'][:3]),
             nontrivial=nontrivial)
    if bad is None:
        ctx.validated()
    else:
        ctx.violation('correspondence:flux_binner', 'model/implementation disagree: ' + bad,
                      replay=replay_of(mt), no_input=not any(v['signature'] in ('overlap-mean', 'bounds')
                                                             for v in ctx.violations))


def replay_of(mt):
    return dict(kind='flux', wn=mt['wn'], w=mt['w'], f=mt['f'], e=mt['e'], tc=mt['tc'], tw=mt['tw'],
                twod=mt['twod'])


def run_simple(ctx, SimpleBinner, NativeBinner):
    rng = ctx.rng
    from taurex.util.util import bindown
    exprs, metas = [], []
    sb_prev = None
    for k in range(ctx.n(60, 400)):
        n = rng.choice([3, 5, 8, 13, 30])
        wn = np.sort(np.array([rng.uniform(100, 1000) for _ in range(n)]))
        f = np.array([rng.uniform(0, 1) for _ in range(n)])
        m = rng.choice([2, 3, 4, 6])
        tg = np.sort(np.array([rng.uniform(50, 1100) for _ in range(m)]))
        if rng.random() < 0.3:   # native points exactly on the bin edges (edges exactly representable)
            tg = np.array(sorted(rng.sample(range(50, 1100), m)), float)
            ed = edges_of(tg)
            wn[rng.randrange(n)] = ed[rng.randrange(len(ed))]
            wn = np.sort(wn)
        twod = rng.random() < 0.4
        again = sb_prev is not None and (k % 3 == 1)
        if again:          # the previous binner object, called on another native grid of the same size and end points
            tg, wn0 = sb_prev[1], sb_prev[2]
            if len(wn0) >= 3:
                inner = np.sort(np.array([rng.uniform(wn0[0], wn0[-1]) for _ in range(len(wn0) - 2)]))
                wn = np.concatenate([[wn0[0]], inner, [wn0[-1]]])
            else:
                wn = wn0
            n = len(wn)
            f = np.array([rng.uniform(0, 1) for _ in range(n)])
            ctx.count('simple_binner_called_again')
        with np.errstate(all='ignore'):
            sb = sb_prev[0] if again else SimpleBinner(tg)
            sb_prev = (sb, tg, wn)
            if twod:
                out = sb.bindown(wn, np.vstack([f, f]))[1][0]
            else:
                out = sb.bindown(wn, f)[1]
        pts = C.clist(['(%s, %s)' % (C.q(wn[i]), C.q(f[i])) for i in range(n)])
        exprs.append('run_simple %s %s %s' % (C.boollit(twod), C.qlist(tg), pts))
        metas.append(dict(wn=wn, f=f, tg=tg, twod=twod, impl=np.array(out)))
        ctx.count('simple_2d' if twod else 'simple_1d')
    results = C.run_cases('C05_simple', HEADER, exprs, shard=60)
    for mt, res in zip(metas, results):
        bad = None
        nontriv = False
        if len(res) != len(mt['impl']):
            bad = 'length'
        else:
            for j, r in enumerate(res):
                s = C.q_out(r[0])
                cnt = r[1][0]
                iv = float(mt['impl'][j])
                if cnt == 0:
                    if not math.isnan(iv):
                        bad = 'empty bin %d gives %r' % (j, iv)
                else:
                    nontriv = nontriv or cnt >= 2
                    if not abs(iv - float(s / cnt)) <= 1e-12:
                        bad = 'bin %d impl %r model mean %r (count %d)' % (j, iv, float(s / cnt), cnt)
        ctx.case(('simple', len(mt['wn']), len(mt['tg']), mt['twod'], float(mt['f'][0])), nontrivial=nontriv)
        if bad is None:
            ctx.validated()
        else:
            ctx.violation('correspondence:simple_binner', 'histogram binner: ' + bad,
                          replay=dict(kind='simple', wn=mt['wn'], f=mt['f'], tg=mt['tg'], twod=mt['twod']),
                          no_input=True)
    # native binner: identity
    nb = NativeBinner()
    for k in range(20):
        n = rng.randrange(1, 30)
        wn = np.array([rng.uniform(1, 1e4) for _ in range(n)])
        f = np.array([rng.uniform(-1, 1) for _ in range(n)])
        o = nb.bindown(wn, f)
        ctx.case(('native', n, float(f[0])))
        if not (np.array_equal(o[0], wn) and np.array_equal(o[1], f)):
            ctx.violation('native-identity', 'NativeBinner.bindown changed its input',
                          replay=dict(kind='native', wn=wn, f=f))
        else:
            ctx.validated()


def replay(ctx, obj):
    """re-run one stored case against the current implementation"""
    from taurex.binning import FluxBinner
    r = obj['replay']
    if r.get('kind') != 'flux':
        ctx.notes.append('replay of kind %r: re-running the full check' % r.get('kind'))
        return run(ctx)
    wn = np.array(r['wn'])
    f = np.array(r['f'])
    w = None if r['w'] is None else np.array(r['w'])
    tc = np.array(r['tc'])
    tw = None if r['tw'] is None else np.array(r['tw'])
    e = np.array(r['e'])
    binner = FluxBinner(tc, tw)
    out = binner.bindown(wn, f, grid_width=w, error=e)
    impl = dict(wn=np.array(out[0]), flux=np.array(out[1]), err=np.array(out[2]), width=np.array(out[3]))
    rows = C.clist(['(%s, %s, %s, %s)' % (C.q(wn[i]), C.q(0.0 if w is None else w[i]), C.q(f[i]), C.q(e[i]))
                    for i in range(len(wn))])
    tg = C.clist(['(%s, %s)' % (C.q(tc[i]), C.q(0.0 if tw is None else tw[i])) for i in range(len(tc))])
    res = C.run_cases('C05_replay', HEADER,
                      ['run_flux %s %s %s %s' % (C.boollit(tw is None), C.boollit(w is None), tg, rows)])
    mt = dict(kind='replay', style='replay', n=len(wn), m=len(tc), shuffled=False, twod=False,
              wn=wn, w=w, f=f, e=e, tc=tc, tw=tw, impl=impl)
    check_flux_case(ctx, mt, res[0])
