"""C10 — atmospheric composition is a valid mixture for every input."""
import math
import re

import numpy as np

import common as C
import tmodel

META = dict(
    rule='1..4 fill gases with random ratios, 0..5 trace gases with constant / two-layer / two-point / array / '
         'power-law profiles, 2..60 layers (mostly not multiples of ten), totals well below, exactly at and above '
         'one, gases with and without opacity data; non-trivial = at least one trace and two fill gases; '
         'distinct by spec',
    trusted=['each trace profile produced by the gas classes is observed and handed to the rational model of '
             'initialize_chemistry / fill_atmosphere / compute_mu_profile; molecular masses from '
             'taurex.util.get_molecular_weight',
             'two-point and power-law profiles are re-computed in interval arithmetic; array profile in rationals; '
             'the two-layer profile is re-computed in rationals in log10 space (interpolation over ln P with numpy\'s '
             'treatment of repeated nodes, moving average of odd width, splice); its index arithmetic (closest layer, '
             'transition ends, window width) is replicated in the harness; ln and log10 of the inputs are taken in '
             'Python',
             'power-law profiles with a tabulated profile type: the coefficient table is replicated in the harness '
             '(POWER_TABLE); what is compared is which coefficients come from the table and which from the arguments'],
    modelled=['TaurexChemistry.initialize_chemistry, fill_atmosphere, AutoChemistry.compute_mu_profile, '
              'determine_active_inactive (as flags), ConstantGas, TwoPointGas, ArrayGas, PowerGas, TwoLayerGas'],
    assumptions=['trace totals are generated either exactly representable or at least 1e-9 away from one (the '
                 'validity test compares a floating-point sum with 1.0)'],
)

HEADER = C.HEADER_IV + 'From TV Require Import Model_C10 Exec_C10.\n'
ACTIVE = ['H2O', 'CH4', 'CO2']
TRACES = ['H2O', 'CH4', 'CO2', 'CO', 'NH3', 'N2', 'Ar', 'HCN']
FILLS = ['H2', 'He', 'N2', 'Ne']


def setup_active():
    from taurex.cache import OpacityCache
    tmodel.reset_caches()
    Mem = tmodel.mem_opacity_class()
    for g in ACTIVE:
        OpacityCache().add_opacity(Mem(g, [100.0, 1000.0], [1.0, 1e6], np.ones((2, 2, 2)) * 1e-24, [1000.0, 2000.0]))


# the coefficient table of the power-law profiles (alpha, beta, gamma, surface abundance), as published with the
# parametrisation and tabulated in PowerGas.check_known — replicated here, the selection logic is what is compared
POWER_TABLE = {
    'H2': (1., 2.41e4, 6.5, 10 ** -0.1), 'H2O': (2., 4.83e4, 15.9, 10 ** -3.3), 'TiO': (1.6, 5.94e4, 23.0, 10 ** -7.1),
    'VO': (1.5, 5.4e4, 23.8, 10 ** -9.2), 'H-': (0.6, -0.14e4, 7.7, 10 ** -8.3), 'Na': (0.6, 1.89e4, 12.2, 10 ** -5.5),
    'K': (0.6, 1.28e4, 12.7, 10 ** -7.1),
}


def gen_gas(rng, name, scale):
    from taurex.data.profiles.chemistry import ConstantGas, TwoLayerGas, PowerGas
    from taurex.data.profiles.chemistry.gas.twopointgas import TwoPointGas
    from taurex.data.profiles.chemistry.gas.arraygas import ArrayGas
    kind = rng.choice(['constant', 'constant', 'twolayer', 'twopoint', 'array', 'power'])
    lo, hi = sorted([scale * 10 ** rng.uniform(-6, 0), scale * 10 ** rng.uniform(-6, 0)])
    if kind == 'constant':
        return kind, ConstantGas(name, mix_ratio=hi), dict(v=hi)
    if kind == 'twolayer':
        s, t = (lo, hi) if rng.random() < 0.5 else (hi, lo)
        prm = dict(s=s, t=t, P=10 ** rng.uniform(0, 5), sm=rng.choice([0, 1, 5, 10, 20, 50, 100]))
        return kind, TwoLayerGas(name, mix_ratio_surface=s, mix_ratio_top=t, mix_ratio_P=prm['P'],
                                 mix_ratio_smoothing=prm['sm']), prm
    if kind == 'twopoint':
        s, t = (lo, hi) if rng.random() < 0.5 else (hi, lo)
        return kind, TwoPointGas(name, mix_ratio_surface=s, mix_ratio_top=t), dict(s=s, t=t)
    if kind == 'array':
        arr = np.array([scale * 10 ** rng.uniform(-6, 0) for _ in range(rng.choice([2, 3, 5, 8]))])
        return kind, ArrayGas(name, mix_ratio_array=arr), dict(arr=arr)
    prm = dict(ms=hi, al=rng.uniform(0.2, 3), be=rng.uniform(-5e3, 5e3), ga=rng.uniform(-3, 12))
    if rng.random() < 0.4:
        # a tabulated profile: the coefficients left unset come from the table of the profile type
        pt = rng.choice(sorted(POWER_TABLE))
        given = {k: (prm[k] if rng.random() < 0.5 else None) for k in ('ms', 'al', 'be', 'ga')}
        a_, b_, g_, A_ = POWER_TABLE[pt]
        eff = dict(ms=A_ if given['ms'] is None else given['ms'], al=a_ if given['al'] is None else given['al'],
                   be=b_ if given['be'] is None else given['be'], ga=g_ if given['ga'] is None else given['ga'])
        return kind, PowerGas(name, profile_type=pt, mix_ratio_surface=given['ms'], alpha=given['al'],
                              beta=given['be'], gamma=given['ga']), dict(eff, profile_type=pt, given=given)
    return kind, PowerGas(name, profile_type='auto', mix_ratio_surface=prm['ms'], alpha=prm['al'], beta=prm['be'],
                          gamma=prm['ga']), prm


def run(ctx):
    from taurex.data.profiles.chemistry import TaurexChemistry
    from taurex.exceptions import InvalidModelException
    from taurex.util import get_molecular_weight
    rng = ctx.rng
    setup_active()
    e_mix, m_mix, e_arr, m_arr, e_tp, m_tp, e_pw, m_pw = [], [], [], [], [], [], [], []
    e_tl, m_tl = [], []
    for i in range(ctx.n(100, 1200)):
        n = rng.choice([2, 3, 4, 5, 7, 9, 11, 13, 17, 20, 23, 33, 41, 60])
        nfill = rng.choice([1, 2, 2, 3, 4])
        fills = rng.sample(FILLS, nfill)
        ratios = [10 ** rng.uniform(-3, 0.5) for _ in range(nfill - 1)]
        ntr = rng.choice([0, 1, 2, 3, 5])
        names = rng.sample([t for t in TRACES if t not in fills], ntr)
        mixkind = rng.random()
        if mixkind < 0.12:
            # every gas of the mixture has opacity data (a CO2 atmosphere, say): no inactive gas at all
            nfill = rng.choice([1, 2])
            fills = rng.sample(ACTIVE, nfill)
            ratios = [10 ** rng.uniform(-3, 0.5) for _ in range(nfill - 1)]
            pool = [t for t in ACTIVE if t not in fills]
            ntr = rng.randint(0, len(pool))
            names = rng.sample(pool, ntr)
            ctx.count('mixture: all gases active')
        elif mixkind < 0.24:
            # no gas of the mixture has opacity data
            pool = [t for t in TRACES if t not in fills and t not in ACTIVE]
            ntr = min(ntr, len(pool))
            names = rng.sample(pool, ntr)
            ctx.count('mixture: no gas active')
        regime = rng.choice(['low', 'low', 'high', 'exact1', 'over', 'over_some'])
        if i % 12 == 5:
            regime = 'over_some'         # every run: totals above one in some layers only
        lv = np.logspace(rng.uniform(-4, 1), rng.uniform(4, 7), n + 1)[::-1]
        P = lv[:-1] * np.sqrt(lv[1:] / lv[:-1])
        T = np.array([rng.uniform(300, 2500) for _ in range(n)])
        gases = []
        if regime == 'over_some':
            # a constant gas plus a per-layer profile that pushes the total above one in some layers and not in others
            from taurex.data.profiles.chemistry import ConstantGas
            from taurex.data.profiles.chemistry.gas.arraygas import ArrayGas
            pool = [t for t in TRACES if t not in fills]
            names = rng.sample(pool, 2)
            ntr = 2
            base = rng.uniform(0.1, 0.4)
            arr = np.array([rng.choice([rng.uniform(1e-6, 0.3), rng.uniform(0.95, 1.5)]) for _ in range(n)])
            arr[rng.randrange(n)] = rng.uniform(0.95, 1.5)
            arr[(int(np.argmax(arr)) + 1) % n] = rng.uniform(1e-6, 0.3) if n >= 2 else arr[0]
            gases.append(('constant', ConstantGas(names[0], mix_ratio=base), dict(v=base), names[0]))
            gases.append(('array', ArrayGas(names[1], mix_ratio_array=arr), dict(arr=arr), names[1]))
        elif regime == 'exact1' and ntr >= 1:
            from taurex.data.profiles.chemistry import ConstantGas
            parts = [2.0 ** -(k + 1) for k in range(ntr)]
            parts[-1] *= 2     # 1/2 + 1/4 + ... + 2/2^k = 1 exactly
            for nm, v in zip(names, parts):
                gases.append(('constant', ConstantGas(nm, mix_ratio=v), dict(v=v), nm))
        else:
            scale = {'low': 0.05, 'high': 0.9 / max(ntr, 1), 'exact1': 0.05, 'over': 1.5}[regime]
            for nm in names:
                k, g, prm = gen_gas(rng, nm, scale)
                gases.append((k, g, prm, nm))
        rp = dict(fills=fills, ratios=ratios, gases=[(k, nm, prm) for k, g, prm, nm in gases], nlayers=n,
                  levels=lv, T=T)
        if nfill > 1 and rng.random() < 0.5:
            # the ratios arrive through the fitting parameters (as in a retrieval), in a random order, after the
            # chemistry was constructed with other values
            chem = TaurexChemistry(fill_gases=fills, ratio=[10 ** rng.uniform(-3, 0.5) for _ in range(nfill - 1)])
            fp = chem.fitting_parameters()
            order_ = list(range(nfill - 1))
            rng.shuffle(order_)
            for j in order_:
                fp['%s_%s' % (fills[j + 1], fills[0])][3](ratios[j])
            ctx.count('ratios-set-through-fitting-parameters')
            rp = dict(rp, ratios_set_in_order=order_)
        else:
            chem = TaurexChemistry(fill_gases=fills, ratio=ratios if nfill > 1 else 0.1)
        for k, g, prm, nm in gases:
            chem.addGas(g)
        profs = []
        bad_profile = False
        for k, g, prm, nm in gases:
            try:
                with np.errstate(all='ignore'):
                    g.initialize_profile(n, T, P, None)
                pr = np.array(g.mixProfile, float)
            except Exception as e:
                ctx.violation('profile-raises:' + k, '%s gas profile raised %r for %d layers (%r)' % (k, e, n, prm),
                              replay=rp)
                bad_profile = True
                break
            ctx.count('profile:' + k)
            ctrl = {'constant': lambda: [prm['v']], 'twolayer': lambda: [prm['s'], prm['t']],
                    'twopoint': lambda: [prm['s'], prm['t']], 'array': lambda: list(prm['arr']),
                    'power': lambda: [0.0, prm['ms']]}[k]()
            if len(pr) != n or np.any(~np.isfinite(pr)) or np.any(pr < min(ctrl) * (1 - 1e-9) - 1e-300) or \
                    np.any(pr > max(ctrl) * (1 + 1e-9)):
                ctx.violation('profile-range:' + k, '%s profile for %d layers leaves the range of its control values '
                              '%r or has the wrong length: %r' % (k, n, ctrl, pr), replay=rp)
            profs.append(pr)
            if k == 'array':
                e_arr.append('run_array %s %s' % (C.natlit(n), C.qlist(prm['arr'])))
                m_arr.append(dict(pr=pr, rp=rp, key=('array', n, len(prm['arr']), float(pr[0]))))
            elif k == 'twolayer' and np.all(pr > 0):
                # index arithmetic as in TwoLayerGas.initialize_profile (replicated here, trusted); the profile itself
                # (interpolation over ln P, moving average of odd width, splice) is the model, in log10 space
                Pl = int(np.abs(P - prm['P']).argmin())
                st_l = max(int(Pl - prm['sm'] / 2), 0)
                en_l = min(int(Pl + prm['sm'] / 2), n - 1)
                ws0 = int(n * (prm['sm'] / 100.0))
                e_tl.append('run_twolayer %s %s %s %s %s %s' % (C.qlist(np.log(P).tolist()), C.natlit(st_l), C.natlit(en_l),
                                                             C.q(float(np.log10(prm['s']))), C.q(float(np.log10(prm['t']))),
                                                             C.natlit(ws0)))
                m_tl.append(dict(pr=np.log10(pr), rp=rp, key=('twolayer', n, prm['sm'], float(pr[0]))))
            elif k == 'twopoint':
                e_tp.append('run_twopoint %s %s %s' % (C.ivlist(P), C.iv(prm['s']), C.iv(prm['t'])))
                m_tp.append(dict(pr=pr, rp=rp, key=('twopoint', n, float(pr[1 % n]))))
            elif k == 'power':
                e_pw.append('run_power %s %s %s %s %s %s' % (C.ivlist(P), C.ivlist(T), C.iv(prm['ms']),
                                                            C.iv(prm['al']), C.iv(prm['be']), C.iv(prm['ga'])))
                m_pw.append(dict(pr=pr, rp=rp, key=('power', n, float(pr[0]))))
        if bad_profile:
            continue
        tot = np.sum(profs, axis=0) if profs else np.zeros(n)
        if np.any(np.abs(tot - 1.0) < 1e-9) and regime != 'exact1':
            continue    # too close to the threshold for a float/rational comparison
        try:
            with np.errstate(all='ignore'):
                chem.initialize_chemistry(n, T, P, None)
            mix = np.array(chem.mixProfile, float)
            mu = np.array(chem.muProfile, float)
            impl = 'ok'
        except InvalidModelException:
            impl = 'invalid'
        except Exception as e:
            ctx.violation('chemistry-raises', 'initialize_chemistry raised %r' % (e,), replay=rp)
            continue
        over = bool(np.any(tot > 1.0))
        ctx.count('regime:' + regime)
        ctx.count('result:' + impl)
        if impl == 'invalid' and not over:
            ctx.violation('spurious-invalid', 'rejected although traces total %r <= 1' % tot.max(), replay=rp)
        if impl == 'ok':
            gl = list(chem.gases)
            if over:
                ctx.violation('over-unity-accepted', 'traces total %r > 1 but a mixture was produced' % tot.max(),
                              replay=rp)
            else:
                if gl != fills + [nm for _, _, _, nm in gases]:
                    ctx.violation('gas-order', 'gas list %r is not fill gases followed by traces' % gl, replay=rp)
                if np.any(mix < -1e-15) or not np.allclose(mix.sum(axis=0), 1.0, rtol=0, atol=1e-12):
                    ctx.violation('not-a-mixture', 'mixing ratios negative or not summing to one: sums %r'
                                  % mix.sum(axis=0)[:4], replay=rp)
                for j, r in enumerate(ratios):
                    if not np.allclose(mix[j + 1], r * mix[0], rtol=1e-12, atol=1e-300):
                        ctx.violation('fill-ratio', 'fill gas %d is not in ratio %r to the first' % (j + 1, r),
                                      replay=rp)
                masses = np.array([get_molecular_weight(g_) for g_ in gl])
                if not np.allclose(mu, (mix * masses[:, None]).sum(axis=0), rtol=1e-12):
                    ctx.violation('mu', 'mean molecular weight is not the ratio-weighted sum of masses', replay=rp)
                act, inact = list(chem.activeGases), list(chem.inactiveGases)
                if sorted(act + inact) != sorted(gl) or any(g_ not in ACTIVE for g_ in act) or \
                        any(g_ in ACTIVE for g_ in inact):
                    ctx.violation('active-split', 'active %r / inactive %r is not the split of %r by availability %r'
                                  % (act, inact, gl, ACTIVE), replay=rp)
                else:
                    for g_ in gl:
                        if not np.array_equal(chem.get_gas_mix_profile(g_), mix[gl.index(g_)]):
                            ctx.violation('gas-profile-lookup', 'get_gas_mix_profile(%s) is not row %d of mixProfile'
                                          % (g_, gl.index(g_)), replay=rp)
        masses_q = [get_molecular_weight(g_) for g_ in fills + [nm for _, _, _, nm in gases]]
        e_mix.append('run_mixture %s %s %s %s %s' % (C.natlit(n), C.natlit(nfill), C.qlist(ratios),
                                                    C.clist([C.qlist(p) for p in profs]), C.qlist(masses_q)))
        m_mix.append(dict(impl=impl, mix=mix if impl == 'ok' else None, mu=mu if impl == 'ok' else None, rp=rp,
                          key=(n, nfill, ntr, regime, float(tot[0])), nontriv=(ntr >= 1 and nfill >= 2)))
    for mt, r in zip(m_mix, C.run_cases('C10_mix', HEADER, e_mix, shard=40)):
        bad = None
        if (len(r) == 0) != (mt['impl'] == 'invalid'):
            bad = 'validity: impl %s, model %s' % (mt['impl'], 'invalid' if len(r) == 0 else 'ok')
        elif mt['impl'] == 'ok':
            rows = np.array([[float(C.q_out(x)) for x in row] for row in r[:-1]])
            mu = np.array([float(C.q_out(x)) for x in r[-1]])
            if rows.shape != mt['mix'].shape or not np.allclose(rows, mt['mix'], rtol=1e-11, atol=1e-16):
                bad = 'mixing ratios: impl %r model %r' % (mt['mix'][:, 0], rows[:, 0] if rows.size else rows)
            elif not np.allclose(mu, mt['mu'], rtol=1e-11):
                bad = 'mu: impl %r model %r' % (mt['mu'][:3], mu[:3])
        ctx.case(mt['key'], nontrivial=mt['nontriv'],
                 sample=dict(fills=mt['rp']['fills'], ratios=mt['rp']['ratios'], nlayers=mt['rp']['nlayers'],
                             traces=[(k, nm) for k, nm, _ in mt['rp']['gases']], result=mt['impl']))
        if bad:
            ctx.violation('correspondence:mixture', 'model/implementation disagree: ' + bad, replay=mt['rp'],
                          no_input=True)
        else:
            ctx.validated()
    for tag, ex, ms, q in (('arr', e_arr, m_arr, True), ('tp', e_tp, m_tp, False), ('pw', e_pw, m_pw, False),
                           ('tl', e_tl, m_tl, 'log')):
        for mt, r in zip(ms, C.run_cases('C10_' + tag, HEADER, ex, shard=40)):
            bad = None
            if len(r) != len(mt['pr']):
                bad = 'length %d vs model %d' % (len(mt['pr']), len(r))
            else:
                for j, v in enumerate(r):
                    x = float(mt['pr'][j])
                    okv = (abs(x - float(C.q_out(v))) <= 1e-9) if q == 'log' else \
                        abs(x - float(C.q_out(v))) <= 1e-11 * abs(x) if q else C.in_enclosure(x, v, rel=1e-9)
                    if not okv:
                        bad = 'layer %d: impl %r model %r' % (j, x, float(C.q_out(v)) if q else C.iv_mid(v))
            ctx.case(mt['key'])
            if bad:
                ctx.violation('correspondence:profile-' + tag, 'gas profile: ' + bad, replay=mt['rp'], no_input=True)
            else:
                ctx.validated()
    formulas(ctx, rng)


def formulas(ctx, rng):
    """molecular weights: bracket-free and bracketed formulas against an independent parser"""
    from taurex.util.util import calculate_weight, mass
    elems = ['H', 'C', 'N', 'O', 'S', 'He', 'Na', 'K', 'Ti', 'Fe', 'Si', 'Mg', 'Cl']

    def gen(depth=0):
        parts = []
        for _ in range(rng.choice([1, 2, 3])):
            if depth < 2 and rng.random() < 0.25:
                inner, w = gen(depth + 1)
                k = rng.choice([1, 2, 3])
                parts.append(('(%s)%s' % (inner, '' if k == 1 else k), w * k))
            else:
                e = rng.choice(elems)
                k = rng.choice([1, 1, 2, 3, 4, 12])
                parts.append(('%s%s' % (e, '' if k == 1 else k), mass[e] * k))
        return ''.join(p[0] for p in parts), sum(p[1] for p in parts)
    for i in range(ctx.n(60, 400)):
        f, w = gen()
        ctx.case(('formula', f))
        try:
            got = calculate_weight(f)
        except Exception as e:
            ctx.violation('formula-raises', 'calculate_weight(%r) raised %r' % (f, e), replay=dict(formula=f))
            continue
        if not math.isclose(got, w, rel_tol=1e-12):
            ctx.violation('formula-weight', 'calculate_weight(%r) = %r, expected %r' % (f, got, w),
                          replay=dict(formula=f))
        else:
            ctx.validated()


def replay(ctx, obj):
    ctx.notes.append('replay re-runs the whole deterministic check with the stored seed')
    run(ctx)
