"""Shared machinery for every property check.

 * exact dyadic literals for Coq (Q and interval instances)
 * running generated case files through coqc / vm_compute and parsing the result
 * building the Coq development, re-checking Props_Cxx.v and its Print Assumptions
 * evidence / replay / known-findings plumbing
"""
import ast
import glob
import hashlib
import json
import math
import os
import random
import re
import shutil
import subprocess
import sys
import time
from concurrent.futures import ThreadPoolExecutor
from fractions import Fraction

VERIF = os.path.dirname(os.path.dirname(os.path.abspath(__file__)))
COQ = os.path.join(VERIF, 'coq')
CASES = os.path.join(COQ, 'cases', 'p%d' % os.getpid())
_OUT = os.environ.get('VERIF_OUT', VERIF)   # scratch runs against a mutated tree write elsewhere
EVIDENCE = os.path.join(_OUT, 'evidence')
REPLAYS = os.path.join(_OUT, 'replays')
CACHE = os.path.join(VERIF, '.cache')
REPO = os.environ.get('VERIF_REPO', '/repo')
COQC_TIMEOUT = int(os.environ.get('VERIF_COQC_TIMEOUT', '900'))

# axioms of Coq's standard library that theorems over R may depend on
STDLIB_AXIOMS = {
    'ClassicalDedekindReals.sig_not_dec',
    'ClassicalDedekindReals.sig_forall_dec',
    'FunctionalExtensionality.functional_extensionality_dep',
    'Classical_Prop.classic',
}

# Coq's primitive 63-bit integers (kernel primitives PrimInt63.* and the standard library's axiomatised specification
# of them in Uint63.v): used by Bignums, on which the Interval library's arbitrary-precision floats are built. They show
# up under the enclosure theorems (Reflect.v), which are statements about the interval instance.
STDLIB_AXIOM_PREFIXES = ('Uint63.', 'PrimInt63.')

FORBIDDEN = re.compile(
    r'\b(Admitted|admit|Axiom|Axioms|Parameter|Parameters|Conjecture|Conjectures|'
    r'Hypothesis|Hypotheses|Variable|Variables|Abort)\b|Unset\s+Guard|bypass_check|'
    r'Admit\s+Obligations|-type-in-type|-impredicative-set|Unset\s+Universe\s+Checking|'
    r'Unset\s+Positivity')


# --------------------------------------------------------------------------
# numbers
def dy(x):
    """exact (m, e) with x == m * 2**e for a finite float (or int)."""
    if isinstance(x, int):
        return (x, 0)
    x = float(x)
    if not math.isfinite(x):
        raise ValueError('non-finite literal %r' % (x,))
    if x == 0.0:
        return (0, 0)
    m, e = math.frexp(x)
    m = int(m * (1 << 53))
    e -= 53
    while m % 2 == 0:
        m //= 2
        e += 1
    return (m, e)


def zlit(n):
    return '(%d)' % n if n < 0 else '%d' % n


def q(x):
    m, e = dy(x)
    return '(Qdy %s %s)' % (zlit(m), zlit(e))


def qfrac(fr):
    fr = Fraction(fr)
    return '(Qmake %s %d)' % (zlit(fr.numerator), fr.denominator)


def iv(x):
    m, e = dy(x)
    return '(Idy %s %s)' % (zlit(m), zlit(e))


def clist(items):
    return '[' + '; '.join(items) + ']'


def qlist(xs):
    return clist([q(x) for x in xs])


def ivlist(xs):
    return clist([iv(x) for x in xs])


def natlit(n):
    return '%d%%nat' % n


def zl(n):
    return '%s%%Z' % zlit(int(n))


def boollit(b):
    return 'true' if b else 'false'


def strlit(s):
    return '"%s"%%string' % s.replace('"', '""')


def frac_of(x):
    return Fraction(float(x))


def q_out(pair):
    """[num, den] -> Fraction"""
    return Fraction(pair[0], pair[1])


def iv_out(v):
    """[tag, ml, el, mu, eu] -> (lo, hi) Fractions or None for NaN/unbounded"""
    if v[0] != 0:
        return None
    lo = Fraction(v[1]) * (Fraction(2) ** v[2])
    hi = Fraction(v[3]) * (Fraction(2) ** v[4])
    return lo, hi


def iv_mid(v):
    r = iv_out(v)
    if r is None:
        return float('nan')
    return float((r[0] + r[1]) / 2)


def close(a, b, rel=1e-9, abs_=0.0):
    a = float(a)
    b = float(b)
    if math.isnan(a) or math.isnan(b):
        return math.isnan(a) and math.isnan(b)
    if math.isinf(a) or math.isinf(b):
        return a == b
    return abs(a - b) <= abs_ + rel * max(abs(a), abs(b))


def in_enclosure(x, v, rel=1e-9, abs_=0.0):
    """float x against an interval output v, widened by the tolerance"""
    r = iv_out(v)
    if r is None:
        return math.isnan(x)
    lo, hi = float(r[0]), float(r[1])
    if not math.isfinite(x):
        return False          # (an infinite value would widen its own tolerance to infinity and pass any enclosure)
    tol = abs_ + rel * max(abs(lo), abs(hi), abs(x))
    return lo - tol <= x <= hi + tol


# --------------------------------------------------------------------------
# Coq
def sh(cmd, timeout=None, cwd=None, env=None):
    p = subprocess.run(cmd, shell=isinstance(cmd, str), cwd=cwd, env=env,
                       stdout=subprocess.PIPE, stderr=subprocess.STDOUT,
                       timeout=timeout, text=True)
    return p.returncode, p.stdout


def coq_sources():
    return sorted(f for f in glob.glob(os.path.join(COQ, '*.v')))


def gate():
    """refuse developments that declare axioms or switch checks off"""
    bad = []
    for f in coq_sources() + sorted(glob.glob(os.path.join(VERIF, 'harness', 'ties', '*.v'))):
        txt = open(f).read()
        txt = re.sub(r'\(\*.*?\*\)', '', txt, flags=re.S)
        for m in FORBIDDEN.finditer(txt):
            # Variable/Hypothesis/Context are fine inside sections; we only allow Context
            bad.append('%s: %s' % (os.path.basename(f), m.group(0)))
    return bad


def build_coq(jobs=16, clean=False):
    """full .vo build of every file in coq/ (never -vos). returns (ok, log)"""
    files = [os.path.basename(f) for f in coq_sources()]
    with open(os.path.join(COQ, '_CoqProject'), 'w') as fh:
        fh.write('-Q . TV\n-arg -w -arg -all\n' + '\n'.join(files) + '\n')
    rc, out = sh('coq_makefile -f _CoqProject -o Makefile', cwd=COQ, timeout=120)
    if rc != 0:
        return False, out
    if clean:
        sh('make clean', cwd=COQ, timeout=300)
    rc, out = sh('timeout 3000 make -j%d' % jobs, cwd=COQ, timeout=3100)
    return rc == 0, out


def props_check(prop):
    """re-compile Props_<prop>.v, return (ok, theorems, assumptions, log).
    theorems: list of names stated in the file; assumptions: {theorem: [axioms]}"""
    path = os.path.join(COQ, 'Props_%s.v' % prop)
    if not os.path.exists(path):
        return False, [], {}, 'missing ' + path
    src = open(path).read()
    src_nc = re.sub(r'\(\*.*?\*\)', '', src, flags=re.S)
    thms = re.findall(r'^\s*(?:Theorem|Lemma|Corollary)\s+([A-Za-z0-9_\']+)', src_nc, flags=re.M)
    printed = re.findall(r'Print\s+Assumptions\s+([A-Za-z0-9_\'.]+)\s*\.', src_nc)
    rc, out = sh('timeout %d coqc -Q . TV -w -all Props_%s.v' % (COQC_TIMEOUT, prop),
                 cwd=COQ, timeout=COQC_TIMEOUT + 30)
    if rc != 0:
        return False, thms, {}, out
    # split Print Assumptions output blocks, in order
    blocks = re.split(r'(?m)^(?=Closed under the global context|Axioms:)', out)
    blocks = [b for b in blocks if b.startswith('Closed under') or b.startswith('Axioms:')]
    assum = {}
    ok = True
    if len(blocks) != len(printed):
        ok = False
    for name, b in zip(printed, blocks):
        if b.startswith('Closed'):
            assum[name] = []
        else:
            axs = re.findall(r'(?m)^([A-Za-z0-9_\'.]+)\s*:', b[len('Axioms:'):])
            assum[name] = axs
    missing = [t for t in thms if t not in assum]
    if missing:
        ok = False
        out += '\nno Print Assumptions for: %s' % missing
    return ok, thms, assum, out


def source_tie(ctx, prop, specs):
    """second tie: regenerate the named Python functions of /repo as Coq definitions (harness/pytranslate.py) and
    re-check the fixed lemmas of harness/ties/Tie_<prop>.v against them. specs: [(file under REPO, function, coq name[, module constants that become parameters])]"""
    import pytranslate
    tmpl = open(os.path.join(VERIF, 'harness', 'ties', 'Tie_%s.v' % prop)).read()
    lemmas = re.findall(r'^Lemma\s+(\w+)', tmpl, flags=re.M)
    ctx.obligations.extend(lemmas)
    allspecs = specs
    specs = [((sp['file'], sp['cls'] + '.' + sp['method']) if isinstance(sp, dict) else sp) for sp in allspecs]
    try:
        gen = ''
        for sp in allspecs:
            if isinstance(sp, dict):      # block mode: a run of statements inside a method
                kw = dict(sp)
                gen += pytranslate.translate_block(os.path.join(REPO, kw.pop('file')), kw.pop('cls'), kw.pop('method'), kw.pop('coq'), **kw)
            else:
                gen += pytranslate.translate(os.path.join(REPO, sp[0]), sp[1], sp[2], consts=(sp[3] if len(sp) > 3 else ()))[1]
    except pytranslate.TranslateError as e:
        ctx.violation('tie:' + prop, 'source tie broken: harness/pytranslate.py cannot translate the current source of %s: %s'
                      % ([s[1] for s in specs], e), no_input=True)
        return False
    os.makedirs(CASES, exist_ok=True)
    path = os.path.join(CASES, 'Tie_%s.v' % prop)
    with open(path, 'w') as fh:
        fh.write(tmpl.replace('(* GENERATED *)', '(* GENERATED from %s *)\n%s' % (', '.join(s[0] + ':' + s[1] for s in specs), gen)))
        fh.write('\n' + ''.join('Print Assumptions %s.\n' % l for l in lemmas))
    rc, out = sh('timeout 300 coqc -Q %s TV -w -all Tie_%s.v' % (COQ, prop), cwd=CASES, timeout=330)
    if rc != 0:
        ctx.violation('tie:' + prop, 'source tie broken: the kernel regenerated from the current source no longer equals the '
                      'model kernel (Tie_%s.v):\n%s\n--- regenerated ---\n%s' % (prop, out[-1500:], gen), no_input=True)
        return False
    # the tie lemmas may rest on the standard library's real-number axioms only
    blocks = re.split(r'(?m)^(?=Closed under the global context|Axioms:)', out)
    blocks = [b for b in blocks if b.startswith('Closed under') or b.startswith('Axioms:')]
    if len(blocks) != len(lemmas):
        ctx.violation('tie:' + prop, 'source tie: %d Print Assumptions blocks for %d lemmas' % (len(blocks), len(lemmas)), no_input=True)
        return False
    for l, b in zip(lemmas, blocks):
        axs = [] if b.startswith('Closed') else re.findall(r'(?m)^([A-Za-z0-9_\'.]+)\s*:', b[len('Axioms:'):])
        extra = [a for a in axs if a not in STDLIB_AXIOMS]
        if extra:
            ctx.violation('tie:' + prop, 'source tie lemma %s depends on non-whitelisted axioms %s' % (l, extra), no_input=True)
            return False
        ctx.assumptions[l] = axs
    if ctx.tier == 'thorough' and not os.environ.get('VERIF_NO_COQCHK'):
        # the independent checker on the compiled tie file and everything it loads
        # (the case directory lies under the TV load path: the compiled library is TV.cases.p<pid>.Tie_<prop>)
        rc2, out2 = sh('timeout 1500 coqchk -silent -o -Q %s TV TV.cases.%s.Tie_%s' % (COQ, os.path.basename(CASES), prop),
                       cwd=CASES, timeout=1600)
        ctx.extra['coqchk_tie'] = out2[-2000:]
        if rc2 != 0:
            ctx.violation('tie:' + prop, 'coqchk rejects the compiled tie file Tie_%s.vo:\n%s' % (prop, out2[-1500:]), no_input=True)
            return False
    ctx.discharged.extend(lemmas)
    ctx.notes.append('source tie: %s regenerated from source and proved equal to the model kernels (%s)'
                     % (', '.join(s[1] for s in specs), ', '.join(lemmas)))
    return True


def parse_coq_value(out):
    """parse the nested list-of-integers value printed by one `Eval vm_compute`"""
    txt = re.sub(r'\s+', '', out)
    m = re.search(r'=(\[.*\]):list', txt)
    if not m:
        raise ValueError('cannot parse coq output: %r' % out[:400])
    body = m.group(1).replace(';', ',').replace('%Z', '')
    return ast.literal_eval(body)


def run_case_file(name, header, exprs, timeout=None):
    """write cases/<name>.v evaluating a list of Coq expressions (each a `list Z`-like
    nested value) in ONE `Eval vm_compute in [e1; e2; ...]`, return parsed list."""
    os.makedirs(CASES, exist_ok=True)
    path = os.path.join(CASES, name + '.v')
    with open(path, 'w') as fh:
        fh.write(header + '\n')
        fh.write('Definition results :=\n  [ ' + '\n  ; '.join(exprs) + ' ].\n')
        fh.write('Eval vm_compute in results.\n')
    t = timeout or COQC_TIMEOUT
    rc, out = sh('ulimit -s unlimited 2>/dev/null; timeout %d coqc -Q %s TV -w -all %s.v'
                 % (t, COQ, name), cwd=CASES, timeout=t + 30)
    if rc != 0:
        raise RuntimeError('coqc failed on %s:\n%s' % (path, out[-3000:]))
    return parse_coq_value(out)


def run_cases(tag, header, exprs, shard=100, jobs=16, timeout=None):
    """evaluate many expressions, sharded over parallel coqc processes"""
    if not exprs:
        return []
    shards = [exprs[i:i + shard] for i in range(0, len(exprs), shard)]
    results = [None] * len(shards)

    def work(i):
        results[i] = run_case_file('%s_%d' % (tag, i), header, shards[i], timeout)

    with ThreadPoolExecutor(max_workers=jobs) as ex:
        list(ex.map(work, range(len(shards))))
    out = []
    for r in results:
        out.extend(r)
    return out


def clean_cases(tag=None):
    shutil.rmtree(CASES, ignore_errors=True)


HEADER_Q = ('From Coq Require Import ZArith QArith List String.\n'
            'From TV Require Import Num ListNum.\n'
            'Import ListNotations.\nOpen Scope Z_scope.\n')
HEADER_IV = ('From Coq Require Import ZArith QArith List String.\n'
             'From TV Require Import Num NumIv ListNum.\n'
             'Import ListNotations.\nOpen Scope Z_scope.\n')


# --------------------------------------------------------------------------
# implementation side
def setup_impl_env():
    """make sure the implementation that runs is /repo's working tree"""
    if REPO not in sys.path:
        sys.path.insert(0, REPO)
    stubs = os.path.join(VERIF, 'harness', 'stubs')   # recording doubles for the absent sampler packages
    if stubs not in sys.path:
        sys.path.append(stubs)
    os.environ.setdefault('NUMBA_CACHE_DIR', os.path.join(CACHE, 'numba'))
    os.makedirs(os.environ['NUMBA_CACHE_DIR'], exist_ok=True)
    import warnings
    warnings.simplefilter('ignore')
    import taurex
    assert os.path.realpath(os.path.dirname(taurex.__file__)).startswith(os.path.realpath(REPO)), \
        'taurex imported from %s, not from %s' % (taurex.__file__, REPO)
    import taurex.log
    try:
        taurex.log.disableLogging()
    except Exception:
        pass
    import logging
    logging.disable(logging.CRITICAL)


def err_kind(e):
    """map an exception to a small enum"""
    n = type(e).__name__
    try:
        from taurex.exceptions import InvalidModelException
        if isinstance(e, InvalidModelException):
            return 'invalid_model'
    except Exception:
        pass
    if isinstance(e, KeyError):
        return 'key_error'
    if isinstance(e, ValueError):
        return 'value_error'
    if isinstance(e, NotImplementedError):
        return 'not_implemented'
    return 'other:' + n


# --------------------------------------------------------------------------
# check context
class Ctx:
    def __init__(self, prop, tier, seed):
        self.prop = prop
        self.tier = tier
        self.seed = seed
        self.rng = random.Random((seed * 1000003) ^ int(hashlib.sha1(prop.encode()).hexdigest()[:8], 16))
        self.t0 = time.time()
        self.violations = []       # dicts: signature, what, replay, no_input
        self.cases = 0
        self.nontrivial = set()
        self.traces = 0
        self.stats = {}
        self.samples = []
        self.notes = []
        self.obligations = []
        self.discharged = []
        self.assumptions = {}
        self.trusted = []
        self.extra = {}

    @property
    def thorough(self):
        return self.tier == 'thorough'

    def n(self, quick, thorough):
        return thorough if self.thorough else quick

    def count(self, key, k=1):
        self.stats[key] = self.stats.get(key, 0) + k

    def case(self, key=None, sample=None, nontrivial=True):
        self.cases += 1
        if nontrivial and key is not None:
            self.nontrivial.add(key if isinstance(key, (str, int, tuple)) else repr(key))
        if sample is not None and len(self.samples) < 6:
            self.samples.append(sample)

    def validated(self, k=1):
        self.traces += k

    def violation(self, signature, what, replay=None, no_input=False):
        """signature: stable identifier used to match known findings"""
        for v in self.violations:
            if v['signature'] == signature:
                v['count'] += 1
                return
        self.violations.append(dict(signature=signature, what=what, replay=replay,
                                    no_input=no_input, count=1))


def load_known():
    p = os.path.join(VERIF, 'known_findings.json')
    if not os.path.exists(p):
        return []
    return json.load(open(p)).get('findings', [])


def jsonable(o):
    try:
        import numpy as np
        if isinstance(o, np.ndarray):
            return o.tolist()
        if isinstance(o, (np.floating,)):
            return float(o)
        if isinstance(o, (np.integer,)):
            return int(o)
        if isinstance(o, (np.bool_,)):
            return bool(o)
    except ImportError:
        pass
    if isinstance(o, Fraction):
        return '%d/%d' % (o.numerator, o.denominator)
    if isinstance(o, (set, tuple)):
        return list(o)
    if isinstance(o, bytes):
        return o.decode('latin1')
    return repr(o)


def write_json(path, obj):
    os.makedirs(os.path.dirname(path), exist_ok=True)
    tmp = path + '.tmp'
    with open(tmp, 'w') as fh:
        json.dump(obj, fh, indent=1, default=jsonable)
    os.replace(tmp, path)
