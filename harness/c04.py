"""C04 — opacity interpolation in temperature and pressure is sound everywhere."""
import math

import numpy as np

import common as C

META = dict(
    rule='random tables (2..6 x 2..6 nodes, 1..4 wavenumbers, optional g axis, magnitudes 1e-40..1) queried in '
         'all nine (T,P) regions, at exact nodes and on grid edges, both interpolation modes, with and without a '
         'wavenumber sub-range; non-trivial = the query is not a grid node and not in the zero corner; distinct '
         'by (shape, region, mode, layout, T, P)',
    trusted=['math.log10 / numpy.log10 of the pressures are taken by the harness exactly as the code takes them and '
             'handed to the model as inputs (the model works in log10 P)',
             'exp mode is evaluated with 80-bit interval arithmetic (Interval library): the implementation value '
             'must lie in the enclosure widened by 1e-9 relative'],
    modelled=['find_closest_pair, InterpolatingOpacity.interp_bilinear_grid / interp_temp_only / '
              'interp_pressure_only / compute_opacity, the four kernels of taurex/util/math.py that are selected '
              '(interp_lin_numba, intepr_bilin_numba_II, interp_exp_numpy, interp_exp_and_lin_numpy)',
              'wavenumber sub-range selection of Opacity.opacity / KTable.opacity is exercised, its interpolation '
              'onto foreign grids belongs to C13'],
    assumptions=['temperature and pressure grids strictly increasing with >= 2 nodes (what every reader produces)',
                 'exp mode: table entries > 0 and temperatures > 0'],
)

HEADER = C.HEADER_IV + 'From TV Require Import Model_C04 Exec_C04.\n'

REGIONS = ['in', 'Tlo', 'Thi', 'Plo', 'Phi', 'TloPlo', 'TloPhi', 'ThiPlo', 'ThiPhi', 'node', 'edgeT', 'edgeP']


def make_opacity(Tg, Pg, tab, wn, mode, weights=None):
    from taurex.opacity.interpolateopacity import InterpolatingOpacity
    from taurex.opacity.ktables.ktable import KTable

    class Mem(InterpolatingOpacity):
        def __init__(s):
            InterpolatingOpacity.__init__(s, 'mem', interpolation_mode=mode)
        moleculeName = 'X'
        xsecGrid = property(lambda s: tab)
        wavenumberGrid = property(lambda s: wn)
        temperatureGrid = property(lambda s: Tg)
        pressureGrid = property(lambda s: Pg)

    class MemK(KTable, InterpolatingOpacity):
        def __init__(s):
            InterpolatingOpacity.__init__(s, 'memk', interpolation_mode=mode)
        moleculeName = 'X'
        xsecGrid = property(lambda s: tab)
        wavenumberGrid = property(lambda s: wn)
        temperatureGrid = property(lambda s: Tg)
        pressureGrid = property(lambda s: Pg)
        weights = property(lambda s: weights)

    return MemK() if weights is not None else Mem()


def pick(rng, grid, where, log=False):
    lo, hi = grid[0], grid[-1]
    if where == 'lo':
        return lo * rng.uniform(0.05, 0.95)
    if where == 'hi':
        return hi * rng.uniform(1.05, 5.0)
    if where == 'node':
        return float(grid[rng.randrange(len(grid))])
    if where == 'edge':
        return float(rng.choice([lo, hi]))
    i = rng.randrange(len(grid) - 1)
    u = rng.uniform(0.02, 0.98)
    if log:
        return float(10 ** (math.log10(grid[i]) * (1 - u) + math.log10(grid[i + 1]) * u))
    return float(grid[i] * (1 - u) + grid[i + 1] * u)


def gen_case(rng):
    nT = rng.choice([2, 2, 3, 4, 6])
    nP = rng.choice([2, 2, 3, 4, 6])
    nw = rng.choice([1, 2, 4])
    ng = rng.choice([None, None, 2, 3])
    Tg = np.cumsum([rng.uniform(50, 600) for _ in range(nT)])
    Pg = 10 ** np.cumsum([rng.uniform(-2, 1)] + [rng.uniform(0.3, 2.5) for _ in range(nP - 1)])
    shape = (nP, nT, nw) if ng is None else (nP, nT, nw, ng)
    base = rng.uniform(-40, 0)
    tab = 10 ** (base + np.array([rng.uniform(-3, 3) for _ in range(int(np.prod(shape)))]).reshape(shape))
    tab = np.minimum(tab, 1.0)
    wn = np.cumsum([rng.uniform(10, 500) for _ in range(nw)])
    region = rng.choice(REGIONS)
    tw = {'in': 'in', 'Tlo': 'lo', 'Thi': 'hi', 'Plo': 'in', 'Phi': 'in', 'TloPlo': 'lo', 'TloPhi': 'lo',
          'ThiPlo': 'hi', 'ThiPhi': 'hi', 'node': 'node', 'edgeT': 'edge', 'edgeP': rng.choice(['in', 'lo', 'hi'])}[region]
    pw = {'in': 'in', 'Tlo': 'in', 'Thi': 'in', 'Plo': 'lo', 'Phi': 'hi', 'TloPlo': 'lo', 'TloPhi': 'hi',
          'ThiPlo': 'lo', 'ThiPhi': 'hi', 'node': 'node', 'edgeT': rng.choice(['in', 'lo', 'hi']), 'edgeP': 'edge'}[region]
    Tv = pick(rng, Tg, tw)
    P = pick(rng, Pg, pw, log=True)
    mode = rng.choice(['linear', 'exp'])
    sub = None
    if nw >= 2 and rng.random() < 0.3:
        a = rng.randrange(nw - 1)
        sub = (a, rng.randrange(a + 1, nw) + 1)
    weights = None
    if ng is not None:
        w = np.array([rng.uniform(0.1, 1) for _ in range(ng)])
        weights = w / w.sum()
    return dict(Tg=Tg, Pg=Pg, tab=tab, wn=wn, T=Tv, P=P, mode=mode, region=region, sub=sub, ng=ng,
                weights=weights)


_turn = [0]


def impl_eval(c):
    wngrid = None if c['sub'] is None else c['wn'][c['sub'][0]:c['sub'][1]]
    _turn[0] += 1
    if _turn[0] % 3 == 0:
        # a live object whose interpolation mode is switched (the public setter): built in the OTHER mode, asked for the
        # same temperature, pressure and grid, switched, asked again -- the answer is that of the mode now set
        other = 'exp' if c['mode'] == 'linear' else 'linear'
        op = make_opacity(c['Tg'], c['Pg'], c['tab'], c['wn'], other, c['weights'])
        with np.errstate(all='ignore'):
            op.opacity(c['T'], c['P'], wngrid)
            op.set_interpolation_mode(c['mode'])
            return np.array(op.opacity(c['T'], c['P'], wngrid), float)
    op = make_opacity(c['Tg'], c['Pg'], c['tab'], c['wn'], c['mode'], c['weights'])
    with np.errstate(all='ignore'):
        out = np.array(op.opacity(c['T'], c['P'], wngrid), float)
    return out


def bracket(grid, v):
    r = int(np.searchsorted(grid, v))
    r = max(min(len(grid) - 1, r), 1)
    return r - 1, r


def oracle(ctx, c, out):
    """the property itself, on the implementation's answer (independent of the Coq model)"""
    Tg, Pg, tab = c['Tg'], c['Pg'], c['tab']
    logPg = np.log10(Pg)
    lp = math.log10(c['P'])
    sl = slice(None) if c['sub'] is None else slice(*c['sub'])
    flat = out.reshape(-1)
    tl, tr = bracket(Tg, c['T'])
    pl, pr = bracket(logPg, lp)
    below = (c['T'] < Tg[0]) and (lp < logPg[0])
    corners = np.stack([tab[p, t][sl].reshape(-1) for p in (pl, pr) for t in (tl, tr)]) / 1e4
    lo, hi = corners.min(axis=0), corners.max(axis=0)
    rp = replay_of(c)
    if below:
        if np.any(flat != 0):
            ctx.violation('zero-corner', 'below both minima the opacity is not zero: %r' % flat[:3], replay=rp)
        return
    tol = 1e-9 * hi
    if np.any(flat < lo - tol) or np.any(flat > hi + tol) or np.any(~np.isfinite(flat)):
        k = int(np.argmax((flat < lo - tol) | (flat > hi + tol) | ~np.isfinite(flat)))
        ctx.violation('bounds:' + region_class(c), 'opacity %r outside the bracketing node values [%r, %r] '
                      '(region %s, mode %s, T=%r P=%r)' % (flat[k], lo[k], hi[k], c['region'], c['mode'],
                                                          c['T'], c['P']), replay=rp)
    if c['region'] == 'node':
        i = int(np.argmin(np.abs(Tg - c['T'])))
        j = int(np.argmin(np.abs(Pg - c['P'])))
        want = tab[j, i][sl].reshape(-1) / 1e4
        if not np.allclose(flat, want, rtol=1e-9, atol=0):
            ctx.violation('node', 'grid node (%d,%d) not reproduced: %r vs %r' % (i, j, flat[:3], want[:3]),
                          replay=rp)


def region_class(c):
    lp = math.log10(c['P'])
    logPg = np.log10(c['Pg'])
    t = 'Tmin' if c['T'] < c['Tg'][0] else ('Tmax' if c['T'] >= c['Tg'][-1] else 'Tin')
    p = 'Pmin' if lp < logPg[0] else ('Pmax' if lp >= logPg[-1] else 'Pin')
    return t + '-' + p


def model_expr(c):
    lit = C.q if c['mode'] == 'linear' else C.iv
    Tg = C.clist([lit(x) for x in c['Tg']])
    Pg = C.clist([lit(x) for x in np.log10(c['Pg'])])
    tab = c['tab']
    sl = slice(None) if c['sub'] is None else slice(*c['sub'])
    nP, nT = tab.shape[0], tab.shape[1]
    rows = []
    nent = None
    for p in range(nP):
        cols = []
        for t in range(nT):
            ent = tab[p, t][sl].reshape(-1)
            nent = len(ent)
            cols.append(C.clist([lit(x) for x in ent]))
        rows.append(C.clist(cols))
    fn = 'run_lin' if c['mode'] == 'linear' else 'run_exp'
    return '%s %s %s %s %s %s %s' % (fn, Tg, Pg, C.clist(rows), C.natlit(nent), lit(c['T']),
                                     lit(math.log10(c['P'])))


def replay_of(c):
    return dict(Tg=c['Tg'], Pg=c['Pg'], tab=c['tab'], wn=c['wn'], T=c['T'], P=c['P'], mode=c['mode'],
                region=c['region'], sub=c['sub'], ng=c['ng'], weights=c['weights'])


def compare(ctx, c, out, res):
    flat = out.reshape(-1)
    if len(res) != len(flat):
        return 'shape: impl %d entries, model %d' % (len(flat), len(res))
    scale = float(np.max(c['tab'])) / 1e4
    for k, r in enumerate(res):
        x = float(flat[k])
        if c['mode'] == 'linear':
            mv = float(C.q_out(r))
            if not abs(x - mv) <= 1e-11 * scale + 1e-9 * abs(mv):
                return 'entry %d: impl %r model %r' % (k, x, mv)
        else:
            if not C.in_enclosure(x, r, rel=1e-9, abs_=1e-300):
                return 'entry %d: impl %r model enclosure mid %r' % (k, x, C.iv_mid(r))
    return None


def run(ctx):
    C.source_tie(ctx, 'C04', [('taurex/util/math.py', 'interp_lin_only', 'gen_interp_lin_only'), ('taurex/util/math.py', 'intepr_bilin', 'gen_intepr_bilin'), ('taurex/util/math.py', 'interp_exp_only', 'gen_interp_exp_only'), ('taurex/util/math.py', 'interp_exp_and_lin', 'gen_interp_exp_and_lin')])
    rng = ctx.rng
    cases = [gen_case(rng) for _ in range(ctx.n(300, 3000))]
    outs, exprs, kept = [], [], []
    for c in cases:
        try:
            out = impl_eval(c)
        except Exception as e:
            ctx.violation('impl-raises:' + C.err_kind(e), 'Opacity.opacity raised %r' % (e,), replay=replay_of(c))
            continue
        oracle(ctx, c, out)
        outs.append(out)
        kept.append(c)
        exprs.append(model_expr(c))
        ctx.count('region:' + region_class(c))
        ctx.count('mode:' + c['mode'])
        ctx.count('layout:' + ('xsec' if c['ng'] is None else 'ktable'))
        ctx.count('subrange' if c['sub'] else 'fullrange')
    results = C.run_cases('C04', HEADER, exprs, shard=25)
    for c, out, res in zip(kept, outs, results):
        bad = compare(ctx, c, out, res)
        nontriv = c['region'] not in ('node', 'TloPlo')
        ctx.case((c['tab'].shape, c['region'], c['mode'], c['ng'], c['T'], c['P']), nontrivial=nontriv,
                 sample=dict(shape=c['tab'].shape, region=c['region'], mode=c['mode'], T=c['T'], P=c['P'],
                             result=out.reshape(-1)[:2]))
        if bad is None:
            ctx.validated()
        else:
            ctx.violation('correspondence:interp', 'model/implementation disagree (%s, %s): %s'
                          % (c['region'], c['mode'], bad), replay=replay_of(c),
                          no_input=not any(v['signature'].startswith(('bounds', 'node', 'zero'))
                                           for v in ctx.violations))


def replay(ctx, obj):
    r = obj['replay']
    c = dict(Tg=np.array(r['Tg']), Pg=np.array(r['Pg']), tab=np.array(r['tab']), wn=np.array(r['wn']),
             T=r['T'], P=r['P'], mode=r['mode'], region=r['region'],
             sub=None if r['sub'] is None else tuple(r['sub']), ng=r['ng'],
             weights=None if r['weights'] is None else np.array(r['weights']))
    out = impl_eval(c)
    oracle(ctx, c, out)
    res = C.run_cases('C04_replay', HEADER, [model_expr(c)])
    bad = compare(ctx, c, out, res[0])
    ctx.case('replay')
    if bad:
        ctx.violation('correspondence:interp', bad, replay=r, no_input=True)
    else:
        ctx.validated()
