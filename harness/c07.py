"""C07 — retrieval set-up depends only on current settings; updates touch only fitted."""
import math
from fractions import Fraction as Fr

import numpy as np

import common as C

META = dict(
    rule='random operation sequences (length 0..40) of enable_fit / disable_fit / set_mode / set_boundary / '
         'set_factor_boundary / set_prior / enable_derived / disable_derived / compile_params / update_model over a '
         'forward model with 4 parameters and 2 derived parameters and an observation with 2 parameters and 1 '
         'derived parameter, including unknown names and wrong vector lengths; compared operation by operation '
         '(error kind, every parameter value; after each compile also names, values, boundaries, priors, derived '
         'names); pairs of histories reaching the same settings; write-back of the reported values; the same '
         'histories on a real transmission model (its ~10 parameters collected from planet, star, pressure, '
         'temperature, chemistry and contributions; alias names of one quantity excluded) with an observation that '
         'has a parameter of its own; '
         'non-trivial = history with >= 2 compiles and >= 1 update; distinct by op sequence',
    trusted=['10**x and log10 x are symbolic in the discrete model and evaluated by the harness when comparing'],
    modelled=['Optimizer.enable_fit, disable_fit, set_mode, set_boundary, set_factor_boundary, set_prior, '
              'enable_derived, disable_derived, compile_params, update_model, fit_names, fit_values, '
              'fit_boundaries, fitting_priors, derived_names; SimpleForwardModel.collect_fitting_parameters / '
              'Fittable (through the initial state read from the live model)'],
    assumptions=['views are observed after compile_params() (between set_prior and the next compile the optimizer '
                 'is in a transient state the property does not speak about)',
                 'parameter names are pairwise distinct across model and observation'],
    technique='Coq proof over a discrete state-machine model + differential correspondence on random histories',
)

HEADER = ('From Coq Require Import ZArith QArith List.\nFrom TV Require Import Model_C07 Exec_C07.\n'
          'Import ListNotations.\nOpen Scope Z_scope.\n')

class Names:
    """the parameters of one world: model / observation fitting parameters and derived parameters, in collection order"""
    def __init__(self, model_p, obs_p, model_d, obs_d):
        self.model_p, self.obs_p, self.model_d, self.obs_d = list(model_p), list(obs_p), list(model_d), list(obs_d)
        self.ids = {n: i for i, n in enumerate(self.model_p + self.obs_p + self.model_d + self.obs_d)}
        self.ids['zz'] = 9999

    @property
    def params(self):
        return self.model_p + self.obs_p

    @property
    def derived(self):
        return self.model_d + self.obs_d


STUB = Names(['m0', 'm1', 'm2', 'm3'], ['o0', 'o1'], ['md0', 'md1'], ['od0'])
MODEL_P, OBS_P, MODEL_D, OBS_D, IDS = STUB.model_p, STUB.obs_p, STUB.model_d, STUB.obs_d, STUB.ids


def make_world(vals, modes, fits, bounds, dcomp):
    from taurex.model import ForwardModel
    from taurex.spectrum import BaseSpectrum
    from taurex.optimizer import Optimizer

    class PModel(ForwardModel):
        def __init__(self):
            super().__init__('PModel')
            self.v = {}
            for n in MODEL_P:
                self.v[n] = vals[n]
                self.add_fittable_param(n, n, (lambda s, n=n: s.v[n]), (lambda s, x, n=n: s.v.__setitem__(n, x)),
                                        modes[n], fits[n], list(bounds[n]))
            for n in MODEL_D:
                self.add_derived_param(n, n, (lambda s: 1.0), dcomp[n])
            self._fitting_parameters = self.fitting_parameters()
            self._derived_parameters = self.derived_parameters()

        def build(self):
            pass

    class PObs(BaseSpectrum):
        def __init__(self):
            super().__init__('PObs')
            self.v = {}
            for n in OBS_P:
                self.v[n] = vals[n]
                self.add_fittable_param(n, n, (lambda s, n=n: s.v[n]), (lambda s, x, n=n: s.v.__setitem__(n, x)),
                                        modes[n], fits[n], list(bounds[n]))
            for n in OBS_D:
                self.add_derived_param(n, n, (lambda s: 2.0), dcomp[n])

        def create_binner(self):
            from taurex.binning import NativeBinner
            return NativeBinner()
        spectrum = property(lambda s: np.ones(3))
        wavenumberGrid = property(lambda s: np.array([1., 2., 3.]))
        errorBar = property(lambda s: np.ones(3))

    m, o = PModel(), PObs()
    return m, o, Optimizer('verif', observed=o, model=m)


def current(world, N):
    """every fitting parameter's current value, read through its own getter"""
    m, o, _ = world
    return [m.fittingParameters[n][2]() for n in N.model_p] + [o.fittingParameters[n][2]() for n in N.obs_p]


def make_real_world(rng, spec=None):
    """a real forward model (parameters collected from planet, star, pressure, temperature, chemistry and
    contributions by collect_fitting_parameters) and an observation with a parameter of its own"""
    import tmodel
    import c06
    from taurex.optimizer import Optimizer
    if spec is None:
        spec = tmodel.gen_spec(rng, ngas=2, contribs=['Absorption'] + (['SimpleClouds'] if rng.random() < 0.5 else []),
                               nlayers=3, nwn=3)
        spec['T'] = [rng.uniform(500, 2000)]
        for g in spec['gases']:
            if spec['mix'][g] <= 0:                 # a log-mode parameter needs a positive value to have a log-space view
                spec['mix'][g] = 10 ** rng.uniform(-8, -2)
    model = tmodel.build(spec)
    wl = np.array([2.0, 3.0, 4.0])
    obs = c06.scaled_spectrum_class()(np.vstack([wl, np.full(3, 1e-2), np.full(3, 1e-4)]).T)
    # two names for one quantity (planet_distance / planet_sma): writing one necessarily changes the other, so only the
    # first name of such a group takes part in the histories (the others stay in the model, never enabled)
    mp = list(model.fittingParameters)
    alias = set()
    for a in mp:
        if a in alias:
            continue
        fa = model.fittingParameters[a]
        v0 = fa[2]()
        others = {b: model.fittingParameters[b][2]() for b in mp if b != a}
        fa[3](v0 * 1.25 if v0 else 0.5)
        for b, vb in others.items():
            if model.fittingParameters[b][2]() != vb:
                alias.add(b)
        fa[3](v0)
    N = Names([n for n in mp if n not in alias], list(obs.fittingParameters), list(model.derivedParameters),
              list(obs.derivedParameters))
    fp = dict(model.fittingParameters)
    fp.update(obs.fittingParameters)
    dp = dict(model.derivedParameters)
    dp.update(obs.derivedParameters)
    vals = {n: Fr(float(fp[n][2]())) for n in N.params}
    modes = {n: fp[n][4] for n in N.params}
    fits = {n: bool(fp[n][5]) for n in N.params}
    bounds = {n: (Fr(float(fp[n][6][0])), Fr(float(fp[n][6][1]))) for n in N.params}
    dcomp = {n: bool(dp[n][3]) for n in N.derived}
    return (model, obs, Optimizer('verif', observed=obs, model=model)), N, (vals, modes, fits, bounds, dcomp), spec


def fr(x):
    return Fr(x).limit_denominator(10 ** 6)


def qlit(f):
    return '(Qmake %s %d)' % (C.zlit(f.numerator), f.denominator)


def gen_history(rng, N=STUB, init=None):
    names = N.params
    if init is not None:
        vals, modes, fits, bounds, dcomp = init
        negp = None
        nonpos = [n for n in names if vals[n] <= 0]          # no log-space view of a non-positive value
    else:
        vals = {n: fr(rng.choice([0.5, 2, 10, 150, 1500]) * rng.choice([1, 1, 3])) for n in names}
        modes = {n: rng.choice(['linear', 'log']) for n in names}
        fits = {n: rng.random() < 0.3 for n in names}
        bounds = {n: (fr(10 ** rng.randint(-3, 1)), fr(10 ** rng.randint(2, 5))) for n in names}
        dcomp = {n: rng.random() < 0.3 for n in N.derived}
        # one parameter may hold a negative value (an offset, say): it stays in linear mode with linear priors, since a
        # log-space view of a negative value has no meaning
        negp = rng.choice(names) if rng.random() < 0.3 else None
        if negp:
            vals[negp] = -vals[negp]
            modes[negp] = 'linear'
        nonpos = [negp] if negp else []
    ops = []
    nfit_guess = 3
    for _ in range(rng.randint(0, 40)):
        k = rng.choice(['enable_fit', 'enable_fit', 'disable_fit', 'set_mode', 'set_boundary', 'set_factor_boundary',
                        'set_prior', 'enable_derived', 'disable_derived', 'compile', 'compile', 'update'])
        n = rng.choice(names) if rng.random() > 0.06 else 'zz'
        if k == 'set_factor_boundary' and any(o_[0] == 'update' for o_ in ops):
            k = 'set_boundary'     # factor bounds need a plain (not 10**x) current value in the symbolic model
        if k in ('enable_fit', 'disable_fit'):
            ops.append((k, n))
        elif k == 'set_mode':
            ops.append((k, n, 'linear' if n in nonpos else rng.choice(['linear', 'log'])))
        elif k == 'set_boundary':
            lo, hi = fr(10 ** rng.randint(-4, 1)), fr(10 ** rng.randint(2, 6))
            ops.append((k, n, lo, hi))
        elif k == 'set_factor_boundary':
            ops.append((k, n, fr(rng.choice([0.1, 0.5, 0.9])), fr(rng.choice([1.1, 2, 10]))))
        elif k == 'set_prior':
            lo, hi = fr(rng.randint(-3, 1)), fr(rng.randint(2, 6))
            ops.append((k, n, (rng.random() < 0.5) and n not in nonpos, lo, hi))
        elif k in ('enable_derived', 'disable_derived'):
            dn = rng.choice(N.derived) if (rng.random() > 0.06 and N.derived) else 'zz'
            ops.append((k, dn))
        elif k == 'compile':
            ops.append((k,))
        else:
            ln = rng.choice([None, None, None, rng.randint(0, 6)])
            # positive values: a later log-space prior on a non-positive value is outside any sensible use
            ops.append((k, ln, [fr(rng.choice([0.25, 0.5, 1.5, 2.5, 3.5])) for _ in range(8)]))
    return vals, modes, fits, bounds, dcomp, ops


def vv_float(tag, f):
    x = float(f)
    return x if tag == 0 else (10 ** x if tag == 1 else math.log10(x))


def run_impl(world, ops, N=STUB):
    """apply ops to the real optimizer; returns per op (rc, snapshot dict) and the Coq op literals"""
    from taurex.core.priors import Uniform, LogUniform, PriorMode
    m, o, opt = world
    IDS = N.ids
    prior_objs = {}
    records, lits = [], []
    ncomp = 0
    for op in ops:
        k = op[0]
        rc = 0
        act = None
        if k == 'enable_fit':
            lit, act = 'EnableFit %d' % IDS[op[1]], (lambda: opt.enable_fit(op[1]))
        elif k == 'disable_fit':
            lit, act = 'DisableFit %d' % IDS[op[1]], (lambda: opt.disable_fit(op[1]))
        elif k == 'set_mode':
            lit, act = 'SetMode %d %s' % (IDS[op[1]], C.boollit(op[2] == 'log')), (lambda: opt.set_mode(op[1], op[2]))
        elif k == 'set_boundary':
            lit = 'SetBoundary %d %s %s' % (IDS[op[1]], qlit(op[2]), qlit(op[3]))
            act = (lambda: opt.set_boundary(op[1], [float(op[2]), float(op[3])]))
        elif k == 'set_factor_boundary':
            lit = 'SetFactorBoundary %d %s %s' % (IDS[op[1]], qlit(op[2]), qlit(op[3]))
            act = (lambda: opt.set_factor_boundary(op[1], [float(op[2]), float(op[3])]))
        elif k == 'set_prior':
            tag = len(prior_objs) + 1
            pr = (LogUniform if op[2] else Uniform)(bounds=[float(op[3]), float(op[4])])
            prior_objs[id(pr)] = (tag, pr)
            lit = 'SetPrior %d (mkprior %s %d %s %s)' % (IDS[op[1]], C.boollit(op[2]), tag, qlit(op[3]), qlit(op[4]))
            act = (lambda: opt.set_prior(op[1], pr))
        elif k == 'enable_derived':
            lit, act = 'EnableDerived %d' % IDS[op[1]], (lambda: opt.enable_derived(op[1]))
        elif k == 'disable_derived':
            lit, act = 'DisableDerived %d' % IDS[op[1]], (lambda: opt.disable_derived(op[1]))
        elif k == 'compile':
            lit, act = 'Compile', opt.compile_params
            ncomp += 1
        else:
            ln = op[1] if op[1] is not None else len(opt.fitting_parameters)
            vs = op[2][:ln] + [Fr(1)] * max(0, ln - len(op[2]))
            lit = 'UpdateModel %s' % C.clist(['(VRaw %s)' % qlit(v) for v in vs])
            act = (lambda: opt.update_model([float(v) for v in vs]))
        try:
            act()
        except KeyError:
            rc = 1
        except ValueError:
            rc = 2
        snap = dict(rc=rc, vals=current(world, N))
        if k == 'compile' and rc == 0:
            pri = []
            for p in opt.fitting_priors:
                tag = prior_objs.get(id(p), (0, None))[0]
                pri.append((1 if p.priorMode is PriorMode.LOG else 0, tag, p.boundaries()))
            snap.update(names=list(opt.fit_names), values=list(opt.fit_values),
                        bounds=[tuple(b) for b in opt.fit_boundaries], priors=pri,
                        derived=list(opt.derived_names))
        records.append(snap)
        lits.append(lit)
    return records, lits, ncomp


def lit_for_failed(op):
    """Coq literal for an op (needed even when the implementation raised before we built it)"""
    return None


def compare(op, snap, row, N=STUB):
    IDS = N.ids
    rc = row[0][0]
    if rc != snap['rc']:
        return 'result kind: impl %d model %d' % (snap['rc'], rc)
    av = row[6]
    mv = [vv_float(av[3 * i], Fr(av[3 * i + 1], av[3 * i + 2])) for i in range(len(av) // 3)]
    if not np.allclose(mv, [float(x) for x in snap['vals']], rtol=1e-12):
        return 'parameter values: impl %r model %r' % ([float(x) for x in snap['vals']], mv)
    if 'names' in snap:
        nm = row[1]
        inv = {v: k for k, v in IDS.items()}
        model_names = [('log_' if nm[2 * i + 1] else '') + inv[nm[2 * i]] for i in range(len(nm) // 2)]
        if model_names != snap['names']:
            return 'fit_names: impl %r model %r' % (snap['names'], model_names)
        vs = row[2]
        model_vals = [vv_float(vs[3 * i], Fr(vs[3 * i + 1], vs[3 * i + 2])) for i in range(len(vs) // 3)]
        if not np.allclose(model_vals, snap['values'], rtol=1e-12):
            return 'fit_values: impl %r model %r' % (snap['values'], model_vals)
        bs = row[3]
        mb = []
        for i in range(len(bs) // 5):
            lo, hi = Fr(bs[5 * i + 1], bs[5 * i + 2]), Fr(bs[5 * i + 3], bs[5 * i + 4])
            mb.append((math.log10(lo), math.log10(hi)) if bs[5 * i] else (float(lo), float(hi)))
        if len(mb) != len(snap['bounds']) or not np.allclose(np.array(mb).ravel(), np.array(snap['bounds'], float).ravel(), rtol=1e-12):
            return 'fit_boundaries: impl %r model %r' % (snap['bounds'], mb)
        ps = row[4]
        mp = []
        for i in range(len(ps) // 6):
            sp, tag = ps[6 * i], ps[6 * i + 1]
            lo, hi = Fr(ps[6 * i + 2], ps[6 * i + 3]), Fr(ps[6 * i + 4], ps[6 * i + 5])
            if tag == 0 and sp == 1:      # default LogUniform(lin_bounds)
                b = (math.log10(min(lo, hi)), math.log10(max(lo, hi)))
            else:
                b = (float(min(lo, hi)), float(max(lo, hi)))
            mp.append((sp, tag, b))
        if len(mp) != len(snap['priors']):
            return 'number of priors'
        for a, b in zip(snap['priors'], mp):
            if a[0] != b[0] or a[1] != b[1] or not np.allclose(a[2], b[2], rtol=1e-12):
                return 'fitting_priors: impl %r model %r' % (snap['priors'], mp)
        inv = {v: k for k, v in IDS.items()}
        if [inv[d] for d in row[5]] != snap['derived']:
            return 'derived_names: impl %r model %r' % (snap['derived'], [inv[d] for d in row[5]])
    return None


def state_lit(vals, modes, fits, bounds, dcomp, N=STUB):
    IDS = N.ids
    ps = ['mkp %d %s %s %s %s %s %s' % (IDS[n], C.boollit(n in N.obs_p), C.boollit(modes[n] == 'log'),
                                       C.boollit(fits[n]), qlit(bounds[n][0]), qlit(bounds[n][1]), qlit(vals[n]))
          for n in N.params]
    ds = ['mkd %d %s %s' % (IDS[n], C.boollit(n in N.obs_d), C.boollit(dcomp[n])) for n in N.derived]
    return '(mkstate %s %s)' % (C.clist(['(%s)' % p for p in ps]), C.clist(['(%s)' % d for d in ds]))


def run(ctx):
    rng = ctx.rng
    exprs, metas = [], []
    for i in range(ctx.n(500, 4000)):
        vals, modes, fits, bounds, dcomp, ops = gen_history(rng)
        fl = lambda d: {k: float(v) for k, v in d.items()}
        world = make_world(fl(vals), modes, fits, {k: (float(a), float(b)) for k, (a, b) in bounds.items()}, dcomp)
        rp = dict(vals=vals, modes=modes, fits=fits, bounds=bounds, dcomp=dcomp, ops=ops)
        try:
            records, lits, ncomp = run_impl(world, ops)
        except Exception as e:
            import traceback
            ctx.violation('impl-raises:' + type(e).__name__, 'optimizer raised %r\n%s' % (e, traceback.format_exc()[-600:]),
                          replay=rp)
            continue
        # ---- property oracles on the implementation
        m, o, opt = world
        try:
            opt.compile_params()
            before = [m.v[n] for n in MODEL_P] + [o.v[n] for n in OBS_P]
            opt.update_model(opt.fit_values)
            after = [m.v[n] for n in MODEL_P] + [o.v[n] for n in OBS_P]
            if not np.allclose(before, after, rtol=1e-12):
                ctx.violation('write-back', 'writing the reported fit_values back changed the parameters: %r -> %r'
                              % (before, after), replay=rp)
            # same settings reached by a fresh optimizer: same views
            cur_modes = {n: (m if n in MODEL_P else o).fittingParameters[n][4] for n in MODEL_P + OBS_P}
            cur_fits = {n: (m if n in MODEL_P else o).fittingParameters[n][5] for n in MODEL_P + OBS_P}
            cur_bounds = {n: tuple((m if n in MODEL_P else o).fittingParameters[n][6]) for n in MODEL_P + OBS_P}
            cur_vals = {n: (m if n in MODEL_P else o).v[n] for n in MODEL_P + OBS_P}
            cur_d = {n: (m if n in MODEL_D else o).derivedParameters[n][3] for n in MODEL_D + OBS_D}
            w2 = make_world(cur_vals, cur_modes, cur_fits, cur_bounds, cur_d)
            for n, pr in opt._user_priors.items():
                w2[2].set_prior(n, pr)
            w2[2].compile_params()
            same = (w2[2].fit_names == opt.fit_names and np.allclose(w2[2].fit_values, opt.fit_values, rtol=1e-12)
                    and np.allclose(np.array(w2[2].fit_boundaries, float).ravel(),
                                    np.array(opt.fit_boundaries, float).ravel(), rtol=1e-12)
                    and [type(p) for p in w2[2].fitting_priors] == [type(p) for p in opt.fitting_priors]
                    and all(np.allclose(a.boundaries(), b.boundaries(), rtol=1e-12)
                            for a, b in zip(w2[2].fitting_priors, opt.fitting_priors))
                    and w2[2].derived_names == opt.derived_names)
            if not same:
                ctx.violation('history-dependence', 'a fresh optimizer with the same settings compiles to different '
                              'views: %r vs %r' % (w2[2].fit_names, opt.fit_names), replay=rp)
        except Exception as e:
            ctx.violation('oracle-raises:' + type(e).__name__, 'compile/update on the final state raised %r' % (e,),
                          replay=rp)
        exprs.append('run_history %s %s' % (state_lit(vals, modes, fits, bounds, dcomp),
                                            C.clist(['(%s)' % l for l in lits])))
        nupd = sum(1 for op in ops if op[0] == 'update')
        metas.append(dict(records=records, ops=ops, rp=rp, nontriv=(ncomp >= 2 and nupd >= 1)))
        ctx.count('len:%d' % (len(ops) // 10 * 10))
        for op in ops:
            ctx.count('op:' + op[0])
    # ---- the same histories on a real forward model: its parameters are collected from every component
    for i in range(ctx.n(60, 500)):
        try:
            world, N, init, spec = make_real_world(rng)
        except Exception as e:
            import traceback
            ctx.violation('real-world-raises', 'building a forward model and its optimizer raised %r\n%s'
                          % (e, traceback.format_exc()[-500:]), replay=dict(real_model=True))
            continue
        vals, modes, fits, bounds, dcomp, ops = gen_history(rng, N, init)
        rp = dict(real_model=True, spec=spec, parameters=N.params, derived=N.derived, ops=ops)
        try:
            records, lits, ncomp = run_impl(world, ops, N)
        except Exception as e:
            import traceback
            ctx.violation('impl-raises:real:' + type(e).__name__, 'optimizer on a real model raised %r\n%s'
                          % (e, traceback.format_exc()[-600:]), replay=rp)
            continue
        opt = world[2]
        try:
            opt.compile_params()
            before = current(world, N)
            opt.update_model(opt.fit_values)
            after = current(world, N)
            if not np.allclose(before, after, rtol=1e-12):
                ctx.violation('write-back', 'real model: writing the reported fit_values back changed the parameters: '
                              '%r -> %r' % (dict(zip(N.params, before)), dict(zip(N.params, after))), replay=rp)
        except Exception as e:
            ctx.violation('oracle-raises:real:' + type(e).__name__, 'compile/update on the final state raised %r' % (e,),
                          replay=rp)
        exprs.append('run_history %s %s' % (state_lit(vals, modes, fits, bounds, dcomp, N),
                                            C.clist(['(%s)' % l for l in lits])))
        nupd = sum(1 for op in ops if op[0] == 'update')
        metas.append(dict(records=records, ops=ops, rp=rp, nontriv=(ncomp >= 2 and nupd >= 1), N=N))
        ctx.count('real-model histories')
    for mt, r in zip(metas, C.run_cases('C07', HEADER, exprs, shard=50)):
        bad = None
        for j, (op, snap, row) in enumerate(zip(mt['ops'], mt['records'], r)):
            b = compare(op, snap, row, mt.get('N', STUB))
            if b:
                bad = 'op %d %r: %s' % (j, op[:2], b)
                break
        ctx.case(('real' if 'N' in mt else '') + repr(mt['ops'])[:400], nontrivial=mt['nontriv'],
                 sample=[list(map(str, op))[:4] for op in mt['ops'][:6]])
        if bad:
            ctx.violation('correspondence:optimizer', 'state machine model/implementation disagree: ' + bad,
                          replay=mt['rp'], no_input=not any(v['signature'] in ('write-back', 'history-dependence')
                                                            for v in ctx.violations))
        else:
            ctx.validated()


def replay(ctx, obj):
    ctx.notes.append('replay re-runs the whole deterministic check with the stored seed')
    run(ctx)
