"""C13 — restricting the spectral grid never changes the values computed on it."""
import math

import numpy as np

import common as C
import tmodel

META = dict(
    rule='(i) clip_native_to_wngrid on random native/observation grids; (ii) Opacity.opacity and KTable.opacity '
         '(every quadrature column) on their own points, '
         'sub-ranges, and foreign grids (finer, coarser, partly or wholly outside, between two native points); '
         '(iii) transmission and emission models with two molecules on different native grids evaluated on the '
         'full grid, on sub-ranges, on windows whose clipped size coincides with another table / the layer count, and '
         'restricted to an observation, compared point by point, in cross-section and correlated-k mode; binning of the '
         'restricted and of the full result under the property\'s width condition; non-trivial = the restricted '
         'grid is a strict subset with >= 2 points',
    trusted=['the (T,P)-interpolated opacity on the molecule\'s full native grid is observed and handed to the '
             'rational model of the grid selection / interpolation onto the requested grid'],
    modelled=['clip_native_to_wngrid, Opacity.opacity / KTable.opacity grid selection (filter, equality test, '
              'bracketing, np.interp / interp1d with end-value fill), '
              'SimpleForwardModel.nativeWavenumberGrid'],
    assumptions=['ascending native grids; the binning clause: C13_binning_local proves that the overlap-weighted mean of '
                 'a bin depends only on the native bins overlapping it (through overlap and value); that the clip and '
                 'the width condition provide its premises is evaluated numerically on every instance and counted in the '
                 'evidence, not proved',
                 'tolerance 1e-12 relative (exact rational model) for opacities, exp(-10) cut-off slack on spectra'],
)

HEADER = C.HEADER_Q + 'From TV Require Import Model_C13 Exec_C13.\n'


def qcmp(impl, res, rel=1e-12):
    got = np.array([float(C.q_out(x)) for x in res])
    impl = np.asarray(impl, float)
    if got.shape != impl.shape:
        return 'shape %r vs model %r' % (impl.shape, got.shape)
    if not np.allclose(got, impl, rtol=rel, atol=0):
        k = int(np.argmax(np.abs(got - impl)))
        return 'entry %d: impl %r model %r' % (k, impl[k], got[k])
    return None


def gen_grid(rng, n, lo=100.0, hi=5000.0):
    kind = rng.choice(['lin', 'log', 'irregular'])
    if kind == 'lin':
        return np.linspace(lo, hi, n)
    if kind == 'log':
        return np.logspace(math.log10(lo), math.log10(hi), n)
    return np.sort(np.array([rng.uniform(lo, hi) for _ in range(n)]))


def make_ktable(wn, kcoeff, nq):
    """a PickleKTable read back from a file written here (axes [P, T, wn, g])"""
    import os
    import pickle
    from taurex.opacity.ktables.picklektable import PickleKTable
    d = os.path.join(C.CACHE, 'c13_kt_%d' % os.getpid())
    os.makedirs(d, exist_ok=True)
    f = os.path.join(d, 'X.pickle')
    w = np.full(nq, 1.0 / nq)
    with open(f, 'wb') as fh:
        pickle.dump(dict(bin_centers=np.array(wn, float), ngauss=nq, t=np.array([100.0, 1000.0]),
                         p=np.array([1.0, 1e6]) / 1e5, kcoeff=np.array(kcoeff, float), weights=w, name='X'), fh)
    try:
        return PickleKTable(f)
    finally:
        import shutil
        shutil.rmtree(d, ignore_errors=True)


def make_request(rng, kind, ng, nn):
    if kind == 'own_all':
        return ng.copy()
    if kind == 'own_sub':
        i0 = rng.randrange(nn - 1)
        return ng[i0:rng.randrange(i0 + 1, nn) + 1].copy()
    if kind == 'finer':
        lo_, hi_ = sorted([rng.uniform(ng[0], ng[-1]), rng.uniform(ng[0], ng[-1])])
        return np.linspace(lo_, hi_ + 1e-3, rng.choice([4, 9, 25]))
    if kind == 'coarser':
        return np.linspace(ng[0] + rng.uniform(0, 50), ng[-1] - rng.uniform(0, 50), 3)
    if kind == 'partly_out':
        return np.linspace(ng[0] - rng.uniform(10, 500), ng[-1] + rng.uniform(10, 500), rng.choice([3, 7, 15]))
    if kind == 'out_left':
        return np.linspace(ng[0] - 500, ng[0] - 10, 4)
    if kind == 'out_right':
        return np.linspace(ng[-1] + 10, ng[-1] + 500, 4)
    if kind == 'between':
        j = rng.randrange(nn - 1)
        w = ng[j + 1] - ng[j]
        return np.array([ng[j] + 0.3 * w, ng[j] + 0.6 * w])
    return np.array([rng.uniform(ng[0], ng[-1])])


def foreign_own_ok(ctx, kind, ng, nn, vals, req, out, rp, what=''):
    """the property's last sentence on one column: own points unchanged, other points between the neighbours"""
    if kind.startswith('own'):
        idx = np.searchsorted(ng, req)
        if not np.array_equal(out, vals[idx]):
            ctx.violation('own-points', what + 'opacity on the molecule\'s own points differs from the native values',
                          replay=rp)
            return False
        return True
    for x, v in zip(req, out):
        j = int(np.clip(np.searchsorted(ng, x), 1, nn - 1))
        lo_v, hi_v = min(vals[j - 1], vals[j]), max(vals[j - 1], vals[j])
        if x <= ng[0]:
            lo_v = hi_v = vals[0]
        if x >= ng[-1]:
            lo_v = hi_v = vals[-1]
        if not (lo_v * (1 - 1e-12) <= v <= hi_v * (1 + 1e-12)):
            ctx.violation('foreign-points', what + 'opacity %r at %r not between the neighbouring native values '
                          '[%r, %r]' % (v, x, lo_v, hi_v), replay=rp)
            return False
    return True


def run(ctx):
    from taurex.util.util import clip_native_to_wngrid
    rng = ctx.rng
    Mem = tmodel.mem_opacity_class()
    e1, m1, e2, m2, e3, m3 = [], [], [], [], [], []
    for i in range(ctx.n(120, 1000)):
        # ---- clip
        native = gen_grid(rng, rng.choice([5, 12, 30, 60]))
        a = rng.uniform(0, 6000)
        obs = np.sort(np.array([rng.uniform(a, a + rng.uniform(50, 3000)) for _ in range(rng.choice([2, 3, 5, 9]))]))
        if rng.random() < 0.3:
            obs = obs[::-1].copy()
        out = clip_native_to_wngrid(native, obs)
        e1.append('run_clip %s %s' % (C.qlist(native), C.qlist(obs)))
        m1.append(dict(out=out, rp=dict(kind='clip', native=native, obs=obs), n=len(out), tot=len(native)))
        # ---- opacity on requested grids
        nn = rng.choice([3, 5, 9, 17])
        ng = gen_grid(rng, nn)
        tab = 10 ** (-22 + np.array([rng.uniform(-2, 2) for _ in range(2 * 2 * nn)]).reshape(2, 2, nn))
        nq = 0
        if rng.random() < 0.3:
            # the same request served by a k-table (KTable.opacity): every quadrature column is selected / interpolated
            # like a cross-section
            nq = rng.choice([1, 2, 4])
            tab = tab[..., None] * 10 ** np.array([rng.uniform(-1, 1) for _ in range(tab.size * nq)]).reshape(tab.shape + (nq,))
            op = make_ktable(ng, tab, nq)
        else:
            op = Mem('X', [100.0, 1000.0], [1.0, 1e6], tab, ng)
        T, P = rng.uniform(150, 900), 10 ** rng.uniform(0.5, 5.5)
        vals = np.array(op.opacity(T, P))
        if nq:
            ctx.count('req:ktable')
            rp_k = dict(kind='kopacity', native=ng, tab=tab, T=T, P=P)
            kinds = ['own_all', 'own_sub', 'finer', 'coarser', 'partly_out', 'out_left', 'out_right', 'between', 'single']
            kind = rng.choice(kinds)
            req = make_request(rng, kind, ng, nn)
            rp = dict(rp_k, req=req, reqkind=kind)
            try:
                with np.errstate(all='ignore'):
                    out = np.array(op.opacity(T, P, req))
            except Exception as e:
                ctx.violation('kopacity-raises:' + kind, 'KTable.opacity raised %r on a %s grid' % (e, kind), replay=rp)
                continue
            if out.shape != (len(req), nq):
                ctx.violation('kopacity-shape', 'KTable.opacity returned shape %r for %d points and %d quadrature '
                              'points' % (out.shape, len(req), nq), replay=rp)
                continue
            for q in range(nq):
                if not foreign_own_ok(ctx, kind, ng, nn, vals[:, q], req, out[:, q], rp, 'k-table '):
                    break
                e2.append('run_opacity_on %s %s %s' % (C.qlist(ng), C.qlist(vals[:, q]), C.qlist(req)))
                m2.append(dict(out=out[:, q], rp=rp, kind='k:' + kind))
            continue
        kind = rng.choice(['own_all', 'own_sub', 'finer', 'coarser', 'partly_out', 'out_left', 'out_right', 'between',
                           'single'])
        if kind == 'own_all':
            req = ng.copy()
        elif kind == 'own_sub':
            i0 = rng.randrange(nn - 1)
            req = ng[i0:rng.randrange(i0 + 1, nn) + 1].copy()
        elif kind == 'finer':
            lo_, hi_ = sorted([rng.uniform(ng[0], ng[-1]), rng.uniform(ng[0], ng[-1])])
            req = np.linspace(lo_, hi_ + 1e-3, rng.choice([4, 9, 25]))
        elif kind == 'coarser':
            req = np.linspace(ng[0] + rng.uniform(0, 50), ng[-1] - rng.uniform(0, 50), 3)
        elif kind == 'partly_out':
            req = np.linspace(ng[0] - rng.uniform(10, 500), ng[-1] + rng.uniform(10, 500), rng.choice([3, 7, 15]))
        elif kind == 'out_left':
            req = np.linspace(ng[0] - 500, ng[0] - 10, 4)
        elif kind == 'out_right':
            req = np.linspace(ng[-1] + 10, ng[-1] + 500, 4)
        elif kind == 'between':
            j = rng.randrange(nn - 1)
            w = ng[j + 1] - ng[j]
            req = np.array([ng[j] + 0.3 * w, ng[j] + 0.6 * w])
        else:
            req = np.array([rng.uniform(ng[0], ng[-1])])
        rp = dict(kind='opacity', native=ng, tab=tab, T=T, P=P, req=req, reqkind=kind)
        try:
            with np.errstate(all='ignore'):
                out = np.array(op.opacity(T, P, req))
        except Exception as e:
            ctx.violation('opacity-raises:' + kind, 'Opacity.opacity raised %r on a %s grid' % (e, kind), replay=rp)
            continue
        # property oracle: own points unchanged, foreign points between the neighbouring native values
        if kind.startswith('own'):
            idx = np.searchsorted(ng, req)
            if not np.array_equal(out, vals[idx]):
                ctx.violation('own-points', 'opacity on the molecule\'s own points differs from the native values',
                              replay=rp)
        else:
            for x, v in zip(req, out):
                j = int(np.clip(np.searchsorted(ng, x), 1, nn - 1))
                lo_v, hi_v = min(vals[j - 1], vals[j]), max(vals[j - 1], vals[j])
                if x <= ng[0]:
                    lo_v = hi_v = vals[0]
                if x >= ng[-1]:
                    lo_v = hi_v = vals[-1]
                if not (lo_v * (1 - 1e-12) <= v <= hi_v * (1 + 1e-12)):
                    ctx.violation('foreign-points', 'opacity %r at %r not between the neighbouring native values '
                                  '[%r, %r]' % (v, x, lo_v, hi_v), replay=rp)
                    break
        e2.append('run_opacity_on %s %s %s' % (C.qlist(ng), C.qlist(vals), C.qlist(req)))
        m2.append(dict(out=out, rp=rp, kind=kind))
        ctx.count('req:' + kind)
    for mt, r in zip(m1, C.run_cases('C13_clip', HEADER, e1, shard=60)):
        bad = qcmp(mt['out'], r)
        ctx.case(('clip', mt['n'], mt['tot'], float(mt['rp']['obs'][0])), nontrivial=0 < mt['n'] < mt['tot'])
        if bad:
            ctx.violation('correspondence:clip', 'clip_native_to_wngrid: ' + bad, replay=mt['rp'], no_input=True)
        else:
            ctx.validated()
    for mt, r in zip(m2, C.run_cases('C13_op', HEADER, e2, shard=60)):
        bad = qcmp(mt['out'], r, rel=1e-11)
        ctx.case(('opacity', mt['kind'], float(mt['rp']['T']), float(mt['rp']['req'][0])),
                 nontrivial=mt['kind'] not in ('own_all',),
                 sample=dict(kind=mt['kind'], native=mt['rp']['native'][:4], req=mt['rp']['req'][:4], out=mt['out'][:3]))
        if bad:
            ctx.violation('correspondence:opacity_on', 'Opacity.opacity(%s): %s' % (mt['kind'], bad), replay=mt['rp'],
                          no_input=True)
        else:
            ctx.validated()
    native_choice(ctx, rng)
    models(ctx, rng)
    narrow_window(ctx, rng)
    irregular_native_binning(ctx)


def native_choice(ctx, rng):
    exprs, metas = [], []
    for i in range(ctx.n(15, 80)):
        spec = two_grid_spec(rng, tie=rng.random() < 0.4)
        model = tmodel.build(spec)
        got = np.array(model.nativeWavenumberGrid)
        order = list(model.chemistry.activeGases)
        exprs.append('run_native %s' % C.clist([C.qlist(spec['opac'][g]['wn']) for g in order]))
        metas.append(dict(got=got, rp=dict(kind='native', spec=spec)))
    for mt, r in zip(metas, C.run_cases('C13_native', HEADER, exprs, shard=20)):
        bad = qcmp(mt['got'], r)
        ctx.case(('native', len(mt['got']), float(mt['got'][0])))
        if bad:
            ctx.violation('correspondence:native_grid', 'nativeWavenumberGrid: ' + bad, replay=mt['rp'], no_input=True)
        else:
            ctx.validated()


def two_grid_spec(rng, tie=False):
    spec = tmodel.gen_spec(rng, ngas=2, contribs=['Absorption'] + (['Rayleigh'] if rng.random() < 0.3 else []),
                           nlayers=rng.choice([2, 3, 5, 8]))
    na = rng.choice([20, 40, 80])
    nb = na if tie else rng.choice([6, 11, 19])
    grids = [gen_grid(rng, na, 300, 4000), gen_grid(rng, nb, rng.uniform(100, 600), rng.uniform(3000, 6000))]
    base = {'transparent': -60, 'thin': -29, 'mid': -25, 'thick': -22, 'saturated': -19}[spec['level']]
    for g, wn in zip(spec['gases'], grids):
        tab = 10 ** (base + np.array([rng.uniform(-1.5, 1.5) for _ in range(9 * len(wn))]).reshape(3, 3, len(wn)))
        spec['opac'][g] = dict(Tg=np.array([100.0, 1000.0, 4000.0]), Pg=np.array([1e-3, 1e2, 1e8]), tab=tab, wn=wn)
    spec['wn'] = grids[0]
    spec['T'] = [rng.uniform(500, 2000) for _ in range(spec['nlayers'])]
    return spec


IRREGULAR_SIG = 'binning:native-bin-edges-not-monotone'
IRREGULAR_WHAT = ('binning the restricted result differs from binning the full result when the native grid is so '
                  'irregular that its bins (centre +/- half the mid-point width, as FluxBinner.bindown builds them) have '
                  'non-monotone edges: the binner locates the contributing native bins by binary search on those edges, '
                  'so the bins it averages depend on the layout of the whole array')


def edges_monotone(g):
    """the native bins FluxBinner derives from a grid without explicit widths have ascending lower and upper edges"""
    from taurex.util.util import compute_bin_edges
    g = np.asarray(g, float)
    w = compute_bin_edges(g)[-1]
    return bool(np.all(np.diff(g - w / 2) >= 0) and np.all(np.diff(g + w / 2) >= 0))


def irregular_native_binning(ctx):
    """a fixed, model-free demonstration of the known finding (independent of VERIF_SEED), and its converse as an
    oracle: with monotone native bin edges the binning clause holds on the binner alone"""
    import random
    from taurex.binning import FluxBinner
    from taurex.util.util import clip_native_to_wngrid
    rng = random.Random(12345)
    shown = False
    for t in range(1200):
        n = rng.choice([40, 80])
        g = np.sort(np.array([rng.uniform(300, 4000) for _ in range(n)]))
        if t % 3 == 0:
            g = np.logspace(math.log10(g[0]), math.log10(g[-1]), n)       # a regular grid: monotone edges
        f = 1e-3 * np.exp(-g / 3000.0)
        obs = np.linspace(rng.uniform(g[0], g[n // 3]), rng.uniform(g[2 * n // 3], g[-1]), rng.choice([3, 4, 6]))
        if not (np.max(np.diff(g)) < 0.5 * np.min(np.diff(obs)) / 2):
            continue
        gr = clip_native_to_wngrid(g, obs)
        idx = np.searchsorted(g, gr)
        b = FluxBinner(obs)
        with np.errstate(all='ignore'):
            b1, b2 = b.bindown(gr, f[idx])[1], b.bindown(g, f)[1]
        same = np.allclose(b1, b2, rtol=1e-9, atol=0, equal_nan=True)
        mono = edges_monotone(g) and edges_monotone(gr)
        rp = dict(kind='binner-only', native=g, observation=obs)
        if mono:
            ctx.case(('binner-only', t), nontrivial=len(gr) < len(g))
            if not same:
                ctx.violation('binning', 'flux binner alone, native bin edges monotone: binning the clipped grid %r '
                              'differs from binning the full grid %r' % (b1, b2), replay=rp)
            else:
                ctx.validated()
        elif not same and not shown:
            shown = True
            ctx.case(('binner-only-irregular', t))
            ctx.violation(IRREGULAR_SIG, IRREGULAR_WHAT + ' (fixed instance: %d irregular native points, %d observation '
                          'bins: %r vs %r)' % (n, len(obs), b1, b2), replay=rp)


def size_matched_window(rng, grid, m):
    """a requested grid (a run of native points) that clip_native_to_wngrid turns into exactly m native points"""
    from taurex.util.util import clip_native_to_wngrid
    if not 2 <= m < len(grid):
        return None
    starts = list(range(0, len(grid) - 1))
    rng.shuffle(starts)
    for s0 in starts[:12]:
        for ln in range(m, 1, -1):
            w = grid[s0:s0 + ln]
            if len(w) >= 2 and len(clip_native_to_wngrid(grid, w)) == m:
                return w
    return None


def narrow_window(ctx, rng):
    """every run: a band that is opaque at all but two of 3000 native wavenumbers (optical depth 30 in the calibrated layer,
    3.5 in the window), a second source with optical depth ~1 there, and a request restricted to a few points around the
    window. The licensed cut-off is per layer 'at every wavenumber', so it must not depend on how many opaque points
    surround the window: the restricted run and the full run agree at the points they share."""
    for k in range(ctx.n(2, 10)):
        spec = tmodel.gen_spec(rng, ngas=1, contribs=['Absorption', 'CIA'], nlayers=rng.choice([4, 5, 6]), nwn=8)
        g = spec['gases'][0]
        if spec['mix'][g] <= 0:
            spec['mix'][g] = 1e-4
        spec.pop('mixarr', None)
        nw = 3000
        wn = np.linspace(rng.uniform(300, 2000), rng.uniform(20000, 30000), nw)
        o = spec['opac'][g]
        s0 = float(np.median(np.array(o['tab'])[np.array(o['tab']) > 0])) if np.any(np.array(o['tab']) > 0) else 1e-22
        c0 = float(np.median(np.abs(np.array(spec['cia']['xsec'])))) or 1e-45
        shape = np.array(o['tab']).shape[:-1]
        spec['wn'] = wn
        spec['cia'] = dict(spec['cia'], extra=[])
        lstar = spec['nlayers'] // 2
        ta = tc = None
        for _ in range(8):          # calibrate the two constant cross-sections on the layer lstar
            spec['opac'][g] = dict(o, wn=wn, tab=np.full(shape + (nw,), s0))
            spec['cia']['xsec'] = np.full(nw, c0)
            m = tmodel.build(spec)
            with np.errstate(all='ignore'):
                _, cd = m.model_contrib()
            tr = {type(c).__name__: np.array(cd[c.name][1])[lstar, 0] for c in m.contribution_list}
            ta = -math.log(tr['AbsorptionContribution']) if 0 < tr['AbsorptionContribution'] < 1 else None
            tc = -math.log(tr['CIAContribution']) if 0 < tr['CIAContribution'] < 1 else None
            if ta is not None and tc is not None and 1e-6 < ta < 500 and 1e-6 < tc < 500:
                break
            if ta is None or not (1e-6 < ta < 500):
                s0 *= 1e-3 if tr['AbsorptionContribution'] <= 0 or (ta or 0) >= 500 else 1e3
            if tc is None or not (1e-6 < tc < 500):
                c0 *= 1e-3 if tr['CIAContribution'] <= 0 or (tc or 0) >= 500 else 1e3
        else:
            ctx.count('narrow window: calibration failed')
            continue
        j = rng.randrange(100, nw - 100)
        sig = np.full(nw, s0 * 30.0 / ta)
        sig[j:j + 2] = s0 * 3.5 / ta
        spec['opac'][g] = dict(o, wn=wn, tab=np.broadcast_to(sig, shape + (nw,)).copy())
        spec['cia']['xsec'] = np.full(nw, c0 * 1.0 / tc)
        rp = dict(kind='narrow-window', spec=spec, window=[j, j + 2])
        model = tmodel.build(spec)
        with np.errstate(all='ignore'):
            full = model.model()
            part = model.model(wngrid=wn[j - 3:j + 5], cutoff_grid=True)
        grid = np.array(full[0])
        g2 = np.array(part[0])
        idx = np.searchsorted(grid, g2)
        ctx.case(('narrow-window', k, j, len(g2)), nontrivial=True)
        ctx.count('narrow transparent window in an opaque band (3000 points)')
        if not (np.all(idx < len(grid)) and np.array_equal(grid[np.minimum(idx, len(grid) - 1)], g2)):
            ctx.violation('restricted-grid', 'restricted grid is not a sub-set of the native grid', replay=rp)
            continue
        Rp, Rs = model.planet.fullRadius, model.star.radius
        slack = math.exp(-10) * float(np.sum(2 * (Rp + model.altitudeProfile) * model.deltaz)) / Rs ** 2
        d = np.abs(np.array(part[1]) - np.array(full[1])[idx])
        if np.any(d > slack + 1e-9 * np.abs(np.array(full[1])[idx])):
            q = int(np.argmax(d))
            ctx.violation('restriction', 'value at wavenumber %r (a transparent window of two points in a band of %d opaque '
                          'ones) differs between the restricted run (%r) and the full run (%r) by more than the cut-off '
                          'licence %.3g' % (g2[q], nw, part[1][q], np.array(full[1])[idx][q], slack), replay=rp)
        else:
            ctx.validated()
    tmodel.reset_caches()


def models(ctx, rng):
    from taurex.binning import FluxBinner
    for i in range(ctx.n(25, 200)):
        spec = two_grid_spec(rng)
        em = rng.random() < 0.4
        rp = dict(kind='model', spec=spec, emission=em)
        kdir = None
        if rng.random() < 0.3:
            # correlated-k mode: the same two molecules as k-tables on their own grids (KTable.opacity regrids them)
            import os
            kdir = os.path.join(C.CACHE, 'ktables_c13_%d' % os.getpid())
            nq = rng.choice([1, 2, 3])
            kw = np.array([rng.uniform(0.1, 1) for _ in range(nq)])
            kw = kw / kw.sum()
            kc = {}
            for g in spec['gases']:
                tab = np.array(spec['opac'][g]['tab'])
                kc[g] = tab[..., None] * 10 ** np.array(
                    [rng.uniform(-1, 1) for _ in range(tab.size * nq)]).reshape(tab.shape + (nq,))
            tmodel.write_ktables(spec, kdir, kw, kc)
            rp = dict(rp, ktables=dict(weights=kw, kcoeff=kc))
            ctx.count('model:ktables')
        model = tmodel.build(spec, emission=em, kdir=kdir)
        with np.errstate(all='ignore'):
            full = model.model()
        grid = np.array(full[0])
        # an observation satisfying the width condition: bins from mid-points, native finer than half a bin
        nobs = rng.choice([3, 4, 6])
        span_lo = rng.uniform(grid[0], grid[len(grid) // 3])
        span_hi = rng.uniform(grid[2 * len(grid) // 3], grid[-1])
        obs = np.linspace(span_lo, span_hi, nobs)
        with np.errstate(all='ignore'):
            res = model.model(wngrid=obs, cutoff_grid=True)
            sub = model.model(wngrid=grid[len(grid) // 4: 3 * len(grid) // 4], cutoff_grid=True)
        # windows whose clipped native grid has exactly as many points as something else in the model (another
        # molecule's table, the layers, the temperature / pressure grids): a restriction must not depend on such
        # coincidences of size
        extra = []
        sizes = sorted(set([len(spec['opac'][g]['wn']) for g in spec['gases']] + [spec['nlayers'], 3]))
        for m in sizes:
            w = size_matched_window(rng, grid, m)
            if w is not None:
                with np.errstate(all='ignore'):
                    extra.append(('size-%d' % m, model.model(wngrid=w, cutoff_grid=True)))
        slack = 0.0
        if not em:
            Rp, Rs = model.planet.fullRadius, model.star.radius
            slack = math.exp(-10) * float(np.sum(2 * (Rp + model.altitudeProfile) * model.deltaz)) / Rs ** 2
        for name, r in [('observation', res), ('sub-range', sub)] + extra:
            g2 = np.array(r[0])
            idx = np.searchsorted(grid, g2)
            ok_grid = np.all(idx < len(grid)) and np.array_equal(grid[np.minimum(idx, len(grid) - 1)], g2)
            ctx.case(('model', em, name, i, len(g2)), nontrivial=2 <= len(g2) < len(grid))
            if not ok_grid:
                ctx.violation('restricted-grid', 'restricted grid is not a sub-set of the native grid', replay=rp)
                continue
            tol = slack + 1e-9 * np.abs(full[1][idx]) + (math.exp(-10) * np.abs(full[1][idx]) if em else 0)
            if np.any(np.abs(np.array(r[1]) - full[1][idx]) > tol):
                k = int(np.argmax(np.abs(np.array(r[1]) - full[1][idx]) - tol))
                ctx.violation('restriction', 'value at wavenumber %r differs between the %s-restricted run (%r) and '
                              'the full run (%r)' % (g2[k], name, r[1][k], full[1][idx][k]), replay=rp)
            else:
                ctx.validated()
        # binning of the restricted result equals binning of the full result (width condition holds)
        fine = np.max(np.diff(grid)) < 0.5 * np.min(np.diff(obs)) / 2
        if fine:
            b = FluxBinner(obs)
            with np.errstate(all='ignore'):
                b1 = b.bin_model(res)[1]
                b2 = b.bin_model(full)[1]
            ctx.case(('bin', em, i))
            # premises of C13_binning_local, evaluated on this instance: the native rows of the full run that the
            # restricted run lacks have no overlap with any observation bin, and the rows both runs have overlap each
            # bin by the same amount (their mid-point widths differ only at the two ends of the restricted grid)
            from taurex.util.util import compute_bin_edges
            gfull, grest = np.array(full[0], float), np.array(res[0], float)
            wf, wr = compute_bin_edges(gfull)[-1], compute_bin_edges(grest)[-1]
            i0 = int(np.searchsorted(gfull, grest[0]))
            ow = np.sort(np.array(obs, float))
            oe = compute_bin_edges(ow)
            prem_ok = np.array_equal(gfull[i0:i0 + len(grest)], grest)
            for a_, b_ in zip(oe[0][:-1], oe[0][1:]):
                ovf = np.clip(np.minimum(gfull + wf / 2, b_) - np.maximum(gfull - wf / 2, a_), 0, None)
                ovr = np.clip(np.minimum(grest + wr / 2, b_) - np.maximum(grest - wr / 2, a_), 0, None)
                outside = np.ones(len(gfull), bool)
                outside[i0:i0 + len(grest)] = False
                if np.any(ovf[outside] > 0) or not np.allclose(ovf[~outside], ovr, rtol=1e-9, atol=1e-9 * float(b_ - a_)):
                    prem_ok = False
            ctx.count('binning: premises of C13_binning_local hold on the instance' if prem_ok else
                      'binning: premises of C13_binning_local NOT met on the instance (clause checked by the oracle only)')
            tol = slack + (1e-9 + (math.exp(-10) if em else 0)) * np.abs(b2)
            if np.any(np.abs(b1 - b2) > tol):
                if not (edges_monotone(gfull) and edges_monotone(grest)):
                    # known finding (see irregular_native_binning): not the restriction, the flux binner's window search
                    ctx.violation(IRREGULAR_SIG, IRREGULAR_WHAT + ' (here: binned restricted result %r, binned full '
                                  'result %r)' % (b1, b2), replay=rp)
                else:
                    ctx.violation('binning', 'binning the restricted result %r differs from binning the full result %r'
                                  % (b1, b2), replay=rp)
            else:
                ctx.validated()
        ctx.count('model:' + ('emission' if em else 'transmission'))
        if kdir is not None:
            import shutil
            shutil.rmtree(kdir, ignore_errors=True)
            tmodel.reset_caches()


def replay(ctx, obj):
    ctx.notes.append('replay re-runs the whole deterministic check with the stored seed')
    run(ctx)
