"""C19 — clouds and hazes act only inside their declared pressure range."""
import math

import numpy as np

import common as C
import tmodel
import c01

META = dict(
    rule='cloud decks / grey hazes / Lee hazes on random pressure grids (2..40 layers, log-uniform and irregular '
         'levels) with bounds inside, above, below the modelled range, unset (-1) and inverted; magnitudes 1e-30..1; '
         'particle sizes 0.01..10 um; plus full transmission models with and without the cloud deck; '
         'non-trivial = the window cuts through the grid (some but not all layers affected)',
    trusted=['numpy.log10 of level pressures and bounds is taken by the harness as the code takes it and handed to '
             'the rational model of the FlatMie window; Lee extinction law evaluated in interval arithmetic'],
    modelled=['SimpleCloudsContribution.prepare_each/contribute, FlatMieContribution.prepare_each, '
              'LeeMieContribution.prepare_each'],
    assumptions=['pressure levels strictly monotone; magnitudes >= 0'],
)

HEADER = C.HEADER_IV + 'From TV Require Import Model_C19 Exec_C19.\n'


class Stub:
    class Pr:
        pass

    def __init__(self, levels):
        self.pressure = Stub.Pr()
        lv = np.array(levels, float)
        self.pressure.pressure_profile_levels = lv
        self.nLayers = len(lv) - 1
        self.pressureProfile = lv[:-1] * np.sqrt(lv[1:] / lv[:-1])


def gen_levels(rng):
    n = rng.choice([2, 3, 4, 5, 7, 10, 13, 20, 33, 40])
    pmax = 10 ** rng.uniform(3, 7)
    pmin = 10 ** rng.uniform(-4, 1)
    if rng.random() < 0.6:
        lv = np.logspace(math.log10(pmin), math.log10(pmax), n + 1)[::-1]
    else:
        steps = np.array([rng.uniform(0.05, 1.5) for _ in range(n)])
        lv = 10 ** (math.log10(pmax) - np.concatenate([[0], np.cumsum(steps)]))
    return np.array(lv, float)


def gen_bound(rng, lv):
    lo, hi = lv[-1], lv[0]
    k = rng.choice(['unset', 'inside', 'inside', 'above', 'below', 'level'])
    if k == 'unset':
        return k, -1
    if k == 'inside':
        return k, 10 ** rng.uniform(math.log10(lo), math.log10(hi))
    if k == 'above':   # lower pressure than the top of the atmosphere
        return k, lo * 10 ** rng.uniform(-3, -0.1)
    if k == 'below':
        return k, hi * 10 ** rng.uniform(0.1, 3)
    return k, float(lv[rng.randrange(len(lv))])


def optq(x):
    return 'None' if x is None else '(Some %s)' % C.q(x)


def run(ctx):
    C.source_tie(ctx, 'C19', [
        dict(file='taurex/contributions/leemie.py', cls='LeeMieContribution', method='prepare_each', coq='gen_lee_sigma',
             params=['wngrid', 'self.mieRadius', 'self.mieQ'], results=['sigma_mie'], start='wltmp')])
    from taurex.contributions import SimpleCloudsContribution, FlatMieContribution, LeeMieContribution
    rng = ctx.rng
    wn = np.array([500.0, 2000.0, 9000.0])
    e_cloud, m_cloud, e_flat, m_flat, e_lee, m_lee = [], [], [], [], [], []
    for i in range(ctx.n(150, 1200)):
        lv = gen_levels(rng)
        st = Stub(lv)
        n = st.nLayers
        P = st.pressureProfile
        # ---- cloud deck
        kc, Pc = gen_bound(rng, lv)
        if Pc < 0:
            Pc = float(P[rng.randrange(n)])    # exactly a layer pressure
        if rng.random() < 0.5:
            # prepared once with another cloud top, then re-configured through the fitting parameter (as a retrieval does)
            c = SimpleCloudsContribution(clouds_pressure=float(lv[rng.randrange(len(lv))]) * rng.uniform(0.5, 2))
            c.prepare(st, wn)
            c.fitting_parameters()['clouds_pressure'][3](Pc)
            ctx.count('cloud:re-configured')
        else:
            c = SimpleCloudsContribution(clouds_pressure=Pc)
        c.prepare(st, wn)
        flags = np.isinf(np.array(c.sigma_xsec)).all(axis=1)
        some = np.isinf(np.array(c.sigma_xsec)).any(axis=1)
        rp = dict(kind='cloud', levels=lv, Pc=Pc)
        if not np.array_equal(flags, some) or np.any((np.array(c.sigma_xsec)[~some]) != 0):
            ctx.violation('cloud-partial', 'cloud deck opacity is neither 0 nor infinite in a whole layer', replay=rp)
        if not np.array_equal(flags, P >= Pc):
            ctx.violation('cloud-layers', 'opaque layers %r are not exactly the layers at or below the cloud top %r'
                          % (flags.tolist(), (P >= Pc).tolist()), replay=rp)
        e_cloud.append('run_cloud %s %s' % (C.qlist(P), C.q(Pc)))
        m_cloud.append(dict(flags=flags, rp=rp, key=('cloud', n, Pc), nontriv=bool(flags.any() and not flags.all())))
        ctx.count('cloud:' + kc)
        # ---- grey haze
        kt, top = gen_bound(rng, lv)
        kb, bot = gen_bound(rng, lv)
        mix = 10 ** rng.uniform(-30, 0)
        rp = dict(kind='flat', levels=lv, top=top, bottom=bot, mix=mix)
        try:
            with np.errstate(all='ignore'):
                if rng.random() < 0.5:
                    f = FlatMieContribution(flat_mix_ratio=10 ** rng.uniform(-30, 0), flat_topP=float(lv[-1]) * 2,
                                            flat_bottomP=float(lv[0]) / 2)
                    f.prepare(st, wn)
                    fp_ = f.fitting_parameters()
                    fp_['flat_mix_ratio'][3](mix)
                    fp_['flat_topP'][3](top)
                    fp_['flat_bottomP'][3](bot)
                    ctx.count('flat:re-configured')
                else:
                    f = FlatMieContribution(flat_mix_ratio=mix, flat_topP=top, flat_bottomP=bot)
                f.prepare(st, wn)
            sig = np.array(f.sigma_xsec)
        except Exception as e:
            ctx.violation('flatmie-raises', 'FlatMieContribution.prepare raised %r (top=%r bottom=%r)' % (e, top, bot),
                          replay=rp)
            sig = None
        if sig is not None:
            lo_w = min(top if top >= 0 else lv[-1], bot if bot >= 0 else lv[0])
            hi_w = max(top if top >= 0 else lv[-1], bot if bot >= 0 else lv[0])
            upper, lower = lv[1:], lv[:-1]     # layer l spans [upper_l, lower_l] in pressure
            outside = (lower <= lo_w * (1 - 1e-12)) | (upper >= hi_w * (1 + 1e-12))
            if np.any(sig[outside] != 0):
                ctx.violation('flatmie-outside', 'grey haze adds extinction %r in layers wholly outside [%r, %r]'
                              % (sig[outside][:, 0].tolist(), lo_w, hi_w), replay=rp)
            if np.any(sig < 0) or np.any(sig > mix * (1 + 1e-12)) or np.any(~np.isfinite(sig)):
                ctx.violation('flatmie-magnitude', 'grey haze extinction outside [0, declared magnitude]', replay=rp)
            if np.any(sig != sig[:, :1]):
                ctx.violation('flatmie-flat', 'grey haze is not flat in wavenumber', replay=rp)
            if top < 0 and bot < 0 and not np.allclose(sig.max(), mix, rtol=1e-12):
                ctx.violation('flatmie-unset', 'unset bounds do not give the declared magnitude anywhere', replay=rp)
            lvl = np.log10(lv[::-1])
            e_flat.append('run_flat %s %s %s %s' % (C.qlist(lvl), optq(None if top < 0 else float(np.log10(top))),
                                                    optq(None if bot < 0 else float(np.log10(bot))), C.q(mix)))
            m_flat.append(dict(sig=sig[:, 0], rp=rp, key=('flat', n, top, bot),
                               nontriv=bool((sig[:, 0] > 0).any() and (sig[:, 0] == 0).any()), mix=mix))
        ctx.count('flat_top:' + kt)
        ctx.count('flat_bottom:' + kb)
        # ---- Lee haze
        if i % 3 == 0:
            kt, top = gen_bound(rng, lv)
            kb, bot = gen_bound(rng, lv)
            a = 10 ** rng.uniform(-2, 1)
            Q = rng.uniform(1, 100)
            mixl = 10 ** rng.uniform(-20, 5)
            if rng.random() < 0.5:
                # prepared once with an unset (whole-atmosphere) window and other values, then re-configured through
                # the fitting parameters on the live object
                le = LeeMieContribution(lee_mie_radius=10 ** rng.uniform(-2, 1), lee_mie_q=rng.uniform(1, 100),
                                        lee_mie_mix_ratio=10 ** rng.uniform(-20, 5), lee_mie_bottomP=-1, lee_mie_topP=-1)
                with np.errstate(all='ignore'):
                    le.prepare(st, wn)
                fp_ = le.fitting_parameters()
                for nm_, v_ in (('lee_mie_radius', a), ('lee_mie_q', Q), ('lee_mie_mix_ratio', mixl),
                                ('lee_mie_bottomP', bot), ('lee_mie_topP', top)):
                    fp_[nm_][3](v_)
                ctx.count('lee:re-configured')
            else:
                le = LeeMieContribution(lee_mie_radius=a, lee_mie_q=Q, lee_mie_mix_ratio=mixl, lee_mie_bottomP=bot,
                                        lee_mie_topP=top)
            with np.errstate(all='ignore'):
                le.prepare(st, wn)
            sig = np.array(le.sigma_xsec)
            t_eff = top if top >= 0 else P[-1]
            b_eff = bot if bot >= 0 else P[0]
            rp = dict(kind='lee', levels=lv, top=top, bottom=bot, a=a, Q=Q, mix=mixl)
            outside = (P < t_eff) | (P > b_eff)
            if np.any(sig[outside] != 0):
                ctx.violation('lee-outside', 'Lee haze adds extinction in layers whose centre is outside the window',
                              replay=rp)
            e_lee.append('run_lee %s %s %s %s %s %s %s' % (C.ivlist(P), C.iv(t_eff), C.iv(b_eff), C.iv(a), C.iv(Q),
                                                           C.iv(mixl), C.ivlist(wn)))
            m_lee.append(dict(sig=sig, rp=rp, key=('lee', n, top, bot, a),
                              nontriv=bool(outside.any() and not outside.all())))
            ctx.count('lee')
    # ---- correspondence
    for mt, r in zip(m_cloud, C.run_cases('C19_cloud', HEADER, e_cloud, shard=80)):
        ctx.case(mt['key'], nontrivial=mt['nontriv'])
        if [bool(x) for x in r] != mt['flags'].tolist():
            ctx.violation('correspondence:cloud', 'cloud flags: impl %r model %r' % (mt['flags'].tolist(), r),
                          replay=mt['rp'], no_input=True)
        else:
            ctx.validated()
    for mt, r in zip(m_flat, C.run_cases('C19_flat', HEADER, e_flat, shard=80)):
        got = np.array([float(C.q_out(x)) for x in r])
        ctx.case(mt['key'], nontrivial=mt['nontriv'],
                 sample=dict(kind='flat', levels=mt['rp']['levels'][:3], top=mt['rp']['top'],
                             bottom=mt['rp']['bottom'], sigma=mt['sig'][:4]))
        if got.shape != mt['sig'].shape or not np.allclose(got, mt['sig'], rtol=1e-9, atol=1e-12 * mt['mix']):
            ctx.violation('correspondence:flatmie', 'grey haze: impl %r model %r' % (mt['sig'].tolist(), got.tolist()),
                          replay=mt['rp'], no_input=True)
        else:
            ctx.validated()
    for mt, r in zip(m_lee, C.run_cases('C19_lee', HEADER, e_lee, shard=40)):
        bad = None
        for l in range(len(r)):
            for w in range(len(r[l])):
                if not C.in_enclosure(float(mt['sig'][l, w]), r[l][w], rel=1e-9):
                    bad = 'layer %d wn %d impl %r model %r' % (l, w, mt['sig'][l, w], C.iv_mid(r[l][w]))
        ctx.case(mt['key'], nontrivial=mt['nontriv'])
        if bad:
            ctx.violation('correspondence:leemie', 'Lee haze: ' + bad, replay=mt['rp'], no_input=True)
        else:
            ctx.validated()
    full_models(ctx, rng)


def full_models(ctx, rng):
    """transit depth with a cloud deck: flagged layers opaque, the others untouched, depth >= opaque integral"""
    for i in range(ctx.n(15, 100)):
        others = [c for c in ['Absorption', 'CIA', 'Rayleigh'] if rng.random() < 0.6] or ['Absorption']
        spec = tmodel.gen_spec(rng, contribs=others + ['SimpleClouds'])
        rp = dict(kind='model', spec=spec)
        o = c01.observe(tmodel.build(spec))
        o0 = c01.observe(tmodel.build(dict(spec, contribs=others)))
        flags = None
        for cdesc in o['cs']:
            if cdesc[0] == 'cloud':
                flags = np.array(cdesc[1])
        ctx.case(('model', i, float(o['depth'][0])), nontrivial=bool(flags.any() and not flags.all()))
        if np.any(o['trans'][flags] != 0):
            ctx.violation('cloud-transmittance', 'a layer below the cloud top is not opaque at every wavenumber',
                          replay=rp)
        elif not np.allclose(o['trans'][~flags], o0['trans'][~flags], rtol=1e-12, atol=0):
            ctx.violation('cloud-above', 'layers above the cloud top are changed by the cloud deck', replay=rp)
        else:
            Rp, Rs, z, dz = o['Rp'], o['Rs'], o['z'], o['dz']
            t = o0['trans'].copy()
            t[flags] = 0
            want = (Rp ** 2 + np.sum(2 * (Rp + z)[:, None] * (1 - t) * dz[:, None], axis=0)) / Rs ** 2
            if np.any(o['depth'] < want * (1 - 1e-12)):
                ctx.violation('cloud-depth', 'depth %r below the integral with the cloud layers opaque %r'
                              % (o['depth'], want), replay=rp)
            else:
                ctx.validated()


def replay(ctx, obj):
    ctx.notes.append('replay re-runs the whole deterministic check with the stored seed')
    run(ctx)
