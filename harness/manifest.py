"""regenerate MANIFEST.json from the drivers' META (run from /verif)"""
import importlib, json, os, sys
sys.path.insert(0, os.path.dirname(os.path.abspath(__file__)))
V = os.path.dirname(os.path.dirname(os.path.abspath(__file__)))
PROPS = ['C%02d' % i for i in range(1, 21)]
REASONS = json.load(open(os.path.join(V, 'harness', 'not_applicable.json')))
checks, na = [], []
for p in PROPS:
    if not (os.path.exists(os.path.join(V, 'harness', p.lower() + '.py')) and
            os.path.exists(os.path.join(V, 'coq', 'Props_%s.v' % p))):
        na.append(dict(property_id=p, reason=REASONS.get(p, 'check not built yet')))
        continue
    src = open(os.path.join(V, 'harness', p.lower() + '.py')).read()
    ns = {}
    # META is a literal dict at module top; evaluate it without importing numpy/taurex
    start = src.index('META = dict(')
    depth = 0
    for i in range(start + len('META = dict'), len(src)):
        if src[i] == '(':
            depth += 1
        elif src[i] == ')':
            depth -= 1
            if depth == 0:
                end = i + 1
                break
    meta = eval(src[start + len('META = '):end], {})
    checks.append(dict(
        property_id=p,
        quick_cmd='./check %s --tier quick' % p,
        thorough_cmd='./check %s --tier thorough' % p,
        evidence_file='/verif/evidence/%s.json' % p,
        replay_cmd_template='./check %s --replay {path}' % p,
        engine='coq+correspondence',
        level_claimed=dict(category='proof', text=meta.get('level_text', (
            'Theorems about a Gallina model of the anchored code, proved in Coq 8.16 for all inputs '
            '(Props_%s.v, re-checked with Print Assumptions on every run); the model is tied to /repo by a '
            'correspondence check that runs the same generated inputs through the implementation and '
            'through the model under vm_compute.' % p)), design_ref='DESIGN.md section 5 / %s' % p),
        level_note=meta.get('level_note', 'Trusted: Coq kernel + vm_compute; stdlib real-number axioms where '
                            'Print Assumptions lists them (and the stdlib primitive 63-bit integers under the '
                            'enclosure theorems about the interval instance); the Python correspondence harness; '
                            'float rounding is outside the model (tolerance compare).'),
        technique=meta.get('technique', 'Coq proof over a Gallina model'
                           + (' + kernels regenerated from the source by a translator and proved equal to the model '
                              '(harness/ties/Tie_%s.v)' % p if 'C.source_tie(ctx' in src else '')
                           + ' + differential correspondence (vm_compute)'),
    ))
man = dict(
    version=1,
    setup_cmd='cd /verif && ./setup.sh',
    hooks=dict(guard='TAUREX3_VERIF', enable='no source hooks: checks observe /repo through its public API '
               '(PYTHONPATH=/repo); TAUREX3_VERIF=1 is exported by ./check but read by nothing in /repo',
               baseline_off_cmd='cd /repo && /venv/bin/python -m pytest -ra -q -p no:cacheprovider --timeout=900 '
                                '--continue-on-collection-errors',
               source_commits=[], add_only=True),
    engines=[dict(name='coq+correspondence', path='/verif/check',
                  serves_properties=[c['property_id'] for c in checks],
                  kind_free_text='Coq 8.16 proofs over Gallina models (coq/), Python differential harness (harness/)')],
    checks=checks,
    notes='see DESIGN.md; known_findings.json lists repaired and open defects',
    not_applicable=na,
)
json.dump(man, open(os.path.join(V, 'MANIFEST.json'), 'w'), indent=1)
print('checks:', [c['property_id'] for c in checks], 'not_applicable:', [n['property_id'] for n in na])
