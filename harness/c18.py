"""C18 — parallel post-processing is invariant to how samples are split across ranks.

MPI is not installed; the implementation is run under a SIMULATED communicator: one thread per rank (a baton lets
one rank run at a time), taurex.mpi.{get_rank,nprocs,allgather,allreduce,broadcast,barrier} replaced by functions
that exchange PICKLED copies of the values (what mpi4py's lower-case collectives do) in rank order."""
import contextlib
import io
import math
import pickle
import random as pyrandom
import threading

import numpy as np

import common as C
import tmodel

META = dict(
    rule='rank counts 1..7; sample counts 0..40 (fewer samples than ranks included, so ranks hold zero or one '
         'sample); weights unit / random / tied / one dominant / a few of order 1e-300; scalar and array values; '
         'round-robin and arbitrary assignments of samples to ranks; OnlineVariance.parallelVariance on every '
         'simulated rank vs the model (per-rank accumulators and combined variance) and vs the two-pass variance; '
         'Optimizer.generate_profiles / compute_derived_trace on every simulated rank vs a run without any '
         'communicator and vs an independent two-pass evaluation; non-trivial = >= 2 ranks and >= 3 samples; '
         'distinct by (ranks, samples, first value, first weight)',
    trusted=['the simulated communicator (pickle round trip of every exchanged value, rank order of allgather, '
             'list concatenation for allreduce(SUM) of Python lists, copy for broadcast); mpi4py itself is absent',
             'an independent model instance for the two-pass reference'],
    modelled=['OnlineVariance.update / variance / combine_variance / parallelVariance, the round-robin split '
              'samples[rank::size], the gather order and the restoration of sample order in compute_derived_trace'],
    assumptions=['strictly positive weights in OnlineVariance.update (Optimizer.sample_parameters adds 1e-300 to '
                 'every weight, so this holds for every posterior)',
                 'samples that all carry the weight 1e-300 (a drawn subset of zero-weight samples) are part of the run, '
                 'against the Python oracles only',
                 'tolerance: variances compared at 1e-9 relative to the squared scale of the values '
                 '(exact rational model vs double precision streaming arithmetic)'],
)

HEADER = C.HEADER_Q + 'From TV Require Import Model_C18 Exec_C18.\n'


# ---------------------------------------------------------------------------------- simulated communicator
class SimComm:
    def __init__(self, size):
        self.size = size
        self.bar = threading.Barrier(size)
        self.slots = [None] * size
        self.tls = threading.local()
        self.baton = threading.Lock()
        self.reduced = []          # what allreduce delivered (rank 0's view)
        self.errors = []

    def rank(self, comm=None):
        return self.tls.rank

    def nprocs(self):
        return self.size

    def _wait(self):
        self.baton.release()
        try:
            self.bar.wait(timeout=600)
        finally:
            self.baton.acquire()

    def exchange(self, value):
        self.slots[self.tls.rank] = pickle.dumps(value)
        self._wait()
        out = [pickle.loads(b) for b in self.slots]
        self._wait()
        return out

    def allgather(self, value):
        return self.exchange(value)

    def allreduce(self, value, op):
        assert op.lower() == 'sum'
        parts = self.exchange(value)
        acc = parts[0]
        for p in parts[1:]:
            acc = acc + p
        if self.tls.rank == 0:
            self.reduced.append(acc)
        return acc

    def broadcast(self, array, rank=0):
        return self.exchange(array)[rank]

    def barrier(self, comm=None):
        self._wait()

    def run(self, fn):
        """fn(rank) on every rank; returns the list of results"""
        import taurex.mpi as M
        saved = {k: getattr(M, k) for k in ('get_rank', 'nprocs', 'allgather', 'allreduce', 'broadcast', 'barrier')}
        M.get_rank, M.nprocs, M.allgather = self.rank, self.nprocs, self.allgather
        M.allreduce, M.broadcast, M.barrier = self.allreduce, self.broadcast, self.barrier
        res = [None] * self.size

        def work(r):
            self.tls.rank = r
            self.baton.acquire()
            try:
                res[r] = fn(r)
            except BaseException as e:   # noqa
                import traceback
                self.errors.append((r, repr(e), traceback.format_exc()[-1500:]))
                self.bar.abort()
            finally:
                self.baton.release()
        try:
            th = [threading.Thread(target=work, args=(r,)) for r in range(self.size)]
            for t in th:
                t.start()
            for t in th:
                t.join()
        finally:
            for k, v in saved.items():
                setattr(M, k, v)
        return res


# ---------------------------------------------------------------------------------- part A: OnlineVariance
def gen_weights(rng, n):
    kind = rng.choice(['unit', 'random', 'ties', 'dominant', 'tiny', 'tiny300', 'all300'])
    if kind == 'unit':
        w = [1.0] * n
    elif kind == 'random':
        w = [rng.uniform(0.01, 1.0) for _ in range(n)]
    elif kind == 'ties':
        w = [rng.choice([0.125, 0.25, 0.5]) for _ in range(n)]
    elif kind == 'dominant':
        w = [rng.uniform(1e-8, 1e-6) for _ in range(n)]
        if n:
            w[rng.randrange(n)] = 1.0
    elif kind == 'all300':
        # every sample carries the negligible weight Optimizer.sample_parameters gives a zero-weight sample
        w = [1e-300] * n
    else:
        t = 1e-300 if kind == 'tiny300' else 2.0 ** -120
        w = [rng.choice([t, rng.uniform(0.1, 1.0), rng.uniform(0.1, 1.0)]) for _ in range(n)]
        if n:      # the total weight stays a normal number (1e-300 * 1e-300 underflows with or without ranks)
            w[rng.randrange(n)] = rng.uniform(0.1, 1.0)
    return kind, w


def gen_values(rng, n, dim):
    kind = rng.choice(['centred', 'offset', 'integers', 'constant'])
    if kind == 'centred':
        f = lambda: rng.uniform(-5, 5)
    elif kind == 'offset':
        f = lambda: 1000.0 + rng.uniform(-1, 1)
    elif kind == 'integers':
        f = lambda: float(rng.randint(-3, 3))
    else:
        c = rng.uniform(-2, 2)
        f = lambda: c
    if dim == 0:
        return kind, [f() for _ in range(n)]
    return kind, [np.array([f() for _ in range(dim)]) for _ in range(n)]


def twopass(xs, ws):
    if len(xs) < 2:
        return np.nan
    x = np.array([np.atleast_1d(v) for v in xs], dtype=float)
    w = np.array(ws, dtype=float)
    mu = (w[:, None] * x).sum(axis=0) / w.sum()
    return (w[:, None] * (x - mu) ** 2).sum(axis=0) / w.sum()


def var_close(a, b, scale2, sqrt_nan=False):
    """sqrt_nan: the values are squares of reported standard deviations; a variance that rounds to a tiny
    negative number gives sqrt -> NaN, which is accepted against a value within tolerance of zero"""
    a, b = np.atleast_1d(np.asarray(a, dtype=float)), np.atleast_1d(np.asarray(b, dtype=float))
    if a.shape != b.shape:
        if a.size == 1 and np.all(np.isnan(a)) and np.all(np.isnan(b)):
            return True
        if b.size == 1 and np.all(np.isnan(a)) and np.all(np.isnan(b)):
            return True
        return False
    tol = 1e-9 * scale2
    if sqrt_nan:
        a = np.where(np.isnan(a) & ~np.isnan(b) & (np.abs(b) <= tol), 0.0, a)
        b = np.where(np.isnan(b) & ~np.isnan(a) & (np.abs(a) <= tol), 0.0, b)
    if np.any(np.isnan(a) != np.isnan(b)):
        return False
    m = ~np.isnan(a)
    return bool(np.all(np.abs(a[m] - b[m]) <= tol + 1e-9 * np.abs(b[m])))


def rank_run(parts):
    """parallelVariance on every simulated rank for a given assignment of samples to ranks"""
    from taurex.util.math import OnlineVariance
    sim = SimComm(len(parts))

    def fn(r):
        ov = OnlineVariance()
        for x, w in parts[r]:
            ov.update(x, w)
        state = (ov.count, ov.wcount, ov.mean, ov.variance)
        with np.errstate(all='ignore'):
            return state, ov.parallelVariance()
    res = sim.run(fn)
    return res, sim.errors


def part_a(ctx):
    from taurex.util.math import OnlineVariance
    rng = ctx.rng
    ex_r, meta_r, ex_p, meta_p = [], [], [], []
    for i in range(ctx.n(120, 1200)):
        size = rng.randint(1, 7) if i >= 7 else i + 1
        n = rng.choice([0, 1, 2, 3, size, size + 1, rng.randint(0, 40), rng.randint(0, 40)])
        dim = rng.choice([0, 0, 3])
        vkind, xs = gen_values(rng, n, dim)
        wkind, ws = gen_weights(rng, n)
        robin = rng.random() < 0.6
        if robin:
            parts = [list(zip(xs[r::size], ws[r::size])) for r in range(size)]
        else:
            parts = [[] for _ in range(size)]
            for x, w in zip(xs, ws):
                parts[rng.randrange(size)].append((x, w))
        rp = dict(part='OnlineVariance', size=size, values=xs, weights=ws, round_robin=robin,
                  assignment=[[float(np.atleast_1d(x)[0]) for x, _ in p] for p in parts])
        ctx.count('ranks:%d' % size)
        ctx.count('weights:' + wkind)
        ctx.count('values:' + vkind)
        ctx.count('assignment:' + ('round-robin' if robin else 'arbitrary'))
        ctx.count('samples:%s' % ('0' if n == 0 else '1' if n == 1 else '<ranks' if n < size else '>=ranks'))
        ctx.count('ranks-with-0-samples', sum(1 for p in parts if len(p) == 0))
        ctx.count('ranks-with-1-sample', sum(1 for p in parts if len(p) == 1))
        res, errs = rank_run(parts)
        if errs:
            ctx.violation('parallel-raises', 'parallelVariance raised on rank %d of %d: %s\n%s'
                          % (errs[0][0], size, errs[0][1], errs[0][2]), replay=rp)
            continue
        finals = [r[1] for r in res]
        scale2 = max([float(np.max(np.abs(x))) for x in xs] + [1e-30]) ** 2
        want = twopass(xs, ws)
        # single process, no communicator at all
        ov = OnlineVariance()
        for x, w in zip(xs, ws):
            ov.update(x, w)
        with np.errstate(all='ignore'):
            single = ov.parallelVariance()
        bad = None
        for r, f in enumerate(finals):
            if not var_close(f, finals[0], 0.0):
                bad = 'rank %d and rank 0 disagree: %r vs %r' % (r, f, finals[0])
            elif not var_close(f, want, scale2):
                bad = 'rank %d of %d: combined variance %r, two-pass weighted variance of all %d samples %r' % (
                    r, size, f, n, want)
            elif not var_close(f, single, scale2):
                bad = 'rank %d of %d: combined variance %r, single-process result %r' % (r, size, f, single)
        if bad:
            ctx.violation('variance-split', 'parallelVariance depends on the split: ' + bad, replay=rp)
        # model: first component
        first = lambda v: float(np.atleast_1d(v)[0])
        if wkind in ('tiny300', 'all300'):     # 1000-bit rationals are too slow in Coq: implementation oracles only
            ctx.count('oracle-only')
            continue
        if robin:
            ex_r.append('run_ranks %s %s' % (C.natlit(size), C.clist(
                ['(%s, %s)' % (C.q(first(x)), C.q(w)) for x, w in zip(xs, ws)])))
            meta_r.append(dict(res=res, rp=rp, size=size, n=n, scale2=scale2, first=first))
        else:
            ex_p.append('run_parts %s' % C.clist(
                [C.clist(['(%s, %s)' % (C.q(first(x)), C.q(w)) for x, w in p]) for p in parts]))
            meta_p.append(dict(res=res, rp=rp, size=size, n=n, scale2=scale2, first=first))
    for mt, out in zip(meta_r, C.run_cases('C18r', HEADER, ex_r, shard=12)):
        bad = None
        first, scale2 = mt['first'], mt['scale2']
        for r, ((cnt, wc, mean, var), final) in enumerate(mt['res']):
            m = out[r]
            if int(cnt) != m[0][0]:
                bad = 'rank %d processed %d samples, round-robin share is %d' % (r, cnt, m[0][0])
                break
            if not math.isclose(float(wc), float(C.q_out(m[1])), rel_tol=1e-12, abs_tol=0.0):
                bad = 'rank %d weight sum %r, model %r' % (r, wc, float(C.q_out(m[1])))
            if cnt >= 1 and abs(first(mean) - float(C.q_out(m[2]))) > 1e-10 * math.sqrt(scale2):
                bad = 'rank %d mean %r, model %r' % (r, first(mean), float(C.q_out(m[2])))
            mv = float(C.q_out(m[3])) if m[3] else np.nan
            if not var_close(first(var) if cnt >= 2 else var, mv, scale2):
                bad = 'rank %d variance %r, model %r' % (r, var, mv)
            fin = out[-1]
            mf = float(C.q_out(fin[0])) if fin[0] else np.nan
            if not var_close(first(final), mf, scale2):
                bad = 'rank %d parallelVariance %r, model %r (two-pass %r)' % (r, final, mf, float(C.q_out(fin[2])) if mt['n'] else None)
        ctx.case((mt['size'], mt['n'], mt['rp']['weights'][0] if mt['n'] else 0, first(mt['rp']['values'][0]) if mt['n'] else 0),
                 nontrivial=(mt['size'] >= 2 and mt['n'] >= 3),
                 sample=dict(ranks=mt['size'], samples=mt['n'], per_rank=[int(s[0][0]) for s in mt['res']],
                             variance=first(mt['res'][0][1])))
        if bad:
            ctx.violation('variance-model', 'streaming / pooled variance differs from the model: ' + bad, replay=mt['rp'])
        else:
            ctx.validated()
    for mt, out in zip(meta_p, C.run_cases('C18p', HEADER, ex_p, shard=12)):
        first = mt['first']
        mf = float(C.q_out(out[0])) if out[0] else np.nan
        ok = all(var_close(first(f), mf, mt['scale2']) for _, f in mt['res'])
        ctx.case(('p', mt['size'], mt['n'], mt['rp']['weights'][0] if mt['n'] else 0),
                 nontrivial=(mt['size'] >= 2 and mt['n'] >= 3))
        if not ok:
            ctx.violation('variance-model', 'arbitrary assignment: parallelVariance %r, model %r' % (
                [first(f) for _, f in mt['res']], mf), replay=mt['rp'])
        else:
            ctx.validated()


# ---------------------------------------------------------------------------------- part B: Optimizer
def setup(rng):
    spec = tmodel.gen_spec(rng, ngas=2, contribs=['Absorption'], nlayers=rng.choice([3, 4]), nwn=6)
    spec['T'] = [rng.uniform(800, 1500)]
    spec['level'] = 'mid'
    for g in spec['gases']:
        if spec['mix'][g] <= 0:
            spec['mix'][g] = 1e-5
    return spec


def make_obs(rng, model):
    with np.errstate(all='ignore'):
        wn, depth, _, _ = model.model()
    idx = sorted(rng.sample(range(len(wn)), 3))
    cen = np.array([float(wn[j]) for j in idx])
    return np.vstack([10000 / cen, np.array(depth)[idx] * 1.01, np.ones(3) * float(np.mean(depth)) * 0.05]).T


def make_opt(spec, obs_arr, fit, derived, samples, weights, frac):
    from taurex.optimizer import NestleOptimizer
    from taurex.core.priors import Uniform, LogUniform
    from taurex.data.spectrum.array import ArraySpectrum
    model = tmodel.build(spec)
    opt = NestleOptimizer(observed=ArraySpectrum(obs_arr.copy()), model=model, num_live_points=5,
                          sigma_fraction=frac)
    for n in list(model.fittingParameters):
        opt.disable_fit(n)
    for name, k, b in fit:
        opt.enable_fit(name)
        opt.set_prior(name, (LogUniform if k == 'log' else Uniform)(bounds=list(b)))
    for d in derived:
        opt.enable_derived(d)
    opt.compile_params()
    opt._nestle_output = {'solution': {'samples': samples.copy(), 'weights': weights.copy()}}
    return opt


def post(opt, seed):
    pyrandom.seed(seed)
    return post_noseed(opt)


def part_b(ctx):
    rng = ctx.rng
    ex, metas = [], []
    for i in range(ctx.n(10, 80)):
        spec = setup(rng)
        size = rng.randint(2, 7) if i >= 3 else [2, 3, 5][i]
        ns = rng.choice([1, 2, 3, size - 1, size + 1, 2 * size + 1, rng.randint(4, 16)])
        ns = max(ns, 1)
        frac = rng.choice([1.0, 1.0, 0.6])
        m0 = tmodel.build(spec)
        obs_arr = make_obs(rng, m0)
        g1 = spec['gases'][0]
        cand = [('planet_radius', 'lin', (spec['planet_radius'] * 0.8, spec['planet_radius'] * 1.2)),
                ('T', 'lin', (600.0, 1800.0)), (g1, 'log', (-8.0, -2.0))]
        fit = rng.sample(cand, rng.randint(1, 3))
        derived = rng.sample(['mu', 'logg'], rng.randint(1, 2)) if 'logg' in m0.derivedParameters else ['mu']
        wkind = rng.choice(['random', 'ties', 'zeros', 'dominant'])
        if wkind == 'random':
            w = np.array([rng.random() + 1e-3 for _ in range(ns)])
        elif wkind == 'ties':
            w = np.array([rng.choice([0.1, 0.2, 0.4]) for _ in range(ns)])
        elif wkind == 'zeros':
            w = np.array([rng.choice([0.0, rng.random() + 1e-3]) for _ in range(ns)])
            w[rng.randrange(ns)] = 1.0
        else:
            w = np.array([rng.uniform(1e-8, 1e-6) for _ in range(ns)])
            w[rng.randrange(ns)] = 1.0
        w = w / w.sum()
        proto = make_opt(spec, obs_arr, fit, derived, np.zeros((ns, len(fit))), w, frac)
        order = [n.replace('log_', '') for n in proto.fit_names]
        derived = list(proto.derived_names)      # compile order; some are computed by default
        fd = {f[0]: f for f in fit}
        samples = np.array([[rng.uniform(*fd[n][2]) for n in order] for _ in range(ns)])
        rp = dict(part='Optimizer', spec=spec, ranks=size, fit=order, samples=samples, weights=w,
                  sigma_fraction=frac, derived=derived)
        ctx.count('opt-ranks:%d' % size)
        ctx.count('opt-weights:' + wkind)
        ctx.count('opt-samples:%s' % ('<ranks' if ns < size else '>=ranks'))
        seed = rng.randrange(10 ** 6)
        # single process: the real taurex.mpi (no mpi4py -> no communicator)
        try:
            with contextlib.redirect_stdout(io.StringIO()):
                single = post(make_opt(spec, obs_arr, fit, derived, samples, w, frac), seed)
        except Exception as e:
            import traceback
            ctx.violation('single-raises', 'post-processing raised without a communicator: %r %s'
                          % (e, traceback.format_exc()[-800:]), replay=rp)
            continue
        opts = [make_opt(spec, obs_arr, fit, derived, samples, w, frac) for _ in range(size)]
        sim = SimComm(size)
        pyrandom.seed(seed)
        with contextlib.redirect_stdout(io.StringIO()):
            res = sim.run(lambda r: post_noseed(opts[r]))
        if sim.errors:
            ctx.violation('post-raises', 'post-processing raised on rank %d of %d (%d samples): %s\n%s'
                          % (sim.errors[0][0], size, ns, sim.errors[0][1], sim.errors[0][2]), replay=rp)
            continue
        # independent two-pass reference
        pyrandom.seed(seed)
        chosen = pyrandom.sample(range(ns), int(ns * frac))
        ref = reference(spec, obs_arr, order, fd, samples, w, chosen, derived)
        bad = None
        for r, (prof, spc, der) in enumerate(res):
            for k in single[0]:
                scale2 = float(np.max(np.abs(ref['vals'][k]))) ** 2 if k in ref['vals'] else 1.0
                if not var_close(np.asarray(prof[k]) ** 2, np.asarray(single[0][k]) ** 2, scale2, sqrt_nan=True):
                    bad = 'rank %d/%d %s: %r, single process %r' % (r, size, k, prof[k], single[0][k])
                elif k in ref['var'] and not var_close(np.asarray(prof[k]) ** 2, ref['var'][k], scale2, sqrt_nan=True):
                    bad = 'rank %d/%d %s: variance %r, two-pass %r' % (r, size, k, np.asarray(prof[k]) ** 2, ref['var'][k])
            for k in single[1]:
                scale2 = float(np.max(np.abs(ref['vals'][k]))) ** 2 if k in ref['vals'] else 1.0
                if not var_close(np.asarray(spc[k]) ** 2, np.asarray(single[1][k]) ** 2, scale2, sqrt_nan=True):
                    bad = 'rank %d/%d %s: %r, single process %r' % (r, size, k, spc[k], single[1][k])
                elif k in ref['var'] and not var_close(np.asarray(spc[k]) ** 2, ref['var'][k], scale2, sqrt_nan=True):
                    bad = 'rank %d/%d %s: variance %r, two-pass %r' % (r, size, k, np.asarray(spc[k]) ** 2, ref['var'][k])
            for d in derived:
                a, b = der[d + '_derived'], single[2][d + '_derived']
                tr = np.asarray(a['trace'], dtype=float)
                if tr.shape != (ns,) or not np.allclose(tr, ref['derived'][d], rtol=1e-10, atol=0):
                    bad = 'rank %d/%d: %s trace is not one entry per sample in sample order: %r vs %r' % (
                        r, size, d, tr, ref['derived'][d])
                elif not np.allclose(tr, b['trace'], rtol=1e-12, atol=0):
                    bad = 'rank %d/%d: %s trace differs from the single-process trace' % (r, size, d)
                else:
                    for key in ('value', 'sigma_m', 'sigma_p', 'mean'):
                        if not math.isclose(float(a[key]), float(b[key]), rel_tol=1e-9, abs_tol=1e-12 * abs(float(b['value']))):
                            bad = 'rank %d/%d: %s %s %r, single process %r' % (r, size, d, key, a[key], b[key])
        if bad:
            ctx.violation('post-split', 'post-processing depends on the split: ' + bad, replay=rp)
        # the exchanged trace lists, as rank 0 saw them: [trace, weight] per derived parameter, in compile order
        gathered_w = [np.asarray(sim.reduced[2 * j + 1], dtype=float) for j in range(len(derived))]
        ex.append('run_scatter %s %s' % (C.natlit(size), C.qlist([float(v) for v in sim.reduced[0]])))
        metas.append(dict(rp=rp, size=size, ns=ns, gathered_w=gathered_w, w=w,
                          gathered_t=[np.asarray(sim.reduced[2 * j], dtype=float) for j in range(len(derived))],
                          ref=[ref['derived'][d] for d in derived],
                          final=[np.asarray(res[0][2][d + '_derived']['trace'], dtype=float) for d in derived]))
    for mt, out in zip(metas, C.run_cases('C18g', HEADER, ex, shard=20)):
        order, restored = out[0], [float(C.q_out(v)) for v in out[1:]]
        bad = None
        for gw, gt, ref, fin in zip(mt['gathered_w'], mt['gathered_t'], mt['ref'], mt['final']):
            if len(gw) != mt['ns'] or not np.array_equal(gw, mt['w'][order]):
                bad = 'gathered weights are not the samples in the model\'s gather order %r' % (order,)
            elif not np.allclose(gt, np.asarray(ref)[order], rtol=1e-10):
                bad = 'gathered trace %r is not the samples %r in the model\'s gather order %r' % (gt, ref, order)
            else:
                want = np.empty(mt['ns'])
                want[np.array(order, dtype=int)] = gt     # model: position order[k] receives gathered[k]
                if not np.array_equal(want, fin):
                    bad = 'restored trace differs from the model scatter of the gathered trace'
        if bad is None and not np.array_equal(np.array(restored), mt['final'][0]):
            bad = 'restored trace %r differs from the model scatter %r of the gathered trace' % (mt['final'][0], restored)
        ctx.case(('g', mt['size'], mt['ns'], float(mt['w'][0])), nontrivial=(mt['ns'] >= 3),
                 sample=dict(ranks=mt['size'], samples=mt['ns'], gather_order=order))
        if bad:
            ctx.violation('gather-order', 'derived-parameter trace: ' + bad, replay=mt['rp'])
        else:
            ctx.validated()


def post_noseed(opt):
    # (stdout is redirected by the caller: redirect_stdout is process-wide, not per thread)
    with np.errstate(all='ignore'):
        prof, spec_ = opt.generate_profiles(0, opt._observed.wavenumberGrid)
        der = opt.compute_derived_trace(0)
    return prof, spec_, der


def reference(spec, obs_arr, order, fd, samples, w, chosen, derived):
    """independent two-pass weighted variances over the chosen samples, and the derived values of ALL samples"""
    from taurex.data.spectrum.array import ArraySpectrum
    model = tmodel.build(spec)
    obs = ArraySpectrum(obs_arr.copy())
    binner = obs.create_binner()

    def set_(row):
        for nm, v in zip(order, row):
            model[nm] = 10 ** v if fd[nm][1] == 'log' else v
    keys = ['temp_profile_std', 'active_mix_profile_std', 'inactive_mix_profile_std', 'native_std', 'binned_std']
    acc = {k: [] for k in keys}
    ws = []
    for idx in chosen:
        set_(samples[idx])
        with np.errstate(all='ignore'):
            ng, native, _, _ = model.model(wngrid=obs.wavenumberGrid, cutoff_grid=False)
        acc['temp_profile_std'].append(np.array(model.temperatureProfile, dtype=float))
        acc['active_mix_profile_std'].append(np.array(model.chemistry.activeGasMixProfile, dtype=float))
        acc['inactive_mix_profile_std'].append(np.array(model.chemistry.inactiveGasMixProfile, dtype=float))
        acc['native_std'].append(np.array(native, dtype=float))
        acc['binned_std'].append(np.array(binner.bindown(ng, native)[1], dtype=float))
        ws.append(w[idx] + 1e-300)
    var, vals = {}, {}
    for k in keys:
        if len(ws) >= 2:
            x = np.array(acc[k])
            wa = np.array(ws).reshape((-1,) + (1,) * (x.ndim - 1))
            mu = (wa * x).sum(axis=0) / wa.sum()
            var[k] = (wa * (x - mu) ** 2).sum(axis=0) / wa.sum()
            vals[k] = x
        else:
            var[k] = np.nan
            vals[k] = np.ones(1)
    der = {d: [] for d in derived}
    for row in samples:
        set_(row)
        model.initialize_profiles()
        dp = model.derivedParameters
        for d in derived:
            der[d].append(float(dp[d][2]()))
    return dict(var=var, vals=vals, derived=der)


def run(ctx):
    C.source_tie(ctx, 'C18', [
        dict(file='taurex/util/math.py', cls='OnlineVariance', method='update', coq='gen_ov_update',
             params=['self.count', 'self.wcount', 'self.wcount2', 'self.mean', 'self.M2', 'value', 'weight'],
             results=['self.count', 'self.wcount', 'self.mean', 'self.M2'])])
    part_a(ctx)
    part_b(ctx)


def replay(ctx, obj):
    ctx.notes.append('replay re-runs the whole deterministic check with the stored seed')
    run(ctx)
