"""C12 — temperature profiles are finite, positive and bounded by their control values."""
import math
import os

import numpy as np

import common as C

META = dict(
    rule='isothermal, N-point (0..5 interior nodes, windows 0..100, nodes inside and outside the pressure range, '
         'equal nodes, inverted nodes, steep slopes), array (with and without pressure points, text files), '
         'layer-correlated (default covariance, correlation length 0.5..10) and Guillot (parameters inside and '
         'outside the documented bounds, zero opacities, negative temperatures) on 2..60 layers; non-trivial = '
         'non-constant profile with >= 3 layers',
    trusted=['numpy.log10 of pressures taken by the harness as the code takes it (rational model of N-point); '
             'scipy.special.expn(2, x) values are supplied to the Guillot model as an oracle and validated here '
             'against 0 <= E2(x) <= exp(-x)/(1+x) ... exp(-x)'],
    modelled=['Isothermal, NPoint.profile / check_profile, Rodgers2000.profile, TemperatureArray (no pressure '
              'points), Guillot2010.profile; TemperatureArray with pressure points and TemperatureFile are checked '
              'by the property oracle (range, length, finiteness)'],
    assumptions=['tolerance 1e-9 relative; bounds checked with 1e-9 relative slack (interpolation rounding)'],
)

HEADER = C.HEADER_IV + 'From TV Require Import Model_C12 Exec_C12.\n'


def gen_pressure(rng):
    n = rng.choice([2, 3, 4, 5, 7, 9, 10, 13, 20, 33, 47, 60])
    lv = np.logspace(rng.uniform(-4, 1), rng.uniform(4, 7), n + 1)[::-1]
    return n, lv[:-1] * np.sqrt(lv[1:] / lv[:-1])


def oracle_range(ctx, name, prof, n, ctrl, rp, positive=True):
    prof = np.asarray(prof, float)
    lo, hi = min(ctrl), max(ctrl)
    if prof.shape != (n,):
        ctx.violation('length:' + name, '%s profile has shape %r for %d layers' % (name, prof.shape, n), replay=rp)
        return False
    if np.any(~np.isfinite(prof)) or (positive and np.any(prof <= 0)):
        ctx.violation('nonfinite:' + name, '%s profile not finite/positive: %r' % (name, prof[:5]), replay=rp)
        return False
    tol = 1e-9 * max(abs(lo), abs(hi))
    if np.any(prof < lo - tol) or np.any(prof > hi + tol):
        ctx.violation('range:' + name, '%s profile [%r, %r] leaves the range [%r, %r] of its control temperatures'
                      % (name, prof.min(), prof.max(), lo, hi), replay=rp)
        return False
    return True


def run(ctx):
    C.source_tie(ctx, 'C12', [
        dict(file='taurex/data/profiles/temperature/guillot.py', cls='Guillot2010', method='profile', coq='gen_guillot_T4',
             params=['self.planet.gravity', 'self.kappa_v1', 'self.kappa_ir', 'self.kappa_v2', 'self.pressure_profile',
                     'self.T_int', 'self.T_irr', 'self.alpha'], results=['T4'], start='planet_grav',
             opaque={'spe.expn': ('expn', 2)}, nested=('eta',), noop=('self._check_values',))])
    from taurex.temperature import Isothermal, NPoint, Rodgers2000, Guillot2010
    from taurex.data.profiles.temperature.temparray import TemperatureArray
    from taurex.data.profiles.temperature.file import TemperatureFile
    from taurex.exceptions import InvalidModelException
    from taurex.data.planet import Planet
    import scipy.special as spe
    rng = ctx.rng
    e_np, m_np, e_ro, m_ro, e_ta, m_ta, e_gu, m_gu = [], [], [], [], [], [], [], []
    planet = Planet()
    for i in range(ctx.n(150, 1200)):
        n, P = gen_pressure(rng)
        # ---- isothermal
        t0 = rng.uniform(50, 4000)
        iso = Isothermal(T=t0)
        iso.initialize_profile(planet, n, P)
        ctx.case(('iso', n, t0), nontrivial=False)
        if not np.array_equal(iso.profile, np.ones(n) * t0):
            ctx.violation('isothermal', 'isothermal profile is not constant', replay=dict(kind='iso', T=t0, n=n))
        else:
            ctx.validated()
        # ---- N-point
        k = rng.choice([0, 0, 1, 2, 3, 5])
        mode = rng.choice(['ok', 'ok', 'ok', 'equal', 'inverted', 'steep', 'outside'])
        Ts = [rng.uniform(300, 2500) for _ in range(k + 2)]
        if mode == 'equal':
            Ts = [Ts[0]] * (k + 2)
        lo_p, hi_p = math.log10(P[-1]), math.log10(P[0])
        if mode == 'outside':
            pts = sorted([rng.uniform(lo_p - 2, hi_p + 2) for _ in range(k)], reverse=True)
        else:
            pts = sorted([rng.uniform(lo_p, hi_p) for _ in range(k)], reverse=True)
        if mode == 'inverted' and k >= 2:
            pts[0], pts[1] = pts[1], pts[0]
        if mode == 'steep' and k >= 1:
            pts[0] = hi_p - 1e-7
        Pn = [10 ** x for x in pts]
        smooth = rng.choice([0, 1, 5, 10, 10, 20, 33, 50, 100])
        limit = 10000.0
        # the end nodes: the ends of the atmosphere (-1, the default) or pressures of their own
        # (any negative number, or None, stands for "the end of the atmosphere")
        Psurf, Ptop = rng.choice([-1, -1, -1.0, -2.0, -1e-3, None]), rng.choice([-1, -1, -1.0, -2.0, -1e-3, None])
        if rng.random() < 0.3:
            Psurf = float(P[0]) * 10 ** rng.uniform(-0.3, 0.5)
        if rng.random() < 0.3:
            Ptop = float(P[-1]) * 10 ** rng.uniform(-0.5, 0.3)
        prm = dict(kind='npoint', T=Ts, P_points=Pn, smooth=smooth, n=n, pressure=P, mode=mode, P_surface=Psurf, P_top=Ptop)
        if rng.random() < 0.4:
            # the nodes arrive through the fitting parameters (as in a retrieval), in a random order, on a profile
            # constructed with other values
            tp = NPoint(T_surface=rng.uniform(300, 2500), T_top=rng.uniform(300, 2500), P_surface=Psurf, P_top=Ptop,
                        temperature_points=[rng.uniform(300, 2500) for _ in Ts[1:-1]],
                        pressure_points=[10 ** rng.uniform(lo_p, hi_p) for _ in Pn], smoothing_window=smooth,
                        limit_slope=limit)
            fp = tp.fitting_parameters()
            writes = [('T_surface', Ts[0]), ('T_top', Ts[-1])] + \
                [('T_point%d' % (j + 1), v) for j, v in enumerate(Ts[1:-1])] + \
                [('P_point%d' % (j + 1), v) for j, v in enumerate(Pn)]
            rng.shuffle(writes)
            for nm_, v_ in writes:
                fp[nm_][3](v_)
            ctx.count('npoint:nodes-set-through-fitting-parameters')
            prm = dict(prm, nodes_set_in_order=[w_[0] for w_ in writes])
        else:
            tp = NPoint(T_surface=Ts[0], T_top=Ts[-1], P_surface=Psurf, P_top=Ptop, temperature_points=list(Ts[1:-1]),
                        pressure_points=list(Pn), smoothing_window=smooth, limit_slope=limit)
        tp.initialize_profile(planet, n, P)
        try:
            with np.errstate(all='ignore'):
                prof = np.array(tp.profile, float)
            res = 'ok'
        except InvalidModelException:
            res = 'invalid'
        except Exception as e:
            ctx.violation('npoint-raises', 'NPoint.profile raised %r (%d layers, window %r)' % (e, n, smooth), replay=prm)
            continue
        nodesP = [P[0] if (Psurf is None or Psurf < 0) else Psurf] + Pn + [P[-1] if (Ptop is None or Ptop < 0) else Ptop]
        inverted = any(nodesP[j] <= nodesP[j + 1] for j in range(len(nodesP) - 1))
        if res == 'ok':
            if inverted:
                ctx.violation('npoint-inverted-accepted', 'inverted pressure nodes were not rejected', replay=prm)
            oracle_range(ctx, 'npoint', prof, n, Ts, prm)
        lpn = [float(np.log10(x)) for x in nodesP]
        e_np.append('run_npoint %s %s %s %s %s %s' % (C.natlit(n), C.qlist(np.log10(P)), C.qlist(lpn), C.qlist(Ts),
                                                     C.natlit(int(n * (smooth / 100.0))), C.q(limit)))
        m_np.append(dict(res=res, prof=prof if res == 'ok' else None, rp=prm,
                         key=('npoint', n, k, smooth, mode, Ts[0]), nontriv=(res == 'ok' and n >= 3 and mode != 'equal')))
        ctx.count('npoint:' + mode)
        ctx.count('npoint_result:' + res)
        # ---- Rodgers
        if i % 2 == 0:
            Tl = np.array([rng.uniform(300, 2500) for _ in range(n)])
            if rng.random() < 0.15:
                Tl[:] = Tl[0]
            h = rng.uniform(0.5, 10)
            prm = dict(kind='rodgers', T=Tl, h=h, pressure=P)
            if i % 4 == 0:
                # a retrieval: the profile is built with other layer temperatures, read once, then every layer
                # temperature (and the correlation length) is written through the fitting parameters and it is read again
                ro = Rodgers2000(temperature_layers=[rng.uniform(300, 2500) for _ in range(n)],
                                 correlation_length=rng.uniform(0.5, 10))
                ro.initialize_profile(planet, n, P)
                np.array(ro.profile, float)
                fp = ro.fitting_parameters()
                writes = [('T_%d' % (j + 1), float(v)) for j, v in enumerate(Tl)]
                rng.shuffle(writes)
                if rng.random() < 0.5:
                    writes.insert(rng.randrange(len(writes) + 1), ('correlation_length', h))
                else:
                    fp['correlation_length'][3](h)
                    np.array(ro.profile, float)
                for nm_, v_ in writes:
                    fp[nm_][3](v_)
                ctx.count('rodgers:layers-set-through-fitting-parameters')
                prm = dict(prm, set_in_order=[w_[0] for w_ in writes])
            else:
                ro = Rodgers2000(temperature_layers=list(Tl), correlation_length=h)
                ro.initialize_profile(planet, n, P)
            prof = np.array(ro.profile, float)
            oracle_range(ctx, 'rodgers', prof, n, list(Tl), prm)
            cov = np.exp(-1.0 * np.abs(np.log(P[:, None] / P[None, :])) / h)
            if n <= ctx.n(13, 33):     # exact rational evaluation of an n x n covariance is costly
                e_ro.append('run_rodgers %s %s' % (C.clist([C.qlist(r) for r in cov]), C.qlist(Tl)))
                m_ro.append(dict(prof=prof, rp=prm, key=('rodgers', n, h), nontriv=n >= 3))
            ctx.count('rodgers')
        # ---- arrays
        if i % 2 == 1:
            la = rng.choice([n, 2, 3, 5, 11])
            arr = [rng.uniform(300, 2500) for _ in range(la)]
            ta = TemperatureArray(tp_array=list(arr))
            ta.initialize_profile(planet, n, P)
            prof = np.array(ta.profile, float)
            prm = dict(kind='array', arr=arr, n=n)
            oracle_range(ctx, 'array', prof, n, arr, prm)
            e_ta.append('run_temp_array %s %s' % (C.natlit(n), C.qlist(arr)))
            m_ta.append(dict(prof=prof, rp=prm, key=('array', n, la, arr[0]), nontriv=la != n))
            # the same table given top-down with reverse=True is the same profile
            tr = TemperatureArray(tp_array=list(arr[::-1]), reverse=True)
            tr.initialize_profile(planet, n, P)
            ctx.case(('array_rev', n, la, arr[0]))
            if not np.array_equal(np.array(tr.profile, float), prof):
                ctx.violation('array-reverse', 'TemperatureArray(reversed table, reverse=True) differs from the table '
                              'given bottom-up', replay=dict(kind='array_rev', arr=arr, n=n))
            else:
                ctx.validated()
            # with pressure points and from a text file (oracle only)
            pp = np.sort(10 ** np.array([rng.uniform(lo_p - 1, hi_p + 1) for _ in range(la)]))[::-1]
            tb = TemperatureArray(tp_array=list(arr), p_points=list(pp))
            tb.initialize_profile(planet, n, P)
            ctx.case(('array_p', n, la, arr[0]))
            if oracle_range(ctx, 'array_p', tb.profile, n, arr, dict(kind='array_p', arr=arr, p=pp, pressure=P)):
                ctx.validated()
            os.makedirs(C.CACHE, exist_ok=True)
            fn = os.path.join(C.CACHE, 'tp_%d.txt' % os.getpid())
            np.savetxt(fn, np.column_stack([pp, arr]))
            tf = TemperatureFile(filename=fn, temp_col=1, press_col=0)
            tf.initialize_profile(planet, n, P)
            ctx.case(('file', n, la, arr[0]))
            if oracle_range(ctx, 'file', tf.profile, n, arr, dict(kind='file', arr=arr, p=pp, pressure=P)) and \
                    np.allclose(tf.profile, tb.profile, rtol=1e-12):
                ctx.validated()
            os.remove(fn)
            ctx.count('array')
        # ---- Guillot
        if i % 3 == 0:
            gm = rng.choice(['inside', 'inside', 'outside', 'zero_k', 'negT'])
            kir = 10 ** rng.uniform(-4, 0)
            kv1 = 10 ** rng.uniform(-4, 0)
            kv2 = 10 ** rng.uniform(-4, 0)
            alpha = rng.uniform(0, 1)
            Tirr = rng.uniform(500, 3000)
            Tint = rng.uniform(0, 500)
            if gm == 'outside':
                kir, kv1 = 10 ** rng.uniform(-8, 2), 10 ** rng.uniform(-8, 2)
                alpha = rng.uniform(-0.5, 1.5)
                Tirr, Tint = rng.uniform(0, 6000), rng.uniform(0, 3000)
            if gm == 'zero_k':
                which = rng.choice(['ir', 'v1', 'v2'])
                kir, kv1, kv2 = (0.0 if which == 'ir' else kir, 0.0 if which == 'v1' else kv1,
                                 0.0 if which == 'v2' else kv2)
            if gm == 'negT':
                if rng.random() < 0.5:
                    Tirr = -Tirr
                else:
                    Tint = -Tint - 1
            prm = dict(kind='guillot', kir=kir, kv1=kv1, kv2=kv2, alpha=alpha, Tirr=Tirr, Tint=Tint, pressure=P,
                       mode=gm)
            try:
                with np.errstate(all='ignore'):
                    if rng.random() < 0.5:
                        # the values arrive through the fitting parameters after a valid profile was built and evaluated
                        gu = Guillot2010()
                        gu.initialize_profile(planet, n, P)
                        _ = gu.profile
                        fp = gu.fitting_parameters()
                        for nm_, v_ in (('T_irr', Tirr), ('kappa_irr', kir), ('kappa_v1', kv1), ('kappa_v2', kv2),
                                        ('alpha', alpha), ('T_int_guillot', Tint)):
                            fp[nm_][3](v_)
                        prm = dict(prm, set_through_fitting_parameters=True)
                    else:
                        gu = Guillot2010(T_irr=Tirr, kappa_irr=kir, kappa_v1=kv1, kappa_v2=kv2, alpha=alpha, T_int=Tint)
                        gu.initialize_profile(planet, n, P)
                    prof = np.array(gu.profile, float)
                res = 'ok'
            except InvalidModelException:
                res = 'invalid'
            except ZeroDivisionError:
                res = 'zero_division'
            ctx.count('guillot:' + gm)
            ctx.count('guillot_result:' + res)
            ctx.case(('guillot', n, gm, kir, Tirr), nontrivial=(res == 'ok' and n >= 3))
            if gm in ('zero_k', 'negT'):
                if res != 'invalid':
                    ctx.violation('guillot-unphysical-accepted', 'Guillot parameters %r were not rejected as an '
                                  'invalid model (%s)' % (gm, res), replay=prm)
                else:
                    ctx.validated()
                continue
            if res != 'ok':
                ctx.violation('guillot-rejected', 'physical Guillot parameters rejected: %s' % res, replay=prm)
                continue
            if 0 <= alpha <= 1 and (np.any(~np.isfinite(prof)) or np.any(prof <= 0) or prof.shape != (n,)):
                ctx.violation('guillot-nonfinite', 'Guillot profile not finite/positive: %r' % prof[:4], replay=prm)
                continue
            if not (0 <= alpha <= 1) and np.any(~np.isfinite(prof)):
                ctx.notes.append('Guillot alpha=%r outside [0,1] gives a non-finite profile (not rejected; DESIGN note N3)' % alpha)
                continue
            grav = float(planet.gravity)
            tau = kir * P / grav
            x1, x2 = kv1 / kir * tau, kv2 / kir * tau
            E1, E2 = spe.expn(2, x1), spe.expn(2, x2)
            for x, e in zip(np.concatenate([x1, x2]), np.concatenate([E1, E2])):
                if not (0 <= e and e * (1 + x) <= math.exp(-x) * (1 + 1e-12)):
                    ctx.violation('oracle-E2', 'scipy expn(2,%r)=%r violates 0<=E2<=exp(-x)/(1+x) (the premise of '
                                  'C12_guillot_positive)' % (x, e), replay=prm)
            if np.all(np.isfinite(prof)):
                rows = C.clist(['(%s, %s, %s)' % (C.iv(P[j]), C.iv(E1[j]), C.iv(E2[j])) for j in range(n)])
                e_gu.append('run_guillot %s %s %s %s %s %s %s %s' % (C.iv(kir), C.iv(kv1), C.iv(kv2), C.iv(alpha),
                                                                    C.iv(Tirr), C.iv(Tint), C.iv(grav), rows))
                m_gu.append(dict(prof=prof, rp=prm))
            ctx.validated()
    # ---- correspondence
    for mt, r in zip(m_np, C.run_cases('C12_np', HEADER, e_np, shard=40)):
        bad = None
        if (len(r) == 0) != (mt['res'] == 'invalid'):
            bad = 'validity: impl %s model %s' % (mt['res'], 'invalid' if len(r) == 0 else 'ok')
        elif mt['res'] == 'ok':
            got = np.array([float(C.q_out(x)) for x in r])
            if got.shape != mt['prof'].shape or not np.allclose(got, mt['prof'], rtol=1e-9, atol=1e-9):
                bad = 'profile: impl %r model %r' % (mt['prof'][:4], got[:4])
        ctx.case(mt['key'], nontrivial=mt['nontriv'],
                 sample=dict(kind='npoint', n=mt['rp']['n'], T=mt['rp']['T'], smooth=mt['rp']['smooth'],
                             mode=mt['rp']['mode'], result=mt['res']))
        if bad:
            ctx.violation('correspondence:npoint', 'N-point: ' + bad, replay=mt['rp'], no_input=True)
        else:
            ctx.validated()
    for tag, ex, ms in (('ro', e_ro, m_ro), ('ta', e_ta, m_ta)):
        for mt, r in zip(ms, C.run_cases('C12_' + tag, HEADER, ex, shard=12 if tag == 'ro' else 60)):
            got = np.array([float(C.q_out(x)) for x in r])
            ctx.case(mt['key'], nontrivial=mt['nontriv'])
            if got.shape != mt['prof'].shape or not np.allclose(got, mt['prof'], rtol=1e-9):
                ctx.violation('correspondence:' + mt['rp']['kind'], '%s profile: impl %r model %r'
                              % (mt['rp']['kind'], mt['prof'][:4], got[:4]), replay=mt['rp'], no_input=True)
            else:
                ctx.validated()
    for mt, r in zip(m_gu, C.run_cases('C12_gu', HEADER, e_gu, shard=15)):
        bad = None
        for j, v in enumerate(r):
            if not C.in_enclosure(float(mt['prof'][j]), v, rel=1e-7):
                bad = 'layer %d: impl %r model %r' % (j, mt['prof'][j], C.iv_mid(v))
        ctx.case(('guillot_model', len(r), float(mt['prof'][0])))
        if bad:
            ctx.violation('correspondence:guillot', 'Guillot closed form: ' + bad, replay=mt['rp'], no_input=True)
        else:
            ctx.validated()


def replay(ctx, obj):
    ctx.notes.append('replay re-runs the whole deterministic check with the stored seed')
    run(ctx)
