"""C08 — prior transforms are monotone inverse-CDF maps in the declared space."""
import math
import statistics

import numpy as np

import common as C

META = dict(
    rule='all four prior classes with bounds in any order and magnitude (1e-12..1e12), means and widths, '
         'u in {0, 1, dyadic and random interior points}; log variants through bounds and lin_bounds / lin_mean; '
         'prior strings generated from the documented grammar and parsed; default priors of the optimizer from '
         '(mode, bounds); non-trivial = bounds differ and u strictly inside (0,1)',
    trusted=['the standard-normal quantile is an oracle: statistics.NormalDist().inv_cdf (independent of scipy) is '
             'handed to the model as the base quantile; math.erf closes the CDF loop; math.log10 of linear bounds '
             'is taken by the harness as the code takes it'],
    modelled=['Uniform, LogUniform, Gaussian, LogGaussian (sample, prior, boundaries, priorMode), '
              'compile_params default priors; parse_priors/create_prior are exercised differentially '
              '(text vs direct construction)'],
    assumptions=['distinct bounds (scipy returns NaN for a zero-width uniform distribution; a zero-width prior is '
                 'outside the property), Gaussian widths within 1e-6..1e3 of the mean',
                 'tolerance 1e-12 relative on uniform samples (exact rational model), 1e-9 on Gaussian samples '
                 '(different normal-quantile implementations)'],
)

HEADER = C.HEADER_IV + 'From TV Require Import Model_C08 Exec_C08.\n'


def us_for(rng):
    us = [0.0, 1.0, 0.5, 0.25, 0.75, 2.0 ** -20, 1 - 2.0 ** -20]
    us += [rng.random() for _ in range(4)]
    # the tails: a sampler may hand over any double in (0, 1); the map must be the inverse CDF there too
    us += rng.sample([1e-300, 1e-100, 1e-20, 1e-16, 5e-17, 3e-17, 1e-13, 1e-9, 1 - 2.0 ** -53, 1 - 1e-12, 1 - 1e-9], 4)
    return us


def run(ctx):
    from taurex.core.priors import Uniform, LogUniform, Gaussian, LogGaussian, PriorMode
    from taurex.parameter.factory import create_prior
    rng = ctx.rng
    nd = statistics.NormalDist()
    exprs, metas = [], []
    n_done = 0
    for i in range(ctx.n(200, 2000)):
        kind = rng.choice(['Uniform', 'LogUniform', 'LogUniform_lin', 'Gaussian', 'LogGaussian', 'LogGaussian_lin'])
        mag = rng.choice([1e-12, 1e-6, 1e-3, 1, 1e3, 1e12])
        if kind == 'LogUniform_lin' and rng.random() < 0.3:
            mag = rng.choice([1e-18, 1e-25, 1e-40])       # abundances far below machine epsilon are ordinary linear bounds
        a, b = mag * rng.uniform(0.01, 10), mag * rng.uniform(0.01, 10)
        if kind in ('Uniform', 'LogUniform') and rng.random() < 0.4:
            a, b = a * rng.choice([1, -1]), b * rng.choice([1, -1])
        if kind in ('LogUniform', 'LogGaussian'):      # these arguments are already log10 values
            a, b = rng.uniform(-12, 12), rng.uniform(-12, 12)
            if kind == 'LogGaussian':
                b = rng.uniform(0.01, 3)
        if kind == 'Gaussian':       # keep the width within 1e-6..1e3 of the mean: a wider ratio only tests rounding
            b = abs(a) * 10 ** rng.uniform(-6, 3)
        if kind in ('Gaussian', 'LogGaussian') and rng.random() < 0.15:
            a = rng.choice([0, 0.0])       # a centre of exactly zero (an int or a float in the text)
        if kind in ('Uniform', 'LogUniform') and rng.random() < 0.1:
            a = rng.choice([0, 0.0])
        us = us_for(rng)
        rp = dict(kind=kind, a=a, b=b)
        via_text = rng.random() < 0.4
        try:
            if kind == 'Uniform':
                p = create_prior('Uniform(bounds=[%r, %r])' % (a, b)) if via_text else Uniform(bounds=[a, b])
                mk, ma, mb, log = 0, a, b, False
            elif kind == 'LogUniform':
                p = create_prior('LogUniform(bounds=[%r, %r])' % (a, b)) if via_text else LogUniform(bounds=[a, b])
                mk, ma, mb, log = 1, a, b, True
            elif kind == 'LogUniform_lin':
                a, b = abs(a), abs(b)
                p = create_prior('LogUniform(lin_bounds=[%r, %r])' % (a, b)) if via_text else LogUniform(lin_bounds=[a, b])
                mk, ma, mb, log = 1, math.log10(a), math.log10(b), True
            elif kind == 'Gaussian':
                b = abs(b)
                p = create_prior('Gaussian(mean=%r, std=%r)' % (a, b)) if via_text else Gaussian(mean=a, std=b)
                mk, ma, mb, log = 2, a, b, False
            elif kind == 'LogGaussian':
                b = abs(b)
                p = create_prior('LogGaussian(mean=%r, std=%r)' % (a, b)) if via_text else LogGaussian(mean=a, std=b)
                mk, ma, mb, log = 3, a, b, True
            else:
                a, b = abs(a), 10 ** rng.uniform(0.01, 2)     # lin_std > 1: its log10 is the width
                p = create_prior('LogGaussian(lin_mean=%r, lin_std=%r)' % (a, b)) if via_text else \
                    LogGaussian(lin_mean=a, lin_std=b)
                mk, ma, mb, log = 3, math.log10(a), math.log10(b), True
        except Exception as e:
            ctx.violation('prior-raises:' + kind, 'constructing %s(%r, %r)%s raised %r' % (
                kind, a, b, ' from text' if via_text else '', e), replay=rp)
            continue
        samples = [float(p.sample(u)) for u in us]
        space_log = p.priorMode is PriorMode.LOG
        ctx.count('kind:' + kind)
        ctx.count('text' if via_text else 'direct')
        # ---- property oracle on the implementation
        gauss = mk >= 2
        if space_log != log:
            ctx.violation('space:' + kind, '%s has prior mode %r' % (kind, p.priorMode), replay=rp)
        srt = sorted(zip(us, samples))
        if any(s2 < s1 - 1e-12 * max(abs(s1), abs(s2)) for (_, s1), (_, s2) in zip(srt, srt[1:])):
            ctx.violation('monotone:' + kind, '%s.sample is not monotone: %r' % (kind, srt), replay=rp)
        if not gauss:
            lo, hi = min(ma, mb), max(ma, mb)
            if not (math.isclose(samples[0], lo, rel_tol=1e-12, abs_tol=1e-300) and
                    math.isclose(samples[1], hi, rel_tol=1e-12, abs_tol=1e-300)):
                ctx.violation('support:' + kind, '%s maps 0,1 to %r,%r instead of its bounds %r,%r'
                              % (kind, samples[0], samples[1], lo, hi), replay=rp)
            bl, bh = p.boundaries()
            if not (math.isclose(bl, lo, rel_tol=1e-12, abs_tol=1e-300) and math.isclose(bh, hi, rel_tol=1e-12, abs_tol=1e-300)):
                ctx.violation('boundaries:' + kind, 'boundaries() = %r, expected (%r, %r)' % ((bl, bh), lo, hi), replay=rp)
        else:
            for u, s in zip(us, samples):
                if 0 < u < 1 and mb > 0:
                    cdf = 0.5 * (1 + math.erf((s - ma) / (mb * math.sqrt(2))))
                    if not math.isclose(cdf, u, rel_tol=1e-9, abs_tol=1e-12):
                        ctx.violation('inverse-cdf:' + kind, 'normal CDF at sample(%r) is %r' % (u, cdf), replay=rp)
                        break
        for v in (samples[2], samples[3]):
            want = 10 ** v if log else v
            got = p.prior(v)
            if math.isfinite(want) and not math.isclose(got, want, rel_tol=1e-12):
                ctx.violation('to-model:' + kind, 'prior(%r) = %r, expected %r' % (v, got, want), replay=rp)
        # ---- the bounds of a uniform prior redefined on the live object (public set_bounds): it is then the prior of
        #      the NEW bounds -- support, boundaries() and every quantile
        if not gauss and (n_done < 6 or rng.random() < 0.4):
            a2 = rng.uniform(-5, 5) * 10 ** rng.uniform(-2, 2)
            b2 = a2 + rng.choice([-1, 1]) * 10 ** rng.uniform(-3, 2)
            try:
                import copy
                p2 = copy.deepcopy(p)          # (a copy: the model comparison below is about p as built)
                p2.set_bounds([a2, b2])
                lo2, hi2 = min(a2, b2), max(a2, b2)
                s2 = [float(p2.sample(u)) for u in us]
                bl2, bh2 = p2.boundaries()
                bad = None
                if not (math.isclose(bl2, lo2, rel_tol=1e-12, abs_tol=1e-300) and math.isclose(bh2, hi2, rel_tol=1e-12, abs_tol=1e-300)):
                    bad = 'boundaries() = %r' % ((bl2, bh2),)
                for u, x in zip(us, s2):
                    if 0 <= u <= 1 and not math.isclose(x, lo2 + u * (hi2 - lo2), rel_tol=1e-9, abs_tol=1e-12 * max(abs(lo2), abs(hi2))):
                        bad = 'sample(%r) = %r, the quantile of the new bounds is %r' % (u, x, lo2 + u * (hi2 - lo2))
                        break
                ctx.count('set_bounds on a live prior')
                if bad:
                    ctx.violation('set-bounds:' + kind, '%s after set_bounds([%r, %r]) (built with %r, %r): %s'
                                  % (kind, a2, b2, a, b, bad), replay=dict(rp, set_bounds=[a2, b2]))
            except Exception as e:
                ctx.violation('set-bounds-raises:' + kind, 'set_bounds([%r, %r]) raised %r' % (a2, b2, e), replay=rp)
        n_done += 1
        # ---- model
        if via_text:
            direct = {'Uniform': lambda: Uniform(bounds=[a, b]), 'LogUniform': lambda: LogUniform(bounds=[a, b]),
                      'LogUniform_lin': lambda: LogUniform(lin_bounds=[a, b]),
                      'Gaussian': lambda: Gaussian(mean=a, std=b), 'LogGaussian': lambda: LogGaussian(mean=a, std=b),
                      'LogGaussian_lin': lambda: LogGaussian(lin_mean=a, lin_std=b)}[kind]()
            if type(direct) is not type(p) or direct.params() != p.params() or \
                    [float(direct.sample(u)) for u in us] != samples:
                ctx.violation('text-vs-direct:' + kind, 'prior built from text differs from direct construction',
                              replay=rp)
        # monotone on the implementation itself: u < v  =>  sample(u) <= sample(v), strictly for the Gaussian family
        pairs = sorted((u, s_) for u, s_ in zip(us, samples) if (0 < u < 1) or not gauss)
        for (u1, s1), (u2, s2) in zip(pairs, pairs[1:]):
            if u1 < u2 and (s1 > s2 or (gauss and not s1 < s2) or not math.isfinite(s1) or not math.isfinite(s2)):
                ctx.violation('monotone:' + kind, 'prior %s: sample(%r) = %r, sample(%r) = %r' % (kind, u1, s1, u2, s2),
                              replay=rp)
                break
        uq = []
        keep = []
        for u, s in zip(us, samples):
            if gauss and not (0 < u < 1):
                continue
            qv = nd.inv_cdf(u) if gauss else 0.0
            uq.append('(%s, %s)' % (C.q(u), C.q(qv)))
            keep.append((u, s))
        exprs.append('run_prior %s %s %s %s' % (C.natlit(mk), C.q(ma), C.q(mb), C.clist(uq)))
        metas.append(dict(kind=kind, keep=keep, log=log, gauss=gauss, rp=rp, nontriv=(a != b),
                          bounds=None if gauss else p.boundaries()))
    for mt, r in zip(metas, C.run_cases('C08', HEADER, exprs, shard=100)):
        bad = None
        for (u, s), row in zip(mt['keep'], r):
            mv = float(C.q_out(row[0]))
            tol = 1e-9 if mt['gauss'] else 1e-12
            # low + u * width loses digits relative to the bounds, not to the (possibly near-zero) result
            span = 0.0 if mt['bounds'] is None else 1e-13 * max(abs(float(mt['bounds'][0])), abs(float(mt['bounds'][1])))
            if not math.isclose(s, mv, rel_tol=tol, abs_tol=(span + 1e-300) if not mt['gauss'] else 1e-9 * abs(mv) + 1e-300):
                bad = 'sample(%r): impl %r model %r' % (u, s, mv)
            if (row[1][0] == 1) != mt['log']:
                bad = 'space: model %r impl log=%r' % (row[1], mt['log'])
            if mt['bounds'] is not None:
                bl, bh = float(C.q_out(row[2])), float(C.q_out(row[3]))
                if not (math.isclose(bl, mt['bounds'][0], rel_tol=1e-12, abs_tol=1e-300) and
                        math.isclose(bh, mt['bounds'][1], rel_tol=1e-12, abs_tol=1e-300)):
                    bad = 'boundaries: impl %r model %r' % (mt['bounds'], (bl, bh))
        ctx.case((mt['kind'], mt['rp']['a'], mt['rp']['b']), nontrivial=mt['nontriv'],
                 sample=dict(kind=mt['kind'], a=mt['rp']['a'], b=mt['rp']['b'], samples=mt['keep'][:3]))
        if bad:
            ctx.violation('correspondence:' + mt['kind'], 'prior %s: %s' % (mt['kind'], bad), replay=mt['rp'],
                          no_input=True)
        else:
            ctx.validated()
    log_helpers(ctx, rng)
    default_priors(ctx, rng)


def log_helpers(ctx, rng):
    vs = [rng.uniform(-12, 12) for _ in range(40)]
    xs = [10 ** rng.uniform(-12, 12) for _ in range(40)]
    r1 = C.run_cases('C08_pow', HEADER, ['run_pow10 %s' % C.ivlist(vs)])[0]
    r2 = C.run_cases('C08_log', HEADER, ['run_log10 %s' % C.ivlist(xs)])[0]
    from taurex.core.priors import LogUniform
    p = LogUniform(bounds=[0, 1])
    for v, e in zip(vs, r1):
        ctx.case(('pow10', v))
        if C.in_enclosure(float(p.prior(v)), e, rel=1e-12):
            ctx.validated()
        else:
            ctx.violation('correspondence:pow10', 'prior(%r) = %r vs 10**x = %r' % (v, p.prior(v), C.iv_mid(e)),
                          replay=dict(v=v), no_input=True)
    for x, e in zip(xs, r2):
        q = LogUniform(lin_bounds=[x, x])
        ctx.case(('log10', x))
        if C.in_enclosure(float(q.boundaries()[0]), e, rel=1e-12, abs_=1e-15):
            ctx.validated()
        else:
            ctx.violation('correspondence:log10', 'lin_bounds %r -> %r vs log10 = %r' % (x, q.boundaries()[0], C.iv_mid(e)),
                          replay=dict(x=x), no_input=True)


def default_priors(ctx, rng):
    """default priors derive from a parameter's bounds and mode (optimizer.compile_params)"""
    from taurex.optimizer.optimizer import compile_params
    from taurex.core.priors import Uniform, LogUniform
    for i in range(ctx.n(40, 300)):
        mode = rng.choice(['linear', 'log'])
        a, b = 10 ** rng.uniform(-6, 6), 10 ** rng.uniform(-6, 6)
        fit = {'p': ('p', 'p', lambda: 1.0, lambda v: None, mode, True, [a, b])}
        params, priors, _, _ = compile_params(fit, {}, None)
        pr = priors[0]
        ctx.case(('default', mode, a, b))
        want = (math.log10(min(a, b)), math.log10(max(a, b))) if mode == 'log' else (min(a, b), max(a, b))
        okc = isinstance(pr, LogUniform) if mode == 'log' else (isinstance(pr, Uniform) and not isinstance(pr, LogUniform))
        if okc and np.allclose(pr.boundaries(), want, rtol=1e-12):
            ctx.validated()
        else:
            ctx.violation('default-prior', 'default prior for mode %s bounds %r is %s%r' % (
                mode, (a, b), type(pr).__name__, pr.boundaries()), replay=dict(mode=mode, a=a, b=b))


def replay(ctx, obj):
    ctx.notes.append('replay re-runs the whole deterministic check with the stored seed')
    run(ctx)
