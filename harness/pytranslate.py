"""A small fail-closed translator from the arithmetic kernels of /repo's Python source to Coq definitions over R.

Used as a SECOND tie for the pointwise kernels (C04 interpolation kernels, the width conversion of C16 / C17): the
definition is regenerated from the source text on every run and a fixed lemma file proves, for all real arguments,
that the regenerated definition equals the hand-written model kernel. A change of the formula in the source changes
the generated term and the lemma stops checking.

Supported: a function whose body is (docstring)?, scalar assignments `name = expr`, the numba idiom
`N = x.shape[0]; out = np.zeros_like(x); for n in range(N): out[n] = expr; return out`, and `return expr`.
Expressions: names, numeric constants, + - * /, unary minus, ** with a small non-negative integer constant, subscripts
`x[n]` (pointwise: the subscript is dropped), np/math `exp`, `log`, `sqrt`, `np.pi`. Module-level aliases
`a = b` are followed. Anything else raises TranslateError (the tie is then reported as broken)."""
import ast
from fractions import Fraction


class TranslateError(Exception):
    pass


RENAME = {'T': 'Tv', 'R': 'Rv', 'lt': 'lt_', 'PI': 'PIc'}
FUNCS = {'exp': 'exp', 'log': 'ln', 'sqrt': 'sqrt'}


def _name(n):
    return RENAME.get(n, n)


class Ctx:
    """per-module translation state: source text (decimal literals are read as written: 1e-6 means 1/1000000, the
    real-number reading of the code), module functions that may be called, definitions emitted so far"""
    def __init__(self, src, funcs, consts):
        self.src, self.funcs, self.consts = src, funcs, list(consts)
        self.defs, self.done = [], {}


def _expr(e, loopvar=None, cx=None):
    if isinstance(e, ast.Name):
        return _name(e.id)
    if isinstance(e, ast.Constant) and isinstance(e.value, (int, float)) and not isinstance(e.value, bool):
        text = ast.get_source_segment(cx.src, e) if cx is not None else None
        try:
            f = Fraction(text) if text else Fraction(e.value)
        except (ValueError, ZeroDivisionError):
            f = Fraction(e.value)
        if f.denominator == 1:
            return '%d' % f.numerator if f.numerator >= 0 else '(- %d)' % -f.numerator
        return '(%d / %d)' % (f.numerator, f.denominator)
    if isinstance(e, ast.UnaryOp) and isinstance(e.op, ast.USub):
        return '(- %s)' % _expr(e.operand, loopvar, cx)
    if isinstance(e, ast.BinOp):
        if isinstance(e.op, ast.Pow):
            if isinstance(e.right, ast.Constant) and isinstance(e.right.value, int) and 0 < e.right.value <= 8:
                b = _expr(e.left, loopvar, cx)
                return '(' + ' * '.join([b] * e.right.value) + ')'
            raise TranslateError('unsupported power %s' % ast.dump(e.right))
        op = {ast.Add: '+', ast.Sub: '-', ast.Mult: '*', ast.Div: '/'}.get(type(e.op))
        if op is None:
            raise TranslateError('unsupported operator %s' % type(e.op).__name__)
        return '(%s %s %s)' % (_expr(e.left, loopvar, cx), op, _expr(e.right, loopvar, cx))
    if isinstance(e, ast.Subscript):
        idx = e.slice
        if isinstance(idx, ast.Name) and idx.id == loopvar and isinstance(e.value, ast.Name):
            return _name(e.value.id)
        raise TranslateError('unsupported subscript %s' % ast.dump(e))
    if isinstance(e, ast.Attribute) and isinstance(e.value, ast.Name) and e.value.id in ('np', 'numpy', 'math') and e.attr == 'pi':
        return 'PI'
    if isinstance(e, ast.Call) and isinstance(e.func, ast.Attribute) and isinstance(e.func.value, ast.Name) \
            and e.func.value.id in ('np', 'numpy', 'math') and e.func.attr in FUNCS and len(e.args) == 1 and not e.keywords:
        return '(%s %s)' % (FUNCS[e.func.attr], _expr(e.args[0], loopvar, cx))
    if isinstance(e, ast.Call) and isinstance(e.func, ast.Name) and cx is not None and e.func.id in cx.funcs and not e.keywords:
        # a call of another arithmetic function of the same module: translated too, applied to the constants and arguments
        name = _translate_fn(cx, e.func.id)
        return '(%s %s)' % (name, ' '.join([_name(c) for c in cx.consts] + [_expr(a, loopvar, cx) for a in e.args]))
    raise TranslateError('unsupported expression %s' % ast.dump(e)[:200])


def resolve(tree, name):
    """follow module-level aliases `a = b` to the function definition"""
    funcs = {n.name: n for n in tree.body if isinstance(n, ast.FunctionDef)}
    alias = {}
    for n in tree.body:
        if isinstance(n, ast.Assign) and len(n.targets) == 1 and isinstance(n.targets[0], ast.Name) and isinstance(n.value, ast.Name):
            alias[n.targets[0].id] = n.value.id
    seen = set()
    while name in alias and name not in seen:
        seen.add(name)
        name = alias[name]
    if name not in funcs:
        raise TranslateError('function %s not found' % name)
    return name, funcs[name]


def _translate_fn(cx, pyname, coq_name=None):
    if pyname in cx.done:
        return cx.done[pyname]
    coq_name = coq_name or 'gen_' + pyname.lstrip('_')
    cx.done[pyname] = coq_name
    fn = cx.funcs[pyname]
    if fn.args.vararg or fn.args.kwarg or fn.args.kwonlyargs:
        raise TranslateError('unsupported signature')
    params = [_name(c) for c in cx.consts] + [_name(a.arg) for a in fn.args.args]
    lets, result = [], None
    skipped = set()
    for st in fn.body:
        if isinstance(st, ast.Expr) and isinstance(st.value, ast.Constant) and isinstance(st.value.value, str):
            continue
        if isinstance(st, ast.Assign) and len(st.targets) == 1 and isinstance(st.targets[0], ast.Name):
            v = st.value
            if isinstance(v, ast.Subscript) and isinstance(v.value, ast.Attribute) and v.value.attr == 'shape':
                skipped.add(st.targets[0].id)
                continue
            if isinstance(v, ast.Call) and isinstance(v.func, ast.Attribute) and v.func.attr in ('zeros_like', 'empty_like'):
                skipped.add(st.targets[0].id)
                continue
            lets.append((_name(st.targets[0].id), _expr(v, None, cx)))
            continue
        if isinstance(st, ast.For) and isinstance(st.target, ast.Name) and len(st.body) == 1 and not st.orelse:
            b = st.body[0]
            if isinstance(b, ast.Assign) and len(b.targets) == 1 and isinstance(b.targets[0], ast.Subscript) and \
                    isinstance(b.targets[0].value, ast.Name) and b.targets[0].value.id in skipped:
                result = _expr(b.value, st.target.id, cx)
                continue
            raise TranslateError('unsupported loop body')
        if isinstance(st, ast.Return):
            if isinstance(st.value, ast.Name) and st.value.id in skipped and result is not None:
                break
            result = _expr(st.value, None, cx)
            break
        raise TranslateError('unsupported statement %s' % type(st).__name__)
    if result is None:
        raise TranslateError('no result expression')
    body = ''.join('let %s := %s in\n    ' % l for l in lets) + result
    cx.defs.append('Definition %s (%s : R) : R :=\n    %s.\n' % (coq_name, ' '.join(params), body))
    return coq_name


def translate(path, func, coq_name, consts=()):
    """-> (resolved python name, Coq definitions text: the function and the module functions it calls).
    consts: module-level names used as constants; they become leading parameters of every generated definition"""
    src = open(path).read()
    tree = ast.parse(src)
    pyname, _ = resolve(tree, func)
    funcs = {n.name: n for n in tree.body if isinstance(n, ast.FunctionDef)}
    cx = Ctx(src, funcs, consts)
    _translate_fn(cx, pyname, coq_name)
    return pyname, ''.join(cx.defs)


if __name__ == '__main__':
    import sys
    print(translate(sys.argv[1], sys.argv[2], 'gen_' + sys.argv[2], consts=sys.argv[3:])[1])
