"""A small fail-closed translator from the arithmetic kernels of /repo's Python source to Coq definitions over R.

Used as a SECOND tie for the pointwise kernels (C04 interpolation kernels, the width conversion of C16 / C17): the
definition is regenerated from the source text on every run and a fixed lemma file proves, for all real arguments,
that the regenerated definition equals the hand-written model kernel. A change of the formula in the source changes
the generated term and the lemma stops checking.

Supported: a function whose body is (docstring)?, scalar assignments `name = expr`, the numba idiom
`N = x.shape[0]; out = np.zeros_like(x); for n in range(N): out[n] = expr; return out`, and `return expr`.
Expressions: names, numeric constants, + - * /, unary minus, ** with a small non-negative integer constant, subscripts
`x[n]` (pointwise: the subscript is dropped), np/math `exp`, `log`, `sqrt`, `np.pi`. Module-level aliases
`a = b` are followed. Anything else raises TranslateError (the tie is then reported as broken)."""
import ast
from fractions import Fraction


class TranslateError(Exception):
    pass


RENAME = {'T': 'Tv', 'R': 'Rv', 'lt': 'lt_', 'PI': 'PIc'}
FUNCS = {'exp': 'exp', 'log': 'ln', 'sqrt': 'sqrt'}


def _name(n):
    return RENAME.get(n, n)


class Ctx:
    """per-module translation state: source text (decimal literals are read as written: 1e-6 means 1/1000000, the
    real-number reading of the code), module functions that may be called, definitions emitted so far"""
    def __init__(self, src, funcs, consts):
        self.src, self.funcs, self.consts = src, funcs, list(consts)
        self.defs, self.done = [], {}


def _expr(e, loopvar=None, cx=None):
    if isinstance(e, ast.Name):
        return _name(e.id)
    if isinstance(e, ast.Constant) and isinstance(e.value, (int, float)) and not isinstance(e.value, bool):
        text = ast.get_source_segment(cx.src, e) if cx is not None else None
        try:
            f = Fraction(text) if text else Fraction(e.value)
        except (ValueError, ZeroDivisionError):
            f = Fraction(e.value)
        if f.denominator == 1:
            return '%d' % f.numerator if f.numerator >= 0 else '(- %d)' % -f.numerator
        return '(%d / %d)' % (f.numerator, f.denominator)
    if isinstance(e, ast.UnaryOp) and isinstance(e.op, ast.USub):
        return '(- %s)' % _expr(e.operand, loopvar, cx)
    if isinstance(e, ast.BinOp):
        if isinstance(e.op, ast.Pow):
            if isinstance(e.right, ast.Constant) and isinstance(e.right.value, int) and 0 < e.right.value <= 8:
                b = _expr(e.left, loopvar, cx)
                return '(' + ' * '.join([b] * e.right.value) + ')'
            raise TranslateError('unsupported power %s' % ast.dump(e.right))
        op = {ast.Add: '+', ast.Sub: '-', ast.Mult: '*', ast.Div: '/'}.get(type(e.op))
        if op is None:
            raise TranslateError('unsupported operator %s' % type(e.op).__name__)
        return '(%s %s %s)' % (_expr(e.left, loopvar, cx), op, _expr(e.right, loopvar, cx))
    if isinstance(e, ast.Subscript):
        idx = e.slice
        if isinstance(idx, ast.Name) and idx.id == loopvar and isinstance(e.value, ast.Name):
            return _name(e.value.id)
        raise TranslateError('unsupported subscript %s' % ast.dump(e))
    if isinstance(e, ast.Attribute) and isinstance(e.value, ast.Name) and e.value.id in ('np', 'numpy', 'math') and e.attr == 'pi':
        return 'PI'
    if isinstance(e, ast.Call) and isinstance(e.func, ast.Attribute) and isinstance(e.func.value, ast.Name) \
            and e.func.value.id in ('np', 'numpy', 'math') and e.func.attr in FUNCS and len(e.args) == 1 and not e.keywords:
        return '(%s %s)' % (FUNCS[e.func.attr], _expr(e.args[0], loopvar, cx))
    if isinstance(e, ast.Call) and isinstance(e.func, ast.Name) and cx is not None and e.func.id in cx.funcs and not e.keywords:
        # a call of another arithmetic function of the same module: translated too, applied to the constants and arguments
        name = _translate_fn(cx, e.func.id)
        return '(%s %s)' % (name, ' '.join([_name(c) for c in cx.consts] + [_expr(a, loopvar, cx) for a in e.args]))
    raise TranslateError('unsupported expression %s' % ast.dump(e)[:200])


def resolve(tree, name):
    """follow module-level aliases `a = b` to the function definition"""
    funcs = {n.name: n for n in tree.body if isinstance(n, ast.FunctionDef)}
    alias = {}
    for n in tree.body:
        if isinstance(n, ast.Assign) and len(n.targets) == 1 and isinstance(n.targets[0], ast.Name) and isinstance(n.value, ast.Name):
            alias[n.targets[0].id] = n.value.id
    seen = set()
    while name in alias and name not in seen:
        seen.add(name)
        name = alias[name]
    if name not in funcs:
        raise TranslateError('function %s not found' % name)
    return name, funcs[name]


def _translate_fn(cx, pyname, coq_name=None):
    if pyname in cx.done:
        return cx.done[pyname]
    coq_name = coq_name or 'gen_' + pyname.lstrip('_')
    cx.done[pyname] = coq_name
    fn = cx.funcs[pyname]
    if fn.args.vararg or fn.args.kwarg or fn.args.kwonlyargs:
        raise TranslateError('unsupported signature')
    params = [_name(c) for c in cx.consts] + [_name(a.arg) for a in fn.args.args]
    lets, result = [], None
    skipped = set()
    for st in fn.body:
        if isinstance(st, ast.Expr) and isinstance(st.value, ast.Constant) and isinstance(st.value.value, str):
            continue
        if isinstance(st, ast.Assign) and len(st.targets) == 1 and isinstance(st.targets[0], ast.Name):
            v = st.value
            if isinstance(v, ast.Subscript) and isinstance(v.value, ast.Attribute) and v.value.attr == 'shape':
                skipped.add(st.targets[0].id)
                continue
            if isinstance(v, ast.Call) and isinstance(v.func, ast.Attribute) and v.func.attr in ('zeros_like', 'empty_like'):
                skipped.add(st.targets[0].id)
                continue
            lets.append((_name(st.targets[0].id), _expr(v, None, cx)))
            continue
        if isinstance(st, ast.For) and isinstance(st.target, ast.Name) and len(st.body) == 1 and not st.orelse:
            b = st.body[0]
            if isinstance(b, ast.Assign) and len(b.targets) == 1 and isinstance(b.targets[0], ast.Subscript) and \
                    isinstance(b.targets[0].value, ast.Name) and b.targets[0].value.id in skipped:
                result = _expr(b.value, st.target.id, cx)
                continue
            raise TranslateError('unsupported loop body')
        if isinstance(st, ast.Return):
            if isinstance(st.value, ast.Name) and st.value.id in skipped and result is not None:
                break
            result = _expr(st.value, None, cx)
            break
        raise TranslateError('unsupported statement %s' % type(st).__name__)
    if result is None:
        raise TranslateError('no result expression')
    body = ''.join('let %s := %s in\n    ' % l for l in lets) + result
    cx.defs.append('Definition %s (%s : R) : R :=\n    %s.\n' % (coq_name, ' '.join(params), body))
    return coq_name


def translate(path, func, coq_name, consts=()):
    """-> (resolved python name, Coq definitions text: the function and the module functions it calls).
    consts: module-level names used as constants; they become leading parameters of every generated definition"""
    src = open(path).read()
    tree = ast.parse(src)
    pyname, _ = resolve(tree, func)
    funcs = {n.name: n for n in tree.body if isinstance(n, ast.FunctionDef)}
    cx = Ctx(src, funcs, consts)
    _translate_fn(cx, pyname, coq_name)
    return pyname, ''.join(cx.defs)



# ---------------------------------------------------------------------------------------------------------------------
# Block mode: a run of statements inside a METHOD (or the body of its single loop) becomes one Coq definition.
#
# Every value the block READS before writing it -- `self.attr` (attribute chains included), a local defined before the
# block, an array element `H[i-1]` addressed through the loop variable -- is a parameter; the caller declares the
# parameters in order and the translator fails unless the set it discovers is exactly the declared one. Every value the
# block WRITES (`x = e`, `x += e`, `self.a = e`, `z[i] = e`) is a let-binding; later reads see the binding. The result
# is the tuple of the current bindings of the declared result l-values. Calls: np/math exp, log, sqrt; a function
# nested in the method (translated as its own definition); calls declared opaque (`spe.expn`, `self.gravity_at_height`)
# become applications of a function parameter; calls declared as values (`self.chisq_trans(...)`) become a scalar
# parameter. The block may be the body of a closure defined in the method (`inner=`), preceded by the enclosing
# assignments it uses (`prelude=`). `x[:, None]` and `x.ravel()` are read pointwise; `x[0]` is one fixed element;
# `x**c` with a constant c that is not a small positive integer is exp(c ln x); `np.sum(E, axis=0)`, `np.sum(E)` and
# `np.nansum(E)` become a definition `<name>_summandK` of the summand (over the block's parameters) and a parameter
# `SUMK` of the main definition -- the lemma file puts the sum over the list back. Skipped, and only these: docstrings, imports, `self.debug/info/warning/
# error(...)` statements, `x = np.zeros(...)` allocations, `if <x> is None:` initialisation blocks (the model starts
# from the initialised state), declared no-op calls; `with ...:` and `try: ... except ZeroDivisionError` contribute their
# body (the lemma carries the non-zero hypothesis); `if <loopvar> < <n>:` inside a loop body contributes its body (the
# model's step is the interior step); assignments and `if` tests the driver names explicitly (`skip_assign=`, `skip_if=`:
# a name that stays a parameter, a branch the model treats separately). Statements before `start=` and after the last
# result is assigned are outside the block. Anything else raises TranslateError.

LOGCALLS = ('debug', 'info', 'warning', 'error', 'critical')


def _key(e):
    return ast.unparse(e).replace(' ', '')


def _coqname(key):
    out = key.replace('self.', 'self_').replace('.', '_').replace('[', '_').replace(']', '').replace('-', 'm').replace('+', 'p')
    out = ''.join(ch if (ch.isalnum() or ch == '_') else '_' for ch in out)
    return RENAME.get(out, out)


class Block:
    def __init__(self, src, params, opaque, nested, consts, loopvar=None, noop=(), value_calls=None, skip_assign=(), skip_if=()):
        self.src, self.params, self.opaque, self.nested = src, list(params), dict(opaque), dict(nested)
        self.consts, self.loopvar, self.noop = list(consts), loopvar, tuple(noop)
        self.env, self.ver, self.lets, self.read, self.defs, self.done = {}, {}, [], [], [], {}
        self.sums, self.nres = [], 1
        self.value_calls, self.skip_assign, self.skip_if = dict(value_calls or {}), tuple(skip_assign), tuple(skip_if)

    # ---- reads
    def lvalue(self, e):
        if isinstance(e, ast.Name):
            return True
        if isinstance(e, ast.Attribute):
            v = e
            while isinstance(v, ast.Attribute):
                v = v.value
            return isinstance(v, ast.Name) and v.id == 'self'
        if isinstance(e, ast.Subscript) and isinstance(e.value, ast.Name) and isinstance(e.slice, ast.Constant) \
                and isinstance(e.slice.value, int) and not isinstance(e.slice.value, bool):
            return True                     # x[0]: one fixed element
        if isinstance(e, ast.Subscript) and isinstance(e.value, ast.Name) and self.loopvar is not None:
            i = e.slice
            if isinstance(i, ast.Name) and i.id == self.loopvar:
                return True
            if isinstance(i, ast.BinOp) and isinstance(i.op, (ast.Add, ast.Sub)) and isinstance(i.left, ast.Name) \
                    and i.left.id == self.loopvar and isinstance(i.right, ast.Constant) and isinstance(i.right.value, int):
                return True
        return False

    def get(self, e):
        k = _key(e)
        if k in self.env:
            return self.env[k]
        if k in self.consts:
            return _name(k)
        if k not in self.params:
            raise TranslateError('the block reads %s, which is not a declared parameter' % k)
        if k not in self.read:
            self.read.append(k)
        return _coqname(k)

    def put(self, e, val):
        k = _key(e)
        self.ver[k] = self.ver.get(k, 0) + 1
        nm = '%s_v%d' % (_coqname(k), self.ver[k])
        self.lets.append((nm, val))
        self.env[k] = nm

    # ---- expressions
    def const(self, e):
        """Fraction of a (possibly negated, parenthesised) numeric literal, read as written; None otherwise"""
        if isinstance(e, ast.UnaryOp) and isinstance(e.op, ast.USub):
            c = self.const(e.operand)
            return None if c is None else -c
        if isinstance(e, ast.Constant) and isinstance(e.value, (int, float)) and not isinstance(e.value, bool):
            text = ast.get_source_segment(self.src, e)
            try:
                return Fraction(text)
            except (ValueError, ZeroDivisionError, TypeError):
                return Fraction(e.value)
        return None

    @staticmethod
    def lit(f):
        if f.denominator == 1:
            return '%d' % f.numerator if f.numerator >= 0 else '(- %d)' % -f.numerator
        return '(%d / %d)' % (f.numerator, f.denominator) if f > 0 else '(- (%d / %d))' % (-f.numerator, f.denominator)

    def expr(self, e):
        c = self.const(e)
        if c is not None:
            return self.lit(c)
        if self.lvalue(e):
            return self.get(e)
        if isinstance(e, ast.UnaryOp) and isinstance(e.op, ast.USub):
            return '(- %s)' % self.expr(e.operand)
        if isinstance(e, ast.BinOp):
            if isinstance(e.op, ast.Pow):
                c = self.const(e.right)
                if c is None:
                    raise TranslateError('power with a non-constant exponent')
                b = self.expr(e.left)
                if c.denominator == 1 and 0 < c.numerator <= 8:
                    return '(' + ' * '.join([b] * c.numerator) + ')'
                return '(exp (%s * ln %s))' % (self.lit(c), b)      # x**c for positive x, as numpy computes it up to rounding
            op = {ast.Add: '+', ast.Sub: '-', ast.Mult: '*', ast.Div: '/'}.get(type(e.op))
            if op is None:
                raise TranslateError('unsupported operator %s' % type(e.op).__name__)
            return '(%s %s %s)' % (self.expr(e.left), op, self.expr(e.right))
        if isinstance(e, ast.Attribute) and _key(e) in ('np.pi', 'numpy.pi', 'math.pi'):
            return 'PI'
        if isinstance(e, ast.Subscript) and _key(e.slice) in ('(slice(None,None,None),None)', ':,None', '(:,None)'):
            return self.expr(e.value)          # x[:, None]: broadcasting only, the pointwise value is x's
        if isinstance(e, ast.Call) and isinstance(e.func, ast.Attribute) and e.func.attr == 'ravel' and not e.args and not e.keywords:
            return self.expr(e.func.value)     # x.ravel(): a view of the same values
        if isinstance(e, ast.Call) and _key(e.func) in self.value_calls:
            k = self.value_calls[_key(e.func)]  # a call whose VALUE is a parameter of the block (tied separately)
            if k not in self.read:
                self.read.append(k)
            return _coqname(k)
        if isinstance(e, ast.Call) and _key(e.func) in ('np.sum', 'numpy.sum', 'np.nansum') and len(e.args) == 1 \
                and [(k.arg, _key(k.value)) for k in e.keywords] in ([('axis', '0')], []):
            # a sum over the layer axis: the summand becomes its own definition (over the block's parameters), the sum
            # itself a parameter of the main definition -- the lemma file instantiates it with the model's sum
            body = ''.join('let %s := %s in\n    ' % l for l in self.lets) + self.expr(e.args[0])
            self.sums.append(body)
            return 'SUM%d' % len(self.sums)
        if isinstance(e, ast.Call) and not e.keywords:
            f = _key(e.func)
            if f in self.opaque:
                return '(%s %s)' % (self.opaque[f], ' '.join(self.expr(a) for a in e.args))
            if f.split('.')[0] in ('np', 'numpy', 'math') and f.split('.')[-1] in FUNCS and len(e.args) == 1:
                return '(%s %s)' % (FUNCS[f.split('.')[-1]], self.expr(e.args[0]))
            if f in self.nested:
                return '(%s %s)' % (self.nested_fn(f), ' '.join(list(self.opaque.values()) + [self.expr(a) for a in e.args]))
        raise TranslateError('unsupported expression %s' % ast.unparse(e)[:120])

    def nested_fn(self, name):
        if name in self.done:
            return self.done[name]
        fn = self.nested[name]
        sub = Block(self.src, [a.arg for a in fn.args.args], self.opaque, {}, self.consts)
        sub.stmts(fn.body, results=None)
        if sub.result is None:
            raise TranslateError('nested function %s has no return' % name)
        coq = 'gen_' + name
        fparams = ''.join(' (%s : R -> R -> R)' % v if self.opaque_arity.get(v, 1) == 2 else ' (%s : R -> R)' % v
                          for v in self.opaque.values())
        body = ''.join('let %s := %s in\n    ' % l for l in sub.lets) + sub.result
        self.defs.append('Definition %s%s (%s : R) : R :=\n    %s.\n' % (coq, fparams, ' '.join(_coqname(a.arg) for a in fn.args.args), body))
        self.done[name] = coq
        return coq

    opaque_arity = {}
    result = None

    # ---- statements
    def stmts(self, body, results, stop=None):
        """returns True when the last result l-value has been assigned and translation should stop"""
        for st in body:
            if isinstance(st, ast.Expr) and isinstance(st.value, ast.Constant) and isinstance(st.value.value, str):
                continue
            if isinstance(st, (ast.Import, ast.ImportFrom, ast.Pass)):
                continue
            if isinstance(st, ast.FunctionDef):
                if st.name not in self.nested:
                    raise TranslateError('undeclared nested function %s' % st.name)
                continue
            if isinstance(st, ast.Expr) and isinstance(st.value, ast.Call):
                f = _key(st.value.func)
                if (f.startswith('self.') and f.split('.')[-1] in LOGCALLS) or f in self.noop:
                    continue
                raise TranslateError('call statement %s' % f)
            if isinstance(st, ast.Assign) and len(st.targets) == 1 and _key(st.targets[0]) in self.skip_assign:
                continue                     # declared: this name stays a parameter of the block
            if isinstance(st, ast.If) and _key(st.test) in self.skip_if:
                continue                     # declared: a branch the model treats separately
            if isinstance(st, ast.Assign) and len(st.targets) == 1 and self.lvalue(st.targets[0]):
                v = st.value
                if isinstance(v, ast.Call) and _key(v.func) in ('np.zeros', 'np.zeros_like', 'np.empty', 'np.empty_like'):
                    continue
                self.put(st.targets[0], self.expr(v))
            elif isinstance(st, ast.AugAssign) and self.lvalue(st.target) and isinstance(st.op, (ast.Add, ast.Sub, ast.Mult, ast.Div)):
                op = {ast.Add: '+', ast.Sub: '-', ast.Mult: '*', ast.Div: '/'}[type(st.op)]
                self.put(st.target, '(%s %s %s)' % (self.get(st.target), op, self.expr(st.value)))
            elif isinstance(st, ast.With):
                if self.stmts(st.body, results, stop):
                    return True
                continue
            elif isinstance(st, ast.Try) and len(st.handlers) == 1 and _key(st.handlers[0].type) == 'ZeroDivisionError' \
                    and not st.orelse and not st.finalbody:
                if self.stmts(st.body, results, stop):
                    return True
                continue
            elif isinstance(st, ast.If) and isinstance(st.test, ast.Compare) and len(st.test.ops) == 1 \
                    and isinstance(st.test.ops[0], ast.Is) and isinstance(st.test.comparators[0], ast.Constant) \
                    and st.test.comparators[0].value is None and not st.orelse:
                continue                     # `if x is None:` initialisation: the model starts from the initialised state
            elif isinstance(st, ast.If) and self.loopvar is not None and isinstance(st.test, ast.Compare) \
                    and len(st.test.ops) == 1 and isinstance(st.test.ops[0], ast.Lt) and isinstance(st.test.left, ast.Name) \
                    and st.test.left.id == self.loopvar and not st.orelse:
                if self.stmts(st.body, results, stop):
                    return True
                continue
            elif isinstance(st, ast.Return) and results is None:
                if isinstance(st.value, ast.Tuple):
                    self.result = '(' + ', '.join(self.expr(x) for x in st.value.elts) + ')'
                    self.nres = len(st.value.elts)
                else:
                    self.result = self.expr(st.value)
                return True
            else:
                raise TranslateError('unsupported statement: %s' % ast.unparse(st)[:100])
            if stop is not None and stop in self.env:
                return True
        return False


def _find_method(tree, cls, method):
    for n in tree.body:
        if isinstance(n, ast.ClassDef) and n.name == cls:
            for m in n.body:
                if isinstance(m, ast.FunctionDef) and m.name == method:
                    return m
    raise TranslateError('method %s.%s not found' % (cls, method))


def translate_block(path, cls, method, coq_name, params, results, start=None, loop=False, opaque=None, nested=(),
                    consts=(), noop=(), inner=None, prelude=(), value_calls=None, skip_assign=(), skip_if=()):
    """-> Coq text. params / results: python l-value texts (`self.mean`, `H[i-1]`, `tau`), in the order of the generated
    definition's arguments / result tuple. start: begin at the first assignment to this name (statements before it are
    outside the block). loop: the block is the body of the method's single `for` loop. opaque: {call text: (coq function
    parameter, arity)}. nested: names of functions defined inside the method that the block calls."""
    import warnings
    src = open(path).read()
    with warnings.catch_warnings():
        warnings.simplefilter('ignore')
        tree = ast.parse(src)
    fn = _find_method(tree, cls, method)
    body, loopvar = fn.body, None
    if loop:
        loops = [s for s in fn.body if isinstance(s, ast.For)]
        if len(loops) != 1 or not isinstance(loops[0].target, ast.Name) or loops[0].orelse:
            raise TranslateError('%s.%s: expected exactly one for loop' % (cls, method))
        body, loopvar = loops[0].body, loops[0].target.id
    pre = []
    if inner is not None:
        # the block is the body of a closure defined in the method; `prelude` names the enclosing assignments it uses
        inn = [s for s in fn.body if isinstance(s, ast.FunctionDef) and s.name == inner]
        if len(inn) != 1:
            raise TranslateError('closure %s not found in %s.%s' % (inner, cls, method))
        for st in fn.body:
            if st is inn[0]:
                break
            if isinstance(st, ast.Assign) and len(st.targets) == 1 and _key(st.targets[0]) in prelude:
                pre.append(st)
        if sorted(_key(st.targets[0]) for st in pre) != sorted(prelude):
            raise TranslateError('prelude assignments %s not found before %s' % (list(prelude), inner))
        body = pre + inn[0].body
    nest = {s.name: s for s in fn.body if isinstance(s, ast.FunctionDef) and s.name in nested}
    if set(nest) != set(nested):
        raise TranslateError('nested functions %s not found in %s.%s' % (sorted(set(nested) - set(nest)), cls, method))
    if start is not None:
        idx = [i for i, s in enumerate(body) if isinstance(s, ast.Assign) and len(s.targets) == 1 and _key(s.targets[0]) == start]
        if not idx:
            raise TranslateError('no assignment to %s in %s.%s' % (start, cls, method))
        body = body[idx[0]:]
    opaque = opaque or {}
    b = Block(src, params, {k: v[0] for k, v in opaque.items()}, nest, consts, loopvar, noop, value_calls, skip_assign, skip_if)
    b.opaque_arity = {v[0]: v[1] for v in opaque.values()}
    b.stmts(body, results, stop=results[-1] if (results and not loop) else None)
    if results is None:
        if b.result is None:
            raise TranslateError('%s.%s: no return value' % (cls, method))
        b.lets.append(('result_v', b.result))
        b.env['<return>'] = 'result_v'
        results = ['<return>']
    missing = [r for r in results if r not in b.env]
    if missing:
        raise TranslateError('%s.%s: the block never assigns %s' % (cls, method, missing))
    if sorted(b.read) != sorted(params):
        raise TranslateError('%s.%s: the block reads %s but the tie declares %s' % (cls, method, sorted(b.read), sorted(params)))
    fparams = ''.join(' (%s : R -> R -> R)' % v[0] if v[1] == 2 else ' (%s : R -> R)' % v[0] for v in opaque.values())
    cparams = ''.join(' (%s : R)' % _name(c) for c in consts)
    res = b.env[results[0]] if len(results) == 1 else '(' + ', '.join(b.env[r] for r in results) + ')'
    rty = ' * '.join(['R'] * (len(results) if results != ['<return>'] else b.nres))
    plist = ' '.join(_coqname(p) for p in params)
    text = ''.join(b.defs)
    for k, body in enumerate(b.sums):
        text += 'Definition %s_summand%d%s%s (%s : R) : R :=\n    %s.\n' % (coq_name, k + 1, fparams, cparams, plist, body)
    sparams = ''.join(' (SUM%d : R)' % (k + 1) for k in range(len(b.sums)))
    text += 'Definition %s%s%s%s (%s : R) : %s :=\n    %s%s.\n' % (
        coq_name, fparams, cparams, sparams, plist, rty, ''.join('let %s := %s in\n    ' % l for l in b.lets), res)
    return text


if __name__ == '__main__':
    import sys
    print(translate(sys.argv[1], sys.argv[2], 'gen_' + sys.argv[2], consts=sys.argv[3:])[1])
