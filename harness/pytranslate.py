"""A small fail-closed translator from the arithmetic kernels of /repo's Python source to Coq definitions over R.

Used as a SECOND tie for the pointwise kernels (C04 interpolation kernels, the width conversion of C16 / C17): the
definition is regenerated from the source text on every run and a fixed lemma file proves, for all real arguments,
that the regenerated definition equals the hand-written model kernel. A change of the formula in the source changes
the generated term and the lemma stops checking.

Supported: a function whose body is (docstring)?, scalar assignments `name = expr`, the numba idiom
`N = x.shape[0]; out = np.zeros_like(x); for n in range(N): out[n] = expr; return out`, and `return expr`.
Expressions: names, numeric constants, + - * /, unary minus, ** with a small non-negative integer constant, subscripts
`x[n]` (pointwise: the subscript is dropped), np/math `exp`, `log`, `sqrt`, `np.pi`. Module-level aliases
`a = b` are followed. Anything else raises TranslateError (the tie is then reported as broken)."""
import ast
from fractions import Fraction


class TranslateError(Exception):
    pass


RENAME = {'T': 'Tv', 'R': 'Rv', 'lt': 'lt_'}
FUNCS = {'exp': 'exp', 'log': 'ln', 'sqrt': 'sqrt'}


def _name(n):
    return RENAME.get(n, n)


def _expr(e, loopvar=None):
    if isinstance(e, ast.Name):
        return _name(e.id)
    if isinstance(e, ast.Constant) and isinstance(e.value, (int, float)) and not isinstance(e.value, bool):
        f = Fraction(e.value)
        if f.denominator == 1:
            return '%d' % f.numerator if f.numerator >= 0 else '(- %d)' % -f.numerator
        return '(%d / %d)' % (f.numerator, f.denominator)
    if isinstance(e, ast.UnaryOp) and isinstance(e.op, ast.USub):
        return '(- %s)' % _expr(e.operand, loopvar)
    if isinstance(e, ast.BinOp):
        if isinstance(e.op, ast.Pow):
            if isinstance(e.right, ast.Constant) and isinstance(e.right.value, int) and 0 < e.right.value <= 8:
                b = _expr(e.left, loopvar)
                return '(' + ' * '.join([b] * e.right.value) + ')'
            raise TranslateError('unsupported power %s' % ast.dump(e.right))
        op = {ast.Add: '+', ast.Sub: '-', ast.Mult: '*', ast.Div: '/'}.get(type(e.op))
        if op is None:
            raise TranslateError('unsupported operator %s' % type(e.op).__name__)
        return '(%s %s %s)' % (_expr(e.left, loopvar), op, _expr(e.right, loopvar))
    if isinstance(e, ast.Subscript):
        idx = e.slice
        if isinstance(idx, ast.Name) and idx.id == loopvar and isinstance(e.value, ast.Name):
            return _name(e.value.id)
        raise TranslateError('unsupported subscript %s' % ast.dump(e))
    if isinstance(e, ast.Attribute) and isinstance(e.value, ast.Name) and e.value.id in ('np', 'numpy', 'math') and e.attr == 'pi':
        return 'PI'
    if isinstance(e, ast.Call) and isinstance(e.func, ast.Attribute) and isinstance(e.func.value, ast.Name) \
            and e.func.value.id in ('np', 'numpy', 'math') and e.func.attr in FUNCS and len(e.args) == 1 and not e.keywords:
        return '(%s %s)' % (FUNCS[e.func.attr], _expr(e.args[0], loopvar))
    raise TranslateError('unsupported expression %s' % ast.dump(e)[:200])


def resolve(tree, name):
    """follow module-level aliases `a = b` to the function definition"""
    funcs = {n.name: n for n in tree.body if isinstance(n, ast.FunctionDef)}
    alias = {}
    for n in tree.body:
        if isinstance(n, ast.Assign) and len(n.targets) == 1 and isinstance(n.targets[0], ast.Name) and isinstance(n.value, ast.Name):
            alias[n.targets[0].id] = n.value.id
    seen = set()
    while name in alias and name not in seen:
        seen.add(name)
        name = alias[name]
    if name not in funcs:
        raise TranslateError('function %s not found' % name)
    return name, funcs[name]


def translate(path, func, coq_name):
    """-> (resolved python name, Coq definition text)"""
    tree = ast.parse(open(path).read())
    pyname, fn = resolve(tree, func)
    if fn.args.vararg or fn.args.kwarg or fn.args.kwonlyargs:
        raise TranslateError('unsupported signature')
    params = [_name(a.arg) for a in fn.args.args]
    lets, result = [], None
    skipped = set()
    for st in fn.body:
        if isinstance(st, ast.Expr) and isinstance(st.value, ast.Constant) and isinstance(st.value.value, str):
            continue
        if isinstance(st, ast.Assign) and len(st.targets) == 1 and isinstance(st.targets[0], ast.Name):
            v = st.value
            if isinstance(v, ast.Subscript) and isinstance(v.value, ast.Attribute) and v.value.attr == 'shape':
                skipped.add(st.targets[0].id)
                continue
            if isinstance(v, ast.Call) and isinstance(v.func, ast.Attribute) and v.func.attr == 'zeros_like':
                skipped.add(st.targets[0].id)
                continue
            lets.append((_name(st.targets[0].id), _expr(v)))
            continue
        if isinstance(st, ast.For) and isinstance(st.target, ast.Name) and len(st.body) == 1 and not st.orelse:
            b = st.body[0]
            if isinstance(b, ast.Assign) and len(b.targets) == 1 and isinstance(b.targets[0], ast.Subscript) and \
                    isinstance(b.targets[0].value, ast.Name) and b.targets[0].value.id in skipped:
                result = _expr(b.value, loopvar=st.target.id)
                continue
            raise TranslateError('unsupported loop body')
        if isinstance(st, ast.Return):
            if isinstance(st.value, ast.Name) and st.value.id in skipped and result is not None:
                break
            result = _expr(st.value)
            break
        raise TranslateError('unsupported statement %s' % type(st).__name__)
    if result is None:
        raise TranslateError('no result expression')
    body = ''.join('let %s := %s in\n    ' % l for l in lets) + result
    text = 'Definition %s (%s : R) : R :=\n    %s.\n' % (coq_name, ' '.join(params), body)
    return pyname, text


if __name__ == '__main__':
    import sys
    print(translate(sys.argv[1], sys.argv[2], 'gen_' + sys.argv[2])[1])
