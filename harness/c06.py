"""C06 — every sampler is handed the Gaussian log-likelihood of the binned model."""
import math

import numpy as np

import common as C
import tmodel

META = dict(
    rule='random observations (2..7 bins, any layout and error bars) of small transmission models, random fitted '
         'subsets of {planet_radius, T, one gas abundance (log prior), second gas (linear prior)} with '
         'linear / log / Gaussian priors, random unit-cube points, sequences mixing valid and invalid vectors '
         '(mixing ratio above one), for nestle, MultiNest and PolyChord; the callbacks are captured at the sampler '
         'entry points (recording doubles); non-trivial = valid vector with >= 2 fitted parameters',
    trusted=['recording doubles for pymultinest / pypolychord (harness/stubs) and a patched nestle.sample capture '
             'the closures; the repository wrappers are untouched',
             'the expected binned model is produced by an independent model instance whose parameters are set '
             'directly to the prior-transformed values; the Gaussian formula is evaluated by the Gallina model in '
             'interval arithmetic'],
    modelled=['Optimizer.chisq_trans / update_model, the loglike and prior closures of NestleOptimizer, '
              'MultiNestOptimizer and PolyChordOptimizer.compute_fit; the samplers themselves are out of scope'],
    assumptions=['a binned model without a single finite entry counts as invalid (NaN likelihood), as the code treats it; '
                 'observations generated from the model itself (chi^2 = 0 at the generating values) are part of the run',
                 'tolerance 1e-9 relative on the log-likelihood'],
)

HEADER = C.HEADER_IV + 'From TV Require Import Model_C06 Exec_C06.\n'


_SCALED = []


def scaled_spectrum_class():
    """an observation that has a fitting parameter of its own (a calibration scale on the measured values)"""
    if _SCALED:
        return _SCALED[0]
    from taurex.data.spectrum.array import ArraySpectrum
    from taurex.data.fittable import fitparam

    class ScaledSpectrum(ArraySpectrum):
        def __init__(self, arr):
            self._scale = 1.0
            super().__init__(arr)

        @fitparam(param_name='obs_scale', param_latex='$s$', default_fit=False, default_bounds=[0.1, 10.0])
        def obsScale(self):
            return self._scale

        @obsScale.setter
        def obsScale(self, value):
            self._scale = value

        @property
        def spectrum(self):
            return self._obs_spectrum[:, 1] * self._scale
    _SCALED.append(ScaledSpectrum)
    return ScaledSpectrum


def make_obs(rng, model, many=False):
    from taurex.data.spectrum.array import ArraySpectrum
    with np.errstate(all='ignore'):
        wn, depth, _, _ = model.model()
    k = min(rng.choice([2, 3, 4, 7]), len(wn)) if not many else 150
    # bin centres near distinct native points, so that every observation overlaps the model's grid
    idx = sorted(rng.sample(range(len(wn)), k))
    gap = float(np.min(np.diff(wn)))
    cen = np.array([float(wn[j]) + rng.uniform(-0.1, 0.1) * gap for j in idx])
    wl = 10000 / cen
    base = float(np.mean(depth))
    spec = np.array([base * rng.uniform(0.5, 1.5) for _ in range(k)])
    err = np.array([base * 10 ** (rng.uniform(-5, -4) if many else rng.uniform(-3, 0)) for _ in range(k)])
    cols = [wl, spec, err]
    if rng.random() < 0.5:
        cols.append(np.array([rng.uniform(0.05, 0.5) for _ in range(k)]) * wl)
    arr = np.vstack(cols).T
    rng.shuffle(arr.tolist())
    if rng.random() < 0.5:
        return scaled_spectrum_class()(arr), arr
    return ArraySpectrum(arr), arr


def setup(rng):
    spec = tmodel.gen_spec(rng, ngas=2, contribs=['Absorption'], nlayers=rng.choice([3, 4, 5]), nwn=rng.choice([6, 9]))
    spec['T'] = [rng.uniform(500, 2000)]
    return spec


def choose_fit(rng, spec, obs=None):
    from taurex.core.priors import Uniform, LogUniform, Gaussian
    g1, g2 = spec['gases']
    cand = [('planet_radius', 'lin'), ('T', 'lin'), (g1, 'log'), (g2, 'linprior')]
    k = rng.randint(1, 4)
    chosen = rng.sample(cand, k)
    out = []
    for name, kind in chosen:
        if name == 'planet_radius':
            b = [spec['planet_radius'] * 0.5, spec['planet_radius'] * 1.5]
            pr = ('gauss', spec['planet_radius'], 0.1 * spec['planet_radius']) if rng.random() < 0.3 else ('uniform', b)
        elif name == 'T':
            pr = ('uniform', [300.0, 2500.0])
        elif kind == 'log':
            pr = ('loguniform', [-8.0, 0.7])          # reaches above one: invalid atmospheres
        else:
            pr = ('uniform', [1e-8, 2.0])
        out.append((name, pr))
    if obs is not None and 'obs_scale' in obs.fittingParameters and rng.random() < 0.8:
        # a parameter that lives on the observation, with a user prior that differs from the default of its mode
        out.append(('obs_scale', rng.choice([('loguniform', [-0.5, 0.5]), ('uniform', [0.5, 2.0]), ('gauss', 1.0, 0.1)])))
        rng.shuffle(out)
    return out


def configure(opt, fit):
    from taurex.core.priors import Uniform, LogUniform, Gaussian
    for name, pr in fit:
        opt.enable_fit(name)
        if pr[0] == 'uniform':
            opt.set_prior(name, Uniform(bounds=list(pr[1])))
        elif pr[0] == 'loguniform':
            opt.set_prior(name, LogUniform(bounds=list(pr[1])))
        else:
            opt.set_prior(name, Gaussian(mean=pr[1], std=pr[2]))
    for n in list(opt._model.fittingParameters) + list(opt._observed.fittingParameters):
        if n not in [f[0] for f in fit]:
            opt.disable_fit(n)
    opt.compile_params()


def capture(kind, obs, model):
    """returns (optimizer, loglike(vec) -> float, prior(u) -> list)"""
    import nestle
    import pymultinest
    import pypolychord
    from taurex.optimizer import NestleOptimizer, MultiNestOptimizer, PolyChordOptimizer
    box = {}
    if kind == 'nestle':
        opt = NestleOptimizer(observed=obs, model=model, num_live_points=5)

        def fake(loglike, prior, ndim, **kw):
            box['ll'], box['pr'], box['ndim'] = loglike, prior, ndim
            raise pymultinest.Captured()
        orig, nestle.sample = nestle.sample, fake
        return opt, box, lambda: setattr(nestle, 'sample', orig)
    if kind == 'multinest':
        opt = MultiNestOptimizer(multi_nest_path=C.CACHE, observed=obs, model=model)
        return opt, box, lambda: None
    opt = PolyChordOptimizer(polychord_path=C.CACHE, observed=obs, model=model)
    return opt, box, lambda: None


def get_callbacks(kind, opt, box, restore):
    import pymultinest
    import pypolychord
    try:
        opt.compute_fit()
    except pymultinest.Captured as e:
        if kind == 'multinest':
            kw = e.args[0]
            box['ll'], box['pr'], box['ndim'] = kw['LogLikelihood'], kw['Prior'], kw['n_dims']
    except pypolychord.Captured as e:
        kw = e.args[0]
        box['ll'], box['pr'], box['ndim'] = kw['loglike'], kw['prior'], kw['ndims']
    finally:
        restore()
    ndim = box['ndim']
    if kind == 'nestle':
        return ndim, (lambda v: float(box['ll'](tuple(v)))), (lambda u: list(box['pr'](list(u))))
    if kind == 'multinest':
        def ll(v):
            cube = list(v) + [123.0, 456.0]        # MultiNest hands over a longer cube
            return float(box['ll'](cube, ndim, ndim + 2))

        def pr(u):
            cube = list(u) + [0.25, 0.75]
            box['pr'](cube, ndim, ndim + 2)
            return cube
        return ndim, ll, pr
    def ll(v):
        r = box['ll'](list(v))
        if not (isinstance(r, tuple) and len(r) == 2 and list(r[1]) == [0.0]):
            raise AssertionError('PolyChord loglike must return (L, [0.0]); got %r' % (r,))
        return float(r[0])
    return ndim, ll, (lambda u: list(box['pr'](list(u))))


def expected_sample(pr, u):
    import statistics
    if pr[0] in ('uniform', 'loguniform'):
        lo, hi = min(pr[1]), max(pr[1])
        return lo + (hi - lo) * u
    return pr[1] + pr[2] * statistics.NormalDist().inv_cdf(u)


def run(ctx):
    ll = dict(params=['datastd', 'chi_t_value'], results=['loglike'], prelude=('sqrtpi',),
              value_calls={'self.chisq_trans': 'chi_t_value'}, skip_assign=('fit_params_container', 'data', 'datastd'))
    C.source_tie(ctx, 'C06', [
        dict(file='taurex/optimizer/optimizer.py', cls='Optimizer', method='chisq_trans', coq='gen_chisq',
             params=['mydata', 'final_model', 'datastd'], results=None, start='res', skip_if=('np.all(np.isnan(res))',)),
        dict(file='taurex/optimizer/nestle.py', cls='NestleOptimizer', method='compute_fit', coq='gen_nestle_loglike',
             inner='nestle_loglike', **ll),
        dict(file='taurex/optimizer/multinest.py', cls='MultiNestOptimizer', method='compute_fit', coq='gen_multinest_loglike',
             inner='multinest_loglike', **ll),
        dict(file='taurex/optimizer/polychord.py', cls='PolyChordOptimizer', method='compute_fit', coq='gen_polychord_loglike',
             inner='polychord_loglike', **ll)])
    from taurex.exceptions import InvalidModelException
    rng = ctx.rng
    exprs, metas = [], []
    for i in range(ctx.n(45, 360)):
        kind = ['nestle', 'multinest', 'polychord'][i % 3]
        spec = setup(rng)
        many = i in (3, 4, 5)
        if many:
            # every run, once per sampler: an observation with many bins and small error bars (150 bins, error bars 1e-5..1e-4 of the depth): the
            # product of the error bars underflows a double, their summed logarithm does not
            spec = tmodel.gen_spec(rng, ngas=2, contribs=['Absorption'], nlayers=3, nwn=160)
            spec['T'] = [rng.uniform(500, 2000)]
            ctx.count('observation with 150 bins and small error bars')
        model = tmodel.build(spec)
        obs, arr = make_obs(rng, model, many)
        fit = choose_fit(rng, spec, obs)
        rp = dict(kind=kind, spec=spec, obs=arr, fit=fit)
        opt, box, restore = capture(kind, obs, model)
        try:
            configure(opt, fit)
            order = [n.replace('log_', '') for n in opt.fit_names]
            fitd = dict(fit)
            ndim, ll, pr = get_callbacks(kind, opt, box, restore)
        except Exception as e:
            import traceback
            ctx.violation('setup-raises:' + kind, '%s set-up raised %r %s' % (kind, e, traceback.format_exc()[-500:]), replay=rp)
            continue
        if ndim != len(order):
            ctx.violation('ndim:' + kind, 'sampler told %d dimensions for %d fitted parameters' % (ndim, len(order)), replay=rp)
            continue
        # an independent model + binner for the expected values
        model2 = tmodel.build(spec)
        binner2 = obs.create_binner()
        raw, sig = np.array(obs.rawData[:, 1], float), np.array(obs.errorBar, float)
        seq = []
        for j in range(rng.choice([2, 3, 5])):
            u = [rng.random() for _ in range(ndim)]
            if rng.random() < 0.25:
                for a, n_ in enumerate(order):
                    if fitd[n_][0] == 'loguniform':
                        u[a] = rng.uniform(0.95, 1.0)      # abundance above one: invalid atmosphere
            seq.append(u)
        last = None
        for u in seq:
            try:
                x = pr(u)
            except Exception as e:
                ctx.violation('prior-raises:' + kind, 'prior callback raised %r' % (e,), replay=rp)
                break
            want = [expected_sample(fitd[n_], uu) for n_, uu in zip(order, u)]
            tail_ok = (kind != 'multinest') or x[ndim:] == [0.25, 0.75]
            if not np.allclose(x[:ndim], want, rtol=1e-9, atol=0) or not tail_ok:
                ctx.violation('prior-order:' + kind, 'prior callback maps %r to %r, expected %r (parameter order %r)'
                              % (u, x, want, order), replay=rp)
                break
            x = x[:ndim]
            try:
                with np.errstate(all='ignore'):
                    L = ll(x)
            except Exception as e:
                ctx.violation('loglike-raises:' + kind, 'likelihood callback raised %r for %r' % (e, x), replay=rp)
                break
            # expected: independent model at the transformed values
            vals = {n_: (10 ** xx if fitd[n_][0] == 'loguniform' else xx) for n_, xx in zip(order, x)}
            try:
                for n_, v in vals.items():
                    if n_ != 'obs_scale':
                        model2[n_] = v
                data = raw * vals.get('obs_scale', 1.0)
                with np.errstate(all='ignore'):
                    binned = binner2.bin_model(model2.model(obs.wavenumberGrid))[1]
                valid = True
            except InvalidModelException:
                valid = False
            ctx.count('sampler:' + kind)
            ctx.count('vector:' + ('valid' if valid else 'invalid'))
            if not valid:
                ctx.case((kind, i, tuple(u)), nontrivial=False)
                if math.isfinite(L):
                    ctx.violation('invalid-finite:' + kind, 'invalid atmosphere %r gives finite log-likelihood %r'
                                  % (vals, L), replay=rp)
                else:
                    ctx.validated()
            else:
                exprs.append('run_loglike %s %s %s' % (C.ivlist(data), C.ivlist(sig), C.ivlist(np.array(binned, float))))
                metas.append(dict(L=L, rp=rp, kind=kind, key=(kind, i, tuple(u)), ndim=ndim, vals=vals))
            last = (x, L, valid)
        # history independence: the last vector alone on a fresh optimizer gives the same value
        if last is not None:
            model3 = tmodel.build(spec)
            opt3, box3, restore3 = capture(kind, obs, model3)
            try:
                configure(opt3, fit)
                _, ll3, _ = get_callbacks(kind, opt3, box3, restore3)
                with np.errstate(all='ignore'):
                    L3 = ll3(last[0])
                same = (math.isnan(L3) and math.isnan(last[1])) or math.isclose(L3, last[1], rel_tol=1e-12)
                ctx.case((kind, i, 'history'))
                if not same:
                    ctx.violation('history:' + kind, 'likelihood of %r is %r after a sequence but %r alone'
                                  % (last[0], last[1], L3), replay=rp)
                else:
                    ctx.validated()
            except Exception as e:
                ctx.violation('setup-raises:' + kind, 'fresh optimizer raised %r' % (e,), replay=rp)
    exact_fit(ctx, rng)
    for mt, r in zip(metas, C.run_cases('C06', HEADER, exprs, shard=60)):
        ctx.case(mt['key'], nontrivial=mt['ndim'] >= 2,
                 sample=dict(sampler=mt['kind'], parameters=mt['vals'], loglike=mt['L']))
        if C.in_enclosure(mt['L'], r[0], rel=1e-9, abs_=1e-9):
            ctx.validated()
        else:
            ctx.violation('correspondence:loglike:' + mt['kind'], 'log-likelihood at %r: callback %r, Gaussian formula '
                          'on the independently binned model %r' % (mt['vals'], mt['L'], C.iv_mid(r[0])),
                          replay=mt['rp'])


def exact_fit(ctx, rng):
    """an observation generated from the model itself (what `taurex_spectrum = self` with a noise-free instrument
    produces): at the generating parameter values chi^2 = 0 and the log-likelihood is its maximum
    -sum(log(sigma sqrt(2 pi))), a finite number"""
    from taurex.data.spectrum.array import ArraySpectrum
    for i in range(ctx.n(9, 60)):
        kind = ['nestle', 'multinest', 'polychord'][i % 3]
        spec = setup(rng)
        for g_ in spec['gases']:          # a log-space parameter needs a positive generating value
            if spec['mix'][g_] <= 0:
                spec['mix'][g_] = 10 ** rng.uniform(-8, -3)
        model = tmodel.build(spec)
        obs0, arr = make_obs(rng, model)
        obs0 = ArraySpectrum(arr)
        with np.errstate(all='ignore'):
            binned = np.array(obs0.create_binner().bin_model(model.model(obs0.wavenumberGrid))[1], float)
        arr2 = np.array(obs0.rawData, float)
        arr2[:, 1] = binned
        obs = ArraySpectrum(arr2)
        fit = [f for f in choose_fit(rng, spec, None) if i % 2 or f[1][0] != 'loguniform'] or \
            [('T', ('uniform', [300.0, 2500.0]))]
        rp = dict(kind=kind, spec=spec, obs=arr2, fit=fit, exact_fit=True)
        opt, box, restore = capture(kind, obs, model)
        try:
            configure(opt, fit)
            order = [n.replace('log_', '') for n in opt.fit_names]
            fitd = dict(fit)
            ndim, ll, pr = get_callbacks(kind, opt, box, restore)
            x = [math.log10(float(model[n_])) if fitd[n_][0] == 'loguniform' else float(model[n_]) for n_ in order]
            with np.errstate(all='ignore'):
                L = ll(x)
        except Exception as e:
            import traceback
            ctx.violation('exact-fit-raises:' + kind, '%s raised %r %s' % (kind, e, traceback.format_exc()[-500:]), replay=rp)
            continue
        want = -float(np.sum(np.log(np.array(obs.errorBar, float) * math.sqrt(2 * math.pi))))
        ctx.case(('exact-fit', kind, i, want), nontrivial=True,
                 sample=dict(sampler=kind, exact_fit=True, parameters=dict(zip(order, x)), loglike=L))
        ctx.count('exact-fit:' + kind)
        if not (math.isfinite(L) and math.isclose(L, want, rel_tol=1e-9, abs_tol=1e-9)):
            ctx.violation('exact-fit:' + kind, 'observation generated from the model itself: the log-likelihood at the '
                          'generating values %r is %r, the Gaussian formula gives %r (chi^2 = 0)'
                          % (dict(zip(order, x)), L, want), replay=rp)
        else:
            ctx.validated()


def replay(ctx, obj):
    ctx.notes.append('replay re-runs the whole deterministic check with the stored seed')
    run(ctx)
