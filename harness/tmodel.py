"""Small forward models built from in-memory opacity data, shared by the forward-model checks."""
import math

import numpy as np

MOLS = ['H2O', 'CH4', 'CO2', 'CO', 'NH3', 'HCN']        # HCN: no Rayleigh cross-section is tabulated for it


def mem_opacity_class():
    from taurex.opacity.interpolateopacity import InterpolatingOpacity

    class MemOpacity(InterpolatingOpacity):
        def __init__(self, name, Tg, Pg, tab, wn, mode='linear'):
            InterpolatingOpacity.__init__(self, 'mem:' + name, interpolation_mode=mode)
            self._n, self._T, self._P, self._x, self._wn = name, np.array(Tg, float), \
                np.array(Pg, float), np.array(tab, float), np.array(wn, float)
        moleculeName = property(lambda s: s._n)
        xsecGrid = property(lambda s: s._x)
        wavenumberGrid = property(lambda s: s._wn)
        temperatureGrid = property(lambda s: s._T)
        pressureGrid = property(lambda s: s._P)
        resolution = property(lambda s: 1.0)
    return MemOpacity


def mem_cia_class():
    from taurex.cia.cia import CIA

    class MemCIA(CIA):
        """temperature-independent in-memory collision-induced absorption"""
        def __init__(self, pair, wn, xsec, Tg=(50.0, 5000.0)):
            CIA.__init__(self, 'memcia', pair)
            self._wn, self._x, self._T = np.array(wn, float), np.array(xsec, float), np.array(Tg, float)
        wavenumberGrid = property(lambda s: s._wn)
        temperatureGrid = property(lambda s: s._T)

        def compute_cia(self, temperature):
            return self._x
    return MemCIA


def reset_caches():
    from taurex.cache import OpacityCache, CIACache, GlobalCache
    OpacityCache().clear_cache()
    CIACache().cia_dict = {}
    try:
        from taurex.cache.ktablecache import KTableCache
        KTableCache().clear_cache()
    except Exception:
        pass
    GlobalCache()['opacity_method'] = 'xsec'
    GlobalCache()['xsec_path'] = None
    GlobalCache()['ktable_path'] = None
    GlobalCache()['cia_path'] = None


def gen_spec(rng, nlayers=None, nwn=None, ngas=None, contribs=None, emission=False, extent=None):
    """a random but physically plausible small model"""
    n = nlayers or rng.choice([2, 3, 3, 4, 5, 7, 9, 12])
    m = nwn or rng.choice([1, 2, 3, 4])
    k = ngas or rng.choice([1, 1, 2, 3])
    gases = rng.sample(MOLS, k)
    wn = np.cumsum([rng.uniform(200, 3000) for _ in range(m)])
    level = rng.choice(['transparent', 'thin', 'thin', 'mid', 'mid', 'thick', 'saturated'])
    base = {'transparent': -60, 'thin': -29, 'mid': -25, 'thick': -22, 'saturated': -17}[level]
    opac = {}
    for g in gases:
        Tg = np.array([100.0, 1000.0, 4000.0])
        Pg = np.array([1e-3, 1e2, 1e8])
        tab = 10 ** (base + np.array([rng.uniform(-1.5, 1.5) for _ in range(3 * 3 * m)]).reshape(3, 3, m))
        if level == 'transparent':
            tab = tab * 0.0
        opac[g] = dict(Tg=Tg, Pg=Pg, tab=tab, wn=wn)
    mix = {g: 10 ** rng.uniform(-8, -2) for g in gases}
    if rng.random() < 0.15:
        mix[rng.choice(gases)] = 0.0
    all_c = ['Absorption', 'CIA', 'Rayleigh', 'SimpleClouds', 'FlatMie']
    if contribs is None:
        contribs = ['Absorption'] + [c for c in all_c[1:] if rng.random() < 0.4]
        if rng.random() < 0.1:
            contribs.remove('Absorption')
    pmax = 10 ** rng.uniform(4, 7)
    pmin = 10 ** rng.uniform(-4, 1)
    spec = dict(
        nlayers=n, wn=wn, gases=gases, mix=mix, opac=opac, level=level,
        planet_mass=10 ** rng.uniform(-1.5, 1.0), planet_radius=10 ** rng.uniform(-0.8, 0.3),
        star_T=rng.uniform(3000, 8000), star_radius=rng.uniform(0.3, 2.0),
        pmin=pmin, pmax=pmax,
        T=([rng.uniform(300, 2500)] if rng.random() < 0.4 else
           [rng.uniform(300, 2500) for _ in range(n)]),
        contribs=contribs,
        cia=dict(pair='H2-He', xsec=10 ** (rng.uniform(-55, -45) + np.array([rng.uniform(-1, 1) for _ in range(m)])),
                 # further pairs of the same contribution (the fill gases are H2 and He)
                 extra=[dict(pair=p_, xsec=10 ** (rng.uniform(-55, -45) + np.array([rng.uniform(-1, 1) for _ in range(m)])))
                        for p_ in (['H2-H2'] if rng.random() < 0.5 else [])]),
        cloud_P=10 ** rng.uniform(math.log10(pmin) - 1, math.log10(pmax) + 1),
        mie=dict(mix=10 ** rng.uniform(-30, -24), top=10 ** rng.uniform(math.log10(pmin), math.log10(pmax)),
                 bottom=10 ** rng.uniform(math.log10(pmin), math.log10(pmax))),
        he_h2=rng.uniform(0.05, 0.3),
        new_path=rng.random() < 0.5,
        ngauss=rng.choice([1, 2, 3, 4, 6]),
    )
    # keep the atmosphere bound: total extent (scale height x number of e-folds in pressure) well below the
    # radius, otherwise altitudes overflow binary64 and the model is outside anything physical
    RJ, MJ, G, kB, amu = 6.9911e7, 1.898e27, 6.674e-11, 1.380649e-23, 1.66054e-27
    R = spec['planet_radius'] * RJ
    efolds = math.log(pmax / pmin)
    while True:
        g = G * spec['planet_mass'] * MJ / R ** 2
        H = kB * max(spec['T']) / (2.0 * amu * g)
        if H * efolds < 0.25 * R:
            break
        spec['planet_mass'] *= 2.0
    if extent is not None:
        # a very extended atmosphere (light, hot planet over a wide pressure range): scale height x e-folds, at the
        # surface gravity, is the given fraction of the radius; with gravity falling outwards the top lies at
        # x/(1-x) radii, still finite for x < 1
        x = rng.uniform(*extent)
        g = kB * max(spec['T']) * efolds / (2.0 * amu * x * R)
        spec['planet_mass'] = g * R ** 2 / (G * MJ)
    return spec


def write_ktables(spec, kdir, weights, kcoeff=None):
    """write one pickle k-table per gas. kcoeff[g] has axes [P,T,wn,ng]; default = degenerate copy of the
    cross-section table of the spec"""
    import os
    import pickle
    import shutil
    shutil.rmtree(kdir, ignore_errors=True)
    os.makedirs(kdir)
    for g in spec['gases']:
        o = spec['opac'][g]
        kc = kcoeff[g] if kcoeff is not None else np.repeat(np.array(o['tab'])[..., None], len(weights), axis=-1)
        d = dict(bin_centers=np.array(o['wn'], float), ngauss=len(weights), t=np.array(o['Tg'], float),
                 p=np.array(o['Pg'], float) / 1e5, kcoeff=np.array(kc, float),
                 weights=np.array(weights, float), name=g)
        with open(os.path.join(kdir, '%s.pickle' % g), 'wb') as fh:
            pickle.dump(d, fh)


def build(spec, emission=False, direct=False, order=None, kdir=None):
    """returns a built forward model for the spec (caches are reset and filled).
    kdir: directory holding k-table pickle files -> correlated-k mode"""
    from taurex.cache import OpacityCache, CIACache
    from taurex.data.planet import Planet
    from taurex.data.stellar import BlackbodyStar
    from taurex.data.profiles.chemistry import TaurexChemistry, ConstantGas
    from taurex.data.profiles.temperature import Isothermal
    from taurex.data.profiles.temperature.temparray import TemperatureArray
    from taurex.model import TransmissionModel, EmissionModel, DirectImageModel
    from taurex import contributions as CT
    reset_caches()
    if kdir is not None:
        from taurex.cache import GlobalCache
        from taurex.cache.ktablecache import KTableCache
        GlobalCache()['opacity_method'] = 'ktables'
        GlobalCache()['ktable_path'] = kdir
        KTableCache().clear_cache()
    else:
        Mem = mem_opacity_class()
        for g in spec['gases']:
            o = spec['opac'][g]
            OpacityCache().add_opacity(Mem(g, o['Tg'], o['Pg'], o['tab'], o['wn'], o.get('mode', 'linear')))
    if 'CIA' in spec['contribs']:
        CIACache().add_cia(mem_cia_class()(spec['cia']['pair'], spec['wn'], spec['cia']['xsec']))
        for e_ in spec['cia'].get('extra', []):
            CIACache().add_cia(mem_cia_class()(e_['pair'], spec['wn'], e_['xsec']))
    chem = TaurexChemistry(fill_gases=['H2', 'He'], ratio=spec['he_h2'])
    for g in spec['gases']:
        if g in spec.get('mixarr', {}):      # a per-layer profile (exact zeros in some layers allowed)
            from taurex.data.profiles.chemistry.gas.arraygas import ArrayGas
            chem.addGas(ArrayGas(g, mix_ratio_array=np.array(spec['mixarr'][g], float)))
        else:
            chem.addGas(ConstantGas(g, mix_ratio=spec['mix'][g]))
    planet = Planet(planet_mass=spec['planet_mass'], planet_radius=spec['planet_radius'])
    star = BlackbodyStar(temperature=spec['star_T'], radius=spec['star_radius'])
    if len(spec['T']) == 1:
        temp = Isothermal(T=spec['T'][0])
    else:
        temp = TemperatureArray(tp_array=list(spec['T']))
    kw = dict(planet=planet, star=star, temperature_profile=temp, chemistry=chem, nlayers=spec['nlayers'],
              atm_min_pressure=spec['pmin'], atm_max_pressure=spec['pmax'])
    if emission or direct:
        kw['ngauss'] = spec['ngauss']
        model = (DirectImageModel if direct else EmissionModel)(**kw)
    else:
        model = TransmissionModel(new_path_method=spec['new_path'], **kw)
    names = order or spec['contribs']
    for c in names:
        model.add_contribution(make_contrib(c, spec, CT))
    model.build()
    return model


def make_contrib(c, spec, CT):
    if c == 'Absorption':
        return CT.AbsorptionContribution()
    if c == 'CIA':
        return CT.CIAContribution(cia_pairs=[spec['cia']['pair']] + [e_['pair'] for e_ in spec['cia'].get('extra', [])])
    if c == 'Rayleigh':
        return CT.RayleighContribution()
    if c == 'SimpleClouds':
        return CT.SimpleCloudsContribution(clouds_pressure=spec['cloud_P'])
    if c == 'FlatMie':
        return CT.FlatMieContribution(flat_mix_ratio=spec['mie']['mix'], flat_topP=spec['mie']['top'],
                                      flat_bottomP=spec['mie']['bottom'])
    raise ValueError(c)


def spec_json(spec):
    out = {}
    for k, v in spec.items():
        out[k] = v
    return out
