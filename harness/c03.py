"""C03 — optical depth composes additively over contributions and species."""
import itertools
import math

import numpy as np

import common as C
import tmodel
import c01

META = dict(
    rule='random small transmission models with 2..5 opacity sources (Absorption, CIA, Rayleigh, SimpleClouds, '
         'FlatMie) and 1..3 absorbing gases; every insertion order of the sources for <=4 sources (random orders '
         'otherwise); zero-abundance and doubled-abundance variants; model() / model_contrib() / '
         'model_full_contrib() interleaved; non-trivial = at least two sources each with a transmittance in '
         '(1e-6, 1-1e-6) somewhere; distinct by spec',
    trusted=['raw per-layer cross-sections are taken from the public opacity()/cia()/rayleigh functions and handed '
             'to the Gallina model, which re-does the weighting and summation exactly (rationals) and the optical '
             'depth / transmittance in interval arithmetic'],
    modelled=['Contribution.prepare, AbsorptionContribution.prepare_each, CIAContribution.prepare_each, '
              'RayleighContribution.prepare_each (weighting and summation), SimpleForwardModel.model_contrib / '
              'model_full_contrib wiring (one source / one component at a time)'],
    assumptions=['non-negative cross-sections, densities and chord lengths',
                 'tolerances: prepared sigma 1e-12 relative (exact rational model), transmittance 1e-9'],
)

HEADER = C.HEADER_IV + 'From TV Require Import Model_C01 Exec_C01 Model_C03 Exec_C03.\n'


def qrows(a):
    return C.clist([C.qlist(r) for r in a])


def components(model, contrib, wn):
    """(name, factor per layer, raw xsec rows per layer) for each component of a source, or None"""
    from taurex.cache import OpacityCache, CIACache
    from taurex import contributions as CT
    T = model.temperatureProfile
    P = model.pressureProfile
    chem = model.chemistry
    out = []
    if isinstance(contrib, CT.AbsorptionContribution):
        for g in chem.activeGases:
            x = np.array([OpacityCache()[g].opacity(t, p, wn) for t, p in zip(T, P)])
            out.append((g, np.array(chem.get_gas_mix_profile(g)), x))
    elif isinstance(contrib, CT.CIAContribution):
        for pair in contrib.ciaPairs:
            cia = CIACache()[pair]
            x = np.array([cia.cia(t, wn) for t in T])
            f = np.array(chem.get_gas_mix_profile(cia.pairOne)) * np.array(chem.get_gas_mix_profile(cia.pairTwo))
            out.append((pair, f, x))
    elif isinstance(contrib, CT.RayleighContribution):
        from taurex.util.scattering import rayleigh_sigma_from_name
        for g in list(chem.activeGases) + list(chem.inactiveGases):
            mixp = np.array(chem.get_gas_mix_profile(g))
            if np.max(mixp) == 0.0:
                continue
            s = rayleigh_sigma_from_name(g, wn)
            if s is not None:
                out.append((g, mixp, np.tile(np.array(s), (len(T), 1))))
    else:
        return None
    return out


def run(ctx):
    rng = ctx.rng
    N = ctx.n(40, 300)
    prep_exprs, prep_meta = [], []
    full_exprs, full_meta = [], []
    for i in range(N):
        pool = ['Absorption', 'CIA', 'Rayleigh', 'SimpleClouds', 'FlatMie']
        k = rng.choice([2, 2, 3, 3, 4, 5])
        contribs = rng.sample(pool, k)
        spec = tmodel.gen_spec(rng, contribs=contribs, nlayers=rng.choice([2, 3, 4, 5, 7]),
                               nwn=rng.choice([1, 2, 3]))
        if rng.random() < 0.35:
            # one species present in some layers only (exact zeros elsewhere): it still absorbs / scatters where it is
            ga = rng.choice(spec['gases'])
            nl_ = spec['nlayers']
            arr = [spec['mix'][ga] * 10 ** rng.uniform(-1, 1) if spec['mix'][ga] > 0 else 10 ** rng.uniform(-8, -3)
                   for _ in range(nl_)]
            for z_ in rng.sample(range(nl_), rng.randint(1, max(1, nl_ - 1))):
                arr[z_] = 0.0
            spec['mixarr'] = {ga: arr}
            ctx.count('species with zero abundance in some layers')
        try:
            one_case(ctx, rng, spec, prep_exprs, prep_meta, full_exprs, full_meta)
        except Exception as e:
            import traceback
            ctx.violation('impl-raises:' + C.err_kind(e), 'model raised %r\n%s' % (e, traceback.format_exc()[-800:]),
                          replay=dict(spec=spec))
    # ---- correspondence: prepared cross-sections (exact) -------------------
    res = C.run_cases('C03_prep', HEADER, prep_exprs, shard=20)
    for mt, r in zip(prep_meta, res):
        want = mt['sigma']
        got = np.array([[float(C.q_out(x)) for x in row] for row in r]) if r else np.zeros_like(want)
        ctx.case(('prep', mt['name'], mt['key']))
        if got.shape != want.shape or not np.allclose(got, want, rtol=1e-12, atol=0):
            ctx.violation('correspondence:prepare', 'weighted cross-section of %s differs from the sum of its '
                          'abundance-weighted components: impl %r model %r' % (mt['name'], want[:1], got[:1]),
                          replay=dict(spec=mt['spec']), no_input=True)
        else:
            ctx.validated()
    # ---- correspondence: un-cut transmittances of single sources and of the whole set ----
    res = C.run_cases('C03_full', HEADER, full_exprs, shard=8)
    for mt, r in zip(full_meta, res):
        bad = None
        for l in range(len(r)):
            for w in range(len(r[l])):
                x = float(mt['trans'][l, w])
                if not C.in_enclosure(x, r[l][w], rel=1e-9, abs_=mt['slack']):
                    bad = '%s layer %d wn %d: impl %r model %r' % (mt['name'], l, w, x, C.iv_mid(r[l][w]))
        ctx.case(('full', mt['name'], mt['key']))
        if bad:
            ctx.violation('correspondence:transmittance', 'model/implementation disagree: ' + bad,
                          replay=dict(spec=mt['spec']), no_input=True)
        else:
            ctx.validated()


def one_case(ctx, rng, spec, prep_exprs, prep_meta, full_exprs, full_meta):
    model = tmodel.build(spec)
    o = c01.observe(model)
    wn = o['wn']
    key = repr((spec['nlayers'], spec['contribs'], spec['level'], float(o['depth'][0])))
    rp = dict(spec=spec)
    with np.errstate(all='ignore'):
        _, cdict = model.model_contrib()
        _, fdict = model.model_full_contrib()
        again = model.model()[2]
    if not np.allclose(again, o['trans'], rtol=1e-12, atol=0):
        ctx.violation('stale-state', 'model() after model_contrib()/model_full_contrib() differs from before',
                      replay=rp)
    names = [c.name for c in model.contribution_list]
    if len(set(names)) != len(names) or set(cdict.keys()) != set(names):
        ctx.violation('name-collision', 'contribution names %r vs model_contrib keys %r' % (names, list(cdict)),
                      replay=rp)
        return
    cut_slack = math.exp(-10) + 1e-9
    # (a) product over sources
    prod = np.ones_like(o['trans'])
    busy = 0
    for c in model.contribution_list:
        tc = np.array(cdict[c.name][1])
        prod = prod * tc
        if np.any((tc > 1e-6) & (tc < 1 - 1e-6)):
            busy += 1
    if np.any(np.abs(prod - o['trans']) > cut_slack):
        l, w = np.unravel_index(np.argmax(np.abs(prod - o['trans'])), prod.shape)
        ctx.violation('product-sources', 'transmittance %r of the full model differs from the product %r of the '
                      'per-source transmittances (layer %d)' % (o['trans'][l, w], prod[l, w], l), replay=rp)
    # product over components of each source
    for c in model.contribution_list:
        comps = fdict[c.name]
        tc = np.array(cdict[c.name][1])
        pc = np.ones_like(tc)
        for (_, _, t, _) in comps:
            pc = pc * np.array(t)
        if comps and np.any(np.abs(pc - tc) > 1e-9):
            l, w = np.unravel_index(np.argmax(np.abs(pc - tc)), pc.shape)
            ctx.violation('product-components:' + type(c).__name__,
                          '%s: source transmittance %r differs from the product %r over its %d components'
                          % (c.name, tc[l, w], pc[l, w], len(comps)), replay=rp)
    # ---- model inputs ------------------------------------------------------
    m = len(wn)
    nl = spec['nlayers']
    for c, oc in zip(model.contribution_list, o['cs']):
        comps = components(model, c, wn)
        if comps is None or oc[0] == 'cloud':
            continue
        lit = C.clist(['(%s, %s)' % (C.qlist(f), qrows(x)) for (_, f, x) in comps])
        prep_exprs.append('run_prepare %s %s %s' % (C.natlit(nl), C.natlit(m), lit))
        prep_meta.append(dict(name=type(c).__name__, sigma=np.array(oc[1]), spec=spec, key=key))
    paths = C.clist([C.ivlist(p) for p in o['path']])
    rho = C.ivlist(o['rho'])
    for c, oc in zip(model.contribution_list, o['cs']):
        full_exprs.append('run_full %s %s %s %s' % (rho, paths, C.clist([c01.contrib_lit(oc)]), C.natlit(m)))
        full_meta.append(dict(name=type(c).__name__, trans=np.array(cdict[c.name][1]), spec=spec, key=key,
                              slack=1e-9))
    full_exprs.append('run_full %s %s %s %s' % (rho, paths, C.clist([c01.contrib_lit(x) for x in o['cs']]),
                                                C.natlit(m)))
    full_meta.append(dict(name='all', trans=o['trans'], spec=spec, key=key, slack=cut_slack))
    # (d) a source switched off and on again on the live model, the per-component breakdown asked for FIRST afterwards
    #     (model_full_contrib drives the components itself): same settings, so the same components as before
    if 'FlatMie' in spec['contribs']:
        try:
            with np.errstate(all='ignore'):
                keep = model['flat_mix_ratio']
                model['flat_mix_ratio'] = 0.0
                t_off = np.array(model.model()[2])
                model['flat_mix_ratio'] = keep
                _, fdict2 = model.model_full_contrib()
            ctx.count('source switched off and on, components first')
            for c in model.contribution_list:
                a, b = fdict[c.name], fdict2[c.name]
                if len(a) != len(b) or any(not np.allclose(np.array(x[2]), np.array(y[2]), rtol=1e-12, atol=1e-300)
                                           for x, y in zip(a, b)):
                    ctx.violation('history:components:' + type(c).__name__,
                                  '%s: components returned by model_full_contrib() after the haze was set to zero, '
                                  'evaluated, and set back differ from those returned before (same settings)' % c.name,
                                  replay=dict(rp, history=['model_full_contrib', 'flat_mix_ratio=0', 'model',
                                                           'flat_mix_ratio restored', 'model_full_contrib']))
            # zero strength: the source contributes nothing (product of the others)
            others = np.ones_like(o['trans'])
            for c in model.contribution_list:
                if type(c).__name__ != 'FlatMieContribution':
                    others = others * np.array(cdict[c.name][1])
            if np.any(np.abs(others - t_off) > cut_slack):
                ctx.violation('zero-strength', 'a haze of mixing ratio zero changes the transmittance', replay=rp)
        except Exception as e:
            ctx.violation('history-raises', 'switching the haze off and on raised %r' % (e,), replay=rp)
    # (b) insertion order
    orders = list(itertools.permutations(spec['contribs'])) if len(spec['contribs']) <= 3 else \
        [tuple(rng.sample(spec['contribs'], len(spec['contribs']))) for _ in range(3)]
    for od in orders[:6]:
        if list(od) == list(spec['contribs']):
            continue
        with np.errstate(all='ignore'):
            t2 = tmodel.build(spec, order=list(od)).model()[2]
        if np.any(np.abs(np.array(t2) - o['trans']) > cut_slack):
            ctx.violation('order', 'transmittance depends on the order sources were added: %r vs %r'
                          % (list(od), spec['contribs']), replay=rp)
    # (b') a source added AFTER build() is appended (build() sorts what it finds): every position in the list
    if len(spec['contribs']) >= 2:
        from taurex import contributions as CT
        late = rng.choice(spec['contribs'])
        rest = [c for c in spec['contribs'] if c != late]
        try:
            with np.errstate(all='ignore'):
                m3 = tmodel.build(spec, order=rest)
                m3.add_contribution(tmodel.make_contrib(late, spec, CT))
                t3 = m3.model()[2]
                pos = [type(c).__name__ for c in m3.contribution_list]
            if np.any(np.abs(np.array(t3) - o['trans']) > cut_slack):
                ctx.violation('order', 'transmittance depends on the position of a source in the list: %r (added after '
                              'build) gives %r, %r gives %r' % (pos, np.array(t3)[0][:3], spec['contribs'], o['trans'][0][:3]),
                              replay=dict(rp, added_after_build=late))
        except Exception as e:
            ctx.violation('order-raises', 'adding %s after build raised %r' % (late, e), replay=dict(rp, added_after_build=late))
    # (c) zero abundance / proportionality
    if 'Absorption' in spec['contribs'] and len(spec['gases']) >= 2:
        g0 = rng.choice(spec['gases'])
        noarr = {g_: a_ for g_, a_ in spec.get('mixarr', {}).items() if g_ != g0}
        s0 = dict(spec, mix=dict(spec['mix'], **{g0: 0.0}), mixarr=noarr)
        s1 = dict(spec, gases=[g for g in spec['gases'] if g != g0], mixarr=noarr)
        with np.errstate(all='ignore'):
            ta = np.array(tmodel.build(s0).model()[2])
            tb = np.array(tmodel.build(s1).model()[2])
        # removing the gas changes the fill-gas ratios by nothing (its abundance is zero)
        if np.any(np.abs(ta - tb) > 1e-9):
            ctx.violation('zero-abundance', 'a gas at zero abundance changes the transmittance', replay=rp)
    ctx.case(key, nontrivial=busy >= 2, sample=dict(nlayers=nl, contribs=spec['contribs'], level=spec['level'],
                                                    gases=spec['gases']))
    ctx.validated()
    for c in spec['contribs']:
        ctx.count('contrib:' + c)
    ctx.count('nsources:%d' % len(spec['contribs']))
    ctx.count('ngases:%d' % len(spec['gases']))


def replay(ctx, obj):
    spec = obj['replay']['spec']
    spec['wn'] = np.array(spec['wn'])
    for g in spec['opac']:
        for k in ('Tg', 'Pg', 'tab', 'wn'):
            spec['opac'][g][k] = np.array(spec['opac'][g][k])
    spec['cia']['xsec'] = np.array(spec['cia']['xsec'])
    import random
    pe, pm, fe, fm = [], [], [], []
    one_case(ctx, random.Random(0), spec, pe, pm, fe, fm)
