class UniformPrior:
    def __init__(self, a, b):
        self.a, self.b = a, b

    def __call__(self, x):
        return self.a + (self.b - self.a) * x
