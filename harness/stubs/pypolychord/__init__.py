"""Recording double for pypolychord (the real package is not installed in this sandbox)."""
HOOK = None


class Captured(Exception):
    pass


def run_polychord(loglike, ndims, nderived, settings, prior=None, dumper=None):
    kw = dict(loglike=loglike, ndims=ndims, nderived=nderived, settings=settings, prior=prior)
    if HOOK is None:
        raise Captured(kw)
    return HOOK(kw)
