class PolyChordSettings:
    def __init__(self, ndims, nderived, **kw):
        self.nDims = ndims
        self.nDerived = nderived
        self.__dict__.update(kw)
