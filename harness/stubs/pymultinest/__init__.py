"""Recording double for pymultinest (the real package is not installed in this sandbox).
run() hands its keyword arguments (the callbacks among them) to HOOK; Analyzer returns STATS."""
HOOK = None
STATS = None


class Captured(Exception):
    pass


def run(**kw):
    if HOOK is None:
        raise Captured(kw)
    return HOOK(kw)


class Analyzer:
    def __init__(self, n_params=None, outputfiles_basename=None):
        self.n_params = n_params
        self.outputfiles_basename = outputfiles_basename

    def get_stats(self):
        if callable(STATS):
            return STATS(self)
        return STATS
